// Engine T: Go -> Lean translator for the "Go-expr" subset (see DESIGN.md §2).
//
// usage: xlate -spec spec.json -out File.lean
//
// The spec names Go packages of /repo, the struct types and the functions /
// methods to translate.  Output: one Lean file with `structure`s polymorphic
// in the scalar `α` and `def`s over `[Scalar α]`.  Anything outside the subset
// aborts with the source position and the construct's name: a function that
// leaves the subset is a broken obligation, never silently skipped.
package main

import (
	"encoding/json"
	"flag"
	"fmt"
	"go/ast"
	"go/constant"
	"go/token"
	"go/types"
	"math/big"
	"os"
	"sort"
	"strings"

	"golang.org/x/tools/go/packages"
)

type Item struct {
	Pkg   string   `json:"pkg"`
	Types []string `json:"types"`
	Funcs []string `json:"funcs"` // "Name" or "Recv.Name"
	// Extern: the package is translated by another spec (imported via "imports");
	// references resolve to Gen.<pkg>.* but nothing is emitted here.
	Extern bool `json:"extern"`
}

type Spec struct {
	Module  string   `json:"module"`
	Imports []string `json:"imports"`
	Items   []Item   `json:"items"`
}

type xl struct {
	pkgs    map[string]*packages.Package // by path
	cur     *packages.Package
	fset    *token.FileSet
	transl  map[string]bool // package paths whose functions are translated (Gen.<name>.)
	out     strings.Builder
	recvPtr string // name of pointer receiver being threaded, or ""
	scope   map[string]bool // names declared so far in the function being translated (params, receiver, := / var)
	ptrParams []string      // names of the `*float64` PARAMETERS of the function being translated: `*p = e` rebinds p, every return yields (result, p…)
	allowAddr bool          // translating the argument list of a call whose callee has such parameters: `&local` passes the local's value
	outCalls  int           // counter for the result variables of such calls
	usesInf bool            // the function being translated mentions math.Inf: it takes a `[ScalarInf α]` instance argument
}

type bail struct{ msg string }

func (x *xl) fail(n ast.Node, f string, a ...any) {
	pos := ""
	if n != nil {
		pos = x.fset.Position(n.Pos()).String() + ": "
	}
	panic(bail{pos + fmt.Sprintf(f, a...)})
}

const vecRoot = "github.com/EliCDavis/vector/"

func leanPkgName(path string) string {
	i := strings.LastIndex(path, "/")
	return path[i+1:]
}

// ---- types ---------------------------------------------------------------

func (x *xl) typ(t types.Type, n ast.Node) string {
	switch t := t.(type) {
	case *types.Basic:
		switch {
		case t.Info()&types.IsFloat != 0:
			return "α"
		case t.Info()&types.IsBoolean != 0:
			return "Bool"
		case t.Info()&types.IsInteger != 0:
			return "Int"
		case t.Info()&types.IsString != 0:
			return "String"
		}
	case *types.Alias:
		return x.typ(types.Unalias(t), n)
	case *types.Named:
		obj := t.Obj()
		if obj.Pkg() != nil {
			p := obj.Pkg().Path()
			if strings.HasPrefix(p, vecRoot) && obj.Name() == "Vector" {
				ta := t.TypeArgs()
				if ta != nil && ta.Len() == 1 {
					if b, ok := ta.At(0).(*types.Basic); ok && b.Kind() == types.Float64 {
						switch leanPkgName(p) {
						case "vector2":
							return "(V2 α)"
						case "vector3":
							return "(V3 α)"
						case "vector4":
							return "(V4 α)"
						}
					}
				}
				x.fail(n, "unsupported vector instantiation %s", t)
			}
			if x.transl[p] {
				if _, ok := t.Underlying().(*types.Struct); ok {
					return "(Gen." + leanPkgName(p) + "." + obj.Name() + " α)"
				}
			}
			if _, ok := t.Underlying().(*types.Signature); ok {
				return x.typ(t.Underlying(), n)
			}
		}
	case *types.Pointer:
		return x.typ(t.Elem(), n)
	case *types.Slice:
		return "(List " + x.typ(t.Elem(), n) + ")"
	case *types.Signature:
		var parts []string
		for i := 0; i < t.Params().Len(); i++ {
			parts = append(parts, x.typ(t.Params().At(i).Type(), n))
		}
		if t.Results().Len() != 1 {
			x.fail(n, "function type with %d results", t.Results().Len())
		}
		parts = append(parts, x.typ(t.Results().At(0).Type(), n))
		return "(" + strings.Join(parts, " → ") + ")"
	case *types.Tuple:
		var parts []string
		for i := 0; i < t.Len(); i++ {
			parts = append(parts, x.typ(t.At(i).Type(), n))
		}
		return "(" + strings.Join(parts, " × ") + ")"
	}
	x.fail(n, "unsupported type %s", t)
	return ""
}

func (x *xl) zero(t types.Type, n ast.Node) string {
	switch u := t.(type) {
	case *types.Alias:
		return x.zero(types.Unalias(u), n)
	case *types.Basic:
		switch {
		case u.Info()&types.IsFloat != 0:
			return "((0 : Nat) : α)"
		case u.Info()&types.IsBoolean != 0:
			return "false"
		case u.Info()&types.IsInteger != 0:
			return "(0 : Int)"
		}
	case *types.Named:
		s := x.typ(t, n)
		switch s {
		case "(V2 α)":
			return "(V2.Zero : V2 α)"
		case "(V3 α)":
			return "(V3.Zero : V3 α)"
		case "(V4 α)":
			return "(⟨(0 : Nat), (0 : Nat), (0 : Nat), (0 : Nat)⟩ : V4 α)"
		}
		if st, ok := t.Underlying().(*types.Struct); ok {
			var fs []string
			for i := 0; i < st.NumFields(); i++ {
				fs = append(fs, st.Field(i).Name()+" := "+x.zero(st.Field(i).Type(), n))
			}
			return "({ " + strings.Join(fs, ", ") + " } : " + s + ")"
		}
	}
	x.fail(n, "no zero value for %s", t)
	return ""
}

// ---- constants -----------------------------------------------------------

func (x *xl) constant(v constant.Value, t types.Type, n ast.Node) string {
	if b, ok := t.Underlying().(*types.Basic); ok {
		if b.Info()&types.IsBoolean != 0 {
			if constant.BoolVal(v) {
				return "true"
			}
			return "false"
		}
		if b.Info()&types.IsInteger != 0 && b.Info()&types.IsUntyped == 0 {
			return "(" + v.ExactString() + " : Int)"
		}
		if b.Info()&types.IsString != 0 {
			return fmt.Sprintf("%q", constant.StringVal(v))
		}
	}
	// numeric used at float type
	var r *big.Rat
	switch val := constant.Val(constant.ToFloat(v)).(type) {
	case *big.Rat:
		r = val
	case *big.Float:
		r, _ = val.Rat(nil)
	case int64:
		r = big.NewRat(val, 1)
	case *big.Int:
		r = new(big.Rat).SetInt(val)
	default:
		x.fail(n, "constant %s of kind %T", v, val)
	}
	neg := r.Sign() < 0
	if neg {
		r = new(big.Rat).Neg(r)
	}
	var s string
	if r.IsInt() {
		s = "((" + r.Num().String() + " : Nat) : α)"
	} else {
		// A typed float constant has already been rounded to float64 by go/types:
		// its exact value is num/2^k with num < 2^53, which `Scalar.lit` reproduces
		// exactly at Float (exact division by a power of two) and exactly at ℝ.
		num, den := new(big.Int).Set(r.Num()), new(big.Int).Set(r.Denom())
		pow2 := new(big.Int).And(den, new(big.Int).Sub(den, big.NewInt(1))).Sign() == 0
		if !(pow2 && num.BitLen() <= 53 && den.BitLen() <= 1000) {
			// untyped decimal: write over a power of ten
			ten := big.NewInt(10)
			p := big.NewInt(1)
			ok := false
			for i := 0; i < 40; i++ {
				if new(big.Int).Mod(p, den).Sign() == 0 {
					num.Mul(num, new(big.Int).Div(p, den))
					den.Set(p)
					ok = true
					break
				}
				p = new(big.Int).Mul(p, ten)
			}
			if !ok || num.BitLen() > 53 || den.BitLen() > 53 {
				x.fail(n, "constant %s not representable", v)
			}
		}
		s = "(Scalar.lit " + num.String() + " " + den.String() + " : α)"
	}
	if neg {
		s = "(-" + s + ")"
	}
	return s
}

// ---- expressions ---------------------------------------------------------

var mathTable = map[string]string{
	"Min": "min", "Max": "max", "Abs": "Scalar.abs", "Sqrt": "Scalar.sqrt",
	"Sin": "Scalar.sin", "Cos": "Scalar.cos",
}

func (x *xl) info() *types.Info { return x.cur.TypesInfo }

func (x *xl) isVec(t types.Type) (string, bool) {
	if p, ok := t.(*types.Pointer); ok {
		t = p.Elem()
	}
	t = types.Unalias(t)
	if nt, ok := t.(*types.Named); ok && nt.Obj().Pkg() != nil && strings.HasPrefix(nt.Obj().Pkg().Path(), vecRoot) {
		switch leanPkgName(nt.Obj().Pkg().Path()) {
		case "vector2":
			return "V2", true
		case "vector3":
			return "V3", true
		case "vector4":
			return "V4", true
		}
	}
	return "", false
}

func (x *xl) expr(e ast.Expr) string {
	if tv, ok := x.info().Types[e]; ok && tv.Value != nil {
		// math.Pi etc. are handled below; every other constant expression is folded exactly
		if sel, ok := e.(*ast.SelectorExpr); !(ok && isPkgSel(x, sel, "math", "Pi")) {
			return x.constant(tv.Value, tv.Type, e)
		}
	}
	switch e := e.(type) {
	case *ast.ParenExpr:
		return x.expr(e.X)
	case *ast.Ident:
		if e.Name == "true" || e.Name == "false" {
			return e.Name
		}
		return leanIdent(e.Name)
	case *ast.BasicLit:
		x.fail(e, "literal without constant value")
	case *ast.UnaryExpr:
		switch e.Op {
		case token.SUB:
			return "(-" + x.expr(e.X) + ")"
		case token.NOT:
			return "(!" + x.expr(e.X) + ")"
		case token.ADD:
			return x.expr(e.X)
		case token.AND:
			if id, ok := e.X.(*ast.Ident); ok && x.allowAddr && x.scope[id.Name] {
				return leanIdent(id.Name)
			}
			x.fail(e, "address-of")
		}
	case *ast.BinaryExpr:
		a, b := x.expr(e.X), x.expr(e.Y)
		switch e.Op {
		case token.ADD, token.SUB, token.MUL, token.QUO:
			if e.Op == token.QUO {
				if tv, ok := x.info().Types[e]; ok {
					if bt, ok := tv.Type.Underlying().(*types.Basic); ok && bt.Info()&types.IsInteger != 0 {
						x.fail(e, "integer division (Go truncates, Lean's Int./ does not)")
					}
				}
			}
			return "(" + a + " " + e.Op.String() + " " + b + ")"
		case token.LSS:
			return "(decide (" + a + " < " + b + "))"
		case token.LEQ:
			return "(decide (" + a + " ≤ " + b + "))"
		case token.GTR:
			return "(decide (" + b + " < " + a + "))"
		case token.GEQ:
			return "(decide (" + b + " ≤ " + a + "))"
		case token.EQL:
			return "(" + a + " == " + b + ")"
		case token.NEQ:
			return "(" + a + " != " + b + ")"
		case token.LAND:
			return "(" + a + " && " + b + ")"
		case token.LOR:
			return "(" + a + " || " + b + ")"
		}
		x.fail(e, "binary operator %s", e.Op)
	case *ast.SelectorExpr:
		if isPkgSel(x, e, "math", "Pi") {
			return "(Scalar.pi : α)"
		}
		// field access
		if sel, ok := x.info().Selections[e]; ok && sel.Kind() == types.FieldVal {
			return "(" + x.expr(e.X) + ")." + sel.Obj().Name()
		}
		x.fail(e, "selector %s", e.Sel.Name)
	case *ast.CallExpr:
		return x.call(e)
	case *ast.CompositeLit:
		return x.composite(e)
	case *ast.FuncLit:
		return x.funcLit(e)
	case *ast.StarExpr:
		return x.expr(e.X)
	case *ast.IndexExpr:
		// generic instantiation handled in call; slice indexing unsupported
		x.fail(e, "index expression")
	}
	x.fail(e, "expression %T", e)
	return ""
}

func isPkgSel(x *xl, sel *ast.SelectorExpr, pkg, name string) bool {
	id, ok := sel.X.(*ast.Ident)
	if !ok {
		return false
	}
	pn, ok := x.info().Uses[id].(*types.PkgName)
	return ok && pn.Imported().Path() == pkg && sel.Sel.Name == name
}

var leanKeywords = map[string]bool{"end": true, "at": true, "from": true, "to": true, "in": true, "fun": true, "by": true, "do": true, "then": true, "else": true, "if": true, "let": true, "have": true, "show": true, "with": true, "open": true, "local": true, "instance": true, "where": true, "max": true, "min": true, "abs": true, "sqrt": true, "sin": true, "cos": true, "pi": true, "sign": false, "inside": false}

func leanIdent(s string) string {
	if leanKeywords[s] {
		return s + "'"
	}
	return s
}

func (x *xl) args(as []ast.Expr) string {
	var parts []string
	for _, a := range as {
		parts = append(parts, x.expr(a))
	}
	if len(parts) == 0 {
		return ""
	}
	return " " + strings.Join(parts, " ")
}

func (x *xl) call(c *ast.CallExpr) string {
	fun := c.Fun
	// strip explicit instantiation  vector3.New[float64]
	if ix, ok := fun.(*ast.IndexExpr); ok {
		fun = ix.X
	}
	// conversion  float64(e)
	if tv, ok := x.info().Types[fun]; ok && tv.IsType() {
		if b, ok := tv.Type.Underlying().(*types.Basic); ok && b.Info()&types.IsFloat != 0 {
			if at, ok := x.info().Types[c.Args[0]]; ok {
				if ab, ok := at.Type.Underlying().(*types.Basic); ok && ab.Info()&types.IsFloat != 0 {
					return x.expr(c.Args[0])
				}
			}
		}
		x.fail(c, "conversion to %s", tv.Type)
	}
	switch f := fun.(type) {
	case *ast.Ident:
		obj := x.info().Uses[f]
		switch o := obj.(type) {
		case *types.Func:
			if o.Pkg() != nil && x.transl[o.Pkg().Path()] {
				return "(Gen." + leanPkgName(o.Pkg().Path()) + "." + o.Name() + x.args(c.Args) + ")"
			}
		case *types.Var: // call of a function-typed variable
			return "(" + leanIdent(f.Name) + x.args(c.Args) + ")"
		case *types.Builtin:
			x.fail(c, "builtin %s", o.Name())
		}
		x.fail(c, "call of %s", f.Name)
	case *ast.SelectorExpr:
		// package-qualified function?
		if id, ok := f.X.(*ast.Ident); ok {
			if pn, ok := x.info().Uses[id].(*types.PkgName); ok {
				path := pn.Imported().Path()
				name := f.Sel.Name
				switch {
				case path == "math":
					if name == "Pow" && len(c.Args) == 2 {
						if tv := x.info().Types[c.Args[1]]; tv.Value != nil {
							if v, ok := constant.Float64Val(constant.ToFloat(tv.Value)); ok && v == 2 {
								return "(Scalar.sq " + x.expr(c.Args[0]) + ")"
							}
						}
					}
					if name == "Inf" && len(c.Args) == 1 {
						// math.Inf(sign) with a constant sign: +Inf for sign >= 0, -Inf otherwise (Go's definition).
						// Emitted as a constant of the class `ScalarInf` (Model/ScalarInf.lean; the spec must import it):
						// IEEE ±Inf at Float, and NO global instance at ℝ — theorems quantify over the instance.
						if tv := x.info().Types[c.Args[0]]; tv.Value != nil {
							if v, ok := constant.Int64Val(constant.ToInt(tv.Value)); ok {
								x.usesInf = true
								if v >= 0 {
									return "(ScalarInf.posInf : α)"
								}
								return "(ScalarInf.negInf : α)"
							}
						}
						x.fail(c, "math.Inf with a non-constant sign")
					}
					if l, ok := mathTable[name]; ok {
						return "(" + l + x.args(c.Args) + ")"
					}
					x.fail(c, "math.%s not in the library table", name)
				case strings.HasPrefix(path, vecRoot):
					v := map[string]string{"vector2": "V2", "vector3": "V3", "vector4": "V4"}[leanPkgName(path)]
					if v == "" {
						x.fail(c, "package %s", path)
					}
					if len(c.Args) == 0 {
						return "(" + v + "." + name + " : " + v + " α)"
					}
					return "(" + v + "." + name + x.args(c.Args) + ")"
				case x.transl[path]:
					return "(Gen." + leanPkgName(path) + "." + name + x.args(c.Args) + ")"
				}
				x.fail(c, "call into package %s", path)
			}
		}
		// method call
		sel, ok := x.info().Selections[f]
		if !ok {
			x.fail(c, "unresolved selector %s", f.Sel.Name)
		}
		if sel.Kind() == types.FieldVal { // call of a func-typed field
			return "(" + x.expr(f) + x.args(c.Args) + ")"
		}
		recvT := sel.Recv()
		if v, ok := x.isVec(recvT); ok {
			return "(" + v + "." + f.Sel.Name + " " + x.expr(f.X) + x.args(c.Args) + ")"
		}
		if p, ok := recvT.(*types.Pointer); ok {
			recvT = p.Elem()
		}
		if nt, ok := types.Unalias(recvT).(*types.Named); ok && nt.Obj().Pkg() != nil && x.transl[nt.Obj().Pkg().Path()] {
			return "(Gen." + leanPkgName(nt.Obj().Pkg().Path()) + "." + nt.Obj().Name() + "." + f.Sel.Name + " " + x.expr(f.X) + x.args(c.Args) + ")"
		}
		x.fail(c, "method %s on %s", f.Sel.Name, recvT)
	case *ast.FuncLit:
		x.fail(c, "immediately applied closure")
	}
	x.fail(c, "call form %T", fun)
	return ""
}

func (x *xl) composite(c *ast.CompositeLit) string {
	t := x.info().Types[c].Type
	st, ok := t.Underlying().(*types.Struct)
	if !ok {
		x.fail(c, "composite literal of %s", t)
	}
	vals := map[string]string{}
	for i, el := range c.Elts {
		if kv, ok := el.(*ast.KeyValueExpr); ok {
			vals[kv.Key.(*ast.Ident).Name] = x.expr(kv.Value)
		} else {
			vals[st.Field(i).Name()] = x.expr(el)
		}
	}
	var fs []string
	for i := 0; i < st.NumFields(); i++ {
		f := st.Field(i)
		v, ok := vals[f.Name()]
		if !ok {
			v = x.zero(f.Type(), c)
		}
		fs = append(fs, f.Name()+" := "+v)
	}
	return "({ " + strings.Join(fs, ", ") + " } : " + x.typ(t, c) + ")"
}

func (x *xl) funcLit(f *ast.FuncLit) string {
	sig := x.info().Types[f].Type.(*types.Signature)
	var ps []string
	for i := 0; i < sig.Params().Len(); i++ {
		p := sig.Params().At(i)
		ps = append(ps, "("+leanIdent(p.Name())+" : "+x.typ(p.Type(), f)+")")
	}
	saved := x.recvPtr
	x.recvPtr = ""
	savedPtr := x.ptrParams
	x.ptrParams = nil
	defer func() { x.ptrParams = savedPtr }()
	savedScope := copyset(x.scope)
	for i := 0; i < sig.Params().Len(); i++ {
		if x.scope[sig.Params().At(i).Name()] {
			x.fail(f, "closure parameter %q shadows an outer variable", sig.Params().At(i).Name())
		}
		x.scope[sig.Params().At(i).Name()] = true
	}
	body := x.block(f.Body.List, "")
	x.scope = savedScope
	x.recvPtr = saved
	return "(fun " + strings.Join(ps, " ") + " =>\n" + body + ")"
}

// ---- statements ----------------------------------------------------------

// assigned returns the outer variables assigned (not declared) in stmts.
func (x *xl) assigned(stmts []ast.Stmt, declared map[string]bool, acc map[string]bool) {
	for _, s := range stmts {
		switch s := s.(type) {
		case *ast.AssignStmt:
			for _, l := range s.Lhs {
				name := rootIdent(l)
				if name == "" {
					x.fail(s, "assignment target")
				}
				if s.Tok == token.DEFINE {
					declared[name] = true
				} else if !declared[name] {
					acc[name] = true
				}
			}
		case *ast.IfStmt:
			d2 := copyset(declared)
			x.assigned(s.Body.List, d2, acc)
			if s.Else != nil {
				d3 := copyset(declared)
				switch e := s.Else.(type) {
				case *ast.BlockStmt:
					x.assigned(e.List, d3, acc)
				case *ast.IfStmt:
					x.assigned([]ast.Stmt{e}, d3, acc)
				}
			}
		case *ast.ExprStmt:
			if name := x.ptrMethodRecv(s.X); name != "" && !declared[name] {
				acc[name] = true
			}
		case *ast.RangeStmt:
			d2 := copyset(declared)
			x.assigned(s.Body.List, d2, acc)
		case *ast.ReturnStmt:
			x.fail(s, "return inside a non-terminating branch")
		}
	}
}

// noShadow fails when a statement list of a branch / loop body declares (:= or var) a name that is
// already declared in the enclosing function: the let-chain translation would let the inner binding
// escape into the tuple the branch yields.
func (x *xl) noShadow(stmts []ast.Stmt) {
	for _, s := range stmts {
		switch s := s.(type) {
		case *ast.AssignStmt:
			if s.Tok == token.DEFINE {
				for _, l := range s.Lhs {
					if id, ok := l.(*ast.Ident); ok && id.Name != "_" && x.scope[id.Name] {
						x.fail(s, "declaration of %q inside a branch shadows an outer variable", id.Name)
					}
				}
			}
		case *ast.DeclStmt:
			if gd, ok := s.Decl.(*ast.GenDecl); ok && gd.Tok == token.VAR {
				for _, sp := range gd.Specs {
					for _, n := range sp.(*ast.ValueSpec).Names {
						if x.scope[n.Name] {
							x.fail(s, "declaration of %q inside a branch shadows an outer variable", n.Name)
						}
					}
				}
			}
		case *ast.IfStmt:
			x.noShadow(s.Body.List)
			switch e := s.Else.(type) {
			case *ast.BlockStmt:
				x.noShadow(e.List)
			case *ast.IfStmt:
				x.noShadow([]ast.Stmt{e})
			}
		case *ast.RangeStmt:
			x.noShadow(s.Body.List)
		}
	}
}

func copyset(m map[string]bool) map[string]bool {
	r := map[string]bool{}
	for k, v := range m {
		r[k] = v
	}
	return r
}

func rootIdent(e ast.Expr) string {
	switch e := e.(type) {
	case *ast.Ident:
		return e.Name
	case *ast.SelectorExpr:
		return rootIdent(e.X)
	case *ast.StarExpr:
		return rootIdent(e.X)
	}
	return ""
}

// ptrMethodRecv: if e is a call `v.M(...)` of a pointer-receiver method of a
// translated type on variable v, return v.
func (x *xl) ptrMethodRecv(e ast.Expr) string {
	c, ok := e.(*ast.CallExpr)
	if !ok {
		return ""
	}
	f, ok := c.Fun.(*ast.SelectorExpr)
	if !ok {
		return ""
	}
	sel, ok := x.info().Selections[f]
	if !ok || sel.Kind() != types.MethodVal {
		return ""
	}
	fn := sel.Obj().(*types.Func)
	sig := fn.Type().(*types.Signature)
	if sig.Recv() == nil {
		return ""
	}
	if _, ok := sig.Recv().Type().(*types.Pointer); !ok {
		return ""
	}
	return rootIdent(f.X)
}

func terminates(stmts []ast.Stmt) bool {
	if len(stmts) == 0 {
		return false
	}
	switch s := stmts[len(stmts)-1].(type) {
	case *ast.ReturnStmt:
		return true
	case *ast.IfStmt:
		if s.Else == nil {
			return false
		}
		var els []ast.Stmt
		switch e := s.Else.(type) {
		case *ast.BlockStmt:
			els = e.List
		case *ast.IfStmt:
			els = []ast.Stmt{e}
		}
		return terminates(s.Body.List) && terminates(els)
	case *ast.ExprStmt:
		if c, ok := s.X.(*ast.CallExpr); ok {
			if id, ok := c.Fun.(*ast.Ident); ok && id.Name == "panic" {
				return true
			}
		}
	}
	return false
}

func tuple(vars []string) string {
	for i := range vars {
		vars[i] = leanIdent(vars[i])
	}
	if len(vars) == 1 {
		return vars[0]
	}
	return "(" + strings.Join(vars, ", ") + ")"
}

// block translates stmts; `tail` is the Lean expression to yield if control
// falls off the end ("" = falling off is an error).
func (x *xl) block(stmts []ast.Stmt, tail string) string {
	if len(stmts) == 0 {
		if tail == "" {
			x.fail(nil, "control falls off the end of a value-returning block")
		}
		return tail
	}
	s, rest := stmts[0], stmts[1:]
	switch s := s.(type) {
	case *ast.ReturnStmt:
		if len(s.Results) == 0 {
			if x.recvPtr == "" {
				x.fail(s, "bare return")
			}
			return leanIdent(x.recvPtr)
		}
		if len(s.Results) == 1 {
			if len(x.ptrParams) > 0 {
				ps := []string{x.expr(s.Results[0])}
				for _, p := range x.ptrParams {
					ps = append(ps, leanIdent(p))
				}
				return "(" + strings.Join(ps, ", ") + ")"
			}
			return x.expr(s.Results[0])
		}
		var ps []string
		for _, r := range s.Results {
			ps = append(ps, x.expr(r))
		}
		return "(" + strings.Join(ps, ", ") + ")"
	case *ast.DeclStmt:
		gd := s.Decl.(*ast.GenDecl)
		if gd.Tok == token.CONST {
			return x.block(rest, tail)
		}
		if gd.Tok != token.VAR {
			x.fail(s, "declaration")
		}
		var sb strings.Builder
		for _, sp := range gd.Specs {
			vs := sp.(*ast.ValueSpec)
			for i, n := range vs.Names {
				var v string
				if i < len(vs.Values) {
					v = x.expr(vs.Values[i])
				} else {
					v = x.zero(x.info().Defs[n].Type(), s)
				}
				x.scope[n.Name] = true
				fmt.Fprintf(&sb, "let %s := %s\n", leanIdent(n.Name), v)
			}
		}
		return sb.String() + x.block(rest, tail)
	case *ast.AssignStmt:
		if len(s.Lhs) == len(s.Rhs) {
			// simultaneous assignment: evaluate all RHS first when >1
			var sb strings.Builder
			if len(s.Lhs) > 1 {
				var tmps []string
				for i, r := range s.Rhs {
					t := fmt.Sprintf("tmp%d'", i)
					tmps = append(tmps, t)
					fmt.Fprintf(&sb, "let %s := %s\n", t, x.expr(r))
				}
				for i, l := range s.Lhs {
					sb.WriteString(x.assign(l, tmps[i], s))
				}
			} else {
				rhs := x.expr(s.Rhs[0])
				if s.Tok != token.ASSIGN && s.Tok != token.DEFINE {
					op := map[token.Token]string{token.ADD_ASSIGN: "+", token.SUB_ASSIGN: "-", token.MUL_ASSIGN: "*", token.QUO_ASSIGN: "/"}[s.Tok]
					if op == "" {
						x.fail(s, "assignment operator %s", s.Tok)
					}
					rhs = "(" + x.expr(s.Lhs[0]) + " " + op + " " + rhs + ")"
				}
				sb.WriteString(x.assign(s.Lhs[0], rhs, s))
			}
			return sb.String() + x.block(rest, tail)
		}
		x.fail(s, "multi-value assignment")
	case *ast.ExprStmt:
		if c, ok := s.X.(*ast.CallExpr); ok {
			if id, ok := c.Fun.(*ast.Ident); ok && id.Name == "panic" {
				return "default"
			}
		}
		if v := x.ptrMethodRecv(s.X); v != "" {
			c := s.X.(*ast.CallExpr)
			if _, ok := c.Fun.(*ast.SelectorExpr).X.(*ast.Ident); !ok {
				x.fail(s, "pointer method on a non-variable")
			}
			return fmt.Sprintf("let %s := %s\n", leanIdent(v), x.expr(s.X)) + x.block(rest, tail)
		}
		x.fail(s, "expression statement")
	case *ast.IfStmt:
		if s.Init != nil {
			x.fail(s, "if with init")
		}
		x.noShadow(s.Body.List)
		switch e := s.Else.(type) {
		case *ast.BlockStmt:
			x.noShadow(e.List)
		case *ast.IfStmt:
			x.noShadow([]ast.Stmt{e})
		}
		pre, cond := x.condWithOutParams(s.Cond)
		if pre != "" {
			out := x.ifStmt(s, rest, tail, cond)
			return pre + out
		}
		return x.ifStmt(s, rest, tail, cond)
	case *ast.RangeStmt:
		return x.rangeStmt(s, rest, tail)
	}
	x.fail(s, "statement %T", s)
	return ""
}

// floatPtrParams: indices of the parameters of type *float (out-parameters) of a signature
func floatPtrParams(sig *types.Signature) []int {
	var r []int
	for i := 0; i < sig.Params().Len(); i++ {
		if p, ok := sig.Params().At(i).Type().(*types.Pointer); ok {
			if b, ok := p.Elem().Underlying().(*types.Basic); ok && b.Info()&types.IsFloat != 0 {
				r = append(r, i)
			}
		}
	}
	return r
}

// condWithOutParams: an if-condition that is exactly a call `f(…, &a, &b, …)` of a translated function with `*float64`
// parameters.  The callee's translation returns (result, a', b'): bind it, rebind the locals, test the first component.
// Any other use of `&` stays unsupported.
func (x *xl) condWithOutParams(cond ast.Expr) (string, string) {
	c, ok := cond.(*ast.CallExpr)
	if !ok {
		return "", x.expr(cond)
	}
	tv, ok := x.info().Types[c.Fun]
	if !ok {
		return "", x.expr(cond)
	}
	sig, ok := tv.Type.(*types.Signature)
	if !ok {
		return "", x.expr(cond)
	}
	idx := floatPtrParams(sig)
	if len(idx) == 0 {
		return "", x.expr(cond)
	}
	var names []string
	for _, i := range idx {
		u, ok := c.Args[i].(*ast.UnaryExpr)
		if !ok || u.Op != token.AND {
			x.fail(c, "out-parameter argument must be &local")
		}
		id, ok := u.X.(*ast.Ident)
		if !ok || !x.scope[id.Name] {
			x.fail(c, "out-parameter argument must be &local")
		}
		names = append(names, id.Name)
	}
	x.allowAddr = true
	call := x.call(c)
	x.allowAddr = false
	x.outCalls++
	r := fmt.Sprintf("r%d'", x.outCalls)
	var sb strings.Builder
	fmt.Fprintf(&sb, "let %s := %s\n", r, call)
	for k, n := range names {
		proj := strings.Repeat(".2", k+1)
		if k < len(names)-1 {
			proj += ".1"
		}
		fmt.Fprintf(&sb, "let %s := %s%s\n", leanIdent(n), r, proj)
	}
	return sb.String(), "(" + r + ").1"
}

func (x *xl) ifStmt(s *ast.IfStmt, rest []ast.Stmt, tail string, cond string) string {
	{
		var els []ast.Stmt
		switch e := s.Else.(type) {
		case *ast.BlockStmt:
			els = e.List
		case *ast.IfStmt:
			els = []ast.Stmt{e}
		}
		thenT, elseT := terminates(s.Body.List), s.Else != nil && terminates(els)
		switch {
		case thenT:
			return "if " + cond + " then\n" + indent(x.block(s.Body.List, "")) + "\nelse\n" + indent(x.block(append(append([]ast.Stmt{}, els...), rest...), tail))
		case elseT:
			return "if " + cond + " then\n" + indent(x.block(append(append([]ast.Stmt{}, s.Body.List...), rest...), tail)) + "\nelse\n" + indent(x.block(els, ""))
		default:
			acc := map[string]bool{}
			x.assigned(s.Body.List, map[string]bool{}, acc)
			x.assigned(els, map[string]bool{}, acc)
			vars := sortedKeys(acc)
			if len(vars) == 0 {
				x.fail(s, "if without effect")
			}
			tp := tuple(vars)
			return "let " + tp + " := if " + cond + " then\n" + indent(x.block(s.Body.List, tp)) + "\n  else\n" + indent(x.block(els, tp)) + "\n" + x.block(rest, tail)
		}
	}
}

func (x *xl) rangeStmt(s *ast.RangeStmt, rest []ast.Stmt, tail string) string {
	{
		if s.Tok != token.DEFINE {
			x.fail(s, "range without :=")
		}
		if k, ok := s.Key.(*ast.Ident); !ok || k.Name != "_" {
			x.fail(s, "range with index")
		}
		v, ok := s.Value.(*ast.Ident)
		if !ok {
			x.fail(s, "range value")
		}
		x.noShadow(s.Body.List)
		if x.scope[v.Name] {
			x.fail(s, "range variable %q shadows an outer variable", v.Name)
		}
		acc := map[string]bool{}
		x.assigned(s.Body.List, map[string]bool{v.Name: true}, acc)
		vars := sortedKeys(acc)
		if len(vars) == 0 {
			x.fail(s, "range without effect")
		}
		tp := tuple(vars)
		return "let " + tp + " := (" + x.expr(s.X) + ").foldl (fun " + tp + " " + leanIdent(v.Name) + " =>\n" + indent(x.block(s.Body.List, tp)) + ") " + tp + "\n" + x.block(rest, tail)
	}
}

func sortedKeys(m map[string]bool) []string {
	var ks []string
	for k := range m {
		ks = append(ks, k)
	}
	sort.Strings(ks)
	return ks
}

func indent(s string) string {
	return "  " + strings.ReplaceAll(s, "\n", "\n  ")
}

func (x *xl) assign(lhs ast.Expr, rhs string, n ast.Node) string {
	switch l := lhs.(type) {
	case *ast.Ident:
		if l.Name == "_" {
			return ""
		}
		x.scope[l.Name] = true
		return fmt.Sprintf("let %s := %s\n", leanIdent(l.Name), rhs)
	case *ast.SelectorExpr:
		// v.f = rhs   (possibly nested: v.f.g)
		base := rootIdent(l)
		if base == "" {
			x.fail(n, "assignment target")
		}
		if id, ok := l.X.(*ast.Ident); ok {
			return fmt.Sprintf("let %s := { %s with %s := %s }\n", leanIdent(id.Name), leanIdent(id.Name), l.Sel.Name, rhs)
		}
		x.fail(n, "nested field assignment")
	case *ast.StarExpr:
		// `*p = e` where p is a `*float64` PARAMETER of this function: rebinding; the final value is returned next to the result
		if id, ok := l.X.(*ast.Ident); ok {
			for _, p := range x.ptrParams {
				if p == id.Name {
					return fmt.Sprintf("let %s := %s\n", leanIdent(id.Name), rhs)
				}
			}
		}
		x.fail(n, "store through pointer")
	}
	x.fail(n, "assignment target %T", lhs)
	return ""
}

// ---- declarations --------------------------------------------------------

func (x *xl) structDecl(pkg *packages.Package, name string) {
	obj := pkg.Types.Scope().Lookup(name)
	if obj == nil {
		x.fail(nil, "type %s.%s not found", pkg.PkgPath, name)
	}
	st, ok := obj.Type().Underlying().(*types.Struct)
	if !ok {
		x.fail(nil, "%s is not a struct", name)
	}
	fmt.Fprintf(&x.out, "structure Gen.%s.%s (α : Type) where\n", leanPkgName(pkg.PkgPath), name)
	for i := 0; i < st.NumFields(); i++ {
		fmt.Fprintf(&x.out, "  %s : %s\n", st.Field(i).Name(), x.typ(st.Field(i).Type(), nil))
	}
	x.out.WriteString("deriving Inhabited\n\n")
}

func (x *xl) funcDecl(pkg *packages.Package, name string) {
	recv, fname := "", name
	if i := strings.Index(name, "."); i >= 0 {
		recv, fname = name[:i], name[i+1:]
	}
	var fd *ast.FuncDecl
	for _, f := range pkg.Syntax {
		for _, d := range f.Decls {
			d, ok := d.(*ast.FuncDecl)
			if !ok || d.Name.Name != fname {
				continue
			}
			r := ""
			if d.Recv != nil {
				t := d.Recv.List[0].Type
				if s, ok := t.(*ast.StarExpr); ok {
					t = s.X
				}
				if id, ok := t.(*ast.Ident); ok {
					r = id.Name
				}
			}
			if r == recv {
				fd = d
			}
		}
	}
	if fd == nil {
		x.fail(nil, "function %s.%s not found", pkg.PkgPath, name)
	}
	x.cur = pkg
	sig := pkg.TypesInfo.Defs[fd.Name].Type().(*types.Signature)
	var params []string
	x.recvPtr = ""
	x.scope = map[string]bool{}
	if sig.Recv() != nil && sig.Recv().Name() != "" {
		x.scope[sig.Recv().Name()] = true
	}
	for i := 0; i < sig.Params().Len(); i++ {
		x.scope[sig.Params().At(i).Name()] = true
	}
	if sig.Recv() != nil {
		rn := sig.Recv().Name()
		if rn == "" || rn == "_" {
			rn = "self'"
		}
		if _, ok := sig.Recv().Type().(*types.Pointer); ok {
			x.recvPtr = rn
		}
		params = append(params, "("+leanIdent(rn)+" : "+x.typ(sig.Recv().Type(), fd)+")")
	}
	for i := 0; i < sig.Params().Len(); i++ {
		p := sig.Params().At(i)
		t := x.typ(p.Type(), fd)
		params = append(params, "("+leanIdent(p.Name())+" : "+t+")")
	}
	x.ptrParams = nil
	x.outCalls = 0
	for _, i := range floatPtrParams(sig) {
		x.ptrParams = append(x.ptrParams, sig.Params().At(i).Name())
	}
	var ret string
	tail := ""
	switch {
	case len(x.ptrParams) > 0:
		if x.recvPtr != "" || sig.Results().Len() != 1 {
			x.fail(fd, "*float64 parameters only on a value-receiver function with one result")
		}
		ret = "(" + x.typ(sig.Results().At(0).Type(), fd) + strings.Repeat(" × α", len(x.ptrParams)) + ")"
	case x.recvPtr != "" && sig.Results().Len() == 0:
		ret = x.typ(sig.Recv().Type(), fd)
		tail = leanIdent(x.recvPtr)
	case sig.Results().Len() == 1:
		if x.recvPtr != "" {
			x.fail(fd, "pointer-receiver method with a result")
		}
		ret = x.typ(sig.Results().At(0).Type(), fd)
	case sig.Results().Len() > 1:
		ret = x.typ(sig.Results(), fd)
	default:
		x.fail(fd, "function without result")
	}
	lname := "Gen." + leanPkgName(pkg.PkgPath) + "."
	if recv != "" {
		lname += recv + "."
	}
	lname += fname
	pos := x.fset.Position(fd.Pos())
	x.usesInf = false
	body := indent(x.block(fd.Body.List, tail))
	if x.usesInf {
		params = append([]string{"[ScalarInf α]"}, params...)
	}
	fmt.Fprintf(&x.out, "/-- %s:%d -/\ndef %s %s : %s :=\n", strings.TrimPrefix(pos.Filename, "/repo/"), pos.Line, lname, strings.Join(params, " "), ret)
	x.out.WriteString(body)
	x.out.WriteString("\n\n")
}

func main() {
	specPath := flag.String("spec", "", "spec json")
	outPath := flag.String("out", "", "output lean file")
	repo := flag.String("repo", "/repo", "repository root")
	flag.Parse()
	var spec Spec
	b, err := os.ReadFile(*specPath)
	if err != nil {
		fmt.Fprintln(os.Stderr, err)
		os.Exit(2)
	}
	if err := json.Unmarshal(b, &spec); err != nil {
		fmt.Fprintln(os.Stderr, err)
		os.Exit(2)
	}
	var paths []string
	x := &xl{pkgs: map[string]*packages.Package{}, transl: map[string]bool{}}
	for _, it := range spec.Items {
		paths = append(paths, it.Pkg)
		x.transl[it.Pkg] = true
	}
	cfg := &packages.Config{Mode: packages.NeedName | packages.NeedSyntax | packages.NeedTypes | packages.NeedTypesInfo | packages.NeedFiles | packages.NeedImports | packages.NeedDeps, Dir: *repo}
	pkgs, err := packages.Load(cfg, paths...)
	if err != nil {
		fmt.Fprintln(os.Stderr, "load:", err)
		os.Exit(2)
	}
	for _, p := range pkgs {
		if len(p.Errors) > 0 {
			fmt.Fprintln(os.Stderr, "package errors:", p.Errors)
			os.Exit(2)
		}
		x.pkgs[p.PkgPath] = p
		x.fset = p.Fset
	}
	defer func() {
		if r := recover(); r != nil {
			if b, ok := r.(bail); ok {
				fmt.Fprintln(os.Stderr, "XLATE-UNSUPPORTED:", b.msg)
				os.Exit(3)
			}
			panic(r)
		}
	}()
	fmt.Fprintf(&x.out, "-- GENERATED by /verif/go/xlate from /repo — do not edit.\n")
	imps := append([]string{"PolyVerif.Model.Vec"}, spec.Imports...)
	for _, i := range imps {
		fmt.Fprintf(&x.out, "import %s\n", i)
	}
	x.out.WriteString("\nnamespace PolyVerif\nopen Scalar\nset_option linter.unusedVariables false\n\n")
	for _, it := range spec.Items {
		p := x.pkgs[it.Pkg]
		if p == nil {
			fmt.Fprintln(os.Stderr, "package not loaded:", it.Pkg)
			os.Exit(2)
		}
		if it.Extern {
			continue
		}
		for _, t := range it.Types {
			x.structDecl(p, t)
		}
	}
	x.out.WriteString("variable {α : Type} [Scalar α]\n\n")
	for _, it := range spec.Items {
		p := x.pkgs[it.Pkg]
		if it.Extern {
			continue
		}
		for _, f := range it.Funcs {
			x.funcDecl(p, f)
		}
	}
	x.out.WriteString("end PolyVerif\n")
	if err := os.WriteFile(*outPath, []byte(x.out.String()), 0o644); err != nil {
		fmt.Fprintln(os.Stderr, err)
		os.Exit(2)
	}
}
