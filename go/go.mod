module verif

go 1.22.0

toolchain go1.23.5

require (
	github.com/EliCDavis/jbtf v0.2.0
	github.com/EliCDavis/polyform v0.0.0
	github.com/EliCDavis/sfm v1.2.0
	github.com/EliCDavis/vector v1.8.0
	golang.org/x/tools v0.29.0
)

require (
	github.com/EliCDavis/bitlib v1.2.0 // indirect
	github.com/EliCDavis/iter v1.0.2 // indirect
	github.com/fogleman/gg v1.3.0 // indirect
	github.com/golang/freetype v0.0.0-20170609003504-e2365dfdc4a0 // indirect
	github.com/gorilla/websocket v1.5.3 // indirect
	golang.org/x/image v0.18.0 // indirect
	golang.org/x/mod v0.22.0 // indirect
	golang.org/x/sync v0.10.0 // indirect
)

replace github.com/EliCDavis/polyform => /repo
