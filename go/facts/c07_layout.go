// Engine F, property C07: the record layout and the read/write step sequences of formats/stl, read from the current
// tree with go/parser + go/ast and written as Lean data (PolyVerif/Gen/StlLayout.lean):
//
//	binary.go  type Header [N]byte                         -> headerBytes
//	binary.go  type Vec struct{…}, type Triangle struct{…} -> vecFields, triangleFields   (field name, Go type), source order
//	read.go    func Read : every binary.Read call          -> readSteps   (byte order, target, declared type of the target)
//	write.go   func Write: every out.Write / binary.Write  -> writeSteps
//
// Props/C07Layout.lean proves the model's encoder (PolyVerif/Model/Stl.lean `encTri`, `encodeRaw`) equal to the
// interpretation of these tables.  A shape that is not the expected one is an error.
package main

import (
	"bytes"
	"fmt"
	"go/ast"
	"go/parser"
	"go/printer"
	"go/token"
	"os"
	"path/filepath"
	"strconv"
	"strings"
)

func init() { modes["c07.layout"] = c07Layout }

func c07Src(fset *token.FileSet, n ast.Node) string {
	var b bytes.Buffer
	printer.Fprint(&b, fset, n)
	return strings.Join(strings.Fields(b.String()), " ")
}

func c07Layout(repo, out string, args []string) error {
	fset := token.NewFileSet()
	dir := filepath.Join(repo, "formats", "stl")
	bf, err := parser.ParseFile(fset, filepath.Join(dir, "binary.go"), nil, 0)
	if err != nil {
		return err
	}
	rf, err := parser.ParseFile(fset, filepath.Join(dir, "read.go"), nil, 0)
	if err != nil {
		return err
	}
	wf, err := parser.ParseFile(fset, filepath.Join(dir, "write.go"), nil, 0)
	if err != nil {
		return err
	}
	types := map[string]ast.Expr{}
	for _, d := range bf.Decls {
		if gd, ok := d.(*ast.GenDecl); ok && gd.Tok == token.TYPE {
			for _, sp := range gd.Specs {
				ts := sp.(*ast.TypeSpec)
				types[ts.Name.Name] = ts.Type
			}
		}
	}
	hdr, ok := types["Header"].(*ast.ArrayType)
	if !ok || hdr.Len == nil || c07Src(fset, hdr.Elt) != "byte" {
		return fmt.Errorf("binary.go: type Header is not [N]byte")
	}
	hlen := c07Src(fset, hdr.Len)
	if _, err := strconv.Atoi(hlen); err != nil {
		return fmt.Errorf("binary.go: Header length %s is not a literal", hlen)
	}
	fields := func(name string) (string, error) {
		st, ok := types[name].(*ast.StructType)
		if !ok {
			return "", fmt.Errorf("binary.go: type %s is not a struct", name)
		}
		xs := []string{}
		for _, f := range st.Fields.List {
			if len(f.Names) == 0 {
				return "", fmt.Errorf("binary.go: embedded field in %s", name)
			}
			for _, n := range f.Names {
				xs = append(xs, fmt.Sprintf("(%s, %s)", strconv.Quote(n.Name), strconv.Quote(c07Src(fset, f.Type))))
			}
		}
		return "[" + strings.Join(xs, ", ") + "]", nil
	}
	vec, err := fields("Vec")
	if err != nil {
		return err
	}
	tri, err := fields("Triangle")
	if err != nil {
		return err
	}
	fn := func(f *ast.File, name string) *ast.FuncDecl {
		for _, d := range f.Decls {
			if fd, ok := d.(*ast.FuncDecl); ok && fd.Recv == nil && fd.Name.Name == name {
				return fd
			}
		}
		return nil
	}
	// ---- Read: declared types of the targets, then every binary.Read
	rd := fn(rf, "Read")
	if rd == nil {
		return fmt.Errorf("read.go: func Read not found")
	}
	decl := map[string]string{}
	steps := []string{}
	ast.Inspect(rd.Body, func(n ast.Node) bool {
		switch x := n.(type) {
		case *ast.AssignStmt:
			if x.Tok == token.DEFINE && len(x.Lhs) == 1 && len(x.Rhs) == 1 {
				if id, ok := x.Lhs[0].(*ast.Ident); ok && id.Name != "err" {
					decl[id.Name] = c07Src(fset, x.Rhs[0])
				}
			}
		case *ast.DeclStmt:
			if gd, ok := x.Decl.(*ast.GenDecl); ok && gd.Tok == token.VAR {
				for _, sp := range gd.Specs {
					vs := sp.(*ast.ValueSpec)
					for _, nm := range vs.Names {
						decl[nm.Name] = "var " + c07Src(fset, vs.Type)
					}
				}
			}
		case *ast.CallExpr:
			if c07Src(fset, x.Fun) == "binary.Read" && len(x.Args) == 3 {
				tgt := c07Src(fset, x.Args[2])
				steps = append(steps, strconv.Quote(fmt.Sprintf("binary.Read %s %s : %s", c07Src(fset, x.Args[1]), tgt, decl[strings.TrimPrefix(tgt, "&")])))
			}
		}
		return true
	})
	// every binary.Read must be the init of `if err := binary.Read(…); err != nil { return nil, … }`
	checked := []string{}
	for _, st := range rd.Body.List {
		is, ok := st.(*ast.IfStmt)
		if !ok || is.Init == nil {
			continue
		}
		as, ok := is.Init.(*ast.AssignStmt)
		if !ok || len(as.Rhs) != 1 {
			continue
		}
		call, ok := as.Rhs[0].(*ast.CallExpr)
		if !ok || c07Src(fset, call.Fun) != "binary.Read" {
			continue
		}
		verdict := "unchecked"
		if c07Src(fset, is.Cond) == "err != nil" && len(is.Body.List) == 1 {
			if r, ok := is.Body.List[0].(*ast.ReturnStmt); ok && len(r.Results) == 2 && c07Src(fset, r.Results[0]) == "nil" {
				verdict = "error returned"
			}
		}
		checked = append(checked, strconv.Quote(c07Src(fset, call.Args[2])+": "+verdict))
	}
	wr := fn(wf, "Write")
	if wr == nil {
		return fmt.Errorf("write.go: func Write not found")
	}
	wsteps := []string{}
	ast.Inspect(wr.Body, func(n ast.Node) bool {
		if x, ok := n.(*ast.CallExpr); ok {
			switch c07Src(fset, x.Fun) {
			case "binary.Write":
				if len(x.Args) == 3 {
					wsteps = append(wsteps, strconv.Quote(fmt.Sprintf("binary.Write %s %s", c07Src(fset, x.Args[1]), c07Src(fset, x.Args[2]))))
				}
			case "out.Write":
				wsteps = append(wsteps, strconv.Quote("out.Write "+c07Src(fset, x.Args[0])))
			}
		}
		return true
	})
	// ---- corner gather: the first record loop of WriteMesh and the record loop of ReadMesh, statement by statement
	gather := func(f *ast.File, fname string, pick func(int) bool) ([]string, error) {
		fd := fn(f, fname)
		if fd == nil {
			return nil, fmt.Errorf("func %s not found", fname)
		}
		k := 0
		var out []string
		for _, st := range fd.Body.List {
			var body *ast.BlockStmt
			switch l := st.(type) {
			case *ast.ForStmt:
				body = l.Body
			case *ast.RangeStmt:
				body = l.Body
			default:
				continue
			}
			if pick(k) {
				for _, bs := range body.List {
					if _, isIf := bs.(*ast.IfStmt); isIf {
						continue // the normal choice of ReadMesh is regenerated by mode c07.normals
					}
					if ds, isDecl := bs.(*ast.DeclStmt); isDecl {
						out = append(out, strconv.Quote(c07Src(fset, ds)))
						continue
					}
					out = append(out, strconv.Quote(c07Src(fset, bs)))
				}
			}
			k++
		}
		if len(out) == 0 {
			return nil, fmt.Errorf("%s: record loop not found", fname)
		}
		return out, nil
	}
	wg, err := gather(wf, "WriteMesh", func(k int) bool { return k == 0 })
	if err != nil {
		return err
	}
	rg, err := gather(rf, "ReadMesh", func(k int) bool { return k == 0 })
	if err != nil {
		return err
	}
	var b strings.Builder
	b.WriteString("/-\n  GENERATED by /verif/go/facts (mode c07.layout) from /repo/formats/stl/binary.go, read.go, write.go.\n  Do not edit: regenerated by ./check C07 before every build.\n-/\nnamespace PolyVerif.Gen.StlLayout\n\n")
	fmt.Fprintf(&b, "/-- `type Header [%s]byte` -/\ndef headerBytes : Nat := %s\n\n", hlen, hlen)
	fmt.Fprintf(&b, "/-- `type Vec struct` (field, Go type), source order -/\ndef vecFields : List (String × String) := %s\n\n", vec)
	fmt.Fprintf(&b, "/-- `type Triangle struct` (field, Go type), source order -/\ndef triangleFields : List (String × String) := %s\n\n", tri)
	fmt.Fprintf(&b, "/-- `Read`: every `binary.Read(in, <order>, <target>)` with the declaration of the target, in source order -/\ndef readSteps : List String :=\n  [%s]\n\n", strings.Join(steps, ",\n   "))
	fmt.Fprintf(&b, "/-- `Read`: what happens to the error of each top-level `if err := binary.Read(…)` -/\ndef readErrors : List String :=\n  [%s]\n\n", strings.Join(checked, ", "))
	fmt.Fprintf(&b, "/-- `Write`: every `out.Write` / `binary.Write(out, <order>, <value>)`, in source order -/\ndef writeSteps : List String :=\n  [%s]\n\n", strings.Join(wsteps, ",\n   "))
	fmt.Fprintf(&b, "/-- `WriteMesh`: body of the first record loop (corner gather through `Tri(i)`, narrowing to float32, record fields) -/\ndef writeGather : List String :=\n  [%s]\n\n", strings.Join(wg, ",\n   "))
	fmt.Fprintf(&b, "/-- `ReadMesh`: body of the record loop without the normal choice (three fresh vertices per record, identity indices, one normal per corner) -/\ndef readGather : List String :=\n  [%s]\n\n", strings.Join(rg, ",\n   "))
	b.WriteString("end PolyVerif.Gen.StlLayout\n")
	return os.WriteFile(out, []byte(b.String()), 0o644)
}
