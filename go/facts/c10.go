// Engine F, property C10: work-partition facts of the parallel scans / modifies of modeling/mesh.go
// and the block-range expressions of modeling/marching/canvas.go.
//
//	facts c10.partition -repo /repo -out Partition.lean
//
// The extractor walks the source AST (go/parser, no type information needed) and prints, for every
// `*ParallelWithPoolSize` method of Mesh, the integer expressions that decide which worker visits which
// index: workSize, the per-worker count (with the last-worker branch), the (start,size) arguments of the
// `go` call, the loop bounds of the worker body (or of the scan*Primitives helper it calls), and the index
// expressions handed to the callback / used to read the input / to write the output.  They are emitted as
// Lean functions over Int (Go `a / b` on ints = Int.tdiv, `int(math.Floor(float64(a)/float64(b)))` = Int.fdiv).
// For canvas.go it prints the block-range expressions of AddField / AddFieldParallel / AddFieldParallel2
// (chunk range of the padded domain, clamped start / end of each block, loop bounds of addFloat1Range /
// calcFloat1Range / the merge loop of AddFieldParallel2, the argument order of the sample call).
//
// Anything that does not have the shape understood here is an error (non-zero exit): a broken obligation.
package main

import (
	"fmt"
	"go/ast"
	"go/parser"
	"go/token"
	"os"
	"path/filepath"
	"sort"
	"strings"
)

func init() { modes["c10.partition"] = c10Partition }

type c10Env map[string]string // Go identifier -> Lean text

type c10Def struct {
	name   string
	params string // Lean binder list e.g. "(n size i : Int)"
	typ    string
	body   string
	src    string // source position comment
}

type c10Out struct {
	fset  *token.FileSet
	lines []string
}

func (o *c10Out) p(format string, a ...any) { o.lines = append(o.lines, fmt.Sprintf(format, a...)) }

func c10err(fset *token.FileSet, n ast.Node, format string, a ...any) error {
	return fmt.Errorf("%s: %s", fset.Position(n.Pos()), fmt.Sprintf(format, a...))
}

// ---- expression printer ------------------------------------------------------------------------------

func c10IsCall(e ast.Expr, pkg, fn string) (*ast.CallExpr, bool) {
	c, ok := e.(*ast.CallExpr)
	if !ok {
		return nil, false
	}
	if pkg == "" {
		id, ok := c.Fun.(*ast.Ident)
		return c, ok && id.Name == fn
	}
	s, ok := c.Fun.(*ast.SelectorExpr)
	if !ok {
		return nil, false
	}
	x, ok := s.X.(*ast.Ident)
	return c, ok && x.Name == pkg && s.Sel.Name == fn
}

// c10Expr prints an int-valued Go expression as a Lean Int term.
// env maps identifiers; calls maps printed-call keys ("len(data)", "m.PrimitiveCount()") to Lean text.
func c10Expr(fset *token.FileSet, e ast.Expr, env c10Env) (string, error) {
	switch x := e.(type) {
	case *ast.ParenExpr:
		return c10Expr(fset, x.X, env)
	case *ast.BasicLit:
		if x.Kind != token.INT {
			return "", c10err(fset, e, "non-integer literal %s", x.Value)
		}
		return x.Value, nil
	case *ast.Ident:
		if t, ok := env[x.Name]; ok {
			return t, nil
		}
		return "", c10err(fset, e, "identifier %q has no integer meaning here", x.Name)
	case *ast.SelectorExpr:
		key := c10Key(x)
		if t, ok := env[key]; ok {
			return t, nil
		}
		return "", c10err(fset, e, "selector %q has no integer meaning here", key)
	case *ast.UnaryExpr:
		if x.Op == token.SUB {
			a, err := c10Expr(fset, x.X, env)
			if err != nil {
				return "", err
			}
			return "(-" + a + ")", nil
		}
		return "", c10err(fset, e, "unary operator %s", x.Op)
	case *ast.BinaryExpr:
		a, err := c10Expr(fset, x.X, env)
		if err != nil {
			return "", err
		}
		b, err := c10Expr(fset, x.Y, env)
		if err != nil {
			return "", err
		}
		switch x.Op {
		case token.ADD:
			return "(" + a + " + " + b + ")", nil
		case token.SUB:
			return "(" + a + " - " + b + ")", nil
		case token.MUL:
			return "(" + a + " * " + b + ")", nil
		case token.QUO:
			return "(Int.tdiv " + a + " " + b + ")", nil
		}
		return "", c10err(fset, e, "binary operator %s in integer expression", x.Op)
	case *ast.CallExpr:
		// int(math.Floor(float64(A) / float64(B)))  and  int(math.Floor(float64(A) / CONST))
		if c, ok := c10IsCall(e, "", "int"); ok && len(c.Args) == 1 {
			if fl, ok := c10IsCall(c.Args[0], "math", "Floor"); ok && len(fl.Args) == 1 {
				if q, ok := fl.Args[0].(*ast.BinaryExpr); ok && q.Op == token.QUO {
					num, ok1 := c10IsCall(q.X, "", "float64")
					if ok1 && len(num.Args) == 1 {
						a, err := c10Expr(fset, num.Args[0], env)
						if err != nil {
							return "", err
						}
						var b string
						if den, ok2 := c10IsCall(q.Y, "", "float64"); ok2 && len(den.Args) == 1 {
							b, err = c10Expr(fset, den.Args[0], env)
						} else {
							b, err = c10Expr(fset, q.Y, env) // untyped integer constant
						}
						if err != nil {
							return "", err
						}
						return "(Int.fdiv " + a + " " + b + ")", nil
					}
				}
			}
			return "", c10err(fset, e, "int(...) conversion of an unsupported expression")
		}
		key := c10Key(e)
		if t, ok := env[key]; ok {
			return t, nil
		}
		if id, ok := x.Fun.(*ast.Ident); ok {
			if fn, ok := env["fn:"+id.Name]; ok {
				parts := []string{fn}
				for _, a := range x.Args {
					t, err := c10Expr(fset, a, env)
					if err != nil {
						return "", err
					}
					parts = append(parts, t)
				}
				return "(" + strings.Join(parts, " ") + ")", nil
			}
		}
		return "", c10err(fset, e, "call %s has no integer meaning here", key)
	}
	return "", c10err(fset, e, "unsupported expression %T", e)
}

// c10Key prints a small expression canonically (for lookups like len(data), m.PrimitiveCount(), min.X).
func c10Key(e ast.Expr) string {
	switch x := e.(type) {
	case *ast.Ident:
		return x.Name
	case *ast.SelectorExpr:
		return c10Key(x.X) + "." + x.Sel.Name
	case *ast.CallExpr:
		parts := []string{}
		for _, a := range x.Args {
			parts = append(parts, c10Key(a))
		}
		return c10Key(x.Fun) + "(" + strings.Join(parts, ",") + ")"
	case *ast.IndexExpr:
		return c10Key(x.X) + "[" + c10Key(x.Index) + "]"
	case *ast.ParenExpr:
		return c10Key(x.X)
	case *ast.BasicLit:
		return x.Value
	case *ast.StarExpr:
		return "*" + c10Key(x.X)
	case *ast.UnaryExpr:
		return x.Op.String() + c10Key(x.X)
	case *ast.BinaryExpr:
		return "(" + c10Key(x.X) + x.Op.String() + c10Key(x.Y) + ")"
	}
	return fmt.Sprintf("<%T>", e)
}

// c10Cond prints a comparison of int expressions as a decidable Lean Prop.
func c10Cond(fset *token.FileSet, e ast.Expr, env c10Env) (string, error) {
	b, ok := e.(*ast.BinaryExpr)
	if !ok {
		return "", c10err(fset, e, "unsupported condition")
	}
	ops := map[token.Token]string{token.EQL: "=", token.LSS: "<", token.LEQ: "≤", token.GTR: ">", token.GEQ: "≥", token.NEQ: "≠"}
	op, ok := ops[b.Op]
	if !ok {
		return "", c10err(fset, e, "unsupported comparison %s", b.Op)
	}
	l, err := c10Expr(fset, b.X, env)
	if err != nil {
		return "", err
	}
	r, err := c10Expr(fset, b.Y, env)
	if err != nil {
		return "", err
	}
	return l + " " + op + " " + r, nil
}

// ---- loop shapes ----------------------------------------------------------------------------------------

// c10CountLoop recognises `for v := LO; v < HI; v++ { body }` and returns v, LO, HI (AST).
func c10CountLoop(fset *token.FileSet, st ast.Stmt) (v string, lo, hi ast.Expr, body *ast.BlockStmt, err error) {
	f, ok := st.(*ast.ForStmt)
	if !ok {
		return "", nil, nil, nil, c10err(fset, st, "expected a counting for loop")
	}
	in, ok := f.Init.(*ast.AssignStmt)
	if !ok || in.Tok != token.DEFINE || len(in.Lhs) != 1 || len(in.Rhs) != 1 {
		return "", nil, nil, nil, c10err(fset, st, "loop init is not `v := expr`")
	}
	id, ok := in.Lhs[0].(*ast.Ident)
	if !ok {
		return "", nil, nil, nil, c10err(fset, st, "loop variable is not an identifier")
	}
	c, ok := f.Cond.(*ast.BinaryExpr)
	if !ok || c.Op != token.LSS {
		return "", nil, nil, nil, c10err(fset, st, "loop condition is not `v < expr` (only strict upper bounds are understood)")
	}
	if cv, ok := c.X.(*ast.Ident); !ok || cv.Name != id.Name {
		return "", nil, nil, nil, c10err(fset, st, "loop condition does not test the loop variable")
	}
	p, ok := f.Post.(*ast.IncDecStmt)
	if !ok || p.Tok != token.INC {
		return "", nil, nil, nil, c10err(fset, st, "loop post statement is not `v++`")
	}
	if pv, ok := p.X.(*ast.Ident); !ok || pv.Name != id.Name {
		return "", nil, nil, nil, c10err(fset, st, "loop post statement does not increment the loop variable")
	}
	return id.Name, in.Rhs[0], c.Y, f.Body, nil
}

func c10IsMethodCallStmt(st ast.Stmt, recv, name string) bool {
	es, ok := st.(*ast.ExprStmt)
	if !ok {
		return false
	}
	_, ok = c10IsCall(es.X, recv, name)
	return ok
}

func c10IsPanicBlock(b *ast.BlockStmt) bool {
	if len(b.List) != 1 {
		return false
	}
	es, ok := b.List[0].(*ast.ExprStmt)
	if !ok {
		return false
	}
	_, ok = c10IsCall(es.X, "", "panic")
	return ok
}

// ---- mesh.go: *ParallelWithPoolSize -----------------------------------------------------------------

type c10Method struct {
	name      string
	kind      string // scanattr | modifyattr | scanprim
	seq       string
	panicCond string
	seqCond   string
	guards    []string // "panic" / "sequential" in source order
	guardTopo []string // topologies let through by a `switch m.topology { case …: default: panic }` before the workers start
	defs      []c10Def
	workers   string
	goArgs    [2]string
	// attribute kinds
	loopLo, loopHi, cbIndex, readIndex, writeIndex string
	pnames                                         [2]string // names of the go-func parameters
	// scanprim
	cases []c10Case
}

type c10Case struct {
	topo, helper string
	args         [2]string
}

type c10Helper struct {
	name                             string
	pnames                           [2]string
	loopLo, loopHi, cbIndex, primIdx string
	primKind                         string
}

func c10MeshMethods(fset *token.FileSet, file *ast.File) map[string]*ast.FuncDecl {
	out := map[string]*ast.FuncDecl{}
	for _, d := range file.Decls {
		fd, ok := d.(*ast.FuncDecl)
		if !ok || fd.Recv == nil || len(fd.Recv.List) != 1 || fd.Body == nil {
			continue
		}
		t := fd.Recv.List[0].Type
		if s, ok := t.(*ast.StarExpr); ok {
			t = s.X
		}
		if id, ok := t.(*ast.Ident); ok && (id.Name == "Mesh" || id.Name == "MarchingCanvas") {
			out[fd.Name.Name] = fd
		}
	}
	return out
}

func c10RecvName(fd *ast.FuncDecl) string {
	if len(fd.Recv.List[0].Names) == 1 {
		return fd.Recv.List[0].Names[0].Name
	}
	return "_"
}

func c10IntParams(fd *ast.FuncType) []string {
	var out []string
	for _, f := range fd.Params.List {
		if id, ok := f.Type.(*ast.Ident); ok && id.Name == "int" {
			for _, n := range f.Names {
				out = append(out, n.Name)
			}
		}
	}
	return out
}

func c10ExtractMethod(fset *token.FileSet, fd *ast.FuncDecl, all map[string]*ast.FuncDecl) (*c10Method, error) {
	m := &c10Method{name: fd.Name.Name}
	recv := c10RecvName(fd)
	ips := c10IntParams(fd.Type)
	if len(ips) != 1 {
		return nil, c10err(fset, fd, "%s: expected exactly one int parameter (the pool size), found %v", m.name, ips)
	}
	sizeP := ips[0]
	env := c10Env{sizeP: "size"}
	dataVars := map[string]bool{}
	outVar := ""
	sawLoop, sawWait, sawReturn := false, false, false
	for _, st := range fd.Body.List {
		switch s := st.(type) {
		case *ast.ExprStmt:
			c, ok := s.X.(*ast.CallExpr)
			if !ok {
				return nil, c10err(fset, st, "%s: unexpected expression statement", m.name)
			}
			k := c10Key(c.Fun)
			switch {
			case strings.HasPrefix(k, recv+".requireV") && strings.HasSuffix(k, "Attribute"):
			case k == "wg.Wait":
				if !sawLoop {
					return nil, c10err(fset, st, "%s: wg.Wait() before the worker loop", m.name)
				}
				sawWait = true
			default:
				return nil, c10err(fset, st, "%s: unexpected call %s", m.name, k)
			}
		case *ast.IfStmt:
			if s.Init != nil || s.Else != nil {
				return nil, c10err(fset, st, "%s: if with init/else", m.name)
			}
			if sawLoop {
				return nil, c10err(fset, st, "%s: guard after the worker loop", m.name)
			}
			cond, err := c10Cond(fset, s.Cond, env)
			if err != nil {
				return nil, err
			}
			if c10IsPanicBlock(s.Body) {
				if m.panicCond != "" {
					return nil, c10err(fset, st, "%s: second panic guard", m.name)
				}
				m.panicCond = cond
				m.guards = append(m.guards, "panic")
				continue
			}
			if len(s.Body.List) == 1 {
				if r, ok := s.Body.List[0].(*ast.ReturnStmt); ok && len(r.Results) == 1 {
					if c, ok := r.Results[0].(*ast.CallExpr); ok {
						if sel, ok := c.Fun.(*ast.SelectorExpr); ok && c10Key(sel.X) == recv {
							if m.seq != "" {
								return nil, c10err(fset, st, "%s: second early return", m.name)
							}
							m.seq, m.seqCond = sel.Sel.Name, cond
							m.guards = append(m.guards, "sequential")
							continue
						}
					}
				}
			}
			return nil, c10err(fset, st, "%s: if statement of unknown shape", m.name)
		case *ast.DeclStmt:
			if c10Key2(s) != "var wg sync.WaitGroup" {
				return nil, c10err(fset, st, "%s: unexpected declaration", m.name)
			}
		case *ast.AssignStmt:
			if s.Tok != token.DEFINE || len(s.Lhs) != 1 || len(s.Rhs) != 1 {
				return nil, c10err(fset, st, "%s: unexpected assignment", m.name)
			}
			if sawLoop {
				return nil, c10err(fset, st, "%s: assignment after the worker loop", m.name)
			}
			lhs := s.Lhs[0].(*ast.Ident).Name
			rk := c10Key(s.Rhs[0])
			switch {
			case rk == recv+".PrimitiveCount()":
				env[lhs] = "n"
			case strings.HasPrefix(rk, recv+".v") && strings.Contains(rk, "Data["):
				dataVars[lhs] = true
				env["len("+lhs+")"] = "n"
			case strings.HasPrefix(rk, "make("):
				c := s.Rhs[0].(*ast.CallExpr)
				if len(c.Args) != 2 {
					return nil, c10err(fset, st, "%s: make with capacity", m.name)
				}
				l, err := c10Expr(fset, c.Args[1], env)
				if err != nil {
					return nil, err
				}
				if l != "n" {
					return nil, c10err(fset, st, "%s: output array length is %s, not the input length", m.name, l)
				}
				outVar = lhs
			default:
				body, err := c10Expr(fset, s.Rhs[0], env)
				if err != nil {
					return nil, err
				}
				m.defs = append(m.defs, c10Def{name: lhs, params: "(n size : Int)", typ: "Int", body: body, src: fset.Position(st.Pos()).String()})
				env[lhs] = "(" + lhs + " n size)"
			}
		case *ast.SwitchStmt:
			// `switch m.topology { case A, B, C: default: panic(…) }` before the workers start: unsupported topologies are
			// rejected in the caller's goroutine
			if sawLoop || s.Init != nil || c10Key(s.Tag) != recv+".topology" || len(s.Body.List) != 2 || m.guardTopo != nil {
				return nil, c10err(fset, st, "%s: switch of unknown shape", m.name)
			}
			for _, cl := range s.Body.List {
				cc := cl.(*ast.CaseClause)
				if cc.List == nil {
					if !c10IsPanicBlock(&ast.BlockStmt{List: cc.Body}) {
						return nil, c10err(fset, cc, "%s: default of the topology guard does not panic", m.name)
					}
					continue
				}
				if len(cc.Body) != 0 {
					return nil, c10err(fset, cc, "%s: topology guard case has a body", m.name)
				}
				for _, t := range cc.List {
					m.guardTopo = append(m.guardTopo, c10Key(t))
				}
			}
			if len(m.guardTopo) == 0 {
				return nil, c10err(fset, st, "%s: topology guard lets nothing through", m.name)
			}
		case *ast.ForStmt:
			if sawLoop {
				return nil, c10err(fset, st, "%s: second loop", m.name)
			}
			sawLoop = true
			if err := c10WorkerLoop(fset, m, st, env, recv, dataVars, outVar, all); err != nil {
				return nil, err
			}
		case *ast.ReturnStmt:
			if !sawWait {
				return nil, c10err(fset, st, "%s: return before wg.Wait()", m.name)
			}
			sawReturn = true
			if len(s.Results) != 1 {
				return nil, c10err(fset, st, "%s: return arity", m.name)
			}
			rk := c10Key(s.Results[0])
			if m.kind == "modifyattr" {
				if !(strings.HasPrefix(rk, recv+".SetFloat") && strings.HasSuffix(rk, ","+outVar+")")) {
					return nil, c10err(fset, st, "%s: does not return the mesh with the modified array (%s)", m.name, rk)
				}
			} else if rk != recv {
				return nil, c10err(fset, st, "%s: scan does not return the receiver (%s)", m.name, rk)
			}
		default:
			return nil, c10err(fset, st, "%s: unexpected statement %T", m.name, st)
		}
	}
	if !sawLoop || !sawWait || !sawReturn {
		return nil, c10err(fset, fd, "%s: missing worker loop / wg.Wait() / return", m.name)
	}
	if m.panicCond == "" || m.seq == "" {
		return nil, c10err(fset, fd, "%s: missing pool-size guard or sequential delegation", m.name)
	}
	return m, nil
}

func c10Key2(s *ast.DeclStmt) string {
	g, ok := s.Decl.(*ast.GenDecl)
	if !ok || g.Tok != token.VAR || len(g.Specs) != 1 {
		return "?"
	}
	v := g.Specs[0].(*ast.ValueSpec)
	if len(v.Names) != 1 || v.Type == nil || len(v.Values) != 0 {
		return "?"
	}
	return "var " + v.Names[0].Name + " " + c10Key(v.Type)
}

func c10WorkerLoop(fset *token.FileSet, m *c10Method, st ast.Stmt, outer c10Env, recv string, dataVars map[string]bool, outVar string, all map[string]*ast.FuncDecl) error {
	iv, lo, hi, body, err := c10CountLoop(fset, st)
	if err != nil {
		return err
	}
	if c10Key(lo) != "0" {
		return c10err(fset, st, "%s: worker loop does not start at 0", m.name)
	}
	if m.workers, err = c10Expr(fset, hi, outer); err != nil {
		return err
	}
	env := c10Env{}
	for k, v := range outer {
		env[k] = v
	}
	env[iv] = "i"
	locals := map[string]string{} // loop-local name -> current Lean body
	order := []string{}
	sawGo := false
	for _, bs := range body.List {
		if sawGo {
			return c10err(fset, bs, "%s: statement after the go statement in the worker loop", m.name)
		}
		switch s := bs.(type) {
		case *ast.ExprStmt:
			if c10Key(s.X) != "wg.Add(1)" {
				return c10err(fset, bs, "%s: unexpected call in worker loop: %s", m.name, c10Key(s.X))
			}
		case *ast.AssignStmt:
			if s.Tok != token.DEFINE || len(s.Lhs) != 1 || len(s.Rhs) != 1 {
				return c10err(fset, bs, "%s: unexpected assignment in worker loop", m.name)
			}
			name := s.Lhs[0].(*ast.Ident).Name
			b, err := c10Expr(fset, s.Rhs[0], c10WithLocals(env, locals))
			if err != nil {
				return err
			}
			locals[name] = b
			order = append(order, name)
		case *ast.IfStmt:
			if s.Init != nil || s.Else != nil || len(s.Body.List) != 1 {
				return c10err(fset, bs, "%s: if of unknown shape in worker loop", m.name)
			}
			as, ok := s.Body.List[0].(*ast.AssignStmt)
			if !ok || as.Tok != token.ASSIGN || len(as.Lhs) != 1 || len(as.Rhs) != 1 {
				return c10err(fset, bs, "%s: if body is not a single assignment", m.name)
			}
			name := c10Key(as.Lhs[0])
			old, ok := locals[name]
			if !ok {
				return c10err(fset, bs, "%s: conditional assignment to %s which is not a loop-local", m.name, name)
			}
			le := c10WithLocals(env, locals)
			cond, err := c10Cond(fset, s.Cond, le)
			if err != nil {
				return err
			}
			nb, err := c10Expr(fset, as.Rhs[0], le)
			if err != nil {
				return err
			}
			locals[name] = "(if " + cond + " then " + nb + " else " + old + ")"
		case *ast.GoStmt:
			sawGo = true
			le := c10WithLocals(env, locals)
			fl, ok := s.Call.Fun.(*ast.FuncLit)
			if !ok {
				return c10err(fset, bs, "%s: go statement does not call a function literal", m.name)
			}
			ps := c10IntParams(fl.Type)
			if len(ps) != 2 || len(s.Call.Args) != 2 || fl.Type.Params.NumFields() != 2 {
				return c10err(fset, bs, "%s: worker is not func(start, size int)", m.name)
			}
			m.pnames = [2]string{ps[0], ps[1]}
			for k := 0; k < 2; k++ {
				a, err := c10Expr(fset, s.Call.Args[k], le)
				if err != nil {
					return err
				}
				m.goArgs[k] = a
			}
			if err := c10WorkerBody(fset, m, fl, recv, dataVars, outVar, all); err != nil {
				return err
			}
		default:
			return c10err(fset, bs, "%s: unexpected statement %T in worker loop", m.name, bs)
		}
	}
	if !sawGo {
		return c10err(fset, st, "%s: worker loop has no go statement", m.name)
	}
	// loop-locals become definitions of (n size i); the go arguments refer to them by value (already inlined)
	for _, name := range order {
		m.defs = append(m.defs, c10Def{name: name, params: "(n size i : Int)", typ: "Int", body: locals[name], src: fset.Position(st.Pos()).String()})
	}
	return nil
}

func c10WithLocals(env c10Env, locals map[string]string) c10Env {
	e := c10Env{}
	for k, v := range env {
		e[k] = v
	}
	for k, v := range locals {
		e[k] = v
	}
	return e
}

func c10WorkerBody(fset *token.FileSet, m *c10Method, fl *ast.FuncLit, recv string, dataVars map[string]bool, outVar string, all map[string]*ast.FuncDecl) error {
	env := c10Env{m.pnames[0]: "start", m.pnames[1]: "size"}
	done := false
	for _, st := range fl.Body.List {
		if done {
			return c10err(fset, st, "%s: statement after the work of the worker", m.name)
		}
		switch s := st.(type) {
		case *ast.DeferStmt:
			if c10Key(s.Call) != "wg.Done()" {
				return c10err(fset, st, "%s: unexpected defer", m.name)
			}
		case *ast.AssignStmt:
			if s.Tok != token.DEFINE || len(s.Lhs) != 1 || len(s.Rhs) != 1 {
				return c10err(fset, st, "%s: unexpected assignment in worker", m.name)
			}
			b, err := c10Expr(fset, s.Rhs[0], env)
			if err != nil {
				return err
			}
			env[s.Lhs[0].(*ast.Ident).Name] = b
		case *ast.ForStmt:
			done = true
			iv, lo, hi, body, err := c10CountLoop(fset, st)
			if err != nil {
				return err
			}
			if m.loopLo, err = c10Expr(fset, lo, env); err != nil {
				return err
			}
			if m.loopHi, err = c10Expr(fset, hi, env); err != nil {
				return err
			}
			if len(body.List) != 1 {
				return c10err(fset, st, "%s: worker loop body is not a single statement", m.name)
			}
			ie := c10Env{iv: "i"}
			var call ast.Expr
			switch b := body.List[0].(type) {
			case *ast.ExprStmt:
				m.kind = "scanattr"
				call = b.X
			case *ast.AssignStmt:
				m.kind = "modifyattr"
				if b.Tok != token.ASSIGN || len(b.Lhs) != 1 || len(b.Rhs) != 1 {
					return c10err(fset, st, "%s: worker store of unknown shape", m.name)
				}
				ix, ok := b.Lhs[0].(*ast.IndexExpr)
				if !ok || c10Key(ix.X) != outVar || outVar == "" {
					return c10err(fset, st, "%s: worker stores to something other than the fresh output array", m.name)
				}
				if m.writeIndex, err = c10Expr(fset, ix.Index, ie); err != nil {
					return err
				}
				call = b.Rhs[0]
			default:
				return c10err(fset, st, "%s: worker loop body of unknown shape", m.name)
			}
			c, ok := call.(*ast.CallExpr)
			if !ok || len(c.Args) != 2 {
				return c10err(fset, st, "%s: worker does not call the callback with (index, value)", m.name)
			}
			if _, ok := c.Fun.(*ast.Ident); !ok {
				return c10err(fset, st, "%s: callback is not a plain identifier", m.name)
			}
			if m.cbIndex, err = c10Expr(fset, c.Args[0], ie); err != nil {
				return err
			}
			rd, ok := c.Args[1].(*ast.IndexExpr)
			if !ok || !dataVars[c10Key(rd.X)] {
				return c10err(fset, st, "%s: callback value is not an element of the attribute array", m.name)
			}
			if m.readIndex, err = c10Expr(fset, rd.Index, ie); err != nil {
				return err
			}
		case *ast.SwitchStmt:
			done = true
			m.kind = "scanprim"
			if s.Init != nil || c10Key(s.Tag) != recv+".topology" {
				return c10err(fset, st, "%s: switch is not on the mesh topology", m.name)
			}
			cs, err := c10TopoSwitch(fset, s, recv, env, m.name)
			if err != nil {
				return err
			}
			m.cases = cs
		default:
			return c10err(fset, st, "%s: unexpected statement %T in worker", m.name, st)
		}
	}
	if !done {
		return c10err(fset, fl, "%s: worker does no work", m.name)
	}
	return nil
}

// c10TopoSwitch reads `switch m.topology { case T: m.helper(A, B, f) ... default: panic(...) }`.
func c10TopoSwitch(fset *token.FileSet, s *ast.SwitchStmt, recv string, env c10Env, who string) ([]c10Case, error) {
	var out []c10Case
	sawDefault := false
	for _, cl := range s.Body.List {
		cc := cl.(*ast.CaseClause)
		if cc.List == nil {
			if !c10IsPanicBlock(&ast.BlockStmt{List: cc.Body}) {
				return nil, c10err(fset, cc, "%s: default case does not panic", who)
			}
			sawDefault = true
			continue
		}
		if len(cc.List) != 1 || len(cc.Body) != 1 {
			return nil, c10err(fset, cc, "%s: case of unknown shape", who)
		}
		es, ok := cc.Body[0].(*ast.ExprStmt)
		if !ok {
			return nil, c10err(fset, cc, "%s: case body is not a call", who)
		}
		c, ok := es.X.(*ast.CallExpr)
		if !ok || len(c.Args) != 3 {
			return nil, c10err(fset, cc, "%s: case body is not helper(start, size, f)", who)
		}
		sel, ok := c.Fun.(*ast.SelectorExpr)
		if !ok || c10Key(sel.X) != recv {
			return nil, c10err(fset, cc, "%s: case calls something that is not a mesh method", who)
		}
		var k c10Case
		k.topo, k.helper = c10Key(cc.List[0]), sel.Sel.Name
		for j := 0; j < 2; j++ {
			a, err := c10Expr(fset, c.Args[j], env)
			if err != nil {
				return nil, err
			}
			k.args[j] = a
		}
		out = append(out, k)
	}
	if !sawDefault || len(out) == 0 {
		return nil, c10err(fset, s, "%s: topology switch without cases or without panicking default", who)
	}
	return out, nil
}

func c10ExtractHelper(fset *token.FileSet, fd *ast.FuncDecl) (*c10Helper, error) {
	h := &c10Helper{name: fd.Name.Name}
	recv := c10RecvName(fd)
	ps := c10IntParams(fd.Type)
	if len(ps) != 2 {
		return nil, c10err(fset, fd, "%s: expected (start, size int, f)", h.name)
	}
	h.pnames = [2]string{ps[0], ps[1]}
	env := c10Env{ps[0]: "start", ps[1]: "size"}
	if len(fd.Body.List) != 1 {
		return nil, c10err(fset, fd, "%s: body is not a single loop", h.name)
	}
	iv, lo, hi, body, err := c10CountLoop(fset, fd.Body.List[0])
	if err != nil {
		return nil, err
	}
	if h.loopLo, err = c10Expr(fset, lo, env); err != nil {
		return nil, err
	}
	if h.loopHi, err = c10Expr(fset, hi, env); err != nil {
		return nil, err
	}
	if len(body.List) != 1 {
		return nil, c10err(fset, fd, "%s: loop body is not a single callback call", h.name)
	}
	es, ok := body.List[0].(*ast.ExprStmt)
	if !ok {
		return nil, c10err(fset, fd, "%s: loop body is not a call", h.name)
	}
	c, ok := es.X.(*ast.CallExpr)
	if !ok || len(c.Args) != 2 {
		return nil, c10err(fset, fd, "%s: callback not called with (index, primitive)", h.name)
	}
	ie := c10Env{iv: "i"}
	if h.cbIndex, err = c10Expr(fset, c.Args[0], ie); err != nil {
		return nil, err
	}
	// primitive: m.Tri(E) | &Point{mesh:&m, index:E} | &Line{mesh:&m, startingIndex:E}
	switch p := c.Args[1].(type) {
	case *ast.CallExpr:
		sel, ok := p.Fun.(*ast.SelectorExpr)
		if !ok || c10Key(sel.X) != recv || len(p.Args) != 1 {
			return nil, c10err(fset, fd, "%s: primitive constructor of unknown shape", h.name)
		}
		h.primKind = sel.Sel.Name
		if h.primIdx, err = c10Expr(fset, p.Args[0], ie); err != nil {
			return nil, err
		}
	case *ast.UnaryExpr:
		cl, ok := p.X.(*ast.CompositeLit)
		if !ok || p.Op != token.AND {
			return nil, c10err(fset, fd, "%s: primitive of unknown shape", h.name)
		}
		h.primKind = c10Key(cl.Type)
		found := false
		for _, el := range cl.Elts {
			kv, ok := el.(*ast.KeyValueExpr)
			if !ok {
				return nil, c10err(fset, fd, "%s: positional primitive literal", h.name)
			}
			switch c10Key(kv.Key) {
			case "mesh":
				if c10Key(kv.Value) != "&"+recv {
					return nil, c10err(fset, fd, "%s: primitive refers to another mesh", h.name)
				}
			case "index", "startingIndex":
				if h.primIdx, err = c10Expr(fset, kv.Value, ie); err != nil {
					return nil, err
				}
				found = true
			default:
				return nil, c10err(fset, fd, "%s: unknown primitive field %s", h.name, c10Key(kv.Key))
			}
		}
		if !found {
			return nil, c10err(fset, fd, "%s: primitive literal has no index", h.name)
		}
	default:
		return nil, c10err(fset, fd, "%s: primitive of unknown shape", h.name)
	}
	return h, nil
}

// c10SeqAttr checks the sequential counterpart `for i, v := range data { f(i, v) }` / `{ out[i] = f(i, v) }`.
func c10SeqAttr(fset *token.FileSet, fd *ast.FuncDecl, modify bool) error {
	var rs *ast.RangeStmt
	n := 0
	for _, st := range fd.Body.List {
		if r, ok := st.(*ast.RangeStmt); ok {
			rs = r
			n++
		}
		if _, ok := st.(*ast.ForStmt); ok {
			n += 2
		}
	}
	if rs == nil || n != 1 {
		return c10err(fset, fd, "%s: sequential counterpart is not a single range loop", fd.Name.Name)
	}
	k, kok := rs.Key.(*ast.Ident)
	v, vok := rs.Value.(*ast.Ident)
	if !kok || !vok || len(rs.Body.List) != 1 {
		return c10err(fset, fd, "%s: range loop of unknown shape", fd.Name.Name)
	}
	var call ast.Expr
	switch b := rs.Body.List[0].(type) {
	case *ast.ExprStmt:
		if modify {
			return c10err(fset, fd, "%s: modify counterpart does not store", fd.Name.Name)
		}
		call = b.X
	case *ast.AssignStmt:
		if !modify || len(b.Lhs) != 1 || len(b.Rhs) != 1 {
			return c10err(fset, fd, "%s: scan counterpart stores", fd.Name.Name)
		}
		ix, ok := b.Lhs[0].(*ast.IndexExpr)
		if !ok || c10Key(ix.Index) != k.Name {
			return c10err(fset, fd, "%s: sequential store index is not the range key", fd.Name.Name)
		}
		call = b.Rhs[0]
	default:
		return c10err(fset, fd, "%s: range body of unknown shape", fd.Name.Name)
	}
	c, ok := call.(*ast.CallExpr)
	if !ok || len(c.Args) != 2 || c10Key(c.Args[0]) != k.Name || c10Key(c.Args[1]) != v.Name {
		return c10err(fset, fd, "%s: sequential callback is not f(i, v)", fd.Name.Name)
	}
	return nil
}

func c10Ident(s string) string {
	r := strings.NewReplacer(".", "_", "*", "", "&", "", "[", "_", "]", "", " ", "")
	return r.Replace(s)
}

func c10StrList(xs []string) string {
	q := make([]string, len(xs))
	for i, x := range xs {
		q[i] = fmt.Sprintf("%q", x)
	}
	return "[" + strings.Join(q, ", ") + "]"
}

func c10Partition(repo, out string, args []string) error {
	fset := token.NewFileSet()
	o := &c10Out{fset: fset}
	o.p("/- GENERATED by /verif/go/facts (mode c10.partition) from modeling/mesh.go and modeling/marching/canvas.go.")
	o.p("   Do not edit: regenerated from the working tree by ./check C10 before every build. -/")
	o.p("import PolyVerif.Model.Par")
	o.p("import PolyVerif.Model.ParChan")
	o.p("")
	o.p("set_option linter.unusedVariables false")
	o.p("")
	o.p("namespace PolyVerif.Gen.Partition")
	o.p("open PolyVerif.Par")
	o.p("")
	if err := c10Mesh(fset, o, filepath.Join(repo, "modeling", "mesh.go")); err != nil {
		return err
	}
	if err := c10Canvas(fset, o, filepath.Join(repo, "modeling", "marching", "canvas.go")); err != nil {
		return err
	}
	o.p("end PolyVerif.Gen.Partition")
	return os.WriteFile(out, []byte(strings.Join(o.lines, "\n")+"\n"), 0o644)
}

func c10Mesh(fset *token.FileSet, o *c10Out, path string) error {
	file, err := parser.ParseFile(fset, path, nil, 0)
	if err != nil {
		return err
	}
	all := c10MeshMethods(fset, file)
	var names []string
	for n := range all {
		if strings.HasSuffix(n, "ParallelWithPoolSize") {
			names = append(names, n)
		}
	}
	sort.Slice(names, func(i, j int) bool { return all[names[i]].Pos() < all[names[j]].Pos() })
	if len(names) == 0 {
		return fmt.Errorf("%s: no *ParallelWithPoolSize methods found", path)
	}
	// every other method whose name contains "Parallel" must be a one-line wrapper around a *WithPoolSize method
	for n, fd := range all {
		if strings.Contains(n, "Parallel") && !strings.HasSuffix(n, "ParallelWithPoolSize") {
			ok := false
			if len(fd.Body.List) == 1 {
				if r, isr := fd.Body.List[0].(*ast.ReturnStmt); isr && len(r.Results) == 1 {
					if c, isc := r.Results[0].(*ast.CallExpr); isc {
						if sel, iss := c.Fun.(*ast.SelectorExpr); iss && sel.Sel.Name == n+"WithPoolSize" && all[n+"WithPoolSize"] != nil {
							for _, a := range c.Args {
								if c10Key(a) == "runtime.NumCPU()" {
									ok = true
								}
							}
						}
					}
				}
			}
			if !ok {
				return c10err(fset, fd, "%s: parallel method that is not a wrapper `return m.%sWithPoolSize(..., runtime.NumCPU(), ...)`", n, n)
			}
		}
	}
	helpers := map[string]*c10Helper{}
	var helperOrder []string
	var specNames []string
	var methods []*c10Method
	for _, n := range names {
		m, err := c10ExtractMethod(fset, all[n], all)
		if err != nil {
			return err
		}
		methods = append(methods, m)
		seq := all[m.seq]
		if seq == nil {
			return c10err(fset, all[n], "%s: sequential counterpart %s not found", n, m.seq)
		}
		switch m.kind {
		case "scanattr":
			if err := c10SeqAttr(fset, seq, false); err != nil {
				return err
			}
		case "modifyattr":
			if err := c10SeqAttr(fset, seq, true); err != nil {
				return err
			}
		case "scanprim":
			for _, c := range m.cases {
				if helpers[c.helper] == nil {
					hfd := all[c.helper]
					if hfd == nil {
						return c10err(fset, all[n], "%s: helper %s not found", n, c.helper)
					}
					h, err := c10ExtractHelper(fset, hfd)
					if err != nil {
						return err
					}
					helpers[c.helper] = h
					helperOrder = append(helperOrder, c.helper)
				}
			}
		}
	}
	for _, hn := range helperOrder {
		h := helpers[hn]
		o.p("-- `%s(start, size, f)`: `for i := loopLo; i < loopHi; i++ { f(cbIndex i, %s(primIndex i)) }`", h.name, h.primKind)
		o.p("namespace %s", h.name)
		o.p("def loopLo (start size : Int) : Int := %s", h.loopLo)
		o.p("def loopHi (start size : Int) : Int := %s", h.loopHi)
		o.p("def cbIndex (i : Int) : Int := %s", h.cbIndex)
		o.p("def primIndex (i : Int) : Int := %s", h.primIdx)
		o.p("def primKind : String := %q", h.primKind)
		o.p("end %s", h.name)
		o.p("")
	}
	for _, m := range methods {
		o.p("-- `Mesh.%s` (%s)", m.name, m.kind)
		o.p("namespace %s", m.name)
		o.p("def kind : String := %q", m.kind)
		o.p("def seqCounterpart : String := %q", m.seq)
		o.p("/-- `if <cond> { panic }` -/")
		o.p("def panics (size : Int) : Prop := %s", m.panicCond)
		o.p("instance (size : Int) : Decidable (panics size) := by unfold panics; infer_instance")
		o.p("/-- `if <cond> { return m.%s(...) }` -/", m.seq)
		o.p("def delegates (size : Int) : Prop := %s", m.seqCond)
		o.p("instance (size : Int) : Decidable (delegates size) := by unfold delegates; infer_instance")
		o.p("/-- which branch of the method body runs for a pool size: the guards in SOURCE ORDER, then the worker loop -/")
		pathExpr := "Path.workers"
		for k := len(m.guards) - 1; k >= 0; k-- {
			if m.guards[k] == "panic" {
				pathExpr = "if panics size then Path.panic else " + pathExpr
			} else {
				pathExpr = "if delegates size then Path.sequential else " + pathExpr
			}
		}
		o.p("def path (size : Int) : Path := %s", pathExpr)
		for _, d := range m.defs {
			o.p("def %s %s : %s := %s", d.name, d.params, d.typ, d.body)
		}
		o.p("/-- `for i := 0; i < workers; i++` -/")
		o.p("def workers (n size : Int) : Int := %s", m.workers)
		o.p("/-- arguments of `go func(%s, %s int){…}(goStart, goSize)` -/", m.pnames[0], m.pnames[1])
		o.p("def goStart (n size i : Int) : Int := %s", m.goArgs[0])
		o.p("def goSize (n size i : Int) : Int := %s", m.goArgs[1])
		if m.kind == "scanprim" {
			var topos []string
			for _, c := range m.cases {
				topos = append(topos, c.topo)
				h := helpers[c.helper]
				o.p("/-- case %s: `m.%s(%s, %s, f)` -/", c.topo, c.helper, c.args[0], c.args[1])
				o.p("def spec_%s : PartSpec where", c.topo)
				o.p("  workers := workers")
				o.p("  goStart := goStart")
				o.p("  goSize := goSize")
				o.p("  loopLo := fun start size => %s.loopLo %s %s", h.name, c.args[0], c.args[1])
				o.p("  loopHi := fun start size => %s.loopHi %s %s", h.name, c.args[0], c.args[1])
				o.p("  cbIndex := %s.cbIndex", h.name)
				o.p("  readIndex := %s.primIndex", h.name)
				o.p("  writeIndex := none")
				specNames = append(specNames, m.name+"/"+c.topo+"|"+m.name+".spec_"+c.topo)
			}
			o.p("def topologies : List String := %s", c10StrList(topos))
			o.p("/-- topologies let through by the `switch m.topology { case …: default: panic }` BEFORE the workers start (none: no such guard) -/")
			o.p("def guardedTopologies : List String := %s", c10StrList(m.guardTopo))
		} else {
			o.p("def spec : PartSpec where")
			o.p("  workers := workers")
			o.p("  goStart := goStart")
			o.p("  goSize := goSize")
			o.p("  loopLo := fun start size => %s", m.loopLo)
			o.p("  loopHi := fun start size => %s", m.loopHi)
			o.p("  cbIndex := fun i => %s", m.cbIndex)
			o.p("  readIndex := fun i => %s", m.readIndex)
			if m.kind == "modifyattr" {
				o.p("  writeIndex := some (fun i => %s)", m.writeIndex)
			} else {
				o.p("  writeIndex := none")
			}
			specNames = append(specNames, m.name+"|"+m.name+".spec")
		}
		o.p("end %s", m.name)
		o.p("")
	}
	// sequential ScanPrimitives: switch on topology, helper(0, m.PrimitiveCount(), f)
	for _, m := range methods {
		if m.kind != "scanprim" {
			continue
		}
		seq := all[m.seq]
		recv := c10RecvName(seq)
		var sw *ast.SwitchStmt
		for _, st := range seq.Body.List {
			switch s := st.(type) {
			case *ast.SwitchStmt:
				if sw != nil {
					return c10err(fset, seq, "%s: two switches", m.seq)
				}
				sw = s
			case *ast.ReturnStmt:
				if len(s.Results) != 1 || c10Key(s.Results[0]) != recv {
					return c10err(fset, seq, "%s: does not return the receiver", m.seq)
				}
			default:
				return c10err(fset, st, "%s: unexpected statement %T", m.seq, st)
			}
		}
		if sw == nil || c10Key(sw.Tag) != recv+".topology" {
			return c10err(fset, seq, "%s: no switch on the topology", m.seq)
		}
		cs, err := c10TopoSwitch(fset, sw, recv, c10Env{recv + ".PrimitiveCount()": "n"}, m.seq)
		if err != nil {
			return err
		}
		o.p("-- sequential `Mesh.%s`: per topology the helper and its (start, size) arguments", m.seq)
		o.p("namespace %s", m.seq)
		var topos []string
		for _, c := range cs {
			topos = append(topos, c.topo)
			h := helpers[c.helper]
			if h == nil {
				return c10err(fset, seq, "%s: case %s calls %s which no parallel worker uses", m.seq, c.topo, c.helper)
			}
			// the parallel method must use the same helper for the same topology
			same := false
			for _, pc := range m.cases {
				if pc.topo == c.topo && pc.helper == c.helper {
					same = true
				}
			}
			if !same {
				return c10err(fset, seq, "%s: case %s uses helper %s, the parallel method does not", m.seq, c.topo, c.helper)
			}
			o.p("def lo_%s (n : Int) : Int := %s.loopLo %s %s", c.topo, h.name, c.args[0], c.args[1])
			o.p("def hi_%s (n : Int) : Int := %s.loopHi %s %s", c.topo, h.name, c.args[0], c.args[1])
			o.p("def cbIndex_%s : Int → Int := %s.cbIndex", c.topo, h.name)
		}
		o.p("def topologies : List String := %s", c10StrList(topos))
		o.p("end %s", m.seq)
		o.p("")
	}
	o.p("/-- control flow of every method: pool size ↦ branch taken -/")
	o.p("def paths : List (String × (Int → Path)) := [")
	for i, m := range methods {
		sep := ","
		if i == len(methods)-1 {
			sep = ""
		}
		o.p("  (%q, %s.path)%s", m.name, m.name, sep)
	}
	o.p("]")
	if err := c10PrimitiveCount(fset, o, file, all); err != nil {
		return err
	}
	o.p("/-- every `*ParallelWithPoolSize` method of Mesh, in source order -/")
	o.p("def methodNames : List String := %s", c10StrList(names))
	o.p("/-- lookup used by the driver: one partition spec per method (and per topology for the primitive scan) -/")
	o.p("def specs : List (String × PartSpec) := [")
	for i, s := range specNames {
		kv := strings.SplitN(s, "|", 2)
		sep := ","
		if i == len(specNames)-1 {
			sep = ""
		}
		o.p("  (%q, %s)%s", kv[0], kv[1], sep)
	}
	o.p("]")
	o.p("")
	return nil
}

// c10PrimitiveCount: `Mesh.PrimitiveCount()` per topology as a function of len(m.indices), with `Topology.IndexSize()`
// (modeling/topology.go) inlined per topology.  The element count `n` of the primitive scans is this value.
func c10PrimitiveCount(fset *token.FileSet, o *c10Out, file *ast.File, all map[string]*ast.FuncDecl) error {
	fd := all["PrimitiveCount"]
	if fd == nil {
		return fmt.Errorf("Mesh.PrimitiveCount not found")
	}
	recv := c10RecvName(fd)
	// IndexSize from topology.go (same directory)
	dir := filepath.Dir(fset.Position(file.Pos()).Filename)
	tf, err := parser.ParseFile(fset, filepath.Join(dir, "topology.go"), nil, 0)
	if err != nil {
		return err
	}
	var isz *ast.FuncDecl
	for _, d := range tf.Decls {
		if f, ok := d.(*ast.FuncDecl); ok && f.Name.Name == "IndexSize" && f.Recv != nil {
			isz = f
		}
	}
	if isz == nil {
		return fmt.Errorf("Topology.IndexSize not found")
	}
	sizes := map[string]string{}
	var sizeOrder []string
	if len(isz.Body.List) != 2 {
		return c10err(fset, isz, "IndexSize: body is not `switch …; panic`")
	}
	sw, ok := isz.Body.List[0].(*ast.SwitchStmt)
	if !ok || c10Key(sw.Tag) != c10RecvName(isz) {
		return c10err(fset, isz, "IndexSize: no switch on the receiver")
	}
	for _, cl := range sw.Body.List {
		cc := cl.(*ast.CaseClause)
		if cc.List == nil || len(cc.Body) != 1 {
			return c10err(fset, cc, "IndexSize: case of unknown shape")
		}
		r, ok := cc.Body[0].(*ast.ReturnStmt)
		if !ok || len(r.Results) != 1 {
			return c10err(fset, cc, "IndexSize: case does not return")
		}
		v, err := c10Expr(fset, r.Results[0], c10Env{})
		if err != nil {
			return err
		}
		for _, t := range cc.List {
			sizes[c10Key(t)] = v
			sizeOrder = append(sizeOrder, c10Key(t))
		}
	}
	if len(fd.Body.List) != 2 {
		return c10err(fset, fd, "PrimitiveCount: body is not `switch …; panic`")
	}
	sw, ok = fd.Body.List[0].(*ast.SwitchStmt)
	if !ok || c10Key(sw.Tag) != recv+".topology" {
		return c10err(fset, fd, "PrimitiveCount: no switch on the topology")
	}
	if es, ok := fd.Body.List[1].(*ast.ExprStmt); !ok || !strings.HasPrefix(c10Key(es.X), "panic(") {
		return c10err(fset, fd, "PrimitiveCount: does not end in panic")
	}
	o.p("-- `Mesh.PrimitiveCount()` per topology, as a function of `len(m.indices)`; `Topology.IndexSize()` inlined")
	o.p("namespace PrimitiveCount")
	var topos []string
	for _, cl := range sw.Body.List {
		cc := cl.(*ast.CaseClause)
		if cc.List == nil {
			return c10err(fset, cc, "PrimitiveCount: default case")
		}
		for _, t := range cc.List {
			topo := c10Key(t)
			sz, ok := sizes[topo]
			if !ok {
				return c10err(fset, cc, "PrimitiveCount: topology %s has no IndexSize", topo)
			}
			env := c10Env{"len(" + recv + ".indices)": "len", recv + ".topology.IndexSize()": sz}
			var body string
			switch len(cc.Body) {
			case 1:
				r, ok := cc.Body[0].(*ast.ReturnStmt)
				if !ok || len(r.Results) != 1 {
					return c10err(fset, cc, "PrimitiveCount: case of unknown shape")
				}
				if body, err = c10Expr(fset, r.Results[0], env); err != nil {
					return err
				}
			case 2:
				is, ok1 := cc.Body[0].(*ast.IfStmt)
				r2, ok2 := cc.Body[1].(*ast.ReturnStmt)
				if !ok1 || !ok2 || is.Init != nil || is.Else != nil || len(is.Body.List) != 1 || len(r2.Results) != 1 {
					return c10err(fset, cc, "PrimitiveCount: case of unknown shape")
				}
				r1, ok := is.Body.List[0].(*ast.ReturnStmt)
				if !ok || len(r1.Results) != 1 {
					return c10err(fset, cc, "PrimitiveCount: guarded case does not return")
				}
				cond, err := c10Cond(fset, is.Cond, env)
				if err != nil {
					return err
				}
				a, err := c10Expr(fset, r1.Results[0], env)
				if err != nil {
					return err
				}
				b, err := c10Expr(fset, r2.Results[0], env)
				if err != nil {
					return err
				}
				body = "if " + cond + " then " + a + " else " + b
			default:
				return c10err(fset, cc, "PrimitiveCount: case of unknown shape")
			}
			o.p("def indexSize_%s : Int := %s", topo, sz)
			o.p("def count_%s (len : Int) : Int := %s", topo, body)
			topos = append(topos, topo)
		}
	}
	o.p("def topologies : List String := %s", c10StrList(topos))
	o.p("end PrimitiveCount")
	o.p("")
	_ = sizeOrder
	return nil
}
