// Engine F, property C20: the geometric predicates, the super-triangle construction and the index patterns of
// modeling/triangulation/bowyer_watson.go, read from the current tree with go/parser + go/ast and written as Lean
// definitions / data (PolyVerif/Gen/DelaunaySrc.lean).  Props/C20Src.lean proves that the hand-written model
// (PolyVerif/Model/Delaunay.lean), about which every C20 theorem is stated, is EQUAL to what is extracted here, so a
// changed sign, swapped operand, comparison, constant or index pattern in the Go source breaks a named theorem.
//
// Extracted (a shape that is not the expected one is an error — the extractor never guesses):
//
//	Triangle.CounterClockwise   a,b,c := points[t[0..2]];  return <E> > 0        -> counterClockwiseExpr, counterClockwiseCmp
//	ccw(a, b, c)                return <E> > 0                                    -> ccwExpr, ccwCmp
//	Triangle.InsideCircumcircle a,b,c := points[t[0..2]]; lets; return det < 0    -> insideCircumcircleDet, insideCircumcircleCmp
//	SuperTriangle               min,max := ±Inf; range { min = …; max = … }; tail; return []{left, top, right}
//	                                                                              -> superInit, superStep, superTail
//	Triangle.Edges              []Edge{{t[i], t[j]}, …}                            -> edgesPattern
//	fillHole                    skip test, Triangle{…} default / when CounterClockwise -> fillHoleSkip, fillHoleDefault, fillHoleWhenCcw
//	containsSuperTriangleVertex superStart := len(points) - K; t[i] >= superStart  -> superStartOffset, superVertexTests
//	bowyerWatson                len(pointsDirty) < N panic; initial triangle; loop break -> minPointsGuard, initialTriangle, loopBreak
//	BowyerWatson                verts[i] = vector3.New(p.X(), 0, p.Y())           -> vertexCtor
package main

import (
	"fmt"
	"go/ast"
	"go/parser"
	"go/token"
	"os"
	"path/filepath"
	"strconv"
	"strings"
)

func init() { modes["c20.src"] = c20Src }

type c20P struct{ fset *token.FileSet }

func (p *c20P) at(n ast.Node) string { return fmt.Sprintf("bowyer_watson.go:%d", p.fset.Position(n.Pos()).Line) }

// expr prints a float64 / vector2 expression over the current let-environment.
func (p *c20P) expr(e ast.Expr) (string, error) {
	switch x := e.(type) {
	case *ast.ParenExpr:
		s, err := p.expr(x.X)
		return "(" + s + ")", err
	case *ast.Ident:
		return x.Name, nil
	case *ast.BasicLit:
		switch x.Kind {
		case token.INT:
			return fmt.Sprintf("((%s : Nat) : α)", x.Value), nil
		case token.FLOAT:
			f, err := strconv.ParseFloat(x.Value, 64)
			if err != nil || f != float64(int64(f)) || f < 0 {
				return "", fmt.Errorf("%s: float literal %s is not a natural number", p.at(x), x.Value)
			}
			return fmt.Sprintf("((%d : Nat) : α)", int64(f)), nil
		}
		return "", fmt.Errorf("%s: unsupported literal %s", p.at(x), x.Value)
	case *ast.BinaryExpr:
		op := ""
		switch x.Op {
		case token.ADD:
			op = "+"
		case token.SUB:
			op = "-"
		case token.MUL:
			op = "*"
		case token.QUO:
			op = "/"
		default:
			return "", fmt.Errorf("%s: unsupported operator %s", p.at(x), x.Op)
		}
		l, err := p.expr(x.X)
		if err != nil {
			return "", err
		}
		r, err := p.expr(x.Y)
		if err != nil {
			return "", err
		}
		return fmt.Sprintf("(%s %s %s)", l, op, r), nil
	case *ast.CallExpr:
		sel, ok := x.Fun.(*ast.SelectorExpr)
		if !ok {
			return "", fmt.Errorf("%s: unsupported call", p.at(x))
		}
		if pk, ok := sel.X.(*ast.Ident); ok && (pk.Name == "vector2" || pk.Name == "math") {
			args := []string{}
			for _, a := range x.Args {
				s, err := p.expr(a)
				if err != nil {
					return "", err
				}
				args = append(args, s)
			}
			switch pk.Name + "." + sel.Sel.Name {
			case "vector2.New":
				if len(args) == 2 {
					return fmt.Sprintf("((%s, %s) : α × α)", args[0], args[1]), nil
				}
			case "math.Min":
				if len(args) == 2 {
					return fmt.Sprintf("(goMin %s %s)", args[0], args[1]), nil
				}
			case "math.Max":
				if len(args) == 2 {
					return fmt.Sprintf("(goMax %s %s)", args[0], args[1]), nil
				}
			}
			return "", fmt.Errorf("%s: unsupported library call %s.%s/%d", p.at(x), pk.Name, sel.Sel.Name, len(args))
		}
		if len(x.Args) == 0 && (sel.Sel.Name == "X" || sel.Sel.Name == "Y") {
			r, err := p.expr(sel.X)
			if err != nil {
				return "", err
			}
			if sel.Sel.Name == "X" {
				return "(" + r + ").1", nil
			}
			return "(" + r + ").2", nil
		}
		return "", fmt.Errorf("%s: unsupported method %s", p.at(x), sel.Sel.Name)
	}
	return "", fmt.Errorf("%s: unsupported expression %T", p.at(e), e)
}

func c20Func(f *ast.File, recv, name string) *ast.FuncDecl {
	for _, d := range f.Decls {
		fd, ok := d.(*ast.FuncDecl)
		if !ok || fd.Name.Name != name {
			continue
		}
		if recv == "" && fd.Recv == nil {
			return fd
		}
		if recv != "" && fd.Recv != nil && len(fd.Recv.List) == 1 {
			if id, ok := fd.Recv.List[0].Type.(*ast.Ident); ok && id.Name == recv {
				return fd
			}
		}
	}
	return nil
}

// idx recognises `name[K]` and returns K.
func c20Idx(e ast.Expr, name string) (int, bool) {
	ix, ok := e.(*ast.IndexExpr)
	if !ok {
		return 0, false
	}
	id, ok := ix.X.(*ast.Ident)
	if !ok || id.Name != name {
		return 0, false
	}
	l, ok := ix.Index.(*ast.BasicLit)
	if !ok || l.Kind != token.INT {
		return 0, false
	}
	k, err := strconv.Atoi(l.Value)
	return k, err == nil
}

// pointOf recognises `points[t[K]]`.
func c20PointOf(e ast.Expr) (int, bool) {
	ix, ok := e.(*ast.IndexExpr)
	if !ok {
		return 0, false
	}
	id, ok := ix.X.(*ast.Ident)
	if !ok || id.Name != "points" {
		return 0, false
	}
	return c20Idx(ix.Index, "t")
}

// predicate body: optional `a/b/c := points[t[0/1/2]]`, then lets, then `return <E> <cmp> 0`.
func (p *c20P) predicate(fd *ast.FuncDecl, needBind bool) (lets []string, ret string, cmp string, err error) {
	want := map[string]int{"a": 0, "b": 1, "c": 2}
	seen := map[string]bool{}
	for _, st := range fd.Body.List {
		switch s := st.(type) {
		case *ast.AssignStmt:
			if s.Tok != token.DEFINE || len(s.Lhs) != 1 || len(s.Rhs) != 1 {
				return nil, "", "", fmt.Errorf("%s: unsupported assignment", p.at(s))
			}
			name := s.Lhs[0].(*ast.Ident).Name
			if k, ok := c20PointOf(s.Rhs[0]); ok {
				if w, ok2 := want[name]; !ok2 || w != k {
					return nil, "", "", fmt.Errorf("%s: %s := points[t[%d]] — expected a,b,c bound to corners 0,1,2", p.at(s), name, k)
				}
				seen[name] = true
				continue
			}
			e, err := p.expr(s.Rhs[0])
			if err != nil {
				return nil, "", "", err
			}
			lets = append(lets, fmt.Sprintf("let %s := %s", name, e))
		case *ast.ReturnStmt:
			if len(s.Results) != 1 {
				return nil, "", "", fmt.Errorf("%s: unsupported return", p.at(s))
			}
			b, ok := s.Results[0].(*ast.BinaryExpr)
			if !ok {
				return nil, "", "", fmt.Errorf("%s: return is not a comparison", p.at(s))
			}
			z, ok := b.Y.(*ast.BasicLit)
			if !ok || z.Value != "0" {
				return nil, "", "", fmt.Errorf("%s: comparison is not against the literal 0", p.at(s))
			}
			e, err := p.expr(b.X)
			if err != nil {
				return nil, "", "", err
			}
			if needBind && len(seen) != 3 {
				return nil, "", "", fmt.Errorf("%s: a, b, c are not all bound to points[t[k]]", p.at(s))
			}
			return lets, e, b.Op.String() + "0", nil
		default:
			return nil, "", "", fmt.Errorf("%s: unsupported statement %T", p.at(st), st)
		}
	}
	return nil, "", "", fmt.Errorf("%s: no return", p.at(fd))
}

func c20Def(name, params, typ string, lets []string, ret string, doc string) string {
	var b strings.Builder
	fmt.Fprintf(&b, "/-- %s -/\ndef %s %s : %s :=\n", doc, name, params, typ)
	for _, l := range lets {
		fmt.Fprintf(&b, "  %s\n", l)
	}
	fmt.Fprintf(&b, "  %s\n\n", ret)
	return b.String()
}

// infSign recognises vector2.New(math.Inf(s), math.Inf(s)) and returns s.
func c20InfPair(e ast.Expr) (int, bool) {
	c, ok := e.(*ast.CallExpr)
	if !ok || len(c.Args) != 2 {
		return 0, false
	}
	sign := 0
	for i, a := range c.Args {
		ic, ok := a.(*ast.CallExpr)
		if !ok || len(ic.Args) != 1 {
			return 0, false
		}
		s, ok := ic.Fun.(*ast.SelectorExpr)
		if !ok || s.Sel.Name != "Inf" {
			return 0, false
		}
		v := 0
		switch x := ic.Args[0].(type) {
		case *ast.BasicLit:
			v, _ = strconv.Atoi(x.Value)
		case *ast.UnaryExpr:
			if l, ok := x.X.(*ast.BasicLit); ok && x.Op == token.SUB {
				v, _ = strconv.Atoi(l.Value)
				v = -v
			}
		}
		if v == 0 || (i == 1 && v != sign) {
			return 0, false
		}
		sign = v
	}
	return sign, true
}

// triple prints the elements of a composite literal `Triangle{…}` / `Edge{…}` as symbolic names.
func c20Sym(e ast.Expr) (string, error) {
	if k, ok := c20Idx(e, "edge"); ok {
		return fmt.Sprintf("e%d", k), nil
	}
	if k, ok := c20Idx(e, "t"); ok {
		return fmt.Sprintf("t%d", k), nil
	}
	if id, ok := e.(*ast.Ident); ok && id.Name == "point" {
		return "p", nil
	}
	return "", fmt.Errorf("unsupported element")
}

func c20StrList(xs []string) string {
	q := []string{}
	for _, x := range xs {
		q = append(q, strconv.Quote(x))
	}
	return "[" + strings.Join(q, ", ") + "]"
}

// lenMinus recognises `len(points) - K` (or `len(points)-K`) and returns K.
func c20LenMinus(e ast.Expr, of string) (int, bool) {
	b, ok := e.(*ast.BinaryExpr)
	if !ok || b.Op != token.SUB {
		return 0, false
	}
	c, ok := b.X.(*ast.CallExpr)
	if !ok || len(c.Args) != 1 {
		return 0, false
	}
	if id, ok := c.Fun.(*ast.Ident); !ok || id.Name != "len" {
		return 0, false
	}
	if id, ok := c.Args[0].(*ast.Ident); !ok || id.Name != of {
		return 0, false
	}
	l, ok := b.Y.(*ast.BasicLit)
	if !ok {
		return 0, false
	}
	k, err := strconv.Atoi(l.Value)
	return k, err == nil
}

func c20Src(repo, out string, args []string) error {
	p := &c20P{fset: token.NewFileSet()}
	f, err := parser.ParseFile(p.fset, filepath.Join(repo, "modeling", "triangulation", "bowyer_watson.go"), nil, 0)
	if err != nil {
		return err
	}
	var b strings.Builder
	b.WriteString("/-\n  GENERATED by /verif/go/facts (mode c20.src) from /repo/modeling/triangulation/bowyer_watson.go.\n  Do not edit: regenerated by ./check C20 before every build.\n-/\nnamespace PolyVerif.Gen.DelaunaySrc\n\nsection\nvariable {α : Type} [Add α] [Sub α] [Mul α] [Div α] [NatCast α] [LT α] [DecidableLT α]\n\n")
	b.WriteString("/-- reading of `math.Min(x, y)` on ordered (non-NaN) values -/\ndef goMin (x y : α) : α := if x < y then x else y\n/-- reading of `math.Max(x, y)` on ordered (non-NaN) values -/\ndef goMax (x y : α) : α := if y < x then x else y\n\n")

	// ---- predicates
	type pred struct{ recv, name, lean string; bind bool; params string }
	cmps := []string{}
	for _, pr := range []pred{
		{"Triangle", "CounterClockwise", "counterClockwise", true, "(a b c : α × α)"},
		{"", "ccw", "ccw", false, "(a b c : α × α)"},
		{"Triangle", "InsideCircumcircle", "insideCircumcircle", true, "(a b c p : α × α)"},
	} {
		fd := c20Func(f, pr.recv, pr.name)
		if fd == nil {
			return fmt.Errorf("bowyer_watson.go: func %s not found", pr.name)
		}
		lets, ret, cmp, err := p.predicate(fd, pr.bind)
		if err != nil {
			return err
		}
		suffix := "Expr"
		if pr.name == "InsideCircumcircle" {
			suffix = "Det"
		}
		b.WriteString(c20Def(pr.lean+suffix, pr.params, "α", lets, ret, fmt.Sprintf("%s  the expression compared with 0 in `%s`", p.at(fd), pr.name)))
		cmps = append(cmps, fmt.Sprintf("/-- `return <expr> %s` -/\ndef %sCmp : String := %q\n", cmp, pr.lean, cmp))
	}

	// ---- SuperTriangle
	st := c20Func(f, "", "SuperTriangle")
	if st == nil {
		return fmt.Errorf("bowyer_watson.go: func SuperTriangle not found")
	}
	body := st.Body.List
	if len(body) < 4 {
		return fmt.Errorf("%s: SuperTriangle body too short", p.at(st))
	}
	inits := []int{}
	for i, nm := range []string{"min", "max"} {
		as, ok := body[i].(*ast.AssignStmt)
		if !ok || as.Tok != token.DEFINE || len(as.Lhs) != 1 || as.Lhs[0].(*ast.Ident).Name != nm {
			return fmt.Errorf("%s: expected `%s := vector2.New(math.Inf(s), math.Inf(s))`", p.at(body[i]), nm)
		}
		s, ok := c20InfPair(as.Rhs[0])
		if !ok {
			return fmt.Errorf("%s: expected `%s := vector2.New(math.Inf(s), math.Inf(s))`", p.at(body[i]), nm)
		}
		inits = append(inits, s)
	}
	rg, ok := body[2].(*ast.RangeStmt)
	if !ok {
		return fmt.Errorf("%s: expected the range loop over points", p.at(body[2]))
	}
	if id, ok := rg.X.(*ast.Ident); !ok || id.Name != "points" || rg.Value == nil || rg.Value.(*ast.Ident).Name != "v" {
		return fmt.Errorf("%s: expected `for _, v := range points`", p.at(rg))
	}
	stepLets := []string{}
	for _, s := range rg.Body.List {
		as, ok := s.(*ast.AssignStmt)
		if !ok || as.Tok != token.ASSIGN || len(as.Lhs) != 1 {
			return fmt.Errorf("%s: unsupported statement in the SuperTriangle loop", p.at(s))
		}
		nm := as.Lhs[0].(*ast.Ident).Name
		if nm != "min" && nm != "max" {
			return fmt.Errorf("%s: loop assigns %s", p.at(s), nm)
		}
		e, err := p.expr(as.Rhs[0])
		if err != nil {
			return err
		}
		stepLets = append(stepLets, fmt.Sprintf("let %s := %s", nm, e))
	}
	b.WriteString(c20Def("superStep", "(min max v : α × α)", "(α × α) × (α × α)", stepLets, "(min, max)", p.at(rg)+"  body of `for _, v := range points` in SuperTriangle"))
	tailLets := []string{}
	ret := ""
	for _, s := range body[3:] {
		switch x := s.(type) {
		case *ast.AssignStmt:
			if len(x.Lhs) != 1 || len(x.Rhs) != 1 {
				return fmt.Errorf("%s: unsupported assignment", p.at(x))
			}
			e, err := p.expr(x.Rhs[0])
			if err != nil {
				return err
			}
			tailLets = append(tailLets, fmt.Sprintf("let %s := %s", x.Lhs[0].(*ast.Ident).Name, e))
		case *ast.ReturnStmt:
			cl, ok := x.Results[0].(*ast.CompositeLit)
			if !ok {
				return fmt.Errorf("%s: SuperTriangle does not return a slice literal", p.at(x))
			}
			el := []string{}
			for _, e := range cl.Elts {
				s, err := p.expr(e)
				if err != nil {
					return err
				}
				el = append(el, s)
			}
			ret = "[" + strings.Join(el, ", ") + "]"
		default:
			return fmt.Errorf("%s: unsupported statement %T in SuperTriangle", p.at(s), s)
		}
	}
	if ret == "" {
		return fmt.Errorf("%s: SuperTriangle has no return", p.at(st))
	}
	b.WriteString(c20Def("superTail", "(min max : α × α)", "List (α × α)", tailLets, ret, p.at(st)+"  SuperTriangle after the loop (min, max = running component-wise bounds)"))
	b.WriteString("end\n\n")
	for _, c := range cmps {
		b.WriteString(c)
	}
	fmt.Fprintf(&b, "/-- signs s of `min := vector2.New(math.Inf(s), math.Inf(s))`, `max := …` -/\ndef superInit : List Int := [%d, %d]\n\n", inits[0], inits[1])

	// ---- Triangle.Edges
	ed := c20Func(f, "Triangle", "Edges")
	if ed == nil {
		return fmt.Errorf("bowyer_watson.go: func Edges not found")
	}
	rs, ok := ed.Body.List[0].(*ast.ReturnStmt)
	if !ok || len(ed.Body.List) != 1 {
		return fmt.Errorf("%s: Edges is not a single return", p.at(ed))
	}
	cl, ok := rs.Results[0].(*ast.CompositeLit)
	if !ok {
		return fmt.Errorf("%s: Edges does not return a literal", p.at(ed))
	}
	pairs := []string{}
	for _, e := range cl.Elts {
		ec, ok := e.(*ast.CompositeLit)
		if !ok || len(ec.Elts) != 2 {
			return fmt.Errorf("%s: unsupported edge literal", p.at(e))
		}
		i, ok1 := c20Idx(ec.Elts[0], "t")
		j, ok2 := c20Idx(ec.Elts[1], "t")
		if !ok1 || !ok2 {
			return fmt.Errorf("%s: unsupported edge literal", p.at(e))
		}
		pairs = append(pairs, fmt.Sprintf("(%d, %d)", i, j))
	}
	fmt.Fprintf(&b, "/-- %s  `Triangle.Edges`: corner positions of each edge -/\ndef edgesPattern : List (Nat × Nat) := [%s]\n\n", p.at(ed), strings.Join(pairs, ", "))

	// ---- fillHole
	fh := c20Func(f, "", "fillHole")
	if fh == nil {
		return fmt.Errorf("bowyer_watson.go: func fillHole not found")
	}
	if len(fh.Body.List) != 1 {
		return fmt.Errorf("%s: fillHole is not a single loop", p.at(fh))
	}
	loop, ok := fh.Body.List[0].(*ast.RangeStmt)
	if !ok || loop.Value == nil || loop.Value.(*ast.Ident).Name != "edge" {
		return fmt.Errorf("%s: expected `for _, edge := range polygon`", p.at(fh))
	}
	var skip, def, alt []string
	stored := false
	for _, s := range loop.Body.List {
		switch x := s.(type) {
		case *ast.IfStmt:
			if x.Else != nil || x.Init != nil {
				return fmt.Errorf("%s: unsupported if", p.at(x))
			}
			if bin, ok := x.Cond.(*ast.BinaryExpr); ok && bin.Op == token.LOR {
				// skip test: edge[0] == point || edge[1] == point ; body must be `continue`
				if br, ok := x.Body.List[0].(*ast.BranchStmt); !ok || br.Tok != token.CONTINUE || len(x.Body.List) != 1 {
					return fmt.Errorf("%s: skip test does not `continue`", p.at(x))
				}
				for _, side := range []ast.Expr{bin.X, bin.Y} {
					eq, ok := side.(*ast.BinaryExpr)
					if !ok || eq.Op != token.EQL {
						return fmt.Errorf("%s: unsupported skip test", p.at(x))
					}
					l, e1 := c20Sym(eq.X)
					r, e2 := c20Sym(eq.Y)
					if e1 != nil || e2 != nil {
						return fmt.Errorf("%s: unsupported skip test", p.at(x))
					}
					skip = append(skip, l+"="+r)
				}
				continue
			}
			// orientation test: triToAdd.CounterClockwise(points) { triToAdd = Triangle{…}; (log) }
			call, ok := x.Cond.(*ast.CallExpr)
			if !ok {
				return fmt.Errorf("%s: unsupported condition in fillHole", p.at(x))
			}
			sel, ok := call.Fun.(*ast.SelectorExpr)
			if !ok || sel.Sel.Name != "CounterClockwise" || sel.X.(*ast.Ident).Name != "triToAdd" {
				return fmt.Errorf("%s: orientation test is not triToAdd.CounterClockwise(points)", p.at(x))
			}
			for _, bs := range x.Body.List {
				if as, ok := bs.(*ast.AssignStmt); ok {
					if as.Tok != token.ASSIGN || as.Lhs[0].(*ast.Ident).Name != "triToAdd" {
						return fmt.Errorf("%s: unsupported assignment in the orientation branch", p.at(as))
					}
					for _, e := range as.Rhs[0].(*ast.CompositeLit).Elts {
						s, err := c20Sym(e)
						if err != nil {
							return fmt.Errorf("%s: %v", p.at(e), err)
						}
						alt = append(alt, s)
					}
				} else if es, ok := bs.(*ast.ExprStmt); ok {
					// a log.Print(...) call has no effect on the result
					c, ok := es.X.(*ast.CallExpr)
					if !ok {
						return fmt.Errorf("%s: unsupported statement in the orientation branch", p.at(bs))
					}
					if s, ok := c.Fun.(*ast.SelectorExpr); !ok || s.X.(*ast.Ident).Name != "log" {
						return fmt.Errorf("%s: unsupported call in the orientation branch", p.at(bs))
					}
				} else {
					return fmt.Errorf("%s: unsupported statement in the orientation branch", p.at(bs))
				}
			}
		case *ast.AssignStmt:
			if x.Tok == token.DEFINE && x.Lhs[0].(*ast.Ident).Name == "triToAdd" {
				for _, e := range x.Rhs[0].(*ast.CompositeLit).Elts {
					s, err := c20Sym(e)
					if err != nil {
						return fmt.Errorf("%s: %v", p.at(e), err)
					}
					def = append(def, s)
				}
				continue
			}
			// triangulation[triToAdd] = exists
			ix, ok := x.Lhs[0].(*ast.IndexExpr)
			if !ok || x.Tok != token.ASSIGN || ix.X.(*ast.Ident).Name != "triangulation" || ix.Index.(*ast.Ident).Name != "triToAdd" {
				return fmt.Errorf("%s: unsupported assignment in fillHole", p.at(x))
			}
			stored = true
		default:
			return fmt.Errorf("%s: unsupported statement %T in fillHole", p.at(s), s)
		}
	}
	if len(skip) != 2 || len(def) != 3 || len(alt) != 3 || !stored {
		return fmt.Errorf("%s: fillHole does not have the expected shape (skip %v default %v alt %v stored %v)", p.at(fh), skip, def, alt, stored)
	}
	fmt.Fprintf(&b, "/-- %s  fillHole: `continue` when one of these equalities holds -/\ndef fillHoleSkip : List String := %s\n", p.at(fh), c20StrList(skip))
	fmt.Fprintf(&b, "/-- triangle stored when `triToAdd.CounterClockwise(points)` is false -/\ndef fillHoleDefault : List String := %s\n", c20StrList(def))
	fmt.Fprintf(&b, "/-- triangle stored when it is true -/\ndef fillHoleWhenCcw : List String := %s\n\n", c20StrList(alt))

	// ---- containsSuperTriangleVertex
	cs := c20Func(f, "", "containsSuperTriangleVertex")
	if cs == nil {
		return fmt.Errorf("bowyer_watson.go: func containsSuperTriangleVertex not found")
	}
	off := -1
	tests := []string{}
	var walk func(n ast.Node) bool
	var werr error
	walk = func(n ast.Node) bool {
		switch x := n.(type) {
		case *ast.AssignStmt:
			if id, ok := x.Lhs[0].(*ast.Ident); ok && id.Name == "superStart" {
				k, ok := c20LenMinus(x.Rhs[0], "points")
				if !ok {
					werr = fmt.Errorf("%s: superStart is not len(points) - K", p.at(x))
					return false
				}
				off = k
			}
		case *ast.BinaryExpr:
			if id, ok := x.Y.(*ast.Ident); ok && id.Name == "superStart" {
				k, ok := c20Idx(x.X, "t")
				if !ok {
					werr = fmt.Errorf("%s: unsupported comparison with superStart", p.at(x))
					return false
				}
				tests = append(tests, fmt.Sprintf("t%d%s", k, x.Op.String()))
			}
		case *ast.ReturnStmt:
			if id, ok := x.Results[0].(*ast.Ident); ok && id.Name != "true" {
				werr = fmt.Errorf("%s: unsupported return %s", p.at(x), id.Name)
				return false
			}
		}
		return true
	}
	ast.Inspect(cs.Body, walk)
	if werr != nil {
		return werr
	}
	fmt.Fprintf(&b, "/-- %s  `superStart := len(points) - K` -/\ndef superStartOffset : Nat := %d\n/-- the tests `t[i] <op> superStart` whose disjunction is returned -/\ndef superVertexTests : List String := %s\n\n", p.at(cs), off, c20StrList(tests))

	// ---- bowyerWatson: guard, initial triangle, loop break
	bw := c20Func(f, "", "bowyerWatson")
	if bw == nil {
		return fmt.Errorf("bowyer_watson.go: func bowyerWatson not found")
	}
	guard, initial, brk := "", []string{}, ""
	ast.Inspect(bw.Body, func(n ast.Node) bool {
		switch x := n.(type) {
		case *ast.IfStmt:
			bin, ok := x.Cond.(*ast.BinaryExpr)
			if !ok {
				return true
			}
			if c, ok := bin.X.(*ast.CallExpr); ok {
				if id, ok := c.Fun.(*ast.Ident); ok && id.Name == "len" && len(x.Body.List) == 1 {
					if es, ok := x.Body.List[0].(*ast.ExprStmt); ok {
						if pc, ok := es.X.(*ast.CallExpr); ok {
							if pid, ok := pc.Fun.(*ast.Ident); ok && pid.Name == "panic" {
								guard = fmt.Sprintf("len(%s)%s%s", c.Args[0].(*ast.Ident).Name, bin.Op.String(), bin.Y.(*ast.BasicLit).Value)
							}
						}
					}
				}
			}
			if id, ok := bin.X.(*ast.Ident); ok && id.Name == "pi" {
				if k, ok := c20LenMinus(bin.Y, "points"); ok && len(x.Body.List) == 1 {
					if br, ok := x.Body.List[0].(*ast.BranchStmt); ok && br.Tok == token.BREAK {
						brk = fmt.Sprintf("pi%slen-%d", bin.Op.String(), k)
					}
				}
			}
		case *ast.AssignStmt:
			if ix, ok := x.Lhs[0].(*ast.IndexExpr); ok {
				if cl, ok := ix.Index.(*ast.CompositeLit); ok && len(initial) == 0 {
					for _, e := range cl.Elts {
						if k, ok := c20LenMinus(e, "points"); ok {
							initial = append(initial, fmt.Sprintf("len-%d", k))
						}
					}
				}
			}
		}
		return true
	})
	fmt.Fprintf(&b, "/-- %s  bowyerWatson: panics when this holds -/\ndef minPointsGuard : String := %q\n/-- the first triangle stored (corners as offsets from len(points)) -/\ndef initialTriangle : List String := %s\n/-- the insertion loop `break`s when this holds -/\ndef loopBreak : String := %q\n\n", p.at(bw), guard, c20StrList(initial), brk)

	// ---- the hole-boundary loop of bowyerWatson: for ti, triangle := range badTriangles { for _, edge := range triangle.Edges() {
	//        notShared := true; for oti, otherTriangle := range badTriangles { if <guard> { for _, otherEdge := range otherTriangle.Edges() {
	//        if A { if B { notShared = false } } … } } }; if notShared { polygon = append(polygon, edge) } } }
	var holeErr error
	sameEdge := []string{}
	guardSrc, keepSrc := "", ""
	edgeSym := func(e ast.Expr) (string, bool) {
		if k, ok := c20Idx(e, "edge"); ok {
			return fmt.Sprintf("e.%d", k+1), true
		}
		if k, ok := c20Idx(e, "otherEdge"); ok {
			return fmt.Sprintf("f.%d", k+1), true
		}
		return "", false
	}
	eqOf := func(e ast.Expr) (string, bool) {
		b, ok := e.(*ast.BinaryExpr)
		if !ok || b.Op != token.EQL {
			return "", false
		}
		l, ok1 := edgeSym(b.X)
		r, ok2 := edgeSym(b.Y)
		if !ok1 || !ok2 {
			return "", false
		}
		return fmt.Sprintf("(%s == %s)", l, r), true
	}
	ast.Inspect(bw.Body, func(n ast.Node) bool {
		rs, ok := n.(*ast.RangeStmt)
		if !ok || holeErr != nil {
			return true
		}
		v, _ := rs.Value.(*ast.Ident)
		if v == nil {
			return true
		}
		switch v.Name {
		case "otherTriangle":
			// body: one if <guard> { for otherEdge … }
			if len(rs.Body.List) != 1 {
				holeErr = fmt.Errorf("%s: the loop over other bad triangles has %d statements, expected 1", p.at(rs), len(rs.Body.List))
				return false
			}
			is, ok := rs.Body.List[0].(*ast.IfStmt)
			if !ok || is.Else != nil {
				holeErr = fmt.Errorf("%s: expected `if ti != oti && notShared { … }`", p.at(rs))
				return false
			}
			var gb strings.Builder
			gx, gok := is.Cond.(*ast.BinaryExpr)
			if !gok || gx.Op != token.LAND {
				holeErr = fmt.Errorf("%s: unsupported guard of the other-triangle loop", p.at(is))
				return false
			}
			for i, side := range []ast.Expr{gx.X, gx.Y} {
				if i > 0 {
					gb.WriteString(" && ")
				}
				switch sx := side.(type) {
				case *ast.Ident:
					gb.WriteString(sx.Name)
				case *ast.BinaryExpr:
					l, ok1 := sx.X.(*ast.Ident)
					r, ok2 := sx.Y.(*ast.Ident)
					if !ok1 || !ok2 {
						holeErr = fmt.Errorf("%s: unsupported guard of the other-triangle loop", p.at(is))
						return false
					}
					gb.WriteString(l.Name + " " + sx.Op.String() + " " + r.Name)
				default:
					holeErr = fmt.Errorf("%s: unsupported guard of the other-triangle loop", p.at(is))
					return false
				}
			}
			guardSrc = gb.String()
		case "otherEdge":
			for _, st := range rs.Body.List {
				outer, ok := st.(*ast.IfStmt)
				if !ok || outer.Else != nil || len(outer.Body.List) != 1 {
					holeErr = fmt.Errorf("%s: unsupported statement in the edge comparison loop", p.at(st))
					return false
				}
				inner, ok := outer.Body.List[0].(*ast.IfStmt)
				if !ok || inner.Else != nil || len(inner.Body.List) != 1 {
					holeErr = fmt.Errorf("%s: expected a nested if", p.at(outer))
					return false
				}
				as, ok := inner.Body.List[0].(*ast.AssignStmt)
				if !ok || as.Tok != token.ASSIGN || as.Lhs[0].(*ast.Ident).Name != "notShared" || as.Rhs[0].(*ast.Ident).Name != "false" {
					holeErr = fmt.Errorf("%s: expected `notShared = false`", p.at(inner))
					return false
				}
				a, ok1 := eqOf(outer.Cond)
				b2, ok2 := eqOf(inner.Cond)
				if !ok1 || !ok2 {
					holeErr = fmt.Errorf("%s: unsupported edge comparison", p.at(outer))
					return false
				}
				sameEdge = append(sameEdge, fmt.Sprintf("(%s && %s)", a, b2))
			}
		case "edge":
			// last statement: if notShared { polygon = append(polygon, edge) }
			last, ok := rs.Body.List[len(rs.Body.List)-1].(*ast.IfStmt)
			if ok && len(last.Body.List) == 1 {
				if id, ok := last.Cond.(*ast.Ident); ok {
					if as, ok := last.Body.List[0].(*ast.AssignStmt); ok {
						if call, ok := as.Rhs[0].(*ast.CallExpr); ok && len(call.Args) == 2 {
							keepSrc = fmt.Sprintf("if %s { %s = append(%s, %s) }", id.Name, as.Lhs[0].(*ast.Ident).Name, call.Args[0].(*ast.Ident).Name, call.Args[1].(*ast.Ident).Name)
						}
					}
				}
			}
		}
		return true
	})
	if holeErr != nil {
		return holeErr
	}
	if len(sameEdge) == 0 || guardSrc == "" || keepSrc == "" {
		return fmt.Errorf("%s: the hole-boundary loop does not have the expected shape (comparisons %d, guard %q, keep %q)", p.at(bw), len(sameEdge), guardSrc, keepSrc)
	}
	fmt.Fprintf(&b, "/-- %s  the nested `if`s that clear `notShared` in the hole-boundary loop: edge `e` of a bad triangle and edge `f` of\n    another bad triangle are the same edge (a disjunction of the regenerated conjunctions) -/\ndef edgeSameSrc (e f : Nat × Nat) : Bool :=\n  %s\n/-- the guard under which another bad triangle's edges are compared -/\ndef holeGuard : String := %q\n/-- what happens to an edge no other bad triangle shares -/\ndef holeKeep : String := %q\n\n", p.at(bw), strings.Join(sameEdge, " || "), guardSrc, keepSrc)

	// ---- BowyerWatson: verts[i] = vector3.New(p.X(), 0, p.Y())
	BW := c20Func(f, "", "BowyerWatson")
	if BW == nil {
		return fmt.Errorf("bowyer_watson.go: func BowyerWatson not found")
	}
	ctor := []string{}
	ast.Inspect(BW.Body, func(n ast.Node) bool {
		as, ok := n.(*ast.AssignStmt)
		if !ok || len(as.Lhs) != 1 {
			return true
		}
		ix, ok := as.Lhs[0].(*ast.IndexExpr)
		if !ok {
			return true
		}
		if id, ok := ix.X.(*ast.Ident); !ok || id.Name != "verts" {
			return true
		}
		c, ok := as.Rhs[0].(*ast.CallExpr)
		if !ok {
			return true
		}
		for _, a := range c.Args {
			switch x := a.(type) {
			case *ast.BasicLit:
				ctor = append(ctor, x.Value)
			case *ast.CallExpr:
				if s, ok := x.Fun.(*ast.SelectorExpr); ok {
					if id, ok := s.X.(*ast.Ident); ok && id.Name == "p" {
						ctor = append(ctor, "p."+s.Sel.Name)
						continue
					}
				}
				ctor = append(ctor, "?")
			default:
				ctor = append(ctor, "?")
			}
		}
		return true
	})
	fmt.Fprintf(&b, "/-- %s  BowyerWatson: `verts[i] = vector3.New(…)` for input point p -/\ndef vertexCtor : List String := %s\n\n", p.at(BW), c20StrList(ctor))
	b.WriteString("end PolyVerif.Gen.DelaunaySrc\n")
	return os.WriteFile(out, []byte(b.String()), 0o644)
}
