// Engine F, property C18, mode c18.meshops: the two per-vertex mesh operations the cap / quad placement goes through,
// read with go/parser + go/ast and written as Lean definitions into PolyVerif/Gen/PrimMeshOps.lean:
//
//	modeling/mesh.go                   func (m Mesh) Translate(v vector3.Float64) Mesh
//	modeling/meshops/rotate_attribute.go  func RotateAttribute3D(m modeling.Mesh, attribute string, q quaternion.Quaternion) modeling.Mesh
//
// Both must have exactly the shape "map ONE expression over ALL elements of ONE float3 attribute and write the result back
// to the same attribute":
//
//	[guards]                                  m.requireV3Attribute(A) | if err := RequireV3Attribute(m, A); err != nil { panic(err) }
//	SRC := m.v3Data[A] | m.Float3Attribute(A)
//	DST := make([]vector3.Float64, len(SRC) | SRC.Len())
//	for i := 0; i < len(DST) | len(SRC) | SRC.Len(); i++ { DST[i] = ELEM.M(x) | x.M(ELEM) }    ELEM: SRC[i] | SRC.At(i); x a parameter
//	return m.SetFloat3Attribute(A, DST)
//
// Any other statement (a second loop, a size-dependent branch, a goroutine, a different bound, a different attribute on
// the way back) is an error: the extractor never guesses.
package main

import (
	"fmt"
	"go/ast"
	"go/parser"
	"go/token"
	"os"
	"path/filepath"
	"strings"
)

func init() { modes["c18.meshops"] = c18MeshOps }

type c18mMap struct {
	attr     string // attribute expression (identifier), e.g. PositionAttribute / attribute
	method   string // M
	elemRecv bool   // true: ELEM.M(x); false: x.M(ELEM)
	param    string // x
}

func c18mFunc(f *ast.File, recvType, name string) *ast.FuncDecl {
	if recvType != "" {
		return c18Method(f, recvType, name)
	}
	for _, d := range f.Decls {
		if fd, ok := d.(*ast.FuncDecl); ok && fd.Recv == nil && fd.Name.Name == name {
			return fd
		}
	}
	return nil
}

func c18mExtract(fd *ast.FuncDecl, meshVar string) (*c18mMap, error) {
	params := map[string]bool{}
	for _, fl := range fd.Type.Params.List {
		for _, n := range fl.Names {
			params[n.Name] = true
		}
	}
	body := fd.Body.List
	var src, dst, attr string
	var out *c18mMap
	stage := 0 // 0 guards/src, 1 dst, 2 loop, 3 return, 4 done
	isLenOf := func(e ast.Expr, names ...string) bool {
		ce, ok := e.(*ast.CallExpr)
		if !ok {
			return false
		}
		for _, n := range names {
			if n == "" {
				continue
			}
			if c18Sel(ce.Fun) == "len" && len(ce.Args) == 1 && c18Sel(ce.Args[0]) == n {
				return true
			}
			if c18Sel(ce.Fun) == n+".Len" && len(ce.Args) == 0 {
				return true
			}
		}
		return false
	}
	isElem := func(e ast.Expr, iv string) bool {
		switch v := e.(type) {
		case *ast.IndexExpr:
			return c18Sel(v.X) == src && c18Sel(v.Index) == iv
		case *ast.CallExpr:
			return c18Sel(v.Fun) == src+".At" && len(v.Args) == 1 && c18Sel(v.Args[0]) == iv
		}
		return false
	}
	for _, s := range body {
		switch stage {
		case 0:
			switch v := s.(type) {
			case *ast.ExprStmt: // m.requireV3Attribute(A)
				ce, ok := v.X.(*ast.CallExpr)
				if !ok || c18Sel(ce.Fun) != meshVar+".requireV3Attribute" || len(ce.Args) != 1 {
					return nil, fmt.Errorf("unsupported statement before the source read")
				}
				continue
			case *ast.IfStmt: // if err := RequireV3Attribute(m, A); err != nil { panic(err) }
				as, ok := v.Init.(*ast.AssignStmt)
				if !ok || len(as.Rhs) != 1 || v.Else != nil || len(v.Body.List) != 1 {
					return nil, fmt.Errorf("unsupported if statement before the source read")
				}
				ce, ok := as.Rhs[0].(*ast.CallExpr)
				if !ok || c18Sel(ce.Fun) != "RequireV3Attribute" {
					return nil, fmt.Errorf("unsupported if statement before the source read")
				}
				es, ok := v.Body.List[0].(*ast.ExprStmt)
				if !ok {
					return nil, fmt.Errorf("guard body is not panic(err)")
				}
				if pc, ok := es.X.(*ast.CallExpr); !ok || c18Sel(pc.Fun) != "panic" {
					return nil, fmt.Errorf("guard body is not panic(err)")
				}
				continue
			case *ast.AssignStmt:
				if v.Tok != token.DEFINE || len(v.Lhs) != 1 || len(v.Rhs) != 1 {
					return nil, fmt.Errorf("unsupported assignment before the loop")
				}
				switch r := v.Rhs[0].(type) {
				case *ast.IndexExpr:
					if c18Sel(r.X) != meshVar+".v3Data" {
						return nil, fmt.Errorf("source is not %s.v3Data[..]", meshVar)
					}
					attr = c18Sel(r.Index)
				case *ast.CallExpr:
					if c18Sel(r.Fun) != meshVar+".Float3Attribute" || len(r.Args) != 1 {
						return nil, fmt.Errorf("source is not %s.Float3Attribute(..)", meshVar)
					}
					attr = c18Sel(r.Args[0])
				default:
					return nil, fmt.Errorf("unsupported source expression %T", v.Rhs[0])
				}
				if attr == "" {
					return nil, fmt.Errorf("attribute is not an identifier")
				}
				src = c18Sel(v.Lhs[0])
				stage = 1
				continue
			}
			return nil, fmt.Errorf("unsupported statement %T before the source read", s)
		case 1:
			as, ok := s.(*ast.AssignStmt)
			if !ok || as.Tok != token.DEFINE || len(as.Lhs) != 1 || len(as.Rhs) != 1 {
				return nil, fmt.Errorf("expected DST := make([]vector3.Float64, len(SRC))")
			}
			ce, ok := as.Rhs[0].(*ast.CallExpr)
			if !ok || c18Sel(ce.Fun) != "make" || len(ce.Args) != 2 || !isLenOf(ce.Args[1], src) {
				return nil, fmt.Errorf("expected DST := make([]vector3.Float64, len(SRC))")
			}
			if at, ok := ce.Args[0].(*ast.ArrayType); !ok || at.Len != nil || c18Sel(at.Elt) != "vector3.Float64" {
				return nil, fmt.Errorf("destination is not a []vector3.Float64")
			}
			dst = c18Sel(as.Lhs[0])
			stage = 2
		case 2:
			fs, ok := s.(*ast.ForStmt)
			if !ok || fs.Init == nil || fs.Cond == nil || fs.Post == nil || len(fs.Body.List) != 1 {
				return nil, fmt.Errorf("expected the single for loop over all elements")
			}
			init, ok := fs.Init.(*ast.AssignStmt)
			if !ok || init.Tok != token.DEFINE || len(init.Lhs) != 1 || len(init.Rhs) != 1 {
				return nil, fmt.Errorf("loop init is not i := 0")
			}
			iv := c18Sel(init.Lhs[0])
			if bl, ok := init.Rhs[0].(*ast.BasicLit); !ok || bl.Value != "0" {
				return nil, fmt.Errorf("loop does not start at 0")
			}
			cond, ok := fs.Cond.(*ast.BinaryExpr)
			if !ok || cond.Op != token.LSS || c18Sel(cond.X) != iv || !isLenOf(cond.Y, src, dst) {
				return nil, fmt.Errorf("loop bound is not i < len(SRC|DST)")
			}
			if inc, ok := fs.Post.(*ast.IncDecStmt); !ok || inc.Tok != token.INC || c18Sel(inc.X) != iv {
				return nil, fmt.Errorf("loop step is not i++")
			}
			as, ok := fs.Body.List[0].(*ast.AssignStmt)
			if !ok || as.Tok != token.ASSIGN || len(as.Lhs) != 1 || len(as.Rhs) != 1 {
				return nil, fmt.Errorf("loop body is not DST[i] = ...")
			}
			ix, ok := as.Lhs[0].(*ast.IndexExpr)
			if !ok || c18Sel(ix.X) != dst || c18Sel(ix.Index) != iv {
				return nil, fmt.Errorf("loop body does not write DST[i]")
			}
			ce, ok := as.Rhs[0].(*ast.CallExpr)
			if !ok || len(ce.Args) != 1 {
				return nil, fmt.Errorf("loop body value is not a one-argument method call")
			}
			se, ok := ce.Fun.(*ast.SelectorExpr)
			if !ok {
				return nil, fmt.Errorf("loop body value is not a method call")
			}
			out = &c18mMap{attr: attr, method: se.Sel.Name}
			switch {
			case isElem(se.X, iv) && params[c18Sel(ce.Args[0])]:
				out.elemRecv, out.param = true, c18Sel(ce.Args[0])
			case isElem(ce.Args[0], iv) && params[c18Sel(se.X)]:
				out.elemRecv, out.param = false, c18Sel(se.X)
			default:
				return nil, fmt.Errorf("loop body value is neither SRC[i].M(param) nor param.M(SRC[i])")
			}
			stage = 3
		case 3:
			rs, ok := s.(*ast.ReturnStmt)
			if !ok || len(rs.Results) != 1 {
				return nil, fmt.Errorf("expected return %s.SetFloat3Attribute(A, DST)", meshVar)
			}
			ce, ok := rs.Results[0].(*ast.CallExpr)
			if !ok || c18Sel(ce.Fun) != meshVar+".SetFloat3Attribute" || len(ce.Args) != 2 ||
				c18Sel(ce.Args[0]) != attr || c18Sel(ce.Args[1]) != dst {
				return nil, fmt.Errorf("the result is not written back with %s.SetFloat3Attribute(%s, %s)", meshVar, attr, dst)
			}
			stage = 4
		default:
			return nil, fmt.Errorf("statement after the return")
		}
	}
	if stage != 4 || out == nil {
		return nil, fmt.Errorf("incomplete body (stage %d)", stage)
	}
	return out, nil
}

func c18MeshOps(repo, out string, args []string) error {
	if out == "" {
		return fmt.Errorf("c18.meshops: -out is required")
	}
	fset := token.NewFileSet()
	mf, err := parser.ParseFile(fset, filepath.Join(repo, "modeling", "mesh.go"), nil, 0)
	if err != nil {
		return err
	}
	rf, err := parser.ParseFile(fset, filepath.Join(repo, "modeling", "meshops", "rotate_attribute.go"), nil, 0)
	if err != nil {
		return err
	}
	tr := c18mFunc(mf, "Mesh", "Translate")
	if tr == nil || tr.Body == nil || tr.Recv == nil || len(tr.Recv.List[0].Names) != 1 {
		return fmt.Errorf("mesh.go: func (m Mesh) Translate not found")
	}
	tm, err := c18mExtract(tr, tr.Recv.List[0].Names[0].Name)
	if err != nil {
		return fmt.Errorf("mesh.go Mesh.Translate: %v", err)
	}
	if !tm.elemRecv || tm.attr != "PositionAttribute" {
		return fmt.Errorf("mesh.go Mesh.Translate: expected oldData[i].M(v) on PositionAttribute, got attr=%s elemRecv=%v", tm.attr, tm.elemRecv)
	}
	ro := c18mFunc(rf, "", "RotateAttribute3D")
	if ro == nil || ro.Body == nil || len(ro.Type.Params.List) == 0 || len(ro.Type.Params.List[0].Names) == 0 {
		return fmt.Errorf("rotate_attribute.go: func RotateAttribute3D not found")
	}
	rm, err := c18mExtract(ro, ro.Type.Params.List[0].Names[0].Name)
	if err != nil {
		return fmt.Errorf("rotate_attribute.go RotateAttribute3D: %v", err)
	}
	if rm.elemRecv {
		return fmt.Errorf("rotate_attribute.go RotateAttribute3D: expected q.M(oldData.At(i))")
	}
	// the attribute written is the function's own `attribute` parameter
	isParam := false
	for _, fl := range ro.Type.Params.List {
		for _, n := range fl.Names {
			if n.Name == rm.attr {
				isParam = true
			}
		}
	}
	if !isParam {
		return fmt.Errorf("rotate_attribute.go RotateAttribute3D: attribute %s is not the function's parameter", rm.attr)
	}
	var b strings.Builder
	b.WriteString("-- GENERATED by `go/facts c18.meshops` from /repo modeling/mesh.go (Mesh.Translate) and modeling/meshops/rotate_attribute.go (RotateAttribute3D) — do not edit\n")
	b.WriteString("import PolyVerif.Model.Vec\nimport PolyVerif.Gen.Transform\nnamespace PolyVerif.Gen.PrimMeshOps\nopen PolyVerif\nvariable {α : Type} [Scalar α]\n\n")
	fmt.Fprintf(&b, "/-- mesh.go `Mesh.Translate(%s)`: for EVERY element of `%s`: `dst[i] = src[i].%s(%s)`, written back to `%s` -/\n", tm.param, tm.attr, tm.method, tm.param, tm.attr)
	fmt.Fprintf(&b, "def translateVertex (x %s : V3 α) : V3 α := x.%s %s\n", tm.param, tm.method, tm.param)
	fmt.Fprintf(&b, "def translateAttribute : String := %q\n\n", tm.attr)
	fmt.Fprintf(&b, "/-- rotate_attribute.go `RotateAttribute3D(m, %s, %s)`: for EVERY element of the attribute `%s`: `dst[i] = %s.%s(src.At(i))`, written back to `%s` -/\n", rm.attr, rm.param, rm.attr, rm.param, rm.method, rm.attr)
	fmt.Fprintf(&b, "def rotateVertex (%s : Gen.quaternion.Quaternion α) (x : V3 α) : V3 α := %s.%s x\n\n", rm.param, rm.param, rm.method)
	b.WriteString("end PolyVerif.Gen.PrimMeshOps\n")
	return os.WriteFile(out, []byte(b.String()), 0o644)
}
