// Engine F, property C12: the skeleton of the dependency comparator of the graph saver, read from the current tree
// with go/parser + go/ast and written as Lean data (PolyVerif/Gen/DepOrderFacts.lean).
//
// Extracted from generator/graph/instance.go (any other shape is an error — the extractor never guesses):
//
//	func dependencyNameLess(a, b string) bool {
//	    <x> := <call>(a, <lit>)                 two short assignments, one call each
//	    <y> := <call>(b, <lit>)
//	    if <cond> {                             one if without else, whose body is
//	        <i>, <e> := <call>(<expr>)          two two-valued short assignments, one call each
//	        <j>, <f> := <call>(<expr>)
//	        if <cond> { return <expr> }         one if without else containing exactly one return
//	    }
//	    return <expr>                           the fallback
//	}
//
// and from buildNodeGraphInstanceSchema the one call of sort.Slice.  Every piece is printed with go/printer after
// alpha-renaming the parameters (p0, p1) and the locally declared variables (v0, v1, … in order of declaration),
// `&&` conditions are split into their conjuncts.  Props/C12.lean compares the data with the skeleton the Lean
// model `depLess` transcribes (`decide`): a semantic change of the comparator or of its call site breaks that obligation.
package main

import (
	"bytes"
	"fmt"
	"go/ast"
	"go/parser"
	"go/printer"
	"go/token"
	"os"
	"path/filepath"
	"strconv"
	"strings"
)

func init() { modes["c12.cmp"] = c12Cmp }

type c12Renamer struct {
	names map[string]string
	nv    int
}

func (r *c12Renamer) declare(id *ast.Ident) {
	if id.Name == "_" {
		return
	}
	if _, ok := r.names[id.Name]; !ok {
		r.names[id.Name] = "v" + strconv.Itoa(r.nv)
		r.nv++
	}
}

func (r *c12Renamer) show(fset *token.FileSet, n ast.Node) string {
	var buf bytes.Buffer
	printer.Fprint(&buf, fset, n)
	// re-parse as an expression and rename identifiers (selectors' field names are left alone)
	e, err := parser.ParseExpr(buf.String())
	if err != nil {
		return strings.Join(strings.Fields(buf.String()), " ")
	}
	ast.Inspect(e, func(x ast.Node) bool {
		switch t := x.(type) {
		case *ast.SelectorExpr:
			ast.Inspect(t.X, func(y ast.Node) bool {
				if id, ok := y.(*ast.Ident); ok {
					if nn, ok := r.names[id.Name]; ok {
						id.Name = nn
					}
				}
				return true
			})
			return false
		case *ast.Ident:
			if nn, ok := r.names[t.Name]; ok {
				t.Name = nn
			}
		}
		return true
	})
	buf.Reset()
	printer.Fprint(&buf, token.NewFileSet(), e)
	return strings.Join(strings.Fields(buf.String()), " ")
}

func c12Conjuncts(e ast.Expr) []ast.Expr {
	if p, ok := e.(*ast.ParenExpr); ok {
		return c12Conjuncts(p.X)
	}
	if b, ok := e.(*ast.BinaryExpr); ok && b.Op == token.LAND {
		return append(c12Conjuncts(b.X), c12Conjuncts(b.Y)...)
	}
	return []ast.Expr{e}
}

func c12Cmp(repo, out string, args []string) error {
	fset := token.NewFileSet()
	path := filepath.Join(repo, "generator", "graph", "instance.go")
	f, err := parser.ParseFile(fset, path, nil, 0)
	if err != nil {
		return err
	}
	var cmp, build *ast.FuncDecl
	for _, d := range f.Decls {
		if fd, ok := d.(*ast.FuncDecl); ok {
			switch fd.Name.Name {
			case "dependencyNameLess":
				cmp = fd
			case "buildNodeGraphInstanceSchema":
				build = fd
			}
		}
	}
	if cmp == nil || build == nil {
		return fmt.Errorf("dependencyNameLess / buildNodeGraphInstanceSchema not found in %s", path)
	}
	r := &c12Renamer{names: map[string]string{}}
	np := 0
	for _, fl := range cmp.Type.Params.List {
		for _, n := range fl.Names {
			r.names[n.Name] = "p" + strconv.Itoa(np)
			np++
		}
	}
	if np != 2 || cmp.Recv != nil {
		return fmt.Errorf("dependencyNameLess: expected a plain function of two parameters")
	}
	var facts []string
	add := func(k, v string) { facts = append(facts, k+": "+v) }
	oneCallAssign := func(s ast.Stmt, nl int, what string) error {
		as, ok := s.(*ast.AssignStmt)
		if !ok || as.Tok != token.DEFINE || len(as.Lhs) != nl || len(as.Rhs) != 1 {
			return fmt.Errorf("dependencyNameLess: %s: expected `x := call(...)` with %d results", what, nl)
		}
		if _, ok := as.Rhs[0].(*ast.CallExpr); !ok {
			return fmt.Errorf("dependencyNameLess: %s: right-hand side is not a call", what)
		}
		lhs := make([]string, nl)
		for i, l := range as.Lhs {
			id, ok := l.(*ast.Ident)
			if !ok {
				return fmt.Errorf("dependencyNameLess: %s: left-hand side is not an identifier", what)
			}
			r.declare(id)
			lhs[i] = r.names[id.Name]
			if id.Name == "_" {
				lhs[i] = "_"
			}
		}
		add(what, strings.Join(lhs, ", ")+" := "+r.show(fset, as.Rhs[0]))
		return nil
	}
	body := cmp.Body.List
	if len(body) != 4 {
		return fmt.Errorf("dependencyNameLess: expected 4 top-level statements, found %d", len(body))
	}
	if err := oneCallAssign(body[0], 1, "split-a"); err != nil {
		return err
	}
	if err := oneCallAssign(body[1], 1, "split-b"); err != nil {
		return err
	}
	outer, ok := body[2].(*ast.IfStmt)
	if !ok || outer.Init != nil || outer.Else != nil || len(outer.Body.List) != 3 {
		return fmt.Errorf("dependencyNameLess: expected `if cond { i, e := …; j, f := …; if … }` without else")
	}
	for _, c := range c12Conjuncts(outer.Cond) {
		add("same-port-guard", r.show(fset, c))
	}
	if err := oneCallAssign(outer.Body.List[0], 2, "parse-a"); err != nil {
		return err
	}
	if err := oneCallAssign(outer.Body.List[1], 2, "parse-b"); err != nil {
		return err
	}
	inner, ok := outer.Body.List[2].(*ast.IfStmt)
	if !ok || inner.Init != nil || inner.Else != nil || len(inner.Body.List) != 1 {
		return fmt.Errorf("dependencyNameLess: expected `if cond { return … }` as the last statement of the guarded block")
	}
	for _, c := range c12Conjuncts(inner.Cond) {
		add("numeric-guard", r.show(fset, c))
	}
	ret, ok := inner.Body.List[0].(*ast.ReturnStmt)
	if !ok || len(ret.Results) != 1 {
		return fmt.Errorf("dependencyNameLess: numeric branch is not a single return")
	}
	add("numeric-result", r.show(fset, ret.Results[0]))
	fb, ok := body[3].(*ast.ReturnStmt)
	if !ok || len(fb.Results) != 1 {
		return fmt.Errorf("dependencyNameLess: last statement is not a single return")
	}
	add("fallback-result", r.show(fset, fb.Results[0]))

	// the call site: exactly one sort.Slice in buildNodeGraphInstanceSchema
	var calls []*ast.CallExpr
	ast.Inspect(build.Body, func(n ast.Node) bool {
		if c, ok := n.(*ast.CallExpr); ok {
			if se, ok := c.Fun.(*ast.SelectorExpr); ok {
				if x, ok := se.X.(*ast.Ident); ok && x.Name == "sort" {
					calls = append(calls, c)
				}
			}
		}
		return true
	})
	if len(calls) != 1 {
		return fmt.Errorf("buildNodeGraphInstanceSchema: expected exactly one call into package sort, found %d", len(calls))
	}
	r2 := &c12Renamer{names: map[string]string{}}
	add("sort-call", r2.show(fset, calls[0]))

	var sb strings.Builder
	sb.WriteString("/-\n  GENERATED by /verif/go/facts (mode c12.cmp) from generator/graph/instance.go — do not edit.\n")
	sb.WriteString("  The skeleton of dependencyNameLess (parameters p0 p1, locals v0 v1 … in order of declaration) and its call site.\n-/\n")
	sb.WriteString("namespace PolyVerif\nnamespace Gen\n\ndef depOrderFacts : List String := [\n")
	for i, s := range facts {
		sep := ","
		if i == len(facts)-1 {
			sep = ""
		}
		sb.WriteString("  " + strconv.Quote(s) + sep + "\n")
	}
	sb.WriteString("]\n\nend Gen\nend PolyVerif\n")
	return os.WriteFile(out, []byte(sb.String()), 0644)
}
