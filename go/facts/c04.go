// Engine F, properties C04 / C08 / C14: the scalar type tables of formats/ply, read from the current tree with
// go/parser + go/ast and written as Lean data (PolyVerif/Gen/PlyTypes.lean):
//
//	property.go  const ( Char ScalarPropertyType = "char" … )                  -> constNames   (identifier, header spelling)
//	property.go  func (spt ScalarPropertyType) Size(): switch … case A, B: return N -> sizeCases (identifiers, byte size)
//	reader.go    var scalarPropTypeNameToScalarPropertyType = map[string]…{…}    -> aliasMap    (accepted spelling, identifier), source order
//	reader.go    ParseScalarPropertyType: the cleaning chain applied before the lookup -> parseCleaning
//
// Props/C04Types.lean proves the hand model's `SType.size`, `SType.name` and `aliasTable` (PolyVerif/Model/Ply.lean) equal
// to these tables.  A shape that is not the expected one is an error — the extractor never guesses.
package main

import (
	"fmt"
	"go/ast"
	"go/parser"
	"go/token"
	"os"
	"path/filepath"
	"strconv"
	"strings"
)

func init() { modes["c04.types"] = c04Types }

func c04Types(repo, out string, args []string) error {
	fset := token.NewFileSet()
	at := func(file string, n ast.Node) string { return fmt.Sprintf("%s:%d", file, fset.Position(n.Pos()).Line) }
	pf, err := parser.ParseFile(fset, filepath.Join(repo, "formats", "ply", "property.go"), nil, 0)
	if err != nil {
		return err
	}
	rf, err := parser.ParseFile(fset, filepath.Join(repo, "formats", "ply", "reader.go"), nil, 0)
	if err != nil {
		return err
	}
	// ---- constants of type ScalarPropertyType
	consts := [][2]string{}
	for _, d := range pf.Decls {
		gd, ok := d.(*ast.GenDecl)
		if !ok || gd.Tok != token.CONST {
			continue
		}
		for _, sp := range gd.Specs {
			vs := sp.(*ast.ValueSpec)
			id, ok := vs.Type.(*ast.Ident)
			if !ok || id.Name != "ScalarPropertyType" {
				continue
			}
			if len(vs.Names) != 1 || len(vs.Values) != 1 {
				return fmt.Errorf("%s: unsupported constant spec", at("property.go", vs))
			}
			lit, ok := vs.Values[0].(*ast.BasicLit)
			if !ok || lit.Kind != token.STRING {
				return fmt.Errorf("%s: constant %s is not a string literal", at("property.go", vs), vs.Names[0].Name)
			}
			v, _ := strconv.Unquote(lit.Value)
			consts = append(consts, [2]string{vs.Names[0].Name, v})
		}
	}
	if len(consts) == 0 {
		return fmt.Errorf("property.go: no ScalarPropertyType constants found")
	}
	// ---- Size()
	var sizeFn *ast.FuncDecl
	for _, d := range pf.Decls {
		fd, ok := d.(*ast.FuncDecl)
		if ok && fd.Name.Name == "Size" && fd.Recv != nil {
			if id, ok := fd.Recv.List[0].Type.(*ast.Ident); ok && id.Name == "ScalarPropertyType" {
				sizeFn = fd
			}
		}
	}
	if sizeFn == nil || len(sizeFn.Body.List) != 1 {
		return fmt.Errorf("property.go: func (ScalarPropertyType) Size with a single switch not found")
	}
	sw, ok := sizeFn.Body.List[0].(*ast.SwitchStmt)
	if !ok || sw.Init != nil {
		return fmt.Errorf("%s: Size is not a switch", at("property.go", sizeFn))
	}
	if id, ok := sw.Tag.(*ast.Ident); !ok || id.Name != sizeFn.Recv.List[0].Names[0].Name {
		return fmt.Errorf("%s: Size does not switch on its receiver", at("property.go", sw))
	}
	sizeCases := []string{}
	defaultPanics := false
	for _, c := range sw.Body.List {
		cc := c.(*ast.CaseClause)
		if cc.List == nil {
			if len(cc.Body) == 1 {
				if es, ok := cc.Body[0].(*ast.ExprStmt); ok {
					if call, ok := es.X.(*ast.CallExpr); ok {
						if id, ok := call.Fun.(*ast.Ident); ok && id.Name == "panic" {
							defaultPanics = true
						}
					}
				}
			}
			if !defaultPanics {
				return fmt.Errorf("%s: default case of Size does not panic", at("property.go", cc))
			}
			continue
		}
		names := []string{}
		for _, e := range cc.List {
			id, ok := e.(*ast.Ident)
			if !ok {
				return fmt.Errorf("%s: unsupported case expression", at("property.go", e))
			}
			names = append(names, strconv.Quote(id.Name))
		}
		if len(cc.Body) != 1 {
			return fmt.Errorf("%s: case body is not a single return", at("property.go", cc))
		}
		r, ok := cc.Body[0].(*ast.ReturnStmt)
		if !ok || len(r.Results) != 1 {
			return fmt.Errorf("%s: case body is not a single return", at("property.go", cc))
		}
		lit, ok := r.Results[0].(*ast.BasicLit)
		if !ok || lit.Kind != token.INT {
			return fmt.Errorf("%s: case does not return an integer literal", at("property.go", cc))
		}
		sizeCases = append(sizeCases, fmt.Sprintf("([%s], %s)", strings.Join(names, ", "), lit.Value))
	}
	// ---- alias map
	aliases := []string{}
	var aliasPos ast.Node
	for _, d := range rf.Decls {
		gd, ok := d.(*ast.GenDecl)
		if !ok || gd.Tok != token.VAR {
			continue
		}
		for _, sp := range gd.Specs {
			vs := sp.(*ast.ValueSpec)
			if len(vs.Names) != 1 || vs.Names[0].Name != "scalarPropTypeNameToScalarPropertyType" {
				continue
			}
			cl, ok := vs.Values[0].(*ast.CompositeLit)
			if !ok {
				return fmt.Errorf("%s: alias table is not a composite literal", at("reader.go", vs))
			}
			aliasPos = vs
			for _, e := range cl.Elts {
				kv := e.(*ast.KeyValueExpr)
				k, ok1 := kv.Key.(*ast.BasicLit)
				v, ok2 := kv.Value.(*ast.Ident)
				if !ok1 || !ok2 || k.Kind != token.STRING {
					return fmt.Errorf("%s: unsupported alias entry", at("reader.go", kv))
				}
				ks, _ := strconv.Unquote(k.Value)
				aliases = append(aliases, fmt.Sprintf("(%s, %s)", strconv.Quote(ks), strconv.Quote(v.Name)))
			}
		}
	}
	if aliasPos == nil {
		return fmt.Errorf("reader.go: var scalarPropTypeNameToScalarPropertyType not found")
	}
	// ---- ParseScalarPropertyType: cleaned := strings.ToLower(strings.TrimSpace(str)); lookup in the table; panic otherwise
	var parseFn *ast.FuncDecl
	for _, d := range rf.Decls {
		if fd, ok := d.(*ast.FuncDecl); ok && fd.Recv == nil && fd.Name.Name == "ParseScalarPropertyType" {
			parseFn = fd
		}
	}
	if parseFn == nil || len(parseFn.Body.List) < 2 {
		return fmt.Errorf("reader.go: func ParseScalarPropertyType not found")
	}
	chain := []string{}
	as, ok := parseFn.Body.List[0].(*ast.AssignStmt)
	if !ok || len(as.Rhs) != 1 {
		return fmt.Errorf("%s: first statement of ParseScalarPropertyType is not `cleaned := …`", at("reader.go", parseFn))
	}
	e := as.Rhs[0]
	for {
		c, ok := e.(*ast.CallExpr)
		if !ok {
			break
		}
		sel, ok := c.Fun.(*ast.SelectorExpr)
		if !ok || len(c.Args) != 1 {
			return fmt.Errorf("%s: unsupported cleaning chain", at("reader.go", as))
		}
		chain = append(chain, strconv.Quote(sel.X.(*ast.Ident).Name+"."+sel.Sel.Name))
		e = c.Args[0]
	}
	if id, ok := e.(*ast.Ident); !ok || id.Name != parseFn.Type.Params.List[0].Names[0].Name {
		return fmt.Errorf("%s: cleaning chain does not start from the parameter", at("reader.go", as))
	}
	var b strings.Builder
	b.WriteString("/-\n  GENERATED by /verif/go/facts (mode c04.types) from /repo/formats/ply/property.go and reader.go.\n  Do not edit: regenerated by ./check before every build.\n-/\nnamespace PolyVerif.Gen.PlyTypes\n\n")
	cs := []string{}
	for _, c := range consts {
		cs = append(cs, fmt.Sprintf("(%s, %s)", strconv.Quote(c[0]), strconv.Quote(c[1])))
	}
	fmt.Fprintf(&b, "/-- property.go: the `ScalarPropertyType` constants (identifier, string value = header spelling), source order -/\ndef constNames : List (String × String) :=\n  [%s]\n\n", strings.Join(cs, ", "))
	fmt.Fprintf(&b, "/-- %s  `Size()`: `case A, B: return N` in source order; the default case panics -/\ndef sizeCases : List (List String × Nat) :=\n  [%s]\n\n", at("property.go", sizeFn), strings.Join(sizeCases, ", "))
	fmt.Fprintf(&b, "/-- %s  `scalarPropTypeNameToScalarPropertyType` (accepted spelling, constant identifier), source order -/\ndef aliasMap : List (String × String) :=\n  [%s]\n\n", at("reader.go", aliasPos), strings.Join(aliases, ",\n   "))
	fmt.Fprintf(&b, "/-- %s  `ParseScalarPropertyType`: functions applied to the argument before the table lookup, outermost first -/\ndef parseCleaning : List String := [%s]\n\n", at("reader.go", parseFn), strings.Join(chain, ", "))
	b.WriteString("end PolyVerif.Gen.PlyTypes\n")
	return os.WriteFile(out, []byte(b.String()), 0o644)
}
