// Engine F, property C15: the property tables of the PLY splat export and of the default PLY reader,
// read from the current tree with go/parser + go/ast and written as Lean data
// (PolyVerif/Gen/SplatPlyTable.lean).
//
// Extracted (a shape that is not the expected one is an error — the extractor never guesses):
//
//	modeling/attribute.go   const X = "..."                    attribute constant values
//	formats/ply/types.go    func (sa SplatPly) Write: the literal `writers := []PropertyWriter{ VectorNPropertyWriter{...}, ... }`
//	                        -> (model attribute, scalar type, ply property names in order)
//	                        and the loop that appends the higher-order harmonics, which must have exactly the shape
//	                          harmonics := <int literal>
//	                          for i := 0; i < harmonics; i++ { writers = append(writers, Vector1PropertyWriter{
//	                              ModelAttribute: fmt.Sprintf(<fmt>, i), PlyProperty: fmt.Sprintf(<fmt>, i), Type: <T> }) }
//	                        -> count, the two format strings, the type (any other shape is an error)
//	formats/ply/reader.go   var defaultReader ... Properties: []PropertyReader{ &VectorNPropertyReader{...}, ... }
//	                        -> (model attribute, ply property names in order), and LoadUnspecifiedProperties
package main

import (
	"fmt"
	"go/ast"
	"go/parser"
	"go/token"
	"os"
	"path/filepath"
	"strconv"
	"strings"
)

func init() { modes["c15.splatply"] = c15SplatPly; modes["c15.spzvalidate"] = c15SpzValidate }

func c15consts(repo string) (map[string]string, error) {
	fset := token.NewFileSet()
	f, err := parser.ParseFile(fset, filepath.Join(repo, "modeling", "attribute.go"), nil, 0)
	if err != nil {
		return nil, err
	}
	out := map[string]string{}
	for _, d := range f.Decls {
		gd, ok := d.(*ast.GenDecl)
		if !ok || gd.Tok != token.CONST {
			continue
		}
		for _, sp := range gd.Specs {
			vs := sp.(*ast.ValueSpec)
			for i, n := range vs.Names {
				if i < len(vs.Values) {
					if bl, ok := vs.Values[i].(*ast.BasicLit); ok && bl.Kind == token.STRING {
						s, err := strconv.Unquote(bl.Value)
						if err != nil {
							return nil, err
						}
						out[n.Name] = s
					}
				}
			}
		}
	}
	return out, nil
}

type c15entry struct {
	kind  string // Vector1.. Vector4
	attr  string
	typ   string
	names []string
}

func c15lit(e ast.Expr, consts map[string]string) (c15entry, error) {
	if u, ok := e.(*ast.UnaryExpr); ok && u.Op == token.AND {
		e = u.X
	}
	cl, ok := e.(*ast.CompositeLit)
	if !ok {
		return c15entry{}, fmt.Errorf("expected a composite literal, got %T", e)
	}
	tn, ok := cl.Type.(*ast.Ident)
	if !ok || !strings.HasPrefix(tn.Name, "Vector") {
		return c15entry{}, fmt.Errorf("unexpected element type %v", cl.Type)
	}
	ent := c15entry{kind: tn.Name}
	byKey := map[string]string{}
	for _, el := range cl.Elts {
		kv, ok := el.(*ast.KeyValueExpr)
		if !ok {
			return ent, fmt.Errorf("%s: positional field", tn.Name)
		}
		key := kv.Key.(*ast.Ident).Name
		switch v := kv.Value.(type) {
		case *ast.BasicLit:
			s, err := strconv.Unquote(v.Value)
			if err != nil {
				return ent, err
			}
			byKey[key] = s
		case *ast.SelectorExpr: // modeling.PositionAttribute
			s, ok := consts[v.Sel.Name]
			if !ok {
				return ent, fmt.Errorf("%s.%s: unknown constant %s", tn.Name, key, v.Sel.Name)
			}
			byKey[key] = s
		case *ast.Ident: // Float, true, false
			byKey[key] = strings.ToLower(v.Name)
		default:
			return ent, fmt.Errorf("%s.%s: unexpected value %T", tn.Name, key, kv.Value)
		}
	}
	ent.attr = byKey["ModelAttribute"]
	ent.typ = byKey["Type"]
	for _, k := range []string{"PlyProperty", "PlyPropertyX", "PlyPropertyY", "PlyPropertyZ", "PlyPropertyW"} {
		if s, ok := byKey[k]; ok {
			ent.names = append(ent.names, s)
		}
	}
	if ent.attr == "" || len(ent.names) == 0 {
		return ent, fmt.Errorf("%s: no ModelAttribute / property names", tn.Name)
	}
	return ent, nil
}

func c15slice(e ast.Expr, elt string, consts map[string]string) ([]c15entry, error) {
	cl, ok := e.(*ast.CompositeLit)
	if !ok {
		return nil, fmt.Errorf("expected []%s literal, got %T", elt, e)
	}
	at, ok := cl.Type.(*ast.ArrayType)
	if !ok || at.Len != nil {
		return nil, fmt.Errorf("expected []%s literal", elt)
	}
	if id, ok := at.Elt.(*ast.Ident); !ok || id.Name != elt {
		return nil, fmt.Errorf("expected []%s literal", elt)
	}
	var out []c15entry
	for _, x := range cl.Elts {
		ent, err := c15lit(x, consts)
		if err != nil {
			return nil, err
		}
		out = append(out, ent)
	}
	return out, nil
}

// fmt.Sprintf("<format>", i) -> format
func c15sprintf(e ast.Expr, loopVar string) (string, error) {
	call, ok := e.(*ast.CallExpr)
	if !ok || len(call.Args) != 2 {
		return "", fmt.Errorf("expected fmt.Sprintf(format, %s)", loopVar)
	}
	if sel, ok := call.Fun.(*ast.SelectorExpr); !ok || sel.Sel.Name != "Sprintf" {
		return "", fmt.Errorf("expected fmt.Sprintf")
	}
	bl, ok := call.Args[0].(*ast.BasicLit)
	if !ok || bl.Kind != token.STRING {
		return "", fmt.Errorf("Sprintf format is not a literal")
	}
	if id, ok := call.Args[1].(*ast.Ident); !ok || id.Name != loopVar {
		return "", fmt.Errorf("Sprintf argument is not the loop variable")
	}
	return strconv.Unquote(bl.Value)
}

type c15rest struct {
	count            int
	attrFmt, propFmt string
	typ              string
}

func c15restLoop(body []ast.Stmt) (c15rest, error) {
	var r c15rest
	haveCount := false
	for idx, st := range body {
		as, ok := st.(*ast.AssignStmt)
		if !ok || len(as.Lhs) != 1 || len(as.Rhs) != 1 {
			continue
		}
		id, ok := as.Lhs[0].(*ast.Ident)
		if !ok || id.Name != "harmonics" {
			continue
		}
		bl, ok := as.Rhs[0].(*ast.BasicLit)
		if !ok || bl.Kind != token.INT || as.Tok != token.DEFINE {
			return r, fmt.Errorf("`harmonics` is not defined by an int literal")
		}
		n, err := strconv.Atoi(bl.Value)
		if err != nil {
			return r, err
		}
		r.count = n
		haveCount = true
		if idx+1 >= len(body) {
			return r, fmt.Errorf("no statement after `harmonics := ...`")
		}
		fs, ok := body[idx+1].(*ast.ForStmt)
		if !ok {
			return r, fmt.Errorf("statement after `harmonics := ...` is %T, expected the for loop", body[idx+1])
		}
		// for i := 0; i < harmonics; i++
		init, ok := fs.Init.(*ast.AssignStmt)
		if !ok || len(init.Lhs) != 1 || len(init.Rhs) != 1 {
			return r, fmt.Errorf("for init")
		}
		lv := init.Lhs[0].(*ast.Ident).Name
		if z, ok := init.Rhs[0].(*ast.BasicLit); !ok || z.Value != "0" {
			return r, fmt.Errorf("loop does not start at 0")
		}
		cond, ok := fs.Cond.(*ast.BinaryExpr)
		if !ok || cond.Op != token.LSS {
			return r, fmt.Errorf("loop condition is not `<`")
		}
		if a, ok := cond.X.(*ast.Ident); !ok || a.Name != lv {
			return r, fmt.Errorf("loop condition lhs")
		}
		if b, ok := cond.Y.(*ast.Ident); !ok || b.Name != "harmonics" {
			return r, fmt.Errorf("loop bound is not `harmonics`")
		}
		if inc, ok := fs.Post.(*ast.IncDecStmt); !ok || inc.Tok != token.INC {
			return r, fmt.Errorf("loop post is not ++")
		}
		if len(fs.Body.List) != 1 {
			return r, fmt.Errorf("loop body has %d statements", len(fs.Body.List))
		}
		ap, ok := fs.Body.List[0].(*ast.AssignStmt)
		if !ok || len(ap.Rhs) != 1 {
			return r, fmt.Errorf("loop body is not `writers = append(...)`")
		}
		call, ok := ap.Rhs[0].(*ast.CallExpr)
		if !ok || len(call.Args) != 2 {
			return r, fmt.Errorf("loop body is not append(writers, X)")
		}
		if f, ok := call.Fun.(*ast.Ident); !ok || f.Name != "append" {
			return r, fmt.Errorf("loop body is not append")
		}
		cl, ok := call.Args[1].(*ast.CompositeLit)
		if !ok {
			return r, fmt.Errorf("appended value is not a composite literal")
		}
		if tn, ok := cl.Type.(*ast.Ident); !ok || tn.Name != "Vector1PropertyWriter" {
			return r, fmt.Errorf("appended value is not a Vector1PropertyWriter")
		}
		for _, el := range cl.Elts {
			kv, ok := el.(*ast.KeyValueExpr)
			if !ok {
				return r, fmt.Errorf("positional field in the harmonics writer")
			}
			switch kv.Key.(*ast.Ident).Name {
			case "ModelAttribute":
				r.attrFmt, err = c15sprintf(kv.Value, lv)
			case "PlyProperty":
				r.propFmt, err = c15sprintf(kv.Value, lv)
			case "Type":
				if t, ok := kv.Value.(*ast.Ident); ok {
					r.typ = strings.ToLower(t.Name)
				}
			default:
				err = fmt.Errorf("unexpected field %s", kv.Key.(*ast.Ident).Name)
			}
			if err != nil {
				return r, err
			}
		}
	}
	if !haveCount || r.attrFmt == "" || r.propFmt == "" || r.typ == "" {
		return r, fmt.Errorf("harmonics loop not found in the expected shape")
	}
	return r, nil
}

func c15str(s string) string { return strconv.Quote(s) }

func c15list(ss []string) string {
	q := make([]string, len(ss))
	for i, s := range ss {
		q[i] = c15str(s)
	}
	return "[" + strings.Join(q, ", ") + "]"
}

func c15SplatPly(repo, out string, args []string) error {
	consts, err := c15consts(repo)
	if err != nil {
		return err
	}
	fset := token.NewFileSet()
	// writer table
	tf, err := parser.ParseFile(fset, filepath.Join(repo, "formats", "ply", "types.go"), nil, 0)
	if err != nil {
		return err
	}
	var writers []c15entry
	found := false
	for _, d := range tf.Decls {
		fd, ok := d.(*ast.FuncDecl)
		if !ok || fd.Name.Name != "Write" || fd.Recv == nil || len(fd.Recv.List) != 1 {
			continue
		}
		if id, ok := fd.Recv.List[0].Type.(*ast.Ident); !ok || id.Name != "SplatPly" {
			continue
		}
		for _, st := range fd.Body.List {
			as, ok := st.(*ast.AssignStmt)
			if !ok || len(as.Lhs) != 1 || len(as.Rhs) != 1 {
				continue
			}
			if id, ok := as.Lhs[0].(*ast.Ident); !ok || id.Name != "writers" {
				continue
			}
			writers, err = c15slice(as.Rhs[0], "PropertyWriter", consts)
			if err != nil {
				return fmt.Errorf("types.go SplatPly.Write writers: %w", err)
			}
			found = true
		}
	}
	if !found {
		return fmt.Errorf("types.go: `writers := []PropertyWriter{...}` not found in SplatPly.Write")
	}
	var rest c15rest
	for _, d := range tf.Decls {
		fd, ok := d.(*ast.FuncDecl)
		if !ok || fd.Name.Name != "Write" || fd.Recv == nil || len(fd.Recv.List) != 1 {
			continue
		}
		if id, ok := fd.Recv.List[0].Type.(*ast.Ident); !ok || id.Name != "SplatPly" {
			continue
		}
		rest, err = c15restLoop(fd.Body.List)
		if err != nil {
			return fmt.Errorf("types.go SplatPly.Write harmonics loop: %w", err)
		}
	}
	// reader table
	rf, err := parser.ParseFile(fset, filepath.Join(repo, "formats", "ply", "reader.go"), nil, 0)
	if err != nil {
		return err
	}
	var readers []c15entry
	loadUnspecified := false
	found = false
	for _, d := range rf.Decls {
		gd, ok := d.(*ast.GenDecl)
		if !ok || gd.Tok != token.VAR {
			continue
		}
		for _, sp := range gd.Specs {
			vs := sp.(*ast.ValueSpec)
			if len(vs.Names) != 1 || vs.Names[0].Name != "defaultReader" || len(vs.Values) != 1 {
				continue
			}
			cl, ok := vs.Values[0].(*ast.CompositeLit)
			if !ok {
				return fmt.Errorf("reader.go defaultReader: not a composite literal")
			}
			for _, el := range cl.Elts {
				kv, ok := el.(*ast.KeyValueExpr)
				if !ok {
					continue
				}
				if k, ok := kv.Key.(*ast.Ident); ok && k.Name == "LoadUnspecifiedProperties" {
					if v, ok := kv.Value.(*ast.Ident); ok && v.Name == "true" {
						loadUnspecified = true
					}
				}
				if k, ok := kv.Key.(*ast.Ident); ok && k.Name == "Properties" {
					readers, err = c15slice(kv.Value, "PropertyReader", consts)
					if err != nil {
						return fmt.Errorf("reader.go defaultReader.Properties: %w", err)
					}
					found = true
				}
			}
		}
	}
	if !found {
		return fmt.Errorf("reader.go: defaultReader.Properties not found")
	}
	var sb strings.Builder
	sb.WriteString("/- GENERATED by /verif/go/facts c15.splatply from formats/ply/types.go, formats/ply/reader.go,\n   modeling/attribute.go — do not edit. -/\n")
	sb.WriteString("namespace PolyVerif.Gen.SplatPlyTable\n\n")
	sb.WriteString("/-- (model attribute, scalar type, ply property names) of the literal writer list of `SplatPly.Write` -/\n")
	sb.WriteString("def writer : List (String × String × List String) := [\n")
	for i, w := range writers {
		sep := ","
		if i == len(writers)-1 {
			sep = ""
		}
		fmt.Fprintf(&sb, "  (%s, %s, %s)%s\n", c15str(w.attr), c15str(w.typ), c15list(w.names), sep)
	}
	sb.WriteString("]\n\n/-- (model attribute, ply property names) of `defaultReader.Properties` -/\n")
	sb.WriteString("def reader : List (String × List String) := [\n")
	for i, r := range readers {
		sep := ","
		if i == len(readers)-1 {
			sep = ""
		}
		fmt.Fprintf(&sb, "  (%s, %s)%s\n", c15str(r.attr), c15list(r.names), sep)
	}
	sb.WriteString("]\n\n/-- the five gaussian-splat attributes (modeling/attribute.go) -/\n")
	fmt.Fprintf(&sb, "def splatAttributes : List String := %s\n\n", c15list([]string{consts["PositionAttribute"], consts["FDCAttribute"], consts["ScaleAttribute"], consts["RotationAttribute"], consts["OpacityAttribute"]}))
	sb.WriteString("/-- the harmonics loop of `SplatPly.Write`: `for i := 0; i < restCount; i++` appends a Vector1PropertyWriter with\n    ModelAttribute = Sprintf(restAttrFormat, i), PlyProperty = Sprintf(restPropFormat, i), Type = restType -/\n")
	fmt.Fprintf(&sb, "def restCount : Nat := %d\ndef restAttrFormat : String := %s\ndef restPropFormat : String := %s\ndef restType : String := %s\n\n", rest.count, c15str(rest.attrFmt), c15str(rest.propFmt), c15str(rest.typ))
	fmt.Fprintf(&sb, "/-- `defaultReader.LoadUnspecifiedProperties`: a property no reader claims is loaded as a scalar attribute of its own name -/\ndef readerLoadsUnspecified : Bool := %v\n\n", loadUnspecified)
	sb.WriteString("end PolyVerif.Gen.SplatPlyTable\n")
	return os.WriteFile(out, []byte(sb.String()), 0o644)
}

// ---- c15.spzvalidate: the guards of spz Header.Validate as data -------------------------------------------------------
//   formats/spz/header.go   func (pgh Header) Validate() error: a sequence of
//       if <guard> [|| <guard>] { return fmt.Errorf(...) }      ...      return nil
//   where <guard> is   pgh.<Field> <op> <int literal | constant>   (constants: `const` in the function body or at
//   package level of header.go).  Emitted: the guards in order as (field, operator, value).  Any other shape is an error.

func c15intConst(e ast.Expr, consts map[string]string) (string, error) {
	switch v := e.(type) {
	case *ast.BasicLit:
		if v.Kind != token.INT {
			return "", fmt.Errorf("literal %s is not an int", v.Value)
		}
		n, err := strconv.ParseInt(v.Value, 0, 64)
		if err != nil {
			return "", err
		}
		return fmt.Sprint(n), nil
	case *ast.Ident:
		if s, ok := consts[v.Name]; ok {
			return s, nil
		}
		return "", fmt.Errorf("unknown constant %s", v.Name)
	}
	return "", fmt.Errorf("unexpected operand %T", e)
}

func c15collectIntConsts(specs []ast.Spec, consts map[string]string) {
	for _, sp := range specs {
		vs, ok := sp.(*ast.ValueSpec)
		if !ok {
			continue
		}
		for i, n := range vs.Names {
			if i < len(vs.Values) {
				if s, err := c15intConst(vs.Values[i], consts); err == nil {
					consts[n.Name] = s
				}
			}
		}
	}
}

func c15guards(e ast.Expr, recv string, consts map[string]string) ([][3]string, error) {
	be, ok := e.(*ast.BinaryExpr)
	if !ok {
		return nil, fmt.Errorf("guard is %T, expected a comparison", e)
	}
	if be.Op == token.LOR {
		a, err := c15guards(be.X, recv, consts)
		if err != nil {
			return nil, err
		}
		b, err := c15guards(be.Y, recv, consts)
		if err != nil {
			return nil, err
		}
		return append(a, b...), nil
	}
	switch be.Op {
	case token.LSS, token.GTR, token.LEQ, token.GEQ, token.NEQ, token.EQL:
	default:
		return nil, fmt.Errorf("unexpected operator %s", be.Op)
	}
	sel, ok := be.X.(*ast.SelectorExpr)
	if !ok {
		return nil, fmt.Errorf("left operand is not %s.<Field>", recv)
	}
	if id, ok := sel.X.(*ast.Ident); !ok || id.Name != recv {
		return nil, fmt.Errorf("left operand is not a field of the receiver")
	}
	val, err := c15intConst(be.Y, consts)
	if err != nil {
		return nil, err
	}
	return [][3]string{{sel.Sel.Name, be.Op.String(), val}}, nil
}

func c15SpzValidate(repo, out string, args []string) error {
	fset := token.NewFileSet()
	f, err := parser.ParseFile(fset, filepath.Join(repo, "formats", "spz", "header.go"), nil, 0)
	if err != nil {
		return err
	}
	consts := map[string]string{}
	for _, d := range f.Decls {
		if gd, ok := d.(*ast.GenDecl); ok && gd.Tok == token.CONST {
			c15collectIntConsts(gd.Specs, consts)
		}
	}
	var guards [][3]string
	found := false
	for _, d := range f.Decls {
		fd, ok := d.(*ast.FuncDecl)
		if !ok || fd.Name.Name != "Validate" || fd.Recv == nil || len(fd.Recv.List) != 1 || len(fd.Recv.List[0].Names) != 1 {
			continue
		}
		recv := fd.Recv.List[0].Names[0].Name
		found = true
		n := len(fd.Body.List)
		for i, st := range fd.Body.List {
			switch v := st.(type) {
			case *ast.DeclStmt:
				gd, ok := v.Decl.(*ast.GenDecl)
				if !ok || gd.Tok != token.CONST {
					return fmt.Errorf("Validate: unexpected declaration")
				}
				c15collectIntConsts(gd.Specs, consts)
			case *ast.IfStmt:
				if v.Init != nil || v.Else != nil || len(v.Body.List) != 1 {
					return fmt.Errorf("Validate: if statement %d is not `if guard { return err }`", i)
				}
				if _, ok := v.Body.List[0].(*ast.ReturnStmt); !ok {
					return fmt.Errorf("Validate: if body %d does not return", i)
				}
				g, err := c15guards(v.Cond, recv, consts)
				if err != nil {
					return fmt.Errorf("Validate: guard %d: %w", i, err)
				}
				guards = append(guards, g...)
			case *ast.ReturnStmt:
				if i != n-1 || len(v.Results) != 1 {
					return fmt.Errorf("Validate: unexpected return")
				}
				if id, ok := v.Results[0].(*ast.Ident); !ok || id.Name != "nil" {
					return fmt.Errorf("Validate: final return is not nil")
				}
			default:
				return fmt.Errorf("Validate: unexpected statement %T", st)
			}
		}
	}
	if !found || len(guards) == 0 {
		return fmt.Errorf("header.go: Header.Validate not found")
	}
	var sb strings.Builder
	sb.WriteString("/- GENERATED by /verif/go/facts c15.spzvalidate from formats/spz/header.go — do not edit. -/\n")
	sb.WriteString("namespace PolyVerif.Gen.SpzValidate\n\n")
	sb.WriteString("/-- the guards of `Header.Validate` in source order: the header is rejected iff one of `field op value` holds -/\n")
	sb.WriteString("def guards : List (String × String × Nat) := [\n")
	for i, g := range guards {
		sep := ","
		if i == len(guards)-1 {
			sep = ""
		}
		fmt.Fprintf(&sb, "  (%s, %s, %s)%s\n", c15str(g[0]), c15str(g[1]), g[2], sep)
	}
	sb.WriteString("]\n\nend PolyVerif.Gen.SpzValidate\n")
	return os.WriteFile(out, []byte(sb.String()), 0o644)
}
