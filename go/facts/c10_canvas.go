package main

// Engine F, C10 part 2: block-range facts of modeling/marching/canvas.go (see c10.go for the conventions).

import (
	"fmt"
	"go/ast"
	"go/parser"
	"go/token"
	"strings"
)

func c10FindFunc(file *ast.File, name string) *ast.FuncDecl {
	for _, d := range file.Decls {
		if fd, ok := d.(*ast.FuncDecl); ok && fd.Name.Name == name && fd.Body != nil {
			return fd
		}
	}
	return nil
}

// c10IfReturn reads `func f(a, b int) int { if COND { return X }; return Y }` as a Lean if-then-else.
func c10IfReturn(fset *token.FileSet, fd *ast.FuncDecl) (string, error) {
	ps := c10IntParams(fd.Type)
	if len(ps) != 2 || len(fd.Body.List) != 2 {
		return "", c10err(fset, fd, "%s: not `if c { return x }; return y` over two ints", fd.Name.Name)
	}
	env := c10Env{ps[0]: "a", ps[1]: "b"}
	is, ok := fd.Body.List[0].(*ast.IfStmt)
	r2, ok2 := fd.Body.List[1].(*ast.ReturnStmt)
	if !ok || !ok2 || is.Else != nil || is.Init != nil || len(is.Body.List) != 1 || len(r2.Results) != 1 {
		return "", c10err(fset, fd, "%s: unknown shape", fd.Name.Name)
	}
	r1, ok := is.Body.List[0].(*ast.ReturnStmt)
	if !ok || len(r1.Results) != 1 {
		return "", c10err(fset, fd, "%s: unknown shape", fd.Name.Name)
	}
	cond, err := c10Cond(fset, is.Cond, env)
	if err != nil {
		return "", err
	}
	x, err := c10Expr(fset, r1.Results[0], env)
	if err != nil {
		return "", err
	}
	y, err := c10Expr(fset, r2.Results[0], env)
	if err != nil {
		return "", err
	}
	return "if " + cond + " then " + x + " else " + y, nil
}

// c10Lit finds the unique `name := T{X: .., Y: .., Z: ..}` in body and returns the three field expressions.
func c10Lit(fset *token.FileSet, body ast.Node, name string, who string) (map[string]ast.Expr, error) {
	var found []map[string]ast.Expr
	ast.Inspect(body, func(n ast.Node) bool {
		as, ok := n.(*ast.AssignStmt)
		if !ok || len(as.Lhs) != 1 || len(as.Rhs) != 1 || c10Key(as.Lhs[0]) != name {
			return true
		}
		cl, ok := as.Rhs[0].(*ast.CompositeLit)
		if !ok {
			return true
		}
		m := map[string]ast.Expr{}
		for _, el := range cl.Elts {
			if kv, ok := el.(*ast.KeyValueExpr); ok {
				m[c10Key(kv.Key)] = kv.Value
			}
		}
		found = append(found, m)
		return true
	})
	if len(found) != 1 || len(found[0]) != 3 || found[0]["X"] == nil || found[0]["Y"] == nil || found[0]["Z"] == nil {
		return nil, fmt.Errorf("%s: expected exactly one `%s := VectorInt{X:…, Y:…, Z:…}` (found %d)", who, name, len(found))
	}
	return found[0], nil
}

// c10Nest finds the unique triple-nested counting loop in body; returns loop vars outermost first, bounds, innermost body.
func c10Nest(fset *token.FileSet, body ast.Node, who string) (vars []string, los, his []ast.Expr, inner *ast.BlockStmt, err error) {
	var tops []*ast.ForStmt
	ast.Inspect(body, func(n ast.Node) bool {
		if f, ok := n.(*ast.ForStmt); ok {
			// triple nest?
			if v1, _, _, b1, e := c10CountLoop(fset, f); e == nil {
				for _, s2 := range b1.List {
					if f2, ok := s2.(*ast.ForStmt); ok {
						if v2, _, _, b2, e := c10CountLoop(fset, f2); e == nil {
							for _, s3 := range b2.List {
								if f3, ok := s3.(*ast.ForStmt); ok {
									if v3, _, _, b3, e := c10CountLoop(fset, f3); e == nil && v1 != v2 && v2 != v3 {
										deeper := false
										ast.Inspect(b3, func(n ast.Node) bool {
											if _, ok := n.(*ast.ForStmt); ok {
												deeper = true
											}
											return true
										})
										if !deeper {
											tops = append(tops, f)
											return false
										}
									}
								}
							}
						}
					}
				}
			}
		}
		return true
	})
	if len(tops) != 1 {
		return nil, nil, nil, nil, fmt.Errorf("%s: expected exactly one triple-nested counting loop (found %d)", who, len(tops))
	}
	var cur ast.Stmt = tops[0]
	for depth := 0; depth < 3; depth++ {
		v, lo, hi, b, e := c10CountLoop(fset, cur)
		if e != nil {
			return nil, nil, nil, nil, e
		}
		vars, los, his, inner = append(vars, v), append(los, lo), append(his, hi), b
		if depth < 2 {
			cur = nil
			for _, s := range b.List {
				if f, ok := s.(*ast.ForStmt); ok {
					if cur != nil {
						return nil, nil, nil, nil, c10err(fset, s, "%s: two loops at one level", who)
					}
					cur = f
				}
			}
			if cur == nil {
				return nil, nil, nil, nil, fmt.Errorf("%s: nest broken", who)
			}
		}
	}
	return
}

func c10Canvas(fset *token.FileSet, o *c10Out, path string) error {
	file, err := parser.ParseFile(fset, path, nil, 0)
	if err != nil {
		return err
	}
	// constants
	consts := map[string]string{}
	for _, d := range file.Decls {
		g, ok := d.(*ast.GenDecl)
		if !ok || g.Tok != token.CONST {
			continue
		}
		for _, sp := range g.Specs {
			vs := sp.(*ast.ValueSpec)
			for i, n := range vs.Names {
				if strings.HasPrefix(n.Name, "marchingSectionSize") && i < len(vs.Values) {
					consts[n.Name] = ""
					_ = i
				}
			}
		}
	}
	cenv := c10Env{}
	for _, d := range file.Decls { // second pass in source order so that Squared can use Size
		g, ok := d.(*ast.GenDecl)
		if !ok || g.Tok != token.CONST {
			continue
		}
		for _, sp := range g.Specs {
			vs := sp.(*ast.ValueSpec)
			for i, n := range vs.Names {
				if _, want := consts[n.Name]; want {
					v, err := c10Expr(fset, vs.Values[i], cenv)
					if err != nil {
						return err
					}
					cenv[n.Name] = v
				}
			}
		}
	}
	S, ok := cenv["marchingSectionSize"]
	if !ok {
		return fmt.Errorf("%s: constant marchingSectionSize not found", path)
	}
	o.p("-- modeling/marching/canvas.go: storage blocks and the per-block sample ranges of AddField / AddFieldParallel / AddFieldParallel2")
	o.p("namespace Canvas")
	o.p("def sectionSize : Int := %s", S)
	if sq, ok := cenv["marchingSectionSizeSquared"]; ok {
		o.p("def sectionSizeSquared : Int := %s", sq)
	}
	for _, fn := range []string{"maxInt", "minInt"} {
		fd := c10FindFunc(file, fn)
		if fd == nil {
			return fmt.Errorf("%s: func %s not found", path, fn)
		}
		b, err := c10IfReturn(fset, fd)
		if err != nil {
			return err
		}
		o.p("def %s (a b : Int) : Int := %s", fn, b)
	}
	withConsts := func(e c10Env) c10Env {
		for k, v := range cenv {
			e[k] = v
		}
		e["fn:maxInt"], e["fn:minInt"] = "maxInt", "minInt"
		return e
	}
	// index(x, y, z)
	fd := c10FindFunc(file, "index")
	if fd == nil || len(fd.Body.List) != 1 {
		return fmt.Errorf("%s: func index not found or not a single return", path)
	}
	ps := c10IntParams(fd.Type)
	rs, ok2 := fd.Body.List[0].(*ast.ReturnStmt)
	if len(ps) != 3 || !ok2 || len(rs.Results) != 1 {
		return c10err(fset, fd, "index: unknown shape")
	}
	ix, err := c10Expr(fset, rs.Results[0], withConsts(c10Env{ps[0]: "x", ps[1]: "y", ps[2]: "z"}))
	if err != nil {
		return err
	}
	o.p("/-- cell index inside a block -/")
	o.p("def index (x y z : Int) : Int := %s", ix)
	// canvasPosToChunkPos
	fd = c10FindFunc(file, "canvasPosToChunkPos")
	if fd == nil || len(fd.Body.List) != 1 {
		return fmt.Errorf("%s: func canvasPosToChunkPos not found or not a single return", path)
	}
	ps = c10IntParams(fd.Type)
	rs, ok2 = fd.Body.List[0].(*ast.ReturnStmt)
	if len(ps) != 3 || !ok2 || len(rs.Results) != 1 {
		return c10err(fset, fd, "canvasPosToChunkPos: unknown shape")
	}
	cl, ok2 := rs.Results[0].(*ast.CompositeLit)
	if !ok2 || len(cl.Elts) != 3 {
		return c10err(fset, fd, "canvasPosToChunkPos: does not return a VectorInt literal")
	}
	axes := []string{"X", "Y", "Z"}
	for i, el := range cl.Elts {
		kv, ok := el.(*ast.KeyValueExpr)
		if !ok || c10Key(kv.Key) != axes[i] {
			return c10err(fset, fd, "canvasPosToChunkPos: literal fields not X, Y, Z")
		}
		// component i may only depend on parameter i
		e, err := c10Expr(fset, kv.Value, withConsts(c10Env{ps[i]: "x"}))
		if err != nil {
			return err
		}
		o.p("/-- block coordinate of canvas coordinate `x` (%s component of canvasPosToChunkPos) -/", axes[i])
		o.p("def chunkOf%s (x : Int) : Int := %s", axes[i], e)
	}
	// chunkSectionsInRange: loop counts and elements
	fd = c10FindFunc(file, "chunkSectionsInRange")
	if fd == nil {
		return fmt.Errorf("%s: func chunkSectionsInRange not found", path)
	}
	vars, los, his, inner, err := c10Nest(fset, fd.Body, "chunkSectionsInRange")
	if err != nil {
		return err
	}
	// chunkRange := maxChunkPos.Sub(minChunkPos); minChunkPos := d.canvasPosToChunkPos(min.X, min.Y, min.Z) (checked textually)
	src := map[string]string{}
	ast.Inspect(fd.Body, func(n ast.Node) bool {
		if as, ok := n.(*ast.AssignStmt); ok && as.Tok == token.DEFINE && len(as.Lhs) == 1 && len(as.Rhs) == 1 {
			src[c10Key(as.Lhs[0])] = c10Key(as.Rhs[0])
		}
		return true
	})
	recv := c10RecvName(fd)
	if src["minChunkPos"] != recv+".canvasPosToChunkPos(min.X,min.Y,min.Z)" || src["maxChunkPos"] != recv+".canvasPosToChunkPos(max.X,max.Y,max.Z)" ||
		src["chunkRange"] != "maxChunkPos.Sub(minChunkPos)" {
		return c10err(fset, fd, "chunkSectionsInRange: minChunkPos/maxChunkPos/chunkRange not computed as understood (%v)", src)
	}
	var app *ast.CompositeLit
	ast.Inspect(inner, func(n ast.Node) bool {
		if c, ok := n.(*ast.CompositeLit); ok && app == nil {
			app = c
		}
		return true
	})
	if app == nil || len(app.Elts) != 3 {
		return c10err(fset, fd, "chunkSectionsInRange: appended element not found")
	}
	for _, el := range app.Elts {
		kv := el.(*ast.KeyValueExpr)
		ax := c10Key(kv.Key)
		// which loop variable drives this axis?
		li := -1
		for k, v := range vars {
			if strings.Contains(c10Key(kv.Value), v) && strings.Contains(c10Key(his[k]), "chunkRange."+ax) {
				li = k
			}
		}
		if li < 0 || c10Key(los[li]) != "0" {
			return c10err(fset, fd, "chunkSectionsInRange: axis %s is not driven by its own loop from 0", ax)
		}
		env := withConsts(c10Env{"chunkRange." + ax: "(hi - lo)", "minChunkPos." + ax: "lo", vars[li]: "k"})
		cnt, err := c10Expr(fset, his[li], env)
		if err != nil {
			return err
		}
		at, err := c10Expr(fset, kv.Value, env)
		if err != nil {
			return err
		}
		o.p("/-- chunkSectionsInRange, axis %s: `for k := 0; k < chunkCount; k++` visits block `chunkAt k`; lo/hi = block of min/max -/", ax)
		o.p("def chunkCount%s (lo hi : Int) : Int := %s", ax, cnt)
		o.p("def chunkAt%s (lo hi k : Int) : Int := %s", ax, at)
	}
	// the three AddField variants: clamped start / end per axis
	for _, fn := range []string{"AddField", "AddFieldParallel", "AddFieldParallel2"} {
		fd := c10FindFunc(file, fn)
		if fd == nil {
			return fmt.Errorf("%s: func %s not found", path, fn)
		}
		st, err := c10Lit(fset, fd.Body, "canvasSpaceChunkPos", fn)
		if err != nil {
			return err
		}
		en, err := c10Lit(fset, fd.Body, "endPos", fn)
		if err != nil {
			return err
		}
		// they must be what is handed to the block job
		txt := ""
		ast.Inspect(fd.Body, func(n ast.Node) bool {
			switch x := n.(type) {
			case *ast.CallExpr:
				txt += c10Key(x) + ";"
			case *ast.KeyValueExpr:
				txt += c10Key(x.Key) + ":" + c10Key(x.Value) + ";"
			}
			return true
		})
		direct := strings.Contains(txt, "addFloat1Range(section,chunkPos,canvasSpaceChunkPos,endPos,function)")
		viaJob := strings.Contains(txt, "startPos:canvasSpaceChunkPos;") && strings.Contains(txt, "endPos:endPos;") && strings.Contains(txt, "chunkPos:chunkPos;")
		if !direct && !viaJob {
			return c10err(fset, fd, "%s: clamped start/end are not handed to the block job as understood", fn)
		}
		if !strings.Contains(txt, "chunkSectionsInRange(min,max)") || !strings.Contains(txt, "fieldBounds(field)") {
			return c10err(fset, fd, "%s: blocks are not chunkSectionsInRange(fieldBounds(field))", fn)
		}
		o.p("namespace %s", fn)
		for _, ax := range axes {
			env := withConsts(c10Env{"chunkPos." + ax: "c", "min." + ax: "lo", "max." + ax: "hi"})
			a, err := c10Expr(fset, st[ax], env)
			if err != nil {
				return err
			}
			b, err := c10Expr(fset, en[ax], env)
			if err != nil {
				return err
			}
			o.p("def start%s (c lo hi : Int) : Int := %s", ax, a)
			o.p("def end%s (c lo hi : Int) : Int := %s", ax, b)
		}
		o.p("end %s", fn)
	}
	// loops of the block workers
	type loopFn struct {
		name, lo, hi string // func, prefix of lower / upper bound selectors
	}
	for _, lf := range []loopFn{{"addFloat1Range", "min", "max"}, {"calcFloat1Range", "min", "max"}, {"AddFieldParallel2", "result.startPos", "result.endPos"}} {
		fd := c10FindFunc(file, lf.name)
		if fd == nil {
			return fmt.Errorf("%s: func %s not found", path, lf.name)
		}
		vars, los, his, inner, err := c10Nest(fset, fd.Body, lf.name)
		if err != nil {
			return err
		}
		ns := lf.name
		if lf.name == "AddFieldParallel2" {
			ns = "AddFieldParallel2.merge"
		}
		o.p("namespace %s", ns)
		var nesting []string
		for k, v := range vars {
			AX := strings.ToUpper(v)
			if len(v) != 1 || !strings.Contains("XYZ", AX) {
				return c10err(fset, fd, "%s: loop variable %s is not x, y or z", lf.name, v)
			}
			nesting = append(nesting, v)
			env := c10Env{lf.lo + "." + AX: "lo", lf.hi + "." + AX: "hi"}
			a, err := c10Expr(fset, los[k], env)
			if err != nil {
				return err
			}
			b, err := c10Expr(fset, his[k], env)
			if err != nil {
				return err
			}
			o.p("def loopLo%s (lo hi : Int) : Int := %s", AX, a)
			o.p("def loopHi%s (lo hi : Int) : Int := %s", AX, b)
		}
		o.p("/-- loop nesting, outermost first (decides the order of the linear result buffer) -/")
		o.p("def nesting : List String := %s", c10StrList(nesting))
		// innermost body
		switch lf.name {
		case "addFloat1Range", "AddFieldParallel2":
			sp, err := c10Lit(fset, inner, "shiftedPos", lf.name)
			if err != nil {
				return err
			}
			for _, ax := range axes {
				e, err := c10Expr(fset, sp[ax], withConsts(c10Env{strings.ToLower(ax): "x", "chunkPos." + ax: "c"}))
				if err != nil {
					return err
				}
				o.p("/-- cell coordinate inside block `c` of canvas coordinate `x` -/")
				o.p("def local%s (x c : Int) : Int := %s", ax, e)
			}
			txt := ""
			ast.Inspect(inner, func(n ast.Node) bool {
				if as, ok := n.(*ast.AssignStmt); ok && as.Tok == token.ADD_ASSIGN {
					txt += c10Key(as.Lhs[0]) + "+=" + c10Key(as.Rhs[0]) + ";"
				}
				return true
			})
			want := "data[d.index(shiftedPos.X,shiftedPos.Y,shiftedPos.Z)]+="
			if strings.Count(txt, "+=") != 1 || !strings.HasPrefix(txt, want) {
				return c10err(fset, fd, "%s: the cell update is not `data[d.index(shiftedPos.X, shiftedPos.Y, shiftedPos.Z)] += …` (%s)", lf.name, txt)
			}
			if lf.name == "addFloat1Range" {
				if !strings.Contains(txt, "+=function(pos);") {
					return c10err(fset, fd, "addFloat1Range: does not accumulate function(pos)")
				}
				var pos string
				ast.Inspect(inner, func(n ast.Node) bool {
					if as, ok := n.(*ast.AssignStmt); ok && c10Key(as.Lhs[0]) == "pos" {
						pos = c10Key(as.Rhs[0])
					}
					return true
				})
				if pos != "vector3.New(float64(x),float64(y),float64(z)).DivByConstant(d.cubesPerUnit)" {
					return c10err(fset, fd, "addFloat1Range: sample position is %s", pos)
				}
				o.p("/-- the field is sampled at (x, y, z) / cubesPerUnit, in this argument order -/")
				o.p("def sampleArgs : List String := [\"x\", \"y\", \"z\"]")
			} else if !strings.Contains(txt, "+=resultData[i];") {
				return c10err(fset, fd, "AddFieldParallel2: merge does not accumulate resultData[i]")
			}
		case "calcFloat1Range":
			// xF := float64(x) / d.cubesPerUnit ... arr[i] = function(vector3.New(xF, yF, zF)); i++
			defs := map[string]string{}
			ast.Inspect(fd.Body, func(n ast.Node) bool {
				if as, ok := n.(*ast.AssignStmt); ok && as.Tok == token.DEFINE && len(as.Lhs) == 1 {
					defs[c10Key(as.Lhs[0])] = c10Key(as.Rhs[0])
				}
				return true
			})
			var call string
			ast.Inspect(inner, func(n ast.Node) bool {
				if as, ok := n.(*ast.AssignStmt); ok && as.Tok == token.ASSIGN && c10Key(as.Lhs[0]) == "arr[i]" {
					call = c10Key(as.Rhs[0])
				}
				return true
			})
			if !strings.HasPrefix(call, "function(vector3.New(") {
				return c10err(fset, fd, "calcFloat1Range: result is not arr[i] = function(vector3.New(…)) (%s)", call)
			}
			argv := strings.Split(strings.TrimSuffix(strings.TrimPrefix(call, "function(vector3.New("), "))"), ",")
			var order []string
			for _, a := range argv {
				d, ok := defs[a]
				if !ok || !strings.HasPrefix(d, "(float64(") || !strings.HasSuffix(d, ")/d.cubesPerUnit)") {
					return c10err(fset, fd, "calcFloat1Range: sample argument %s = %s not understood", a, d)
				}
				order = append(order, strings.TrimSuffix(strings.TrimPrefix(d, "(float64("), ")/d.cubesPerUnit)"))
			}
			o.p("/-- the field is sampled at (… / cubesPerUnit) of these loop variables, in this argument order -/")
			o.p("def sampleArgs : List String := %s", c10StrList(order))
		}
		o.p("end %s", ns)
	}
	o.p("end Canvas")
	o.p("")
	return c10Sync(fset, o, file)
}
