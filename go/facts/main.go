// Engine F: fact / table extractors.  Each mode reads /repo (go/ast, go/types or go/ssa as needed)
// and writes one Lean file of data or definitions into PolyVerif/Gen/.  Modes register themselves
// from their own file (cxx.go) in init():  modes["c09.tables"] = func(repo, out string, args []string) error {...}
//
// usage: facts <mode> -repo /repo -out File.lean [args...]
package main

import (
	"flag"
	"fmt"
	"os"
)

var modes = map[string]func(repo, out string, args []string) error{}

func main() {
	if len(os.Args) < 2 {
		fmt.Fprintln(os.Stderr, "usage: facts <mode> -repo DIR -out FILE [args]")
		os.Exit(2)
	}
	mode := os.Args[1]
	fs := flag.NewFlagSet(mode, flag.ExitOnError)
	repo := fs.String("repo", "/repo", "repository root")
	out := fs.String("out", "", "output Lean file")
	fs.Parse(os.Args[2:])
	f, ok := modes[mode]
	if !ok {
		fmt.Fprintln(os.Stderr, "unknown mode", mode)
		os.Exit(2)
	}
	if err := f(*repo, *out, fs.Args()); err != nil {
		fmt.Fprintln(os.Stderr, "FACTS-FAILED:", err)
		os.Exit(3)
	}
}
