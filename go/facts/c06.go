// Engine F, property C06: the numeric constants of formats/gltf that the writer model transcribes, read from the
// current tree with go/parser + go/ast and written as Lean data (PolyVerif/Gen/GltfConsts.lean):
//
//	accessor.go   const AccessorComponentType_* = <code>; func (AccessorComponentType) Size(): case …: return N
//	accessor.go   const AccessorType_* = "<NAME>"
//	structure.go  const ARRAY_BUFFER / ELEMENT_ARRAY_BUFFER = <code>
//	mesh.go       const PrimitiveMode_* = <code>
//	writer.go     every `Target: <IDENT>` of a BufferView literal, with the enclosing function, source order
//
// Props/C06Consts.lean proves the model's `Comp.code`, `Comp.size`, the buffer view targets and the POINTS mode equal to
// these tables.  A shape that is not the expected one is an error.
package main

import (
	"fmt"
	"go/ast"
	"go/parser"
	"go/token"
	"os"
	"path/filepath"
	"strconv"
	"strings"
)

func init() { modes["c06.consts"] = c06Consts }

func c06TypedConsts(f *ast.File, typ string) ([][2]string, error) {
	out := [][2]string{}
	for _, d := range f.Decls {
		gd, ok := d.(*ast.GenDecl)
		if !ok || gd.Tok != token.CONST {
			continue
		}
		for _, sp := range gd.Specs {
			vs := sp.(*ast.ValueSpec)
			id, ok := vs.Type.(*ast.Ident)
			if !ok || id.Name != typ {
				continue
			}
			if len(vs.Names) != 1 || len(vs.Values) != 1 {
				return nil, fmt.Errorf("unsupported %s constant spec", typ)
			}
			lit, ok := vs.Values[0].(*ast.BasicLit)
			if !ok {
				return nil, fmt.Errorf("%s constant %s is not a literal (iota?)", typ, vs.Names[0].Name)
			}
			out = append(out, [2]string{vs.Names[0].Name, lit.Value})
		}
	}
	if len(out) == 0 {
		return nil, fmt.Errorf("no constants of type %s found", typ)
	}
	return out, nil
}

func c06Consts(repo, out string, args []string) error {
	fset := token.NewFileSet()
	dir := filepath.Join(repo, "formats", "gltf")
	parse := func(name string) (*ast.File, error) { return parser.ParseFile(fset, filepath.Join(dir, name), nil, 0) }
	af, err := parse("accessor.go")
	if err != nil {
		return err
	}
	sf, err := parse("structure.go")
	if err != nil {
		return err
	}
	mf, err := parse("mesh.go")
	if err != nil {
		return err
	}
	wf, err := parse("writer.go")
	if err != nil {
		return err
	}
	natList := func(cs [][2]string) string {
		xs := []string{}
		for _, c := range cs {
			xs = append(xs, fmt.Sprintf("(%s, %s)", strconv.Quote(c[0]), c[1]))
		}
		return "[" + strings.Join(xs, ", ") + "]"
	}
	comps, err := c06TypedConsts(af, "AccessorComponentType")
	if err != nil {
		return err
	}
	atypes, err := c06TypedConsts(af, "AccessorType")
	if err != nil {
		return err
	}
	targets, err := c06TypedConsts(sf, "BufferViewTarget")
	if err != nil {
		return err
	}
	modes_, err := c06TypedConsts(mf, "PrimitiveMode")
	if err != nil {
		return err
	}
	// Size()
	var sizeFn *ast.FuncDecl
	for _, d := range af.Decls {
		if fd, ok := d.(*ast.FuncDecl); ok && fd.Name.Name == "Size" && fd.Recv != nil {
			if id, ok := fd.Recv.List[0].Type.(*ast.Ident); ok && id.Name == "AccessorComponentType" {
				sizeFn = fd
			}
		}
	}
	if sizeFn == nil {
		return fmt.Errorf("accessor.go: func (AccessorComponentType) Size not found")
	}
	sw, ok := sizeFn.Body.List[0].(*ast.SwitchStmt)
	if !ok {
		return fmt.Errorf("accessor.go: Size does not start with a switch")
	}
	cases := []string{}
	for _, c := range sw.Body.List {
		cc := c.(*ast.CaseClause)
		if cc.List == nil {
			return fmt.Errorf("accessor.go: Size has a default case (unexpected shape)")
		}
		names := []string{}
		for _, e := range cc.List {
			id, ok := e.(*ast.Ident)
			if !ok {
				return fmt.Errorf("accessor.go: unsupported case expression in Size")
			}
			names = append(names, strconv.Quote(id.Name))
		}
		r, ok := cc.Body[0].(*ast.ReturnStmt)
		if !ok || len(cc.Body) != 1 {
			return fmt.Errorf("accessor.go: case body of Size is not a single return")
		}
		lit, ok := r.Results[0].(*ast.BasicLit)
		if !ok || lit.Kind != token.INT {
			return fmt.Errorf("accessor.go: case of Size does not return an integer literal")
		}
		cases = append(cases, fmt.Sprintf("([%s], %s)", strings.Join(names, ", "), lit.Value))
	}
	// Target: uses in writer.go
	uses := []string{}
	for _, d := range wf.Decls {
		fd, ok := d.(*ast.FuncDecl)
		if !ok || fd.Body == nil {
			continue
		}
		ast.Inspect(fd.Body, func(n ast.Node) bool {
			kv, ok := n.(*ast.KeyValueExpr)
			if !ok {
				return true
			}
			if k, ok := kv.Key.(*ast.Ident); ok && k.Name == "Target" {
				// only buffer-view targets: the value is one of the BufferViewTarget constants (other structs have a
				// `Target` field too, e.g. animation channels)
				if v, ok := kv.Value.(*ast.Ident); ok {
					for _, t := range targets {
						if t[0] == v.Name {
							uses = append(uses, fmt.Sprintf("(%s, %s)", strconv.Quote(fd.Name.Name), strconv.Quote(v.Name)))
						}
					}
				}
			}
			return true
		})
	}
	strList := func(cs [][2]string) string {
		xs := []string{}
		for _, c := range cs {
			xs = append(xs, fmt.Sprintf("(%s, %s)", strconv.Quote(c[0]), c[1]))
		}
		return "[" + strings.Join(xs, ", ") + "]"
	}
	var b strings.Builder
	b.WriteString("/-\n  GENERATED by /verif/go/facts (mode c06.consts) from /repo/formats/gltf/{accessor,structure,mesh,writer}.go.\n  Do not edit: regenerated by ./check C06 before every build.\n-/\nnamespace PolyVerif.Gen.GltfConsts\n\n")
	fmt.Fprintf(&b, "/-- accessor.go: `AccessorComponentType_*` constants -/\ndef componentTypes : List (String × Nat) := %s\n\n", natList(comps))
	fmt.Fprintf(&b, "/-- accessor.go: `Size()`: `case A, B: return N`, source order; anything else panics -/\ndef componentSizeCases : List (List String × Nat) := [%s]\n\n", strings.Join(cases, ", "))
	fmt.Fprintf(&b, "/-- accessor.go: `AccessorType_*` constants (identifier, JSON spelling) -/\ndef accessorTypes : List (String × String) := %s\n\n", strList(atypes))
	fmt.Fprintf(&b, "/-- structure.go: `BufferViewTarget` constants -/\ndef bufferTargets : List (String × Nat) := %s\n\n", natList(targets))
	fmt.Fprintf(&b, "/-- mesh.go: `PrimitiveMode_*` constants -/\ndef primitiveModes : List (String × Nat) := %s\n\n", natList(modes_))
	fmt.Fprintf(&b, "/-- writer.go: every `Target: <IDENT>` of a buffer view literal (enclosing function, identifier), source order -/\ndef targetUses : List (String × String) := [%s]\n\n", strings.Join(uses, ", "))
	b.WriteString("end PolyVerif.Gen.GltfConsts\n")
	return os.WriteFile(out, []byte(b.String()), 0o644)
}
