// Engine F, property C15: the per-field dequantisation expressions of formats/spz/header.go (the read* methods of
// Header), translated from the current tree (go/parser + go/ast) into Lean definitions over `Scalar α` / `Spz.Env α`
// (PolyVerif/Gen/SpzDequant.lean).  For each reader the element loop `for i := 0; i < len(xs); i++ { … xs[i] = e }` is
// located, the record stride statement (`i3 := i * 3`, …) is recorded, and `e` is translated with the bytes
// `data[i3+k]` of the record as parameters `bk`.
//
// Expression subset: numeric literals and Go constant expressions (`const scale = 1. / 127.5`, evaluated exactly as
// rationals like the Go compiler does), `+ - * /`, `float64(data[idx])`, `vector3.New`, `vector4.New`, the chains
// `.DivByConstant(k) .Sub(vector3.Fill(k)) .X() .Y() .Z() .Dot(v)`, `math.Sqrt`, `math.Max`, `unquantizeSH(data[idx])`
// (its body is translated and inlined).  Version-2 positions: the statement shapes of the 24-bit assembly and sign
// extension are matched exactly (index offsets, shift counts, mask and fill constants are read from the source).
// Anything else is an ERROR — the extractor never guesses.  Props/C15SpzSrc.lean proves the hand model's dequantisers
// (Model/Spz.lean) equal to the regenerated ones.
package main

import (
	"fmt"
	"go/ast"
	"go/parser"
	"go/token"
	"math/big"
	"os"
	"path/filepath"
	"regexp"
	"strconv"
	"strings"
)

func init() { modes["c15.spzdequant"] = c15SpzDequant }

type c15zTr struct {
	fset   *token.FileSet
	env    map[string][]string // local -> components
	consts map[string]*big.Rat // function-local Go constants
	data   string              // the byte slice indexed in this reader
	rec    string              // the record index variable (i3, i9, i) and
	nb     int                 // number of record bytes seen
	funcs  map[string]*ast.FuncDecl
}

func (t *c15zTr) at(n ast.Node) string {
	return fmt.Sprintf("header.go:%d", t.fset.Position(n.Pos()).Line)
}

// exact value of a Go constant expression (literals, named constants, + - * /)
func (t *c15zTr) constant(e ast.Expr) (*big.Rat, bool) {
	switch x := e.(type) {
	case *ast.ParenExpr:
		return t.constant(x.X)
	case *ast.BasicLit:
		r, ok := new(big.Rat).SetString(strings.TrimSuffix(x.Value, "."))
		return r, ok
	case *ast.Ident:
		r, ok := t.consts[x.Name]
		return r, ok
	case *ast.BinaryExpr:
		l, ok1 := t.constant(x.X)
		r, ok2 := t.constant(x.Y)
		if !ok1 || !ok2 {
			return nil, false
		}
		switch x.Op {
		case token.ADD:
			return new(big.Rat).Add(l, r), true
		case token.SUB:
			return new(big.Rat).Sub(l, r), true
		case token.MUL:
			return new(big.Rat).Mul(l, r), true
		case token.QUO:
			if r.Sign() != 0 {
				return new(big.Rat).Quo(l, r), true
			}
		}
	}
	return nil, false
}

func c15zRat(r *big.Rat) (string, error) {
	if r.Sign() < 0 {
		return "", fmt.Errorf("negative constant %s", r)
	}
	if r.IsInt() {
		return fmt.Sprintf("((%s : Nat) : α)", r.Num()), nil
	}
	return fmt.Sprintf("(lit %s %s : α)", r.Num(), r.Denom()), nil
}

// data[rec], data[rec+k], data[rec + k]  ->  k
func (t *c15zTr) byteIndex(e ast.Expr) (int, error) {
	ix, ok := e.(*ast.IndexExpr)
	if !ok || c15Src(t.fset, ix.X) != t.data {
		return 0, fmt.Errorf("%s: expected an element of %s", t.at(e), t.data)
	}
	s := strings.ReplaceAll(c15Src(t.fset, ix.Index), " ", "")
	k := 0
	switch {
	case s == t.rec:
	case strings.HasPrefix(s, t.rec+"+"):
		v, err := strconv.Atoi(s[len(t.rec)+1:])
		if err != nil {
			return 0, fmt.Errorf("%s: unsupported index %s", t.at(e), s)
		}
		k = v
	default:
		return 0, fmt.Errorf("%s: unsupported index %s (record variable %s)", t.at(e), s, t.rec)
	}
	if k+1 > t.nb {
		t.nb = k + 1
	}
	return k, nil
}

func (t *c15zTr) scalar(e ast.Expr) (string, error) {
	v, err := t.val(e)
	if err != nil {
		return "", err
	}
	if len(v) != 1 {
		return "", fmt.Errorf("%s: a scalar is expected here", t.at(e))
	}
	return v[0], nil
}

func (t *c15zTr) val(e ast.Expr) ([]string, error) {
	if r, ok := t.constant(e); ok {
		s, err := c15zRat(r)
		if err != nil {
			return nil, fmt.Errorf("%s: %v", t.at(e), err)
		}
		return []string{s}, nil
	}
	switch x := e.(type) {
	case *ast.ParenExpr:
		return t.val(x.X)
	case *ast.Ident:
		if v, ok := t.env[x.Name]; ok {
			return v, nil
		}
		return nil, fmt.Errorf("%s: unknown identifier %s", t.at(x), x.Name)
	case *ast.BinaryExpr:
		op := map[token.Token]string{token.ADD: "+", token.SUB: "-", token.MUL: "*", token.QUO: "/"}[x.Op]
		if op == "" {
			return nil, fmt.Errorf("%s: unsupported operator %s", t.at(x), x.Op)
		}
		l, err := t.scalar(x.X)
		if err != nil {
			return nil, err
		}
		r, err := t.scalar(x.Y)
		if err != nil {
			return nil, err
		}
		return []string{fmt.Sprintf("(%s %s %s)", l, op, r)}, nil
	case *ast.CallExpr:
		fn := c15Src(t.fset, x.Fun)
		args := func(n int) ([]string, error) {
			if len(x.Args) != n {
				return nil, fmt.Errorf("%s: %s expects %d arguments", t.at(x), fn, n)
			}
			out := make([]string, n)
			for i, a := range x.Args {
				s, err := t.scalar(a)
				if err != nil {
					return nil, err
				}
				out[i] = s
			}
			return out, nil
		}
		switch fn {
		case "float64":
			if len(x.Args) == 1 {
				if id, ok := x.Args[0].(*ast.Ident); ok { // float64(x) of a byte parameter already bound
					if v, ok := t.env[id.Name]; ok && len(v) == 1 {
						return v, nil
					}
				}
				k, err := t.byteIndex(x.Args[0])
				if err != nil {
					return nil, err
				}
				return []string{fmt.Sprintf("(byteF b%d)", k)}, nil
			}
		case "vector3.New":
			return args(3)
		case "vector4.New":
			return args(4)
		case "math.Sqrt":
			a, err := args(1)
			if err != nil {
				return nil, err
			}
			return []string{"(Scalar.sqrt " + a[0] + ")"}, nil
		case "math.Max":
			a, err := args(2)
			if err != nil {
				return nil, err
			}
			return []string{fmt.Sprintf("(max %s %s)", a[0], a[1])}, nil
		}
		if fd, ok := t.funcs[fn]; ok && fd.Recv == nil && len(x.Args) == 1 && len(fd.Type.Params.List) == 1 && len(fd.Body.List) == 1 {
			// a one-line helper applied to a record byte: translate its body with the parameter bound
			k, err := t.byteIndex(x.Args[0])
			if err != nil {
				return nil, err
			}
			ret, ok := fd.Body.List[0].(*ast.ReturnStmt)
			if !ok || len(ret.Results) != 1 {
				return nil, fmt.Errorf("%s: %s is not a single return", t.at(x), fn)
			}
			p := fd.Type.Params.List[0].Names[0].Name
			saved, had := t.env[p]
			t.env[p] = []string{fmt.Sprintf("(byteF b%d)", k)}
			v, err := t.val(ret.Results[0])
			if had {
				t.env[p] = saved
			} else {
				delete(t.env, p)
			}
			return v, err
		}
		sel, ok := x.Fun.(*ast.SelectorExpr)
		if !ok {
			return nil, fmt.Errorf("%s: unsupported call %s", t.at(x), fn)
		}
		recv, err := t.val(sel.X)
		if err != nil {
			return nil, err
		}
		if len(recv) < 2 {
			return nil, fmt.Errorf("%s: vector method %s on a scalar", t.at(x), sel.Sel.Name)
		}
		comp := map[string]int{"X": 0, "Y": 1, "Z": 2, "W": 3}
		if k, ok := comp[sel.Sel.Name]; ok && len(x.Args) == 0 && k < len(recv) {
			return []string{recv[k]}, nil
		}
		out := make([]string, len(recv))
		switch sel.Sel.Name {
		case "DivByConstant":
			if len(x.Args) == 1 {
				k, err := t.scalar(x.Args[0])
				if err != nil {
					return nil, err
				}
				for i, c := range recv {
					out[i] = fmt.Sprintf("(%s / %s)", c, k)
				}
				return out, nil
			}
		case "Sub":
			if len(x.Args) == 1 {
				if fc, ok := x.Args[0].(*ast.CallExpr); ok && c15Src(t.fset, fc.Fun) == "vector3.Fill" && len(fc.Args) == 1 {
					k, err := t.scalar(fc.Args[0])
					if err != nil {
						return nil, err
					}
					for i, c := range recv {
						out[i] = fmt.Sprintf("(%s - %s)", c, k)
					}
					return out, nil
				}
			}
		case "Dot":
			if len(x.Args) == 1 && len(recv) == 3 {
				o, err := t.val(x.Args[0])
				if err != nil {
					return nil, err
				}
				if len(o) == 3 {
					return []string{fmt.Sprintf("(%s * %s + %s * %s + %s * %s)", recv[0], o[0], recv[1], o[1], recv[2], o[2])}, nil
				}
			}
		}
		return nil, fmt.Errorf("%s: unsupported vector method %s", t.at(x), sel.Sel.Name)
	}
	return nil, fmt.Errorf("%s: unsupported expression %T", t.at(e), e)
}

// innermost element loop of a reader and the statements before it
func c15zLoop(body *ast.BlockStmt) *ast.ForStmt {
	var loop *ast.ForStmt
	for _, st := range body.List {
		if f, ok := st.(*ast.ForStmt); ok {
			loop = f // the last top-level loop is the element loop
		}
	}
	if loop != nil {
		for _, st := range loop.Body.List {
			if f, ok := st.(*ast.ForStmt); ok {
				return f
			}
		}
	}
	return loop
}

type c15zOut struct {
	comps  []string
	nb     int
	stride string
}

// reader: method name; data: the byte slice; result: the slice assigned per element
func (t *c15zTr) reader(name, data string) (c15zOut, error) {
	fd, ok := t.funcs["Header."+name]
	if !ok {
		return c15zOut{}, fmt.Errorf("header.go: method %s not found", name)
	}
	t.env, t.consts, t.data, t.rec, t.nb = map[string][]string{}, map[string]*big.Rat{}, data, "i", 0
	for _, st := range fd.Body.List { // function-local constants
		if ds, ok := st.(*ast.DeclStmt); ok {
			if gd, ok := ds.Decl.(*ast.GenDecl); ok && gd.Tok == token.CONST {
				for _, sp := range gd.Specs {
					vs := sp.(*ast.ValueSpec)
					r, ok := t.constant(vs.Values[0])
					if !ok {
						return c15zOut{}, fmt.Errorf("%s: constant %s is not a rational constant expression", t.at(vs), vs.Names[0].Name)
					}
					t.consts[vs.Names[0].Name] = r
				}
			}
		}
	}
	loop := c15zLoop(fd.Body)
	if loop == nil {
		return c15zOut{}, fmt.Errorf("header.go: %s has no element loop", name)
	}
	out := c15zOut{stride: "i (the element index itself)"}
	for _, st := range loop.Body.List {
		as, ok := st.(*ast.AssignStmt)
		if !ok || len(as.Lhs) != 1 || len(as.Rhs) != 1 {
			return out, fmt.Errorf("%s: unsupported statement in the element loop of %s", t.at(st), name)
		}
		src := c15Src(t.fset, as)
		if id, ok := as.Lhs[0].(*ast.Ident); ok && as.Tok == token.DEFINE {
			if m := regexp.MustCompile(`^(i\d+) := (.*)$`).FindStringSubmatch(src); m != nil && id.Name == m[1] {
				t.rec, out.stride = m[1], src // the record index, e.g. `i3 := i * 3`
				continue
			}
			v, err := t.val(as.Rhs[0])
			if err != nil {
				return out, err
			}
			t.env[id.Name] = v
			continue
		}
		if _, ok := as.Lhs[0].(*ast.IndexExpr); ok && as.Tok == token.ASSIGN {
			v, err := t.val(as.Rhs[0])
			if err != nil {
				return out, err
			}
			out.comps = v
			continue
		}
		return out, fmt.Errorf("%s: unsupported assignment %s", t.at(st), src)
	}
	if out.comps == nil {
		return out, fmt.Errorf("header.go: %s assigns no element", name)
	}
	out.nb = t.nb
	return out, nil
}

func c15zDef(name, ty string, o c15zOut, doc string) string {
	ps := make([]string, o.nb)
	for i := range ps {
		ps[i] = fmt.Sprintf("b%d", i)
	}
	body := o.comps[0]
	if len(o.comps) > 1 {
		body = "⟨" + strings.Join(o.comps, ",\n   ") + "⟩"
	}
	return fmt.Sprintf("/-- %s; record index `%s` -/\ndef %s (%s : UInt8) : %s :=\n  %s\n\n", doc, o.stride, name, strings.Join(ps, " "), ty, body)
}

// version-2 positions: exact statement shapes
func (t *c15zTr) positions() (string, error) {
	fd, ok := t.funcs["Header.readPositions"]
	if !ok {
		return "", fmt.Errorf("header.go: readPositions not found")
	}
	var pre []string
	for _, st := range fd.Body.List {
		pre = append(pre, c15Src(t.fset, st))
	}
	all := strings.Join(pre, "\n")
	for _, want := range []string{"if pgh.Float16Positions() { return pgh.readPositionsFloat16(in) }", "b := 1 << pgh.FractionalBits", "scale := 1.0 / float64(b)"} {
		if !strings.Contains(all, want) {
			return "", fmt.Errorf("header.go: readPositions lacks `%s`", want)
		}
	}
	loop := c15zLoop(fd.Body)
	if loop == nil {
		return "", fmt.Errorf("header.go: readPositions has no element loop")
	}
	sts := loop.Body.List
	if len(sts) != 14 || c15Src(t.fset, sts[0]) != "i9 := i * 9" {
		return "", fmt.Errorf("%s: readPositions loop: expected `i9 := i * 9`, three coordinates of four statements, one assignment", t.at(loop))
	}
	re0 := regexp.MustCompile(`^(\w+) := uint32\(positionData\[i9 ?\+ ?(\d+)\]\)$`)
	re1 := regexp.MustCompile(`^(\w+) \|= uint32\(positionData\[i9 ?\+ ?(\d+)\]\) << (\d+)$`)
	re2 := regexp.MustCompile(`^if (\w+)&(0x[0-9a-fA-F]+) > 0 \{ (\w+) \|= (0x[0-9a-fA-F]+) \}$`)
	var words []string
	var names []string
	for c := 0; c < 3; c++ {
		s := []string{c15Src(t.fset, sts[1+4*c]), c15Src(t.fset, sts[2+4*c]), c15Src(t.fset, sts[3+4*c]), c15Src(t.fset, sts[4+4*c])}
		m0, m1, m2, m3 := re0.FindStringSubmatch(s[0]), re1.FindStringSubmatch(s[1]), re1.FindStringSubmatch(s[2]), re2.FindStringSubmatch(s[3])
		if m0 == nil || m1 == nil || m2 == nil || m3 == nil || m1[1] != m0[1] || m2[1] != m0[1] || m3[1] != m0[1] || m3[3] != m0[1] {
			return "", fmt.Errorf("%s: unsupported shape of coordinate %d: %v", t.at(sts[1+4*c]), c, s)
		}
		names = append(names, m0[1])
		words = append(words, fmt.Sprintf("(let w := (b%s.toBitVec).setWidth 32 ||| ((b%s.toBitVec).setWidth 32 <<< %s) ||| ((b%s.toBitVec).setWidth 32 <<< %s)\n     if w &&& %s#32 > 0#32 then w ||| %s#32 else w)", m0[2], m1[2], m1[3], m2[2], m2[3], m3[2], m3[4]))
	}
	want := fmt.Sprintf("positions[i] = vector3.New(int32(%s), int32(%s), int32(%s)). ToFloat64(). Scale(scale)", names[0], names[1], names[2])
	if got := c15Src(t.fset, sts[13]); got != want {
		return "", fmt.Errorf("%s: unsupported element assignment `%s`", t.at(sts[13]), got)
	}
	comps := make([]string, 3)
	for c := range comps {
		comps[c] = fmt.Sprintf("E.ofInt (%s).toInt * (((1 : Nat) : α) / E.ofInt (shl1 fb))", words[c])
	}
	return fmt.Sprintf("/-- `readPositions` (version 2): three little-endian bytes assembled into a uint32, bit 23 extended, `int32(·)`,\n    `.ToFloat64().Scale(1.0 / float64(1 << FractionalBits))`; record index `i9 := i * 9` -/\ndef posSrc (E : Env α) (fb : Nat) (b0 b1 b2 b3 b4 b5 b6 b7 b8 : UInt8) : V3 α :=\n  ⟨%s⟩\n\n", strings.Join(comps, ",\n   ")), nil
}

// ---------------------------------------------------------------- util.go halfToFloat (version-1 positions)

type c15hTr struct {
	fset    *token.FileSet
	u16     map[string]string // uint16 locals -> Lean BitVec 16 expression
	signVar string            // the float sign multiplier and the condition that makes it negative
	signCnd string
}

func (t *c15hTr) at(n ast.Node) string {
	return fmt.Sprintf("util.go:%d", t.fset.Position(n.Pos()).Line)
}

// uint16 expressions: h, locals, >> k, & mask, parentheses
func (t *c15hTr) bits(e ast.Expr) (string, error) {
	switch x := e.(type) {
	case *ast.ParenExpr:
		return t.bits(x.X)
	case *ast.Ident:
		if v, ok := t.u16[x.Name]; ok {
			return v, nil
		}
	case *ast.BinaryExpr:
		l, err := t.bits(x.X)
		if err != nil {
			return "", err
		}
		lit, ok := x.Y.(*ast.BasicLit)
		if !ok {
			return "", fmt.Errorf("%s: right operand of %s is not a literal", t.at(x), x.Op)
		}
		switch x.Op {
		case token.SHR:
			return fmt.Sprintf("(%s >>> %s)", l, lit.Value), nil
		case token.AND:
			return fmt.Sprintf("(%s &&& %s#16)", l, lit.Value), nil
		}
	}
	return "", fmt.Errorf("%s: unsupported uint16 expression %s", t.at(e), c15Src(t.fset, e))
}

// <uint16 expr> ==/!= <literal>
func (t *c15hTr) cond(e ast.Expr) (string, error) {
	b, ok := e.(*ast.BinaryExpr)
	if ok {
		if lit, ok := b.Y.(*ast.BasicLit); ok && (b.Op == token.EQL || b.Op == token.NEQ) {
			l, err := t.bits(b.X)
			if err != nil {
				return "", err
			}
			op := map[token.Token]string{token.EQL: "=", token.NEQ: "≠"}[b.Op]
			return fmt.Sprintf("%s %s %s#16", l, op, lit.Value), nil
		}
	}
	return "", fmt.Errorf("%s: unsupported condition %s", t.at(e), c15Src(t.fset, e))
}

// integer-valued exponent of math.Pow(2, ·): constants, float64(<uint16>), + -
func (t *c15hTr) intExpr(e ast.Expr) (string, error) {
	switch x := e.(type) {
	case *ast.ParenExpr:
		return t.intExpr(x.X)
	case *ast.BasicLit:
		r, ok := new(big.Rat).SetString(strings.TrimSuffix(x.Value, "."))
		if ok && r.IsInt() {
			return r.Num().String(), nil
		}
	case *ast.UnaryExpr:
		if x.Op == token.SUB {
			s, err := t.intExpr(x.X)
			return "(-" + s + ")", err
		}
	case *ast.BinaryExpr:
		if x.Op == token.ADD || x.Op == token.SUB {
			l, err := t.intExpr(x.X)
			if err != nil {
				return "", err
			}
			r, err := t.intExpr(x.Y)
			if err != nil {
				return "", err
			}
			return fmt.Sprintf("%s %s %s", l, x.Op, r), nil
		}
	case *ast.CallExpr:
		if c15Src(t.fset, x.Fun) == "float64" && len(x.Args) == 1 {
			b, err := t.bits(x.Args[0])
			if err != nil {
				return "", err
			}
			return fmt.Sprintf("(%s.toNat : Int)", b), nil
		}
	}
	return "", fmt.Errorf("%s: unsupported integer exponent %s", t.at(e), c15Src(t.fset, e))
}

func (t *c15hTr) fl(e ast.Expr) (string, error) {
	switch x := e.(type) {
	case *ast.ParenExpr:
		s, err := t.fl(x.X)
		return s, err
	case *ast.BasicLit:
		r, ok := new(big.Rat).SetString(strings.TrimSuffix(x.Value, "."))
		if ok && r.IsInt() && r.Sign() >= 0 {
			return fmt.Sprintf("natF %s", r.Num()), nil
		}
	case *ast.Ident:
		if x.Name == t.signVar {
			return "signMul", nil
		}
	case *ast.BinaryExpr:
		op := map[token.Token]string{token.ADD: "+", token.SUB: "-", token.MUL: "*", token.QUO: "/"}[x.Op]
		if op != "" {
			l, err := t.fl(x.X)
			if err != nil {
				return "", err
			}
			r, err := t.fl(x.Y)
			if err != nil {
				return "", err
			}
			if _, ok := x.Y.(*ast.ParenExpr); ok {
				r = "(" + r + ")"
			}
			return fmt.Sprintf("%s %s %s", l, op, r), nil
		}
	case *ast.CallExpr:
		switch c15Src(t.fset, x.Fun) {
		case "float64":
			if len(x.Args) == 1 {
				b, err := t.bits(x.Args[0])
				if err != nil {
					return "", err
				}
				return fmt.Sprintf("natF %s.toNat", b), nil
			}
		case "math.Pow":
			if len(x.Args) == 2 {
				if base, ok := x.Args[0].(*ast.BasicLit); ok && (base.Value == "2.0" || base.Value == "2" || base.Value == "2.") {
					k, err := t.intExpr(x.Args[1])
					if err != nil {
						return "", err
					}
					return fmt.Sprintf("E.pow2 (%s)", k), nil
				}
			}
		case "math.NaN":
			if len(x.Args) == 0 {
				return "E.nan", nil
			}
		case "math.Inf":
			if len(x.Args) == 1 && c15Src(t.fset, x.Args[0]) == "int("+t.signVar+")" {
				return fmt.Sprintf("if %s then -E.inf else E.inf", t.signCnd), nil
			}
		}
	}
	return "", fmt.Errorf("%s: unsupported float expression %s", t.at(e), c15Src(t.fset, e))
}

// a statement list ending in a return, as one expression
func (t *c15hTr) block(sts []ast.Stmt) (string, error) {
	if len(sts) == 0 {
		return "", fmt.Errorf("util.go: a branch of halfToFloat does not return")
	}
	switch s := sts[0].(type) {
	case *ast.ReturnStmt:
		if len(s.Results) == 1 {
			return t.fl(s.Results[0])
		}
	case *ast.IfStmt:
		if s.Init == nil {
			c, err := t.cond(s.Cond)
			if err != nil {
				return "", err
			}
			th, err := t.block(s.Body.List)
			if err != nil {
				return "", err
			}
			var el string
			if s.Else != nil {
				eb, ok := s.Else.(*ast.BlockStmt)
				if !ok || len(sts) != 1 {
					return "", fmt.Errorf("%s: unsupported else", t.at(s))
				}
				el, err = t.block(eb.List)
			} else {
				el, err = t.block(sts[1:])
			}
			if err != nil {
				return "", err
			}
			return fmt.Sprintf("if %s then (%s)\n  else (%s)", c, th, el), nil
		}
	}
	return "", fmt.Errorf("%s: unsupported statement in halfToFloat", t.at(sts[0]))
}

func c15HalfSrc(repo string) (string, error) {
	t := &c15hTr{fset: token.NewFileSet(), u16: map[string]string{}}
	f, err := parser.ParseFile(t.fset, filepath.Join(repo, "formats", "spz", "util.go"), nil, 0)
	if err != nil {
		return "", err
	}
	var fd *ast.FuncDecl
	for _, d := range f.Decls {
		if x, ok := d.(*ast.FuncDecl); ok && x.Name.Name == "halfToFloat" {
			fd = x
		}
	}
	if fd == nil || c15Src(t.fset, fd.Type) != "func(h uint16) float64" {
		return "", fmt.Errorf("util.go: func halfToFloat(h uint16) float64 not found")
	}
	t.u16["h"] = "h"
	var lets []string
	sts := fd.Body.List
	k := 0
	for ; k < len(sts); k++ {
		as, ok := sts[k].(*ast.AssignStmt)
		if !ok || as.Tok != token.DEFINE || len(as.Lhs) != 1 {
			break
		}
		name := as.Lhs[0].(*ast.Ident).Name
		if lit, ok := as.Rhs[0].(*ast.BasicLit); ok { // signMul := 1.0 ; if <cond> { signMul = -1.0 }
			if lit.Value != "1.0" || k+1 >= len(sts) {
				return "", fmt.Errorf("%s: unsupported float local", t.at(as))
			}
			is, ok := sts[k+1].(*ast.IfStmt)
			if !ok || is.Else != nil || len(is.Body.List) != 1 || c15Src(t.fset, is.Body.List[0]) != name+" = -1.0" {
				return "", fmt.Errorf("%s: expected `if … { %s = -1.0 }`", t.at(sts[k+1]), name)
			}
			c, err := t.cond(is.Cond)
			if err != nil {
				return "", err
			}
			t.signVar, t.signCnd = name, c
			lets = append(lets, fmt.Sprintf("let signMul : α := if %s then -(natF 1) else natF 1", c))
			k++
			continue
		}
		b, err := t.bits(as.Rhs[0])
		if err != nil {
			return "", err
		}
		lets = append(lets, fmt.Sprintf("let %s := %s", name, b))
		t.u16[name] = name
	}
	if t.signVar == "" {
		return "", fmt.Errorf("util.go: halfToFloat: sign multiplier not found")
	}
	// the sign condition is used again in math.Inf: expand the locals it mentions (none: it is written over h)
	body, err := t.block(sts[k:])
	if err != nil {
		return "", err
	}
	return fmt.Sprintf("/-- util.go `halfToFloat(h uint16) float64`: the source's shifts and masks on `BitVec 16`, `math.Pow(2.0, k)` as\n    `E.pow2 k`, `math.NaN()` / `math.Inf(int(signMul))` as `E.nan` / `±E.inf` -/\ndef halfSrc (E : Env α) (h : BitVec 16) : α :=\n  %s\n  %s\n\n", strings.Join(lets, "\n  "), body), nil
}

// ---------------------------------------------------------------- planar layout: order and sizes of the reads of spz.Read

func c15LayoutSrc(t *c15zTr, repo string) (string, error) {
	fset := token.NewFileSet()
	f, err := parser.ParseFile(fset, filepath.Join(repo, "formats", "spz", "load.go"), nil, 0)
	if err != nil {
		return "", err
	}
	var rd *ast.FuncDecl
	for _, d := range f.Decls {
		if x, ok := d.(*ast.FuncDecl); ok && x.Recv == nil && x.Name.Name == "Read" {
			rd = x
		}
	}
	if rd == nil {
		return "", fmt.Errorf("load.go: func Read not found")
	}
	re := regexp.MustCompile(`^\w+, err := header\.(read\w+)\(in\)$`)
	var order []string
	for _, st := range rd.Body.List {
		if m := re.FindStringSubmatch(c15Src(fset, st)); m != nil {
			order = append(order, m[1])
		}
	}
	// buffer of a reader: the first make([]T, n) of its body
	mk := regexp.MustCompile(`^(\w+) := make\(\[\](byte|uint16), (.*)\)$`)
	size := func(name string) (string, error) {
		fd, ok := t.funcs["Header."+name]
		if !ok {
			return "", fmt.Errorf("header.go: %s not found", name)
		}
		for _, st := range fd.Body.List {
			if m := mk.FindStringSubmatch(c15Src(t.fset, st)); m != nil {
				e := strings.ReplaceAll(m[3], " ", "")
				var lean string
				switch e {
				case "pgh.NumPoints":
					lean = "h.numPoints"
				case "pgh.NumPoints*3", "pgh.NumPoints*9":
					lean = "h.numPoints * " + e[len("pgh.NumPoints*"):]
				case "pgh.NumPoints*3*uint32(shDim)":
					lean = "h.numPoints * 3 * shDimSrc h.shDegree"
				default:
					return "", fmt.Errorf("header.go: %s: unsupported buffer size %s", name, m[3])
				}
				if m[2] == "uint16" {
					lean = "(" + lean + ") * 2"
				}
				return lean, nil
			}
		}
		return "", fmt.Errorf("header.go: %s allocates no buffer", name)
	}
	want := []string{"readPositions", "readAlphas", "readColors", "readScale", "readRotations", "readSh"}
	if strings.Join(order, ",") != strings.Join(want, ",") {
		return "", fmt.Errorf("load.go: Read calls %v, expected %v", order, want)
	}
	if fd, ok := t.funcs["Header.Float16Positions"]; !ok || c15Src(t.fset, fd.Body) != "{ return pgh.Version == 1 }" {
		return "", fmt.Errorf("header.go: Float16Positions is not `return pgh.Version == 1`")
	}
	if fd := t.funcs["Header.readPositions"]; !strings.HasPrefix(c15Src(t.fset, fd.Body), "{ if pgh.Float16Positions() { return pgh.readPositionsFloat16(in) }") {
		return "", fmt.Errorf("header.go: readPositions does not dispatch on Float16Positions first")
	}
	// ShDimensions: switch pgh.ShDegree { case k: return v, nil … }
	sd, ok := t.funcs["Header.ShDimensions"]
	if !ok || len(sd.Body.List) != 1 {
		return "", fmt.Errorf("header.go: ShDimensions not found")
	}
	sw, ok := sd.Body.List[0].(*ast.SwitchStmt)
	if !ok || c15Src(t.fset, sw.Tag) != "pgh.ShDegree" {
		return "", fmt.Errorf("header.go: ShDimensions is not a switch on pgh.ShDegree")
	}
	var arms []string
	cre := regexp.MustCompile(`^return (\d+), nil$`)
	for _, c := range sw.Body.List {
		cc := c.(*ast.CaseClause)
		if cc.List == nil {
			continue // default: the error branch (Validate rejects those degrees)
		}
		m := cre.FindStringSubmatch(c15Src(t.fset, cc.Body[0]))
		if len(cc.List) != 1 || len(cc.Body) != 1 || m == nil {
			return "", fmt.Errorf("%s: unsupported case of ShDimensions", t.at(cc))
		}
		arms = append(arms, fmt.Sprintf("  | %s => some %s", c15Src(t.fset, cc.List[0]), m[1]))
	}
	var sizes []string
	for _, r := range order {
		if r == "readPositions" {
			a, err := size("readPositionsFloat16")
			if err != nil {
				return "", err
			}
			b, err := size("readPositions")
			if err != nil {
				return "", err
			}
			sizes = append(sizes, fmt.Sprintf("if h.version = 1 then %s else %s", a, b))
			continue
		}
		s, err := size(r)
		if err != nil {
			return "", err
		}
		sizes = append(sizes, s)
	}
	var b strings.Builder
	fmt.Fprintf(&b, "/-- `Header.ShDimensions`: the cases of its switch (`none` = the error branch) -/\ndef shDimSrc? (deg : Nat) : Option Nat :=\n  match deg with\n%s\n  | _ => none\n\ndef shDimSrc (deg : Nat) : Nat := (shDimSrc? deg).getD 0\n\n", strings.Join(arms, "\n"))
	fmt.Fprintf(&b, "/-- the readers `spz.Read` (load.go) calls after the header, in order -/\ndef readOrder : List String := [%s]\n\n", `"`+strings.Join(order, `", "`)+`"`)
	fmt.Fprintf(&b, "/-- the buffer each of them fills with one `ReadFull` / `binary.Read` (bytes; `[]uint16` counts twice), in that order:\n    the planes of the stream are consecutive, so plane `k` starts at 16 + the sum of the sizes before it -/\ndef planeSizesSrc (h : Header) : List Nat :=\n  [%s]\n\n", strings.Join(sizes, ",\n   "))
	return b.String(), nil
}

func c15SpzDequant(repo, out string, args []string) error {
	t := &c15zTr{fset: token.NewFileSet(), funcs: map[string]*ast.FuncDecl{}}
	f, err := parser.ParseFile(t.fset, filepath.Join(repo, "formats", "spz", "header.go"), nil, 0)
	if err != nil {
		return err
	}
	for _, d := range f.Decls {
		if fd, ok := d.(*ast.FuncDecl); ok {
			if fd.Recv != nil && len(fd.Recv.List) == 1 {
				t.funcs[c15Src(t.fset, fd.Recv.List[0].Type)+"."+fd.Name.Name] = fd
			} else {
				t.funcs[fd.Name.Name] = fd
			}
		}
	}
	var b strings.Builder
	b.WriteString("/-\n  GENERATED by /verif/go/facts (mode c15.spzdequant) from /repo/formats/spz/header.go.\n  Do not edit: regenerated by ./check C15 before every build.\n-/\nimport PolyVerif.Model.Spz\n\nnamespace PolyVerif.Gen.SpzDequant\nopen PolyVerif PolyVerif.Spz Scalar\n\nvariable {α : Type} [Scalar α]\n\n")
	strides := []string{}
	for _, r := range []struct{ fn, data, def, ty, doc string }{
		{"readAlphas", "alpha", "alphaSrc", "α", "`readAlphas`: the value stored for one alpha byte"},
		{"readColors", "colorData", "colorSrc", "V3 α", "`readColors`: one colour from its three bytes"},
		{"readScale", "scaleData", "scaleSrc", "V3 α", "`readScale`: one scale from its three bytes"},
		{"readRotations", "rotationData", "rotSrc", "V4 α", "`readRotations`: one quaternion from its three bytes, `w` reconstructed"},
		{"readSh", "shData", "shSrc", "V3 α", "`readSh`: one coefficient from its three bytes (`unquantizeSH` inlined)"},
	} {
		o, err := t.reader(r.fn, r.data)
		if err != nil {
			return err
		}
		b.WriteString(c15zDef(r.def, r.ty, o, r.doc))
		strides = append(strides, fmt.Sprintf("(%q, %q)", r.fn, o.stride))
	}
	p, err := t.positions()
	if err != nil {
		return err
	}
	b.WriteString(p)
	hs, err := c15HalfSrc(repo)
	if err != nil {
		return err
	}
	b.WriteString(hs)
	ls, err := c15LayoutSrc(t, repo)
	if err != nil {
		return err
	}
	b.WriteString(ls)
	fmt.Fprintf(&b, "/-- the record index statement of each element loop, as written (`readPositions`: `i9 := i * 9`, matched exactly) -/\ndef strides : List (String × String) :=\n  [%s]\n\n", strings.Join(strides, ",\n   "))
	b.WriteString("end PolyVerif.Gen.SpzDequant\n")
	return os.WriteFile(out, []byte(b.String()), 0o644)
}
