// Engine F, property C18: the literal data of the box primitives, read from the current tree with
// go/parser + go/ast and written as Lean data (PolyVerif/Gen/CubeTable.lean).
//
// Extracted (every shape that is not exactly the expected one is an error — the extractor never guesses):
//   cube.go  var cubeVertIndices = []int{...}
//            func (c Cube) Welded(): potentialVerts := []vector3.Float64{ vector3.New(±halfW, ±halfH, ±halfD) x 8 }
//                                    -> sign patterns (x, y, z)
//   quad.go  func (q Quad) ToMesh(): the []int{...} literal passed to modeling.NewTriangleMesh
//                                    the four vector3.New(±halfWidth, 0., ±halfHeight) of the
//                                    modeling.PositionAttribute entry -> sign patterns (x, z)
package main

import (
	"fmt"
	"go/ast"
	"go/parser"
	"go/token"
	"os"
	"path/filepath"
	"strconv"
	"strings"
)

func init() { modes["c18.cube"] = c18Cube }

func c18Sel(e ast.Expr) string {
	switch v := e.(type) {
	case *ast.Ident:
		return v.Name
	case *ast.SelectorExpr:
		return c18Sel(v.X) + "." + v.Sel.Name
	case *ast.IndexExpr: // generic instantiation f[T]
		return c18Sel(v.X)
	}
	return ""
}

// non-negative int literal
func c18Nat(e ast.Expr) (int, error) {
	bl, ok := e.(*ast.BasicLit)
	if !ok || bl.Kind != token.INT {
		return 0, fmt.Errorf("expected a non-negative int literal, got %T", e)
	}
	n, err := strconv.ParseInt(bl.Value, 0, 64)
	if err != nil || n < 0 {
		return 0, fmt.Errorf("bad index literal %s", bl.Value)
	}
	return int(n), nil
}

// []int{ a, b, ... } with plain literals only
func c18NatList(e ast.Expr, what string) ([]int, error) {
	cl, ok := e.(*ast.CompositeLit)
	if !ok {
		return nil, fmt.Errorf("%s: expected a composite literal, got %T", what, e)
	}
	at, ok := cl.Type.(*ast.ArrayType)
	if !ok || at.Len != nil || c18Sel(at.Elt) != "int" {
		return nil, fmt.Errorf("%s: literal is not of type []int", what)
	}
	out := []int{}
	for i, el := range cl.Elts {
		n, err := c18Nat(el)
		if err != nil {
			return nil, fmt.Errorf("%s: element %d: %v", what, i, err)
		}
		out = append(out, n)
	}
	return out, nil
}

// `name` -> +1, `-name` -> -1, anything else is an error
func c18SignedIdent(e ast.Expr, name, what string) (int, error) {
	switch v := e.(type) {
	case *ast.Ident:
		if v.Name == name {
			return 1, nil
		}
		return 0, fmt.Errorf("%s: expected ±%s, got identifier %s", what, name, v.Name)
	case *ast.UnaryExpr:
		if id, ok := v.X.(*ast.Ident); ok && v.Op == token.SUB {
			if id.Name == name {
				return -1, nil
			}
			return 0, fmt.Errorf("%s: expected ±%s, got -%s", what, name, id.Name)
		}
	}
	return 0, fmt.Errorf("%s: expected ±%s, got an expression of shape %T", what, name, e)
}

// the literal zero: 0, 0., 0.0, ...
func c18IsZeroLit(e ast.Expr) bool {
	bl, ok := e.(*ast.BasicLit)
	if !ok || (bl.Kind != token.INT && bl.Kind != token.FLOAT) {
		return false
	}
	f, err := strconv.ParseFloat(bl.Value, 64)
	return err == nil && f == 0
}

func c18Method(f *ast.File, recvType, name string) *ast.FuncDecl {
	for _, d := range f.Decls {
		fd, ok := d.(*ast.FuncDecl)
		if !ok || fd.Name.Name != name || fd.Recv == nil || len(fd.Recv.List) != 1 {
			continue
		}
		if c18Sel(fd.Recv.List[0].Type) == recvType {
			return fd
		}
	}
	return nil
}

func c18PkgVar(f *ast.File, name string) (ast.Expr, int) {
	var found ast.Expr
	count := 0
	for _, d := range f.Decls {
		gd, ok := d.(*ast.GenDecl)
		if !ok || gd.Tok != token.VAR {
			continue
		}
		for _, s := range gd.Specs {
			vs := s.(*ast.ValueSpec)
			for i, n := range vs.Names {
				if n.Name == name {
					count++
					if i < len(vs.Values) && len(vs.Names) == len(vs.Values) {
						found = vs.Values[i]
					}
				}
			}
		}
	}
	return found, count
}

// every vector3.New(a, b, c) element of a composite literal; each element must be such a call
func c18VecNewElts(cl *ast.CompositeLit, what string) ([][]ast.Expr, error) {
	out := [][]ast.Expr{}
	for i, el := range cl.Elts {
		if _, isKV := el.(*ast.KeyValueExpr); isKV {
			return nil, fmt.Errorf("%s: keyed element %d", what, i)
		}
		call, ok := el.(*ast.CallExpr)
		if !ok || c18Sel(call.Fun) != "vector3.New" || len(call.Args) != 3 || call.Ellipsis != token.NoPos {
			return nil, fmt.Errorf("%s: element %d is not vector3.New(_, _, _)", what, i)
		}
		out = append(out, call.Args)
	}
	return out, nil
}

func c18LeanNats(xs []int) string {
	p := make([]string, len(xs))
	for i, x := range xs {
		p[i] = strconv.Itoa(x)
	}
	return "[" + strings.Join(p, ", ") + "]"
}

func c18LeanTuples(rows [][]int) string {
	p := make([]string, len(rows))
	for i, r := range rows {
		q := make([]string, len(r))
		for j, x := range r {
			q[j] = strconv.Itoa(x)
		}
		p[i] = "(" + strings.Join(q, ", ") + ")"
	}
	return "[" + strings.Join(p, ", ") + "]"
}

func c18Cube(repo, out string, args []string) error {
	if out == "" {
		return fmt.Errorf("c18.cube: -out is required")
	}
	fset := token.NewFileSet()
	dir := filepath.Join(repo, "modeling", "primitives")
	cf, err := parser.ParseFile(fset, filepath.Join(dir, "cube.go"), nil, 0)
	if err != nil {
		return err
	}
	qf, err := parser.ParseFile(fset, filepath.Join(dir, "quad.go"), nil, 0)
	if err != nil {
		return err
	}

	// ---- cube.go: var cubeVertIndices ---------------------------------------
	cviE, n := c18PkgVar(cf, "cubeVertIndices")
	if n != 1 || cviE == nil {
		return fmt.Errorf("cube.go: expected exactly one package-level `var cubeVertIndices = ...` (found %d)", n)
	}
	cubeVertIndices, err := c18NatList(cviE, "cube.go cubeVertIndices")
	if err != nil {
		return err
	}
	if len(cubeVertIndices)%3 != 0 {
		return fmt.Errorf("cube.go cubeVertIndices: %d entries is not a multiple of 3", len(cubeVertIndices))
	}

	// ---- cube.go: Cube.Welded potentialVerts ---------------------------------
	welded := c18Method(cf, "Cube", "Welded")
	if welded == nil || welded.Body == nil {
		return fmt.Errorf("cube.go: func (c Cube) Welded not found")
	}
	var pvLit *ast.CompositeLit
	pvCount := 0
	ast.Inspect(welded.Body, func(nd ast.Node) bool {
		as, ok := nd.(*ast.AssignStmt)
		if !ok {
			return true
		}
		for i, l := range as.Lhs {
			if id, ok := l.(*ast.Ident); ok && id.Name == "potentialVerts" {
				pvCount++
				if len(as.Lhs) == len(as.Rhs) {
					if cl, ok := as.Rhs[i].(*ast.CompositeLit); ok && as.Tok == token.DEFINE {
						pvLit = cl
					}
				}
			}
		}
		return true
	})
	if pvCount != 1 || pvLit == nil {
		return fmt.Errorf("cube.go Cube.Welded: expected exactly one `potentialVerts := <composite literal>` (assignments found: %d)", pvCount)
	}
	// the indices must be the ones handed to NewTriangleMesh and potentialVerts the positions: check the
	// identifiers are used where expected (conservative: presence of the two uses)
	usesIdx, usesPos := false, false
	ast.Inspect(welded.Body, func(nd ast.Node) bool {
		switch v := nd.(type) {
		case *ast.CallExpr:
			if c18Sel(v.Fun) == "modeling.NewTriangleMesh" && len(v.Args) == 1 && c18Sel(v.Args[0]) == "cubeVertIndices" {
				usesIdx = true
			}
		case *ast.KeyValueExpr:
			if c18Sel(v.Key) == "modeling.PositionAttribute" && c18Sel(v.Value) == "potentialVerts" {
				usesPos = true
			}
		}
		return true
	})
	if !usesIdx {
		return fmt.Errorf("cube.go Cube.Welded: modeling.NewTriangleMesh(cubeVertIndices) not found")
	}
	if !usesPos {
		return fmt.Errorf("cube.go Cube.Welded: `modeling.PositionAttribute: potentialVerts` not found")
	}
	pv, err := c18VecNewElts(pvLit, "cube.go Cube.Welded potentialVerts")
	if err != nil {
		return err
	}
	if len(pv) != 8 {
		return fmt.Errorf("cube.go Cube.Welded potentialVerts: %d elements, expected 8", len(pv))
	}
	cubeVertSigns := [][]int{}
	for k, a := range pv {
		row := []int{}
		for i, nm := range []string{"halfW", "halfH", "halfD"} {
			s, err := c18SignedIdent(a[i], nm, fmt.Sprintf("cube.go Cube.Welded potentialVerts[%d] argument %d", k, i))
			if err != nil {
				return err
			}
			row = append(row, s)
		}
		cubeVertSigns = append(cubeVertSigns, row)
	}
	for _, ix := range cubeVertIndices {
		if ix >= len(cubeVertSigns) {
			return fmt.Errorf("cube.go cubeVertIndices: index %d out of range of potentialVerts", ix)
		}
	}

	// ---- quad.go: Quad.ToMesh ---------------------------------------------------
	toMesh := c18Method(qf, "Quad", "ToMesh")
	if toMesh == nil || toMesh.Body == nil {
		return fmt.Errorf("quad.go: func (q Quad) ToMesh not found")
	}
	var quadIndices []int
	idxCount := 0
	var posLit *ast.CompositeLit
	posCount := 0
	var werr error
	ast.Inspect(toMesh.Body, func(nd ast.Node) bool {
		switch v := nd.(type) {
		case *ast.CallExpr:
			if c18Sel(v.Fun) == "modeling.NewTriangleMesh" {
				idxCount++
				if len(v.Args) != 1 {
					werr = fmt.Errorf("quad.go Quad.ToMesh: modeling.NewTriangleMesh called with %d arguments", len(v.Args))
					return false
				}
				l, err := c18NatList(v.Args[0], "quad.go Quad.ToMesh index literal")
				if err != nil {
					werr = err
					return false
				}
				quadIndices = l
			}
		case *ast.KeyValueExpr:
			if c18Sel(v.Key) == "modeling.PositionAttribute" {
				posCount++
				cl, ok := v.Value.(*ast.CompositeLit)
				if !ok {
					werr = fmt.Errorf("quad.go Quad.ToMesh: modeling.PositionAttribute value is not a composite literal (%T)", v.Value)
					return false
				}
				posLit = cl
			}
		}
		return true
	})
	if werr != nil {
		return werr
	}
	if idxCount != 1 || quadIndices == nil {
		return fmt.Errorf("quad.go Quad.ToMesh: expected exactly one modeling.NewTriangleMesh([]int{...}) (found %d)", idxCount)
	}
	if posCount != 1 || posLit == nil {
		return fmt.Errorf("quad.go Quad.ToMesh: expected exactly one `modeling.PositionAttribute: {...}` entry (found %d)", posCount)
	}
	if len(quadIndices)%3 != 0 {
		return fmt.Errorf("quad.go Quad.ToMesh: %d indices is not a multiple of 3", len(quadIndices))
	}
	// halfWidth := q.Width / 2 ; halfHeight := q.Depth / 2 (the names the sign table refers to)
	halfDefs := map[string]string{}
	ast.Inspect(toMesh.Body, func(nd ast.Node) bool {
		as, ok := nd.(*ast.AssignStmt)
		if !ok || len(as.Lhs) != 1 || len(as.Rhs) != 1 {
			return true
		}
		id, ok := as.Lhs[0].(*ast.Ident)
		if !ok || (id.Name != "halfWidth" && id.Name != "halfHeight") {
			return true
		}
		be, ok := as.Rhs[0].(*ast.BinaryExpr)
		if !ok || be.Op != token.QUO {
			halfDefs[id.Name] += "?"
			return true
		}
		d, ok := be.Y.(*ast.BasicLit)
		if !ok || (d.Value != "2" && d.Value != "2." && d.Value != "2.0") {
			halfDefs[id.Name] += "?"
			return true
		}
		halfDefs[id.Name] += c18Sel(be.X)
		return true
	})
	if halfDefs["halfWidth"] != "q.Width" || halfDefs["halfHeight"] != "q.Depth" {
		return fmt.Errorf("quad.go Quad.ToMesh: expected `halfWidth := q.Width / 2` and `halfHeight := q.Depth / 2`, found %q and %q",
			halfDefs["halfWidth"], halfDefs["halfHeight"])
	}
	qp, err := c18VecNewElts(posLit, "quad.go Quad.ToMesh positions")
	if err != nil {
		return err
	}
	if len(qp) != 4 {
		return fmt.Errorf("quad.go Quad.ToMesh positions: %d elements, expected 4", len(qp))
	}
	quadVertSigns := [][]int{}
	for k, a := range qp {
		what := fmt.Sprintf("quad.go Quad.ToMesh position %d", k)
		sx, err := c18SignedIdent(a[0], "halfWidth", what+" argument 0")
		if err != nil {
			return err
		}
		if !c18IsZeroLit(a[1]) {
			return fmt.Errorf("%s: middle argument is not the literal 0", what)
		}
		sz, err := c18SignedIdent(a[2], "halfHeight", what+" argument 2")
		if err != nil {
			return err
		}
		quadVertSigns = append(quadVertSigns, []int{sx, sz})
	}
	for _, ix := range quadIndices {
		if ix >= len(quadVertSigns) {
			return fmt.Errorf("quad.go Quad.ToMesh: index %d out of range of the positions", ix)
		}
	}
	// same guard for the cube: halfW/halfH/halfD must be c.Width/2, c.Height/2, c.Depth/2
	cubeHalf := map[string]string{}
	ast.Inspect(welded.Body, func(nd ast.Node) bool {
		as, ok := nd.(*ast.AssignStmt)
		if !ok || len(as.Lhs) != 1 || len(as.Rhs) != 1 {
			return true
		}
		id, ok := as.Lhs[0].(*ast.Ident)
		if !ok || (id.Name != "halfW" && id.Name != "halfH" && id.Name != "halfD") {
			return true
		}
		be, ok := as.Rhs[0].(*ast.BinaryExpr)
		if !ok || be.Op != token.QUO {
			cubeHalf[id.Name] += "?"
			return true
		}
		d, ok := be.Y.(*ast.BasicLit)
		if !ok || (d.Value != "2" && d.Value != "2." && d.Value != "2.0") {
			cubeHalf[id.Name] += "?"
			return true
		}
		cubeHalf[id.Name] += c18Sel(be.X)
		return true
	})
	if cubeHalf["halfW"] != "c.Width" || cubeHalf["halfH"] != "c.Height" || cubeHalf["halfD"] != "c.Depth" {
		return fmt.Errorf("cube.go Cube.Welded: expected halfW/halfH/halfD := c.Width/2, c.Height/2, c.Depth/2, found %q %q %q",
			cubeHalf["halfW"], cubeHalf["halfH"], cubeHalf["halfD"])
	}

	// ---- emit ---------------------------------------------------------------------
	var b strings.Builder
	b.WriteString("-- GENERATED by `go/facts c18.cube` from /repo modeling/primitives/cube.go and quad.go — do not edit\n")
	b.WriteString("namespace PolyVerif.Gen.CubeTable\n\n")
	b.WriteString("/-- cube.go: `var cubeVertIndices = []int{...}` -/\n")
	fmt.Fprintf(&b, "def cubeVertIndices : List Nat := %s\n\n", c18LeanNats(cubeVertIndices))
	b.WriteString("/-- cube.go `Cube.Welded`: sign pattern of `potentialVerts[k] = vector3.New(±halfW, ±halfH, ±halfD)` -/\n")
	fmt.Fprintf(&b, "def cubeVertSigns : List (Int × Int × Int) := %s\n\n", c18LeanTuples(cubeVertSigns))
	b.WriteString("/-- quad.go `Quad.ToMesh`: the index literal passed to `modeling.NewTriangleMesh` -/\n")
	fmt.Fprintf(&b, "def quadIndices : List Nat := %s\n\n", c18LeanNats(quadIndices))
	b.WriteString("/-- quad.go `Quad.ToMesh`: sign pattern of the four positions `vector3.New(±halfWidth, 0., ±halfHeight)` as (x sign, z sign) -/\n")
	fmt.Fprintf(&b, "def quadVertSigns : List (Int × Int) := %s\n\n", c18LeanTuples(quadVertSigns))
	b.WriteString("end PolyVerif.Gen.CubeTable\n")
	return os.WriteFile(out, []byte(b.String()), 0o644)
}
