// Engine F, property C18, mode c18.nodes: the node wrappers of the solid primitives
// (UvSphereNodeData, HemisphereNodeData, CylinderNodeData, CubeNodeData: func (..) Process()) read with go/parser +
// go/ast and written as programs of PolyVerif/Model/NodeIR.lean into PolyVerif/Gen/PrimNodes.lean.
//
// Recognised statement shapes (anything else is an error — the extractor never guesses):
//
//	x := LIT                                   LIT: int / float literal (decimal, no exponent), true, false
//	v := T{F: a, ...}                          keyed composite literal of a struct type T declared in the package;
//	                                           a: local variable, !variable, or literal (typed by T's field)
//	if recv.P != nil { t = recv.P.Value() }    t: local variable or v.F; P a field nodes.NodeOutput[int|float64|bool]
//	                                           of the receiver's struct whose kind equals the kind of t
//	x = max(x, N)                              x an int variable, N an int literal
//	x := nodes.TryGetOutputValue(recv.P, LIT)  = `x := LIT; if recv.P != nil { x = recv.P.Value() }` (the helper's body in
//	x := max(nodes.TryGetOutputValue(..), N)     nodes/node_output.go is checked to be exactly that), optionally clamped
//	if w { return CALL, nil }                  w a bool variable or nodes.TryGetOutputValue(recv.P, true|false); only
//	                                           directly before the final return
//	return CALL, nil                           CALL: F(x, ...) or v.M(x, ...) with local variables as arguments
package main

import (
	"fmt"
	"go/ast"
	"go/parser"
	"go/token"
	"os"
	"path/filepath"
	"strconv"
	"strings"
)

func init() { modes["c18.nodes"] = c18Nodes }

type c18nVar struct {
	name string
	kind string // "int" | "float" | "bool"
}

type c18nExtract struct {
	file     *ast.File
	recv     string
	ports    []c18nVar // fields of the NodeData struct
	vars     []c18nVar
	varID    map[string]int
	structs  map[string][]string          // struct variable -> keyed field names (literal order)
	structTy map[string]string            // struct variable -> type name
	fieldTy  map[string]map[string]string // struct type -> field -> kind ("" when not int/float/bool)
	stmts    []string
	usedTry  bool // nodes.TryGetOutputValue occurs: its body must be checked
}

func c18nKindOfType(e ast.Expr) string {
	switch c18Sel(e) {
	case "int":
		return "int"
	case "float64":
		return "float"
	case "bool":
		return "bool"
	}
	return ""
}

func c18nStructFields(f *ast.File, name string) ([]c18nVar, []ast.Expr, error) {
	for _, d := range f.Decls {
		gd, ok := d.(*ast.GenDecl)
		if !ok || gd.Tok != token.TYPE {
			continue
		}
		for _, s := range gd.Specs {
			ts := s.(*ast.TypeSpec)
			if ts.Name.Name != name {
				continue
			}
			st, ok := ts.Type.(*ast.StructType)
			if !ok {
				return nil, nil, fmt.Errorf("type %s is not a struct", name)
			}
			var out []c18nVar
			var tys []ast.Expr
			for _, fl := range st.Fields.List {
				if len(fl.Names) == 0 {
					return nil, nil, fmt.Errorf("type %s: embedded field", name)
				}
				for _, n := range fl.Names {
					out = append(out, c18nVar{n.Name, c18nKindOfType(fl.Type)})
					tys = append(tys, fl.Type)
				}
			}
			return out, tys, nil
		}
	}
	return nil, nil, fmt.Errorf("type %s not found", name)
}

// decimal literal -> "(.int n)" / "(.flt num den)"
func c18nLit(e ast.Expr, want string) (string, string, error) {
	switch v := e.(type) {
	case *ast.Ident:
		if v.Name == "true" || v.Name == "false" {
			if want != "" && want != "bool" {
				return "", "", fmt.Errorf("bool literal where %s is expected", want)
			}
			return "(.bool " + v.Name + ")", "bool", nil
		}
	case *ast.BasicLit:
		switch v.Kind {
		case token.INT:
			n, err := strconv.ParseInt(v.Value, 10, 64)
			if err != nil || n < 0 {
				return "", "", fmt.Errorf("bad int literal %s", v.Value)
			}
			if want == "float" { // untyped integer constant assigned to a float64
				return fmt.Sprintf("(.flt %d 1)", n), "float", nil
			}
			if want != "" && want != "int" {
				return "", "", fmt.Errorf("int literal where %s is expected", want)
			}
			return fmt.Sprintf("(.int %d)", n), "int", nil
		case token.FLOAT:
			if want != "" && want != "float" {
				return "", "", fmt.Errorf("float literal where %s is expected", want)
			}
			s := v.Value
			if strings.ContainsAny(s, "eEpPxX_") {
				return "", "", fmt.Errorf("unsupported float literal %s", s)
			}
			parts := strings.SplitN(s, ".", 2)
			if len(parts) != 2 {
				return "", "", fmt.Errorf("unsupported float literal %s", s)
			}
			digits := strings.TrimLeft(parts[0]+parts[1], "0")
			if digits == "" {
				digits = "0"
			}
			for _, ch := range parts[0] + parts[1] {
				if ch < '0' || ch > '9' {
					return "", "", fmt.Errorf("unsupported float literal %s", s)
				}
			}
			den := "1" + strings.Repeat("0", len(parts[1]))
			return fmt.Sprintf("(.flt %s %s)", digits, den), "float", nil
		}
	}
	return "", "", fmt.Errorf("expected a literal, got %T", e)
}

func (x *c18nExtract) declare(name, kind string) int {
	id := len(x.vars)
	x.vars = append(x.vars, c18nVar{name, kind})
	x.varID[name] = id
	return id
}

// variable / !variable / literal (typed by `want`)
func (x *c18nExtract) arg(e ast.Expr, want string) (string, string, error) {
	switch v := e.(type) {
	case *ast.Ident:
		if id, ok := x.varID[v.Name]; ok {
			return fmt.Sprintf(".var %d", id), x.vars[id].kind, nil
		}
	case *ast.UnaryExpr:
		if id, ok := v.X.(*ast.Ident); ok && v.Op == token.NOT {
			if k, ok := x.varID[id.Name]; ok && x.vars[k].kind == "bool" {
				return fmt.Sprintf(".notVar %d", k), "bool", nil
			}
		}
		return "", "", fmt.Errorf("unsupported unary expression")
	}
	l, k, err := c18nLit(e, want)
	if err != nil {
		return "", "", err
	}
	return ".lit " + l, k, nil
}

// t in `t = recv.P.Value()`: local variable or v.F
func (x *c18nExtract) target(e ast.Expr) (int, error) {
	name := c18Sel(e)
	if id, ok := x.varID[name]; ok && name != "" {
		return id, nil
	}
	return 0, fmt.Errorf("assignment target %q is not a declared variable or struct field", name)
}

func (x *c18nExtract) call(e ast.Expr) (string, error) {
	ce, ok := e.(*ast.CallExpr)
	if !ok {
		return "", fmt.Errorf("return value is not a call (%T)", e)
	}
	var args []string
	for _, a := range ce.Args {
		id, ok := a.(*ast.Ident)
		if !ok {
			return "", fmt.Errorf("call argument is not a local variable (%T)", a)
		}
		k, ok := x.varID[id.Name]
		if !ok {
			return "", fmt.Errorf("call argument %s is not a local variable", id.Name)
		}
		args = append(args, fmt.Sprintf(".var %d", k))
	}
	switch f := ce.Fun.(type) {
	case *ast.Ident:
		return fmt.Sprintf("{ fn := %q, recv := [], args := [%s] }", f.Name, strings.Join(args, ", ")), nil
	case *ast.SelectorExpr:
		v, ok := f.X.(*ast.Ident)
		if !ok {
			return "", fmt.Errorf("unsupported call receiver %T", f.X)
		}
		fields, ok := x.structs[v.Name]
		if !ok {
			return "", fmt.Errorf("call receiver %s is not a struct variable built in this function", v.Name)
		}
		var rs []string
		for _, fl := range fields {
			rs = append(rs, fmt.Sprintf("(%q, .var %d)", fl, x.varID[v.Name+"."+fl]))
		}
		return fmt.Sprintf("{ fn := %q, recv := [%s], args := [%s] }", x.structTy[v.Name]+"."+f.Sel.Name,
			strings.Join(rs, ", "), strings.Join(args, ", ")), nil
	}
	return "", fmt.Errorf("unsupported call %T", ce.Fun)
}

func (x *c18nExtract) retCall(s ast.Stmt) (string, error) {
	rs, ok := s.(*ast.ReturnStmt)
	if !ok || len(rs.Results) != 2 {
		return "", fmt.Errorf("expected `return CALL, nil`")
	}
	if id, ok := rs.Results[1].(*ast.Ident); !ok || id.Name != "nil" {
		return "", fmt.Errorf("expected `return CALL, nil` (second result is not nil)")
	}
	return x.call(rs.Results[0])
}

// nodes.TryGetOutputValue(recv.P, LIT) -> (port id, LIT)
func (x *c18nExtract) tryGet(e ast.Expr) (int, ast.Expr, bool) {
	ce, ok := e.(*ast.CallExpr)
	if !ok || c18Sel(ce.Fun) != "nodes.TryGetOutputValue" || len(ce.Args) != 2 {
		return 0, nil, false
	}
	port := c18Sel(ce.Args[0])
	if !strings.HasPrefix(port, x.recv+".") {
		return 0, nil, false
	}
	pname := strings.TrimPrefix(port, x.recv+".")
	for i, p := range x.ports {
		if p.name == pname && p.kind != "" {
			return i, ce.Args[1], true
		}
	}
	return 0, nil, false
}

// `name := LIT; if recv.P != nil { name = recv.P.Value() }` for a TryGetOutputValue read
func (x *c18nExtract) declTry(name string, pid int, lit ast.Expr) (int, error) {
	l, k, err := c18nLit(lit, x.ports[pid].kind)
	if err != nil {
		return 0, fmt.Errorf("fallback of port %s: %v", x.ports[pid].name, err)
	}
	if k != x.ports[pid].kind {
		return 0, fmt.Errorf("fallback of port %s: %s literal for a %s port", x.ports[pid].name, k, x.ports[pid].kind)
	}
	id := x.declare(name, k)
	x.stmts = append(x.stmts, fmt.Sprintf(".decl %d (.lit %s)", id, l), fmt.Sprintf(".port %d %d", id, pid))
	x.usedTry = true
	return id, nil
}

// nodes/node_output.go: func TryGetOutputValue(output, fallback) { if output == nil { return fallback }; return output.Value() }
func c18nCheckTryGet(repo string) error {
	fset := token.NewFileSet()
	f, err := parser.ParseFile(fset, filepath.Join(repo, "nodes", "node_output.go"), nil, 0)
	if err != nil {
		return err
	}
	for _, d := range f.Decls {
		fd, ok := d.(*ast.FuncDecl)
		if !ok || fd.Recv != nil || fd.Name.Name != "TryGetOutputValue" {
			continue
		}
		bad := fmt.Errorf("nodes/node_output.go: TryGetOutputValue is not `if output == nil { return fallback }; return output.Value()`")
		var ps []string
		for _, fl := range fd.Type.Params.List {
			for _, n := range fl.Names {
				ps = append(ps, n.Name)
			}
		}
		if len(ps) != 2 || fd.Body == nil || len(fd.Body.List) != 2 {
			return bad
		}
		is, ok := fd.Body.List[0].(*ast.IfStmt)
		if !ok || is.Init != nil || is.Else != nil || len(is.Body.List) != 1 {
			return bad
		}
		be, ok := is.Cond.(*ast.BinaryExpr)
		if !ok || be.Op != token.EQL || c18Sel(be.X) != ps[0] || c18Sel(be.Y) != "nil" {
			return bad
		}
		r1, ok := is.Body.List[0].(*ast.ReturnStmt)
		if !ok || len(r1.Results) != 1 || c18Sel(r1.Results[0]) != ps[1] {
			return bad
		}
		r2, ok := fd.Body.List[1].(*ast.ReturnStmt)
		if !ok || len(r2.Results) != 1 {
			return bad
		}
		ce, ok := r2.Results[0].(*ast.CallExpr)
		if !ok || len(ce.Args) != 0 || c18Sel(ce.Fun) != ps[0]+".Value" {
			return bad
		}
		return nil
	}
	return fmt.Errorf("nodes/node_output.go: func TryGetOutputValue not found")
}

func (x *c18nExtract) stmt(s ast.Stmt) error {
	switch v := s.(type) {
	case *ast.AssignStmt:
		if len(v.Lhs) != 1 || len(v.Rhs) != 1 {
			return fmt.Errorf("multi-assignment")
		}
		lhs, ok := v.Lhs[0].(*ast.Ident)
		if !ok {
			return fmt.Errorf("assignment to %T outside a port block", v.Lhs[0])
		}
		if v.Tok == token.DEFINE {
			if _, dup := x.varID[lhs.Name]; dup {
				return fmt.Errorf("variable %s declared twice", lhs.Name)
			}
			if cl, ok := v.Rhs[0].(*ast.CompositeLit); ok {
				ty := c18Sel(cl.Type)
				fields, _, err := c18nStructFields(x.file, ty)
				if err != nil {
					return err
				}
				ft := map[string]string{}
				for _, f := range fields {
					ft[f.name] = f.kind
				}
				var names []string
				for _, el := range cl.Elts {
					kv, ok := el.(*ast.KeyValueExpr)
					if !ok {
						return fmt.Errorf("%s literal: unkeyed element", ty)
					}
					key, ok := kv.Key.(*ast.Ident)
					if !ok {
						return fmt.Errorf("%s literal: key is not a field name", ty)
					}
					kind, ok := ft[key.Name]
					if !ok || kind == "" {
						return fmt.Errorf("%s literal: field %s is not an int/float64/bool field of %s", ty, key.Name, ty)
					}
					a, ak, err := x.arg(kv.Value, kind)
					if err != nil {
						return fmt.Errorf("%s literal, field %s: %v", ty, key.Name, err)
					}
					if ak != kind {
						return fmt.Errorf("%s literal, field %s: %s value for a %s field", ty, key.Name, ak, kind)
					}
					id := x.declare(lhs.Name+"."+key.Name, kind)
					x.stmts = append(x.stmts, fmt.Sprintf(".decl %d (%s)", id, a))
					names = append(names, key.Name)
				}
				x.structs[lhs.Name] = names
				x.structTy[lhs.Name] = ty
				return nil
			}
			if pid, lit, ok := x.tryGet(v.Rhs[0]); ok {
				_, err := x.declTry(lhs.Name, pid, lit)
				return err
			}
			if ce, ok := v.Rhs[0].(*ast.CallExpr); ok && c18Sel(ce.Fun) == "max" && len(ce.Args) == 2 {
				if pid, lit, ok := x.tryGet(ce.Args[0]); ok {
					n, err := c18Nat(ce.Args[1])
					if err != nil {
						return fmt.Errorf("%s := max(...): %v", lhs.Name, err)
					}
					id, err := x.declTry(lhs.Name, pid, lit)
					if err != nil {
						return err
					}
					if x.vars[id].kind != "int" {
						return fmt.Errorf("%s := max(...): not an int", lhs.Name)
					}
					x.stmts = append(x.stmts, fmt.Sprintf(".clampMin %d %d", id, n))
					return nil
				}
			}
			l, k, err := c18nLit(v.Rhs[0], "")
			if err != nil {
				return fmt.Errorf("%s := ...: %v", lhs.Name, err)
			}
			id := x.declare(lhs.Name, k)
			x.stmts = append(x.stmts, fmt.Sprintf(".decl %d (.lit %s)", id, l))
			return nil
		}
		if v.Tok != token.ASSIGN {
			return fmt.Errorf("unsupported assignment operator %s", v.Tok)
		}
		// x = max(x, N)
		id, ok := x.varID[lhs.Name]
		if !ok {
			return fmt.Errorf("assignment to undeclared %s", lhs.Name)
		}
		ce, ok := v.Rhs[0].(*ast.CallExpr)
		if !ok || c18Sel(ce.Fun) != "max" || len(ce.Args) != 2 {
			return fmt.Errorf("%s = ...: only `%s = max(%s, N)` is recognised", lhs.Name, lhs.Name, lhs.Name)
		}
		if a0, ok := ce.Args[0].(*ast.Ident); !ok || a0.Name != lhs.Name {
			return fmt.Errorf("%s = max(...): first argument is not %s", lhs.Name, lhs.Name)
		}
		if x.vars[id].kind != "int" {
			return fmt.Errorf("%s = max(...): %s is not an int", lhs.Name, lhs.Name)
		}
		n, err := c18Nat(ce.Args[1])
		if err != nil {
			return fmt.Errorf("%s = max(...): %v", lhs.Name, err)
		}
		x.stmts = append(x.stmts, fmt.Sprintf(".clampMin %d %d", id, n))
		return nil
	case *ast.IfStmt:
		if v.Init != nil || v.Else != nil || len(v.Body.List) != 1 {
			return fmt.Errorf("unsupported if statement shape")
		}
		be, ok := v.Cond.(*ast.BinaryExpr)
		if !ok || be.Op != token.NEQ {
			return fmt.Errorf("unsupported if condition")
		}
		if id, ok := be.Y.(*ast.Ident); !ok || id.Name != "nil" {
			return fmt.Errorf("unsupported if condition (not a nil check)")
		}
		port := c18Sel(be.X)
		if !strings.HasPrefix(port, x.recv+".") {
			return fmt.Errorf("nil check of %s is not a check of a receiver port", port)
		}
		pname := strings.TrimPrefix(port, x.recv+".")
		pid := -1
		for i, p := range x.ports {
			if p.name == pname {
				pid = i
			}
		}
		if pid < 0 {
			return fmt.Errorf("%s is not a port of the receiver", pname)
		}
		as, ok := v.Body.List[0].(*ast.AssignStmt)
		if !ok || as.Tok != token.ASSIGN || len(as.Lhs) != 1 || len(as.Rhs) != 1 {
			return fmt.Errorf("port block of %s: expected one plain assignment", pname)
		}
		ce, ok := as.Rhs[0].(*ast.CallExpr)
		if !ok || len(ce.Args) != 0 || c18Sel(ce.Fun) != port+".Value" {
			return fmt.Errorf("port block of %s: the assigned value is not %s.Value()", pname, port)
		}
		tid, err := x.target(as.Lhs[0])
		if err != nil {
			return fmt.Errorf("port block of %s: %v", pname, err)
		}
		if x.ports[pid].kind == "" || x.ports[pid].kind != x.vars[tid].kind {
			return fmt.Errorf("port %s (%s) assigned to %s (%s)", pname, x.ports[pid].kind, x.vars[tid].name, x.vars[tid].kind)
		}
		x.stmts = append(x.stmts, fmt.Sprintf(".port %d %d", tid, pid))
		return nil
	}
	return fmt.Errorf("unsupported statement %T", s)
}

func c18nNode(repo, dir, file, dataType, leanName string) (string, error) {
	fset := token.NewFileSet()
	f, err := parser.ParseFile(fset, filepath.Join(dir, file), nil, 0)
	if err != nil {
		return "", err
	}
	fd := c18Method(f, dataType, "Process")
	if fd == nil || fd.Body == nil {
		return "", fmt.Errorf("%s: func (%s) Process not found", file, dataType)
	}
	if fd.Recv == nil || len(fd.Recv.List) != 1 || len(fd.Recv.List[0].Names) != 1 {
		return "", fmt.Errorf("%s: %s.Process has no named receiver", file, dataType)
	}
	x := &c18nExtract{file: f, recv: fd.Recv.List[0].Names[0].Name, varID: map[string]int{},
		structs: map[string][]string{}, structTy: map[string]string{}}
	fields, tys, err := c18nStructFields(f, dataType)
	if err != nil {
		return "", fmt.Errorf("%s: %v", file, err)
	}
	for i, fl := range fields {
		kind := ""
		if ie, ok := tys[i].(*ast.IndexExpr); ok && c18Sel(ie.X) == "nodes.NodeOutput" {
			kind = c18nKindOfType(ie.Index)
		}
		x.ports = append(x.ports, c18nVar{fl.name, kind})
	}
	body := fd.Body.List
	if len(body) == 0 {
		return "", fmt.Errorf("%s: %s.Process is empty", file, dataType)
	}
	where := func(s ast.Stmt) string { return fset.Position(s.Pos()).String() }
	// the final return, optionally preceded by `if w { return CALL, nil }`
	last := body[len(body)-1]
	body = body[:len(body)-1]
	condVar := -1
	var condStmt *ast.IfStmt
	if len(body) > 0 {
		if is, ok := body[len(body)-1].(*ast.IfStmt); ok {
			_, isIdent := is.Cond.(*ast.Ident)
			_, _, isTry := x.tryGet(is.Cond)
			if isIdent || isTry {
				condStmt = is
				body = body[:len(body)-1]
			}
		}
	}
	for _, s := range body {
		if err := x.stmt(s); err != nil {
			return "", fmt.Errorf("%s: %v", where(s), err)
		}
	}
	ret := ""
	elseCall, err := x.retCall(last)
	if err != nil {
		return "", fmt.Errorf("%s: %v", where(last), err)
	}
	if condStmt != nil {
		var k int
		var ok bool
		if pid, lit, isTry := x.tryGet(condStmt.Cond); isTry {
			k, err = x.declTry("(condition)", pid, lit)
			if err != nil {
				return "", fmt.Errorf("%s: %v", where(condStmt), err)
			}
			ok = true
		} else {
			k, ok = x.varID[condStmt.Cond.(*ast.Ident).Name]
		}
		if !ok || x.vars[k].kind != "bool" || condStmt.Init != nil || condStmt.Else != nil || len(condStmt.Body.List) != 1 {
			return "", fmt.Errorf("%s: unsupported conditional return", where(condStmt))
		}
		condVar = k
		thenCall, err := x.retCall(condStmt.Body.List[0])
		if err != nil {
			return "", fmt.Errorf("%s: %v", where(condStmt), err)
		}
		ret = fmt.Sprintf(".ite %d\n      %s\n      %s", condVar, thenCall, elseCall)
	} else {
		ret = ".call " + elseCall
	}
	if x.usedTry {
		if err := c18nCheckTryGet(repo); err != nil {
			return "", err
		}
	}
	var vs, ps []string
	for i, v := range x.vars {
		vs = append(vs, fmt.Sprintf("%d %s (%s)", i, v.name, v.kind))
	}
	for i, p := range x.ports {
		ps = append(ps, fmt.Sprintf("%d %s (%s)", i, p.name, p.kind))
	}
	var b strings.Builder
	fmt.Fprintf(&b, "/-- %s `%s.Process` — variables: %s; ports: %s -/\n", file, dataType, strings.Join(vs, ", "), strings.Join(ps, ", "))
	fmt.Fprintf(&b, "def %s : Node :=\n  { stmts := [%s],\n    ret := %s }\n", leanName, strings.Join(x.stmts, ", "), ret)
	return b.String(), nil
}

func c18Nodes(repo, out string, args []string) error {
	if out == "" {
		return fmt.Errorf("c18.nodes: -out is required")
	}
	dir := filepath.Join(repo, "modeling", "primitives")
	var b strings.Builder
	b.WriteString("-- GENERATED by `go/facts c18.nodes` from /repo modeling/primitives/{sphere,hemisphere,cylinder,cube}.go — do not edit\n")
	b.WriteString("import PolyVerif.Model.NodeIR\nnamespace PolyVerif.Gen.PrimNodes\nopen PolyVerif.NodeIR\n\n")
	for _, n := range [][3]string{
		{"sphere.go", "UvSphereNodeData", "uvSphereNode"},
		{"hemisphere.go", "HemisphereNodeData", "hemisphereNode"},
		{"cylinder.go", "CylinderNodeData", "cylinderNode"},
		{"cube.go", "CubeNodeData", "cubeNode"},
	} {
		s, err := c18nNode(repo, dir, n[0], n[1], n[2])
		if err != nil {
			return err
		}
		b.WriteString(s)
		b.WriteString("\n")
	}
	b.WriteString("end PolyVerif.Gen.PrimNodes\n")
	return os.WriteFile(out, []byte(b.String()), 0o644)
}
