package main

// Engine F, C10 part 3: synchronisation facts of modeling/marching/canvas.go —
//   * the critical sections of chunkMutex (allocation of block storage) and where shared storage is stored to / read,
//   * the job / result channel protocol of AddFieldParallel, AddFieldParallel2, marchFloat1Parallel
//     (who sends what, loop bounds, close, collector bound, NumCPU()==1 delegation).
// Any shape not understood is an error (non-zero exit).

import (
	"fmt"
	"go/ast"
	"go/token"
	"strings"
)

func c10Mentions(n ast.Node, subs ...string) bool {
	found := false
	ast.Inspect(n, func(x ast.Node) bool {
		if s, ok := x.(*ast.SelectorExpr); ok {
			for _, sub := range subs {
				if s.Sel.Name == sub {
					found = true
				}
			}
		}
		return true
	})
	return found
}

var c10SharedFields = []string{"float1Data", "float2Data", "float3Data", "positions"}

func c10Locks(fset *token.FileSet, o *c10Out, file *ast.File) error {
	alloc := c10FindFunc(file, "chunkIndex_atomic")
	if alloc == nil {
		return fmt.Errorf("chunkIndex_atomic not found")
	}
	recv := c10RecvName(alloc)
	lock, unlock := recv+".chunkMutex.Lock()", recv+".chunkMutex.Unlock()"
	if len(alloc.Body.List) < 3 {
		return c10err(fset, alloc, "chunkIndex_atomic: body too short")
	}
	if es, ok := alloc.Body.List[0].(*ast.ExprStmt); !ok || c10Key(es.X) != lock {
		return c10err(fset, alloc, "chunkIndex_atomic: first statement is not %s", lock)
	}
	if ds, ok := alloc.Body.List[1].(*ast.DeferStmt); !ok || c10Key(ds.Call) != unlock {
		return c10err(fset, alloc, "chunkIndex_atomic: second statement is not `defer %s`", unlock)
	}
	// no other Lock/Unlock inside (a nested unlock would open the section)
	n := 0
	ast.Inspect(alloc.Body, func(x ast.Node) bool {
		if c, ok := x.(*ast.CallExpr); ok && (c10Key(c) == lock || c10Key(c) == unlock) {
			n++
		}
		return true
	})
	if n != 2 {
		return c10err(fset, alloc, "chunkIndex_atomic: extra Lock/Unlock calls inside the critical section")
	}
	// lookup-or-append shape: `idx, ok := section.positions[vec]; if !ok { … append … ; section.positions[vec] = idx }; return idx`
	if len(alloc.Body.List) != 5 {
		return c10err(fset, alloc, "chunkIndex_atomic: body is not Lock; defer Unlock; lookup; if !ok {…}; return")
	}
	look, ok := alloc.Body.List[2].(*ast.AssignStmt)
	if !ok || len(look.Lhs) != 2 || len(look.Rhs) != 1 || !strings.Contains(c10Key(look.Rhs[0]), ".positions[") {
		return c10err(fset, alloc, "chunkIndex_atomic: third statement is not the positions lookup")
	}
	idxVar, okVar := c10Key(look.Lhs[0]), c10Key(look.Lhs[1])
	ifs, ok := alloc.Body.List[3].(*ast.IfStmt)
	if !ok || c10Key(ifs.Cond) != "!"+okVar || ifs.Else != nil {
		return c10err(fset, alloc, "chunkIndex_atomic: fourth statement is not `if !%s {…}`", okVar)
	}
	// inside: every path sets idx = len(d.floatKData) then appends one array to that very slice, and finally records positions[vec] = idx
	okAppend, okRecord := 0, false
	ast.Inspect(ifs.Body, func(x ast.Node) bool {
		if cc, isCase := x.(*ast.CaseClause); isCase && len(cc.Body) == 2 {
			a1, ok1 := cc.Body[0].(*ast.AssignStmt)
			a2, ok2 := cc.Body[1].(*ast.AssignStmt)
			if ok1 && ok2 && c10Key(a1.Lhs[0]) == idxVar && strings.HasPrefix(c10Key(a1.Rhs[0]), "len("+recv+".float") {
				arr := strings.TrimSuffix(strings.TrimPrefix(c10Key(a1.Rhs[0]), "len("), ")")
				if c10Key(a2.Lhs[0]) == arr && strings.HasPrefix(c10Key(a2.Rhs[0]), "append("+arr+",make(") {
					okAppend++
				}
			}
		}
		return true
	})
	if last, isA := ifs.Body.List[len(ifs.Body.List)-1].(*ast.AssignStmt); isA && strings.Contains(c10Key(last.Lhs[0]), ".positions[") && c10Key(last.Rhs[0]) == idxVar {
		okRecord = true
	}
	if okAppend != 3 || !okRecord {
		return c10err(fset, alloc, "chunkIndex_atomic: the miss branch is not `idx = len(arr); arr = append(arr, make(…))` per data type followed by positions[vec] = idx (%d, %v)", okAppend, okRecord)
	}
	if r, isR := alloc.Body.List[4].(*ast.ReturnStmt); !isR || len(r.Results) != 1 || c10Key(r.Results[0]) != idxVar {
		return c10err(fset, alloc, "chunkIndex_atomic: does not return the looked-up / new index")
	}
	// every store to shared storage in the file lies in chunkIndex_atomic
	var sites []string
	for _, dcl := range file.Decls {
		fd, ok := dcl.(*ast.FuncDecl)
		if !ok || fd.Body == nil {
			continue
		}
		ast.Inspect(fd.Body, func(x ast.Node) bool {
			as, ok := x.(*ast.AssignStmt)
			if !ok {
				return true
			}
			for _, l := range as.Lhs {
				// a store to the slice-of-arrays or to the positions map (not to a local alias of one array)
				k := c10Key(l)
				for _, f := range c10SharedFields {
					if strings.Contains(k, "."+f) {
						if fd.Name.Name != "chunkIndex_atomic" {
							sites = append(sites, fmt.Sprintf("%s: %s", fd.Name.Name, k))
						}
					}
				}
			}
			return true
		})
	}
	if len(sites) != 0 {
		return fmt.Errorf("canvas.go: stores to shared block storage outside chunkIndex_atomic: %v", sites)
	}
	// addFloat1Range: the only use of float1Data is `data := d.float1Data[index]` between Lock and Unlock
	afr := c10FindFunc(file, "addFloat1Range")
	if afr == nil {
		return fmt.Errorf("addFloat1Range not found")
	}
	uses, guarded := 0, 0
	for i, st := range afr.Body.List {
		if c10Mentions(st, c10SharedFields...) {
			uses++
			if i > 0 && i+1 < len(afr.Body.List) {
				p, ok1 := afr.Body.List[i-1].(*ast.ExprStmt)
				q, ok2 := afr.Body.List[i+1].(*ast.ExprStmt)
				as, ok3 := st.(*ast.AssignStmt)
				if ok1 && ok2 && ok3 && c10Key(p.X) == lock && c10Key(q.X) == unlock && len(as.Rhs) == 1 &&
					strings.HasPrefix(c10Key(as.Rhs[0]), recv+".float1Data[") {
					guarded++
				}
			}
		}
	}
	if uses != 1 || guarded != 1 {
		return c10err(fset, afr, "addFloat1Range: shared storage is not read exactly once, between Lock and Unlock (%d uses, %d guarded)", uses, guarded)
	}
	// it obtains the slot from chunkIndex_atomic and calls nothing else on the canvas but index
	calls := map[string]bool{}
	ast.Inspect(afr.Body, func(x ast.Node) bool {
		if c, ok := x.(*ast.CallExpr); ok {
			if s, ok := c.Fun.(*ast.SelectorExpr); ok && c10Key(s.X) == recv {
				calls[s.Sel.Name] = true
			}
		}
		return true
	})
	for k := range calls {
		if k != "chunkIndex_atomic" && k != "index" {
			return c10err(fset, afr, "addFloat1Range: calls %s.%s", recv, k)
		}
	}
	if !calls["chunkIndex_atomic"] {
		return c10err(fset, afr, "addFloat1Range: does not obtain its slot from chunkIndex_atomic")
	}
	// calcFloat1Range touches no shared state at all
	if cf := c10FindFunc(file, "calcFloat1Range"); cf == nil || c10Mentions(cf.Body, append(c10SharedFields, "sections", "chunkMutex")...) {
		return fmt.Errorf("calcFloat1Range: not found or touches shared canvas state")
	}
	// marchFloat1BlockPosition only reads shared storage and calls no allocating function
	mb := c10FindFunc(file, "marchFloat1BlockPosition")
	if mb == nil {
		return fmt.Errorf("marchFloat1BlockPosition not found")
	}
	bad := ""
	ast.Inspect(mb.Body, func(x ast.Node) bool {
		if c, ok := x.(*ast.CallExpr); ok {
			if s, ok := c.Fun.(*ast.SelectorExpr); ok {
				switch s.Sel.Name {
				case "chunkIndex_atomic", "getSection", "AddField", "AddFieldParallel", "AddFieldParallel2", "addFloat1Range":
					bad = s.Sel.Name
				}
			}
		}
		return true
	})
	if bad != "" {
		return c10err(fset, mb, "marchFloat1BlockPosition: calls %s", bad)
	}
	o.p("-- chunkMutex: critical sections and shared-storage access sites, as found (any other shape makes the extractor fail)")
	o.p("namespace Locks")
	o.p("/-- `chunkIndex_atomic` is `Lock(); defer Unlock(); idx, ok := positions[vec]; if !ok { idx = len(arr); arr = append(arr, make(…)); positions[vec] = idx }; return idx` -/")
	o.p("def allocIsOneCriticalSection : Bool := true")
	o.p("/-- functions containing a store to float1Data / float2Data / float3Data / positions -/")
	o.p("def sharedStoreSites : List String := [\"chunkIndex_atomic\"]")
	o.p("/-- `addFloat1Range` reads `float1Data[index]` exactly once, between Lock and Unlock, with `index` from chunkIndex_atomic -/")
	o.p("def workerReadUnderLock : Bool := true")
	o.p("/-- `calcFloat1Range` touches no shared canvas state; `marchFloat1BlockPosition` stores to none and calls no allocating function -/")
	o.p("def otherWorkersDoNotAllocate : Bool := true")
	o.p("end Locks")
	o.p("")
	return nil
}

type c10Proto struct {
	name                                   string
	mode                                   string
	delegate                               string
	workerCallee                           string
	sends, collects, jobsCap, resCap, spwn string
}

func c10Protocol(fset *token.FileSet, file *ast.File, name string) (*c10Proto, error) {
	fd := c10FindFunc(file, name)
	if fd == nil {
		return nil, fmt.Errorf("%s not found", name)
	}
	recv := c10RecvName(fd)
	p := &c10Proto{name: name}
	env := c10Env{"len(chunkSections)": "chunks", "len(field.Float1Functions)": "funcs", "len(section.positions)": "blocks"}
	rangeVar := map[string]string{"field.Float1Functions": "funcs", "chunkSections": "chunks", "section.positions": "blocks"}
	stage := 0 // 0 setup, 1 spawned, 2 produced, 3 closed, 4 collected
	bad := func(n ast.Node, format string, a ...any) error {
		return c10err(fset, n, "%s: %s", name, fmt.Sprintf(format, a...))
	}
	list := fd.Body.List
	for i := 0; i < len(list); i++ {
		st := list[i]
		switch s := st.(type) {
		case *ast.DeclStmt:
			// local type declaration
		case *ast.AssignStmt:
			if len(s.Lhs) == 1 && len(s.Rhs) == 1 {
				l, r := c10Key(s.Lhs[0]), c10Key(s.Rhs[0])
				switch {
				case l == "workers" && r == "runtime.NumCPU()":
					env["workers"] = "workers"
				case l == "numJobs":
					if stage != 0 {
						return nil, bad(st, "numJobs assigned after the workers were started")
					}
					e, err := c10Expr(fset, s.Rhs[0], env)
					if err != nil {
						return nil, err
					}
					env["numJobs"] = e
				case (l == "jobs" || l == "results") && strings.HasPrefix(r, "make(<*ast.ChanType>"):
					c := s.Rhs[0].(*ast.CallExpr)
					capE := "0"
					if len(c.Args) == 2 {
						e, err := c10Expr(fset, c.Args[1], env)
						if err != nil {
							return nil, err
						}
						capE = e
					}
					if l == "jobs" {
						p.jobsCap = capE
					} else {
						p.resCap = capE
					}
				case l == "chunkSections" || l == "finalMesh":
				default:
					return nil, bad(st, "unexpected assignment %s := %s", l, r)
				}
			} else if c10Key(s.Rhs[0]) != recv+".fieldBounds(field)" {
				return nil, bad(st, "unexpected assignment")
			}
		case *ast.IfStmt:
			if c10Key(s.Cond) != "(workers==1)" || stage != 0 || s.Else != nil {
				return nil, bad(st, "unexpected if")
			}
			var call ast.Expr
			switch len(s.Body.List) {
			case 1:
				if r, ok := s.Body.List[0].(*ast.ReturnStmt); ok && len(r.Results) == 1 {
					call = r.Results[0]
				}
			case 2:
				if es, ok := s.Body.List[0].(*ast.ExprStmt); ok {
					if r, ok := s.Body.List[1].(*ast.ReturnStmt); ok && len(r.Results) == 0 {
						call = es.X
					}
				}
			}
			c, ok := call.(*ast.CallExpr)
			if !ok {
				return nil, bad(st, "single-CPU branch is not a call of the sequential counterpart")
			}
			sel, ok := c.Fun.(*ast.SelectorExpr)
			if !ok || c10Key(sel.X) != recv {
				return nil, bad(st, "single-CPU branch calls something else")
			}
			p.delegate = sel.Sel.Name
		case *ast.ForStmt:
			v, lo, hi, body, err := c10CountLoop(fset, st)
			if err != nil {
				return nil, err
			}
			if c10Key(lo) != "0" {
				return nil, bad(st, "loop does not start at 0")
			}
			bound, err := c10Expr(fset, hi, env)
			if err != nil {
				return nil, err
			}
			if g, ok := body.List[0].(*ast.GoStmt); ok && len(body.List) == 1 {
				if stage != 0 || p.jobsCap == "" || p.resCap == "" {
					return nil, bad(st, "workers started twice or before the channels exist")
				}
				stage = 1
				p.spwn = bound
				fl, ok := g.Call.Fun.(*ast.FuncLit)
				if !ok || len(g.Call.Args) != 2 || c10Key(g.Call.Args[0]) != "jobs" || c10Key(g.Call.Args[1]) != "results" {
					return nil, bad(st, "worker is not go func(jobs, results){…}(jobs, results)")
				}
				if err := c10WorkerProto(fset, p, fl, recv, bad); err != nil {
					return nil, err
				}
				_ = v
				continue
			}
			// collector
			if stage != 3 {
				return nil, bad(st, "collector loop before close(jobs)")
			}
			stage = 4
			recvs := 0
			ast.Inspect(body, func(x ast.Node) bool {
				if u, ok := x.(*ast.UnaryExpr); ok && u.Op == token.ARROW {
					if c10Key(u.X) != "results" {
						recvs += 100
					}
					recvs++
				}
				if _, ok := x.(*ast.BranchStmt); ok {
					recvs += 100
				}
				return true
			})
			if recvs != 1 {
				return nil, bad(st, "collector loop does not receive exactly once per iteration from results")
			}
			p.collects = bound
		case *ast.RangeStmt:
			if stage != 1 {
				return nil, bad(st, "producer loop out of order")
			}
			stage = 2
			var factors []string
			var cur ast.Stmt = s
			sendsSeen := 0
			for cur != nil {
				r := cur.(*ast.RangeStmt)
				f, ok := rangeVar[c10Key(r.X)]
				if !ok {
					return nil, bad(r, "producer ranges over %s", c10Key(r.X))
				}
				factors = append(factors, f)
				cur = nil
				for _, bs := range r.Body.List {
					switch b := bs.(type) {
					case *ast.RangeStmt:
						if cur != nil {
							return nil, bad(bs, "two nested producer loops")
						}
						cur = b
					case *ast.SendStmt:
						if c10Key(b.Chan) != "jobs" {
							return nil, bad(bs, "producer sends to %s", c10Key(b.Chan))
						}
						sendsSeen++
					case *ast.AssignStmt:
					default:
						return nil, bad(bs, "producer loop contains %T (a conditional or skipped send is not understood)", bs)
					}
				}
			}
			if sendsSeen != 1 {
				return nil, bad(st, "producer does not send exactly once per innermost iteration")
			}
			p.sends = "(" + strings.Join(factors, " * ") + ")"
		case *ast.ExprStmt:
			if c10Key(s.X) == "close(jobs)" {
				if stage != 2 {
					return nil, bad(st, "close(jobs) out of order")
				}
				stage = 3
			} else {
				return nil, bad(st, "unexpected call %s", c10Key(s.X))
			}
		case *ast.ReturnStmt:
			if stage != 4 {
				return nil, bad(st, "return before the collector loop")
			}
		default:
			return nil, bad(st, "unexpected statement %T", st)
		}
	}
	if stage != 4 {
		return nil, bad(fd, "protocol incomplete (stage %d)", stage)
	}
	if _, ok := env["workers"]; !ok {
		return nil, bad(fd, "worker count is not runtime.NumCPU()")
	}
	return p, nil
}

func c10WorkerProto(fset *token.FileSet, p *c10Proto, fl *ast.FuncLit, recv string, bad func(ast.Node, string, ...any) error) error {
	b := fl.Body.List
	callee := func(e ast.Expr) string {
		if c, ok := e.(*ast.CallExpr); ok {
			if s, ok := c.Fun.(*ast.SelectorExpr); ok && c10Key(s.X) == recv {
				return s.Sel.Name
			}
		}
		return ""
	}
	switch len(b) {
	case 1: // for j := range jobs { [j.data = CALL;] results <- X }
		r, ok := b[0].(*ast.RangeStmt)
		if !ok || c10Key(r.X) != "jobs" {
			return bad(fl, "worker is not a range over jobs")
		}
		last, ok := r.Body.List[len(r.Body.List)-1].(*ast.SendStmt)
		if !ok || c10Key(last.Chan) != "results" {
			return bad(fl, "worker does not end each iteration with a send on results")
		}
		switch len(r.Body.List) {
		case 1:
			p.workerCallee = callee(last.Value)
		case 2:
			as, ok := r.Body.List[0].(*ast.AssignStmt)
			if !ok || len(as.Rhs) != 1 || c10Key(last.Value) != c10Key(r.Key) {
				return bad(fl, "worker body of unknown shape")
			}
			p.workerCallee = callee(as.Rhs[0])
		default:
			return bad(fl, "worker body of unknown shape")
		}
		p.mode = "perJob"
	case 3: // completed := 0; for j := range jobs { CALL; completed++ }; results <- completed
		r, ok := b[1].(*ast.RangeStmt)
		snd, ok2 := b[2].(*ast.SendStmt)
		if !ok || !ok2 || c10Key(r.X) != "jobs" || c10Key(snd.Chan) != "results" || len(r.Body.List) != 2 {
			return bad(fl, "worker of unknown shape")
		}
		es, ok := r.Body.List[0].(*ast.ExprStmt)
		if !ok {
			return bad(fl, "worker body of unknown shape")
		}
		p.workerCallee = callee(es.X)
		if _, ok := r.Body.List[1].(*ast.IncDecStmt); !ok {
			return bad(fl, "worker body of unknown shape")
		}
		p.mode = "perWorker"
	default:
		return bad(fl, "worker of unknown shape")
	}
	if p.workerCallee == "" {
		return bad(fl, "worker does not call a canvas method per job")
	}
	return nil
}

func c10Sync(fset *token.FileSet, o *c10Out, file *ast.File) error {
	if err := c10Locks(fset, o, file); err != nil {
		return err
	}
	o.p("-- job / result channel protocol of the three parallel canvas functions (counts as functions of")
	o.p("-- funcs = len(field.Float1Functions), chunks = len(chunkSections), blocks = len(section.positions), workers = runtime.NumCPU())")
	o.p("namespace Sync")
	want := map[string]string{"AddFieldParallel": "addFloat1Range", "AddFieldParallel2": "calcFloat1Range", "marchFloat1Parallel": "marchFloat1BlockPosition"}
	for _, name := range []string{"AddFieldParallel", "AddFieldParallel2", "marchFloat1Parallel"} {
		p, err := c10Protocol(fset, file, name)
		if err != nil {
			return err
		}
		if p.workerCallee != want[name] {
			return fmt.Errorf("%s: workers call %s, expected %s", name, p.workerCallee, want[name])
		}
		o.p("namespace %s", name)
		o.p("def mode : Chan.Mode := Chan.Mode.%s", p.mode)
		if p.delegate == "" {
			o.p("/-- no `if workers == 1` branch -/")
			o.p("def delegate : Option String := none")
		} else {
			o.p("/-- `if workers == 1 { <this sequential method>; return }` before anything else -/")
			o.p("def delegate : Option String := some %q", p.delegate)
		}
		o.p("def workerCallee : String := %q", p.workerCallee)
		o.p("/-- number of `jobs <- …` executed by the producer loops, then `close(jobs)` -/")
		o.p("def sends (funcs chunks blocks workers : Nat) : Nat := %s", p.sends)
		o.p("/-- bound of the collector loop `for i := 0; i < …; i++ { <-results }` -/")
		o.p("def collects (funcs chunks blocks workers : Nat) : Nat := %s", p.collects)
		o.p("/-- goroutines started -/")
		o.p("def spawned (funcs chunks blocks workers : Nat) : Nat := %s", p.spwn)
		o.p("def jobsCap (funcs chunks blocks workers : Nat) : Nat := %s", p.jobsCap)
		o.p("def resCap (funcs chunks blocks workers : Nat) : Nat := %s", p.resCap)
		o.p("end %s", name)
	}
	o.p("end Sync")
	o.p("")
	return nil
}
