// Engine F, properties C04 / C08: the VALUE CONVERSIONS of the PLY scalar codec, read from the current tree with go/parser +
// go/ast and written as Lean data (PolyVerif/Gen/PlyValues.lean):
//
//	writer_vector1.go  builtVector1PropertyWriter.Write   switch format: case T: <store>(<expression in v>)   -> v1BinWrite
//	writer_vector1.go  asciiVector1PropertyWriter.Write   switch format: case T…: buf = strconv.Append…(…)    -> v1AsciiWrite
//	reader_vector1.go  builtVector1PropertyReader.Read    switch scalarType: case T: v = <expression in wire> -> v1BinRead
//	reader_vector1.go  builtAsciiVector1PropertyReader.Read  ParseFloat bit size, `if scalarType == T { v /= K }` -> v1AsciiRead*
//
// Expressions are translated by a small translator into prefix terms over `v` (the float64 component) resp. `wire` (the bytes at
// the reader's offset): conversions byte/uint32/int32/int64/float32/float64, math.Round/Max/Min/Float32bits/Float64bits/
// Float32frombits/Float64frombits, `*`, `/`, integer and float literals, `endian.Uint32(buf[off:])`, `buf[off]`.  ANY other
// shape — statement or expression — is an error: the extractor never guesses.  Props/C04Values.lean reads each term as the
// primitive of the model's `Coding` bundle it denotes and proves the model's per-type functions equal to the tables.
package main

import (
	"fmt"
	"go/ast"
	"go/parser"
	"go/token"
	"os"
	"path/filepath"
	"strconv"
	"strings"
)

func init() { modes["c04.values"] = c04Values }

type c04vTr struct {
	fset *token.FileSet
	file string
	recv string // receiver name
	val  string // name of the float64 component variable ("" in readers)
	// vector writers: the bound vector variable, the componentwise term of its method chain, the component last read
	vecVar, vecTerm, comp string
	// vector readers: the receiver field holding the offset of the component being translated ("offset" for scalars)
	offField string
}

func (t *c04vTr) at(n ast.Node) string {
	return fmt.Sprintf("%s:%d", t.file, t.fset.Position(n.Pos()).Line)
}

func (t *c04vTr) isRecvField(e ast.Expr, field string) bool {
	s, ok := e.(*ast.SelectorExpr)
	if !ok || s.Sel.Name != field {
		return false
	}
	id, ok := s.X.(*ast.Ident)
	return ok && id.Name == t.recv
}

// `buf[recv.offset:]` or `buf[recv.offset]` (reader), where buf is the method's byte-slice parameter
func (t *c04vTr) isWireAt(x ast.Expr, idx ast.Expr) bool {
	id, ok := x.(*ast.Ident)
	f := t.offField
	if f == "" {
		f = "offset"
	}
	return ok && id.Name == "buf" && t.isRecvField(idx, f)
}

// componentwise reading of a vector method chain `recv.arr.At(i).M1(…).M2(…)…`: the term in the component `v`
func (t *c04vTr) chain(e ast.Expr) (string, error) {
	call, ok := e.(*ast.CallExpr)
	if !ok {
		return "", fmt.Errorf("%s: unsupported vector expression", t.at(e))
	}
	s, ok := call.Fun.(*ast.SelectorExpr)
	if !ok {
		return "", fmt.Errorf("%s: unsupported vector expression", t.at(e))
	}
	if s.Sel.Name == "At" && t.isRecvField(s.X, "arr") && len(call.Args) == 1 {
		return "v", nil
	}
	arity, ok := map[string]int{"Clamp": 2, "Scale": 1, "RoundToInt": 0, "Round": 0, "ToFloat32": 0}[s.Sel.Name]
	if !ok || len(call.Args) != arity {
		return "", fmt.Errorf("%s: unsupported vector method %s", t.at(e), s.Sel.Name)
	}
	inner, err := t.chain(s.X)
	if err != nil {
		return "", err
	}
	parts := []string{s.Sel.Name}
	for _, a := range call.Args {
		lit, ok := a.(*ast.BasicLit)
		if !ok {
			return "", fmt.Errorf("%s: unsupported vector method argument", t.at(a))
		}
		parts = append(parts, strings.TrimSuffix(lit.Value, "."))
	}
	return "(" + strings.Join(append(parts, inner), " ") + ")", nil
}

var c04vConv = map[string]bool{"byte": true, "uint32": true, "int32": true, "int64": true, "float32": true, "float64": true}
var c04vMath = map[string]int{"Round": 1, "Max": 2, "Min": 2, "Float32bits": 1, "Float64bits": 1, "Float32frombits": 1, "Float64frombits": 1}

func (t *c04vTr) expr(e ast.Expr) (string, error) {
	switch x := e.(type) {
	case *ast.ParenExpr:
		return t.expr(x.X)
	case *ast.Ident:
		if t.val != "" && x.Name == t.val {
			return "v", nil
		}
	case *ast.BasicLit:
		switch x.Kind {
		case token.INT:
			return x.Value, nil
		case token.FLOAT:
			f, err := strconv.ParseFloat(x.Value, 64)
			if err == nil && f == float64(int64(f)) {
				return strconv.FormatInt(int64(f), 10), nil
			}
		}
	case *ast.BinaryExpr:
		op := map[token.Token]string{token.MUL: "*", token.QUO: "/"}[x.Op]
		if op != "" {
			a, err := t.expr(x.X)
			if err != nil {
				return "", err
			}
			b, err := t.expr(x.Y)
			if err != nil {
				return "", err
			}
			return fmt.Sprintf("(%s %s %s)", op, a, b), nil
		}
	case *ast.IndexExpr:
		if t.val == "" && t.isWireAt(x.X, x.Index) {
			return "(byte wire)", nil
		}
	case *ast.CallExpr:
		if s, ok := x.Fun.(*ast.SelectorExpr); ok && t.vecVar != "" && len(x.Args) == 0 {
			if id, ok := s.X.(*ast.Ident); ok && id.Name == t.vecVar && strings.Contains("XYZW", s.Sel.Name) && len(s.Sel.Name) == 1 {
				t.comp = s.Sel.Name
				return t.vecTerm, nil
			}
		}
		if id, ok := x.Fun.(*ast.Ident); ok && c04vConv[id.Name] && len(x.Args) == 1 {
			a, err := t.expr(x.Args[0])
			if err != nil {
				return "", err
			}
			if id.Name == "byte" && a == "(byte wire)" {
				return a, nil
			}
			return fmt.Sprintf("(%s %s)", id.Name, a), nil
		}
		if s, ok := x.Fun.(*ast.SelectorExpr); ok {
			if id, ok := s.X.(*ast.Ident); ok && id.Name == "math" {
				if n, ok := c04vMath[s.Sel.Name]; ok && len(x.Args) == n {
					parts := []string{"math." + s.Sel.Name}
					for _, a := range x.Args {
						p, err := t.expr(a)
						if err != nil {
							return "", err
						}
						parts = append(parts, p)
					}
					return "(" + strings.Join(parts, " ") + ")", nil
				}
			}
			// recv.endian.Uint32(buf[recv.offset:])
			if t.val == "" && t.isRecvField(s.X, "endian") && len(x.Args) == 1 {
				if sl, ok := x.Args[0].(*ast.SliceExpr); ok && sl.High == nil && sl.Max == nil && sl.Low != nil && t.isWireAt(sl.X, sl.Low) {
					switch s.Sel.Name {
					case "Uint32":
						return "(u32 wire)", nil
					case "Uint64":
						return "(u64 wire)", nil
					}
				}
			}
		}
	}
	return "", fmt.Errorf("%s: unsupported expression shape", t.at(e))
}

func c04vMethod(f *ast.File, typ, name string) *ast.FuncDecl {
	for _, d := range f.Decls {
		fd, ok := d.(*ast.FuncDecl)
		if !ok || fd.Recv == nil || fd.Name.Name != name || len(fd.Recv.List) != 1 || len(fd.Recv.List[0].Names) != 1 {
			continue
		}
		rt := fd.Recv.List[0].Type
		if st, ok := rt.(*ast.StarExpr); ok {
			rt = st.X
		}
		if id, ok := rt.(*ast.Ident); ok && id.Name == typ {
			return fd
		}
	}
	return nil
}

func c04vIsPanic(s ast.Stmt) bool {
	es, ok := s.(*ast.ExprStmt)
	if !ok {
		return false
	}
	call, ok := es.X.(*ast.CallExpr)
	if !ok {
		return false
	}
	id, ok := call.Fun.(*ast.Ident)
	return ok && id.Name == "panic"
}

// the single `switch recv.<field>` of a method body; every other statement must be an assignment, a declaration, an
// `if err != nil { return err }`-style if, or a return
func (t *c04vTr) theSwitch(fd *ast.FuncDecl, field string) (*ast.SwitchStmt, error) {
	var sw *ast.SwitchStmt
	for _, s := range fd.Body.List {
		switch x := s.(type) {
		case *ast.SwitchStmt:
			if sw != nil || x.Init != nil || !t.isRecvField(x.Tag, field) {
				return nil, fmt.Errorf("%s: unsupported switch", t.at(x))
			}
			sw = x
		case *ast.AssignStmt, *ast.DeclStmt, *ast.ReturnStmt, *ast.IfStmt:
		default:
			return nil, fmt.Errorf("%s: unsupported statement", t.at(s))
		}
	}
	if sw == nil {
		return nil, fmt.Errorf("%s: no switch on %s.%s", t.at(fd), t.recv, field)
	}
	return sw, nil
}

// (case constants, row) per case in source order; `row` builds the Lean tuple tail from the single body statement
func (t *c04vTr) cases(sw *ast.SwitchStmt, row func(ast.Stmt) (string, error)) ([]string, error) {
	out := []string{}
	sawDefault := false
	for _, c := range sw.Body.List {
		cc := c.(*ast.CaseClause)
		if cc.List == nil {
			if len(cc.Body) != 1 || !c04vIsPanic(cc.Body[0]) {
				return nil, fmt.Errorf("%s: default case does not panic", t.at(cc))
			}
			sawDefault = true
			continue
		}
		names := []string{}
		for _, e := range cc.List {
			id, ok := e.(*ast.Ident)
			if !ok {
				return nil, fmt.Errorf("%s: unsupported case expression", t.at(e))
			}
			names = append(names, strconv.Quote(id.Name))
		}
		if len(cc.Body) != 1 {
			return nil, fmt.Errorf("%s: case body is not a single statement", t.at(cc))
		}
		r, err := row(cc.Body[0])
		if err != nil {
			return nil, err
		}
		out = append(out, fmt.Sprintf("([%s], %s)", strings.Join(names, ", "), r))
	}
	if !sawDefault {
		return nil, fmt.Errorf("%s: switch has no panicking default", t.at(sw))
	}
	return out, nil
}

type c04vSpec struct {
	n                  int
	wfile, rfile       string
	binW, asciiW, binR string
	comps              []string
	offFields          []string
}

// literal K of `recv.buf[K]` / `recv.buf[K:]`; `recv.buf` itself is offset 0
func (t *c04vTr) bufAt(e ast.Expr) (string, bool) {
	if t.isRecvField(e, "buf") {
		return "0", true
	}
	var x, k ast.Expr
	switch v := e.(type) {
	case *ast.IndexExpr:
		x, k = v.X, v.Index
	case *ast.SliceExpr:
		if v.High != nil || v.Max != nil {
			return "", false
		}
		x, k = v.X, v.Low
	default:
		return "", false
	}
	lit, ok := k.(*ast.BasicLit)
	if !ok || lit.Kind != token.INT || !t.isRecvField(x, "buf") {
		return "", false
	}
	return lit.Value, true
}

func (t *c04vTr) switchCases(sw *ast.SwitchStmt, row func(names []string, body []ast.Stmt, pre []ast.Stmt) (string, error)) ([]string, error) {
	out := []string{}
	sawDefault := false
	cls := sw.Body.List
	for i, c := range cls {
		cc := c.(*ast.CaseClause)
		if cc.List == nil {
			if len(cc.Body) != 1 || !c04vIsPanic(cc.Body[0]) {
				return nil, fmt.Errorf("%s: default case does not panic", t.at(cc))
			}
			sawDefault = true
			continue
		}
		names := []string{}
		for _, e := range cc.List {
			id, ok := e.(*ast.Ident)
			if !ok {
				return nil, fmt.Errorf("%s: unsupported case expression", t.at(e))
			}
			names = append(names, strconv.Quote(id.Name))
		}
		body, pre := cc.Body, []ast.Stmt(nil)
		if n := len(body); n > 0 {
			if br, ok := body[n-1].(*ast.BranchStmt); ok {
				// `fallthrough`: the statements before it, then the body of the following case (duplicated)
				if br.Tok != token.FALLTHROUGH || i+1 >= len(cls) {
					return nil, fmt.Errorf("%s: unsupported branch statement", t.at(br))
				}
				next := cls[i+1].(*ast.CaseClause)
				if next.List == nil || len(next.Body) == 0 {
					return nil, fmt.Errorf("%s: fallthrough into an unsupported case", t.at(br))
				}
				if _, ok := next.Body[len(next.Body)-1].(*ast.BranchStmt); ok {
					return nil, fmt.Errorf("%s: chained fallthrough", t.at(br))
				}
				pre, body = body[:n-1], next.Body
			}
		}
		r, err := row(names, body, pre)
		if err != nil {
			return nil, err
		}
		out = append(out, fmt.Sprintf("([%s], [%s])", strings.Join(names, ", "), r))
	}
	if !sawDefault {
		return nil, fmt.Errorf("%s: switch has no panicking default", t.at(sw))
	}
	return out, nil
}

func c04vVector(fset *token.FileSet, repo string, sp c04vSpec) (binWrite, asciiWrite, binRead []string, pos [3]string, err error) {
	wf, err := parser.ParseFile(fset, filepath.Join(repo, "formats", "ply", sp.wfile), nil, 0)
	if err != nil {
		return
	}
	rf, err := parser.ParseFile(fset, filepath.Join(repo, "formats", "ply", sp.rfile), nil, 0)
	if err != nil {
		return
	}
	q := strconv.Quote
	checkComps := func(t *c04vTr, n ast.Node, got []string) error {
		if strings.Join(got, "") != strings.Join(sp.comps, "") {
			return fmt.Errorf("%s: components %v, expected %v", t.at(n), got, sp.comps)
		}
		return nil
	}
	// ---- binary writer: case T: v := chain; store(X); store(Y); …
	bw := c04vMethod(wf, sp.binW, "Write")
	if bw == nil {
		err = fmt.Errorf("%s: %s.Write not found", sp.wfile, sp.binW)
		return
	}
	tb := &c04vTr{fset: fset, file: sp.wfile, recv: bw.Recv.List[0].Names[0].Name}
	pos[0] = tb.at(bw)
	sw, err := tb.theSwitch(bw, "format")
	if err != nil {
		return
	}
	binWrite, err = tb.switchCases(sw, func(names []string, body, pre []ast.Stmt) (string, error) {
		if len(pre) != 0 || len(body) != sp.n+1 {
			return "", fmt.Errorf("%s: case body is not `v := …` followed by %d stores", tb.at(body[0]), sp.n)
		}
		as, ok := body[0].(*ast.AssignStmt)
		if !ok || as.Tok != token.DEFINE || len(as.Lhs) != 1 || len(as.Rhs) != 1 {
			return "", fmt.Errorf("%s: first statement does not bind the vector", tb.at(body[0]))
		}
		tb.vecVar = as.Lhs[0].(*ast.Ident).Name
		var e error
		if tb.vecTerm, e = tb.chain(as.Rhs[0]); e != nil {
			return "", e
		}
		rows, comps := []string{}, []string{}
		for _, s := range body[1:] {
			kind, off, val := "", "", ast.Expr(nil)
			switch x := s.(type) {
			case *ast.AssignStmt:
				if x.Tok == token.ASSIGN && len(x.Lhs) == 1 && len(x.Rhs) == 1 {
					if _, isIdx := x.Lhs[0].(*ast.IndexExpr); isIdx {
						if k, ok := tb.bufAt(x.Lhs[0]); ok {
							kind, off, val = "store8", k, x.Rhs[0]
						}
					}
				}
			case *ast.ExprStmt:
				if call, ok := x.X.(*ast.CallExpr); ok && len(call.Args) == 2 {
					if sel, ok := call.Fun.(*ast.SelectorExpr); ok && tb.isRecvField(sel.X, "endian") {
						if k, ok := tb.bufAt(call.Args[0]); ok {
							kind, off, val = map[string]string{"PutUint32": "put32", "PutUint64": "put64"}[sel.Sel.Name], k, call.Args[1]
						}
					}
				}
			}
			if kind == "" {
				return "", fmt.Errorf("%s: unsupported store statement", tb.at(s))
			}
			tb.comp = ""
			term, e := tb.expr(val)
			if e != nil {
				return "", e
			}
			comps = append(comps, tb.comp)
			rows = append(rows, fmt.Sprintf("(%s, %s, %s, %s)", off, q(tb.comp), q(kind), q(term)))
		}
		if e := checkComps(tb, body[0], comps); e != nil {
			return "", e
		}
		return strings.Join(rows, ", "), nil
	})
	if err != nil {
		return
	}
	// ---- ASCII writer: v := recv.arr.At(i); case T: [v = chain; fallthrough] print(X) sep print(Y) …
	aw := c04vMethod(wf, sp.asciiW, "Write")
	if aw == nil {
		err = fmt.Errorf("%s: %s.Write not found", sp.wfile, sp.asciiW)
		return
	}
	ta := &c04vTr{fset: fset, file: sp.wfile, recv: aw.Recv.List[0].Names[0].Name}
	pos[1] = ta.at(aw)
	as0, ok := aw.Body.List[0].(*ast.AssignStmt)
	if !ok || as0.Tok != token.DEFINE || len(as0.Lhs) != 1 || len(as0.Rhs) != 1 {
		err = fmt.Errorf("%s: first statement does not bind the vector", ta.at(aw))
		return
	}
	ta.vecVar = as0.Lhs[0].(*ast.Ident).Name
	outer, err := ta.chain(as0.Rhs[0])
	if err != nil {
		return
	}
	sw, err = ta.theSwitch(aw, "format")
	if err != nil {
		return
	}
	asciiWrite, err = ta.switchCases(sw, func(names []string, body, pre []ast.Stmt) (string, error) {
		ta.vecTerm = outer
		if len(pre) > 1 {
			return "", fmt.Errorf("%s: unsupported statements before fallthrough", ta.at(pre[0]))
		}
		if len(pre) == 1 { // v = chain
			as, ok := pre[0].(*ast.AssignStmt)
			if !ok || as.Tok != token.ASSIGN || len(as.Lhs) != 1 || len(as.Rhs) != 1 {
				return "", fmt.Errorf("%s: unsupported statement before fallthrough", ta.at(pre[0]))
			}
			if id, ok := as.Lhs[0].(*ast.Ident); !ok || id.Name != ta.vecVar {
				return "", fmt.Errorf("%s: unsupported statement before fallthrough", ta.at(pre[0]))
			}
			var e error
			if ta.vecTerm, e = ta.chain(as.Rhs[0]); e != nil {
				return "", e
			}
		}
		if len(body) != 2*sp.n-1 {
			return "", fmt.Errorf("%s: case body is not %d prints separated by blanks", ta.at(body[0]), sp.n)
		}
		rows, comps := []string{}, []string{}
		for j, s := range body {
			x, ok := s.(*ast.AssignStmt)
			if !ok || x.Tok != token.ASSIGN || len(x.Lhs) != 1 || len(x.Rhs) != 1 || !ta.isRecvField(x.Lhs[0], "buf") {
				return "", fmt.Errorf("%s: unsupported print statement", ta.at(s))
			}
			call, ok := x.Rhs[0].(*ast.CallExpr)
			if !ok || len(call.Args) < 2 || !ta.isRecvField(call.Args[0], "buf") {
				return "", fmt.Errorf("%s: unsupported print statement", ta.at(s))
			}
			if j%2 == 1 { // recv.buf = append(recv.buf, ' ')
				id, ok := call.Fun.(*ast.Ident)
				lit, ok2 := call.Args[1].(*ast.BasicLit)
				if !ok || !ok2 || id.Name != "append" || len(call.Args) != 2 || lit.Value != "' '" {
					return "", fmt.Errorf("%s: separator is not append(buf, ' ')", ta.at(s))
				}
				continue
			}
			sel, ok := call.Fun.(*ast.SelectorExpr)
			if !ok || (sel.Sel.Name != "AppendInt" && sel.Sel.Name != "AppendFloat") {
				return "", fmt.Errorf("%s: unsupported strconv call", ta.at(s))
			}
			if id, ok := sel.X.(*ast.Ident); !ok || id.Name != "strconv" {
				return "", fmt.Errorf("%s: unsupported strconv call", ta.at(s))
			}
			rest := []string{}
			for _, a := range call.Args[2:] {
				switch l := a.(type) {
				case *ast.BasicLit:
					rest = append(rest, l.Value)
				case *ast.UnaryExpr:
					bl, ok := l.X.(*ast.BasicLit)
					if !ok || l.Op != token.SUB {
						return "", fmt.Errorf("%s: unsupported format argument", ta.at(a))
					}
					rest = append(rest, "-"+bl.Value)
				default:
					return "", fmt.Errorf("%s: unsupported format argument", ta.at(a))
				}
			}
			ta.comp = ""
			term, e := ta.expr(call.Args[1])
			if e != nil {
				return "", e
			}
			comps = append(comps, ta.comp)
			rows = append(rows, fmt.Sprintf("(%s, %s, %s)", q(ta.comp), q(sel.Sel.Name+" "+strings.Join(rest, " ")), q(term)))
		}
		if e := checkComps(ta, body[0], comps); e != nil {
			return "", e
		}
		return strings.Join(rows, ", "), nil
	})
	if err != nil {
		return
	}
	// ---- binary reader: case T: v = vectorN.New(a, b, …)[.DivByConstant(K) | .ToFloat64()]
	br := c04vMethod(rf, sp.binR, "Read")
	if br == nil {
		err = fmt.Errorf("%s: %s.Read not found", sp.rfile, sp.binR)
		return
	}
	tr := &c04vTr{fset: fset, file: sp.rfile, recv: br.Recv.List[0].Names[0].Name}
	pos[2] = tr.at(br)
	sw, err = tr.theSwitch(br, "scalarType")
	if err != nil {
		return
	}
	binRead, err = tr.switchCases(sw, func(names []string, body, pre []ast.Stmt) (string, error) {
		if len(pre) != 0 || len(body) != 1 {
			return "", fmt.Errorf("%s: case body is not a single assignment", tr.at(body[0]))
		}
		x, ok := body[0].(*ast.AssignStmt)
		if !ok || x.Tok != token.ASSIGN || len(x.Lhs) != 1 || len(x.Rhs) != 1 {
			return "", fmt.Errorf("%s: unsupported load statement", tr.at(body[0]))
		}
		if id, ok := x.Lhs[0].(*ast.Ident); !ok || id.Name != "v" {
			return "", fmt.Errorf("%s: unsupported load statement", tr.at(body[0]))
		}
		call, ok := x.Rhs[0].(*ast.CallExpr)
		if !ok {
			return "", fmt.Errorf("%s: unsupported load expression", tr.at(x))
		}
		wrap := "%s"
		if sel, ok := call.Fun.(*ast.SelectorExpr); ok {
			if inner, ok := sel.X.(*ast.CallExpr); ok { // New(…).M(args)
				switch {
				case sel.Sel.Name == "ToFloat64" && len(call.Args) == 0:
					wrap = "(ToFloat64 %s)"
				case sel.Sel.Name == "DivByConstant" && len(call.Args) == 1:
					lit, ok := call.Args[0].(*ast.BasicLit)
					if !ok {
						return "", fmt.Errorf("%s: unsupported divisor", tr.at(call))
					}
					wrap = "(DivByConstant " + strings.TrimSuffix(lit.Value, ".") + " %s)"
				default:
					return "", fmt.Errorf("%s: unsupported vector method %s", tr.at(call), sel.Sel.Name)
				}
				call = inner
			}
		}
		sel, ok := call.Fun.(*ast.SelectorExpr)
		if !ok || sel.Sel.Name != "New" || len(call.Args) != sp.n {
			return "", fmt.Errorf("%s: not a vector%d.New(…) of %d components", tr.at(call), sp.n, sp.n)
		}
		if id, ok := sel.X.(*ast.Ident); !ok || id.Name != fmt.Sprintf("vector%d", sp.n) {
			return "", fmt.Errorf("%s: not a vector%d.New(…)", tr.at(call), sp.n)
		}
		rows := []string{}
		for k, a := range call.Args {
			tr.offField = sp.offFields[k]
			term, e := tr.expr(a)
			if e != nil {
				return "", e
			}
			rows = append(rows, fmt.Sprintf("(%s, %s)", q(sp.comps[k]), q(fmt.Sprintf(wrap, term))))
		}
		return strings.Join(rows, ", "), nil
	})
	return
}

// ASCII N-vector reader: `kParsed, err := strconv.ParseFloat(buf[recv.kOffset], BITS)` per component (each followed by
// `if err != nil { return err }`), `v := vectorN.New(xParsed, …)`, `if recv.scalarType == T { v = v.DivByConstant(K) }`
func c04vAsciiVecRead(fset *token.FileSet, repo string, sp c04vSpec) (rows, post []string, pos string, err error) {
	rf, err := parser.ParseFile(fset, filepath.Join(repo, "formats", "ply", sp.rfile), nil, 0)
	if err != nil {
		return
	}
	typ := fmt.Sprintf("builtAsciiVector%dPropertyReader", sp.n)
	fd := c04vMethod(rf, typ, "Read")
	if fd == nil {
		err = fmt.Errorf("%s: %s.Read not found", sp.rfile, typ)
		return
	}
	t := &c04vTr{fset: fset, file: sp.rfile, recv: fd.Recv.List[0].Names[0].Name}
	pos = t.at(fd)
	q := strconv.Quote
	parsed := map[string][2]string{} // variable -> (offset field, bits)
	built := false
	for _, st := range fd.Body.List {
		switch x := st.(type) {
		case *ast.AssignStmt:
			if len(x.Rhs) != 1 {
				err = fmt.Errorf("%s: unsupported statement", t.at(x))
				return
			}
			call, isCall := x.Rhs[0].(*ast.CallExpr)
			switch {
			case x.Tok == token.DEFINE && len(x.Lhs) == 2 && isCall && len(call.Args) == 2: // kParsed, err := strconv.ParseFloat(buf[recv.F], BITS)
				sel, ok := call.Fun.(*ast.SelectorExpr)
				ix, ok2 := call.Args[0].(*ast.IndexExpr)
				lit, ok3 := call.Args[1].(*ast.BasicLit)
				if !ok || !ok2 || !ok3 || sel.Sel.Name != "ParseFloat" {
					err = fmt.Errorf("%s: not strconv.ParseFloat(buf[off], bits)", t.at(x))
					return
				}
				bufId, ok := ix.X.(*ast.Ident)
				off, ok2 := ix.Index.(*ast.SelectorExpr)
				if !ok || !ok2 || bufId.Name != "buf" || !t.isRecvField(off, off.Sel.Name) {
					err = fmt.Errorf("%s: not strconv.ParseFloat(buf[recv.off], bits)", t.at(x))
					return
				}
				parsed[x.Lhs[0].(*ast.Ident).Name] = [2]string{off.Sel.Name, lit.Value}
			case x.Tok == token.DEFINE && len(x.Lhs) == 1 && isCall: // v := vectorN.New(xParsed, …)
				sel, ok := call.Fun.(*ast.SelectorExpr)
				if !ok || sel.Sel.Name != "New" || len(call.Args) != sp.n || built {
					err = fmt.Errorf("%s: not v := vector%d.New(…)", t.at(x), sp.n)
					return
				}
				if id, ok := sel.X.(*ast.Ident); !ok || id.Name != fmt.Sprintf("vector%d", sp.n) {
					err = fmt.Errorf("%s: not v := vector%d.New(…)", t.at(x), sp.n)
					return
				}
				for k, a := range call.Args {
					id, ok := a.(*ast.Ident)
					p, ok2 := parsed[func() string {
						if ok {
							return id.Name
						}
						return ""
					}()]
					if !ok || !ok2 || p[0] != sp.offFields[k] {
						err = fmt.Errorf("%s: component %s is not the value parsed at %s", t.at(a), sp.comps[k], sp.offFields[k])
						return
					}
					rows = append(rows, fmt.Sprintf("(%s, %s, %s)", q(sp.comps[k]), q(p[0]), p[1]))
				}
				built = true
			case x.Tok == token.ASSIGN && len(x.Lhs) == 1: // recv.arr[i] = v
				ix, ok := x.Lhs[0].(*ast.IndexExpr)
				if !ok || !t.isRecvField(ix.X, "arr") {
					err = fmt.Errorf("%s: unsupported statement", t.at(x))
					return
				}
			default:
				err = fmt.Errorf("%s: unsupported statement", t.at(x))
				return
			}
		case *ast.IfStmt:
			be, ok := x.Cond.(*ast.BinaryExpr)
			if !ok || x.Else != nil || x.Init != nil || len(x.Body.List) != 1 {
				err = fmt.Errorf("%s: unsupported if", t.at(x))
				return
			}
			if be.Op == token.NEQ {
				id, ok := be.X.(*ast.Ident)
				_, ok2 := x.Body.List[0].(*ast.ReturnStmt)
				if !ok || !ok2 || id.Name != "err" {
					err = fmt.Errorf("%s: unsupported if", t.at(x))
					return
				}
				continue
			}
			ty, ok2 := be.Y.(*ast.Ident)
			as, ok3 := x.Body.List[0].(*ast.AssignStmt)
			if be.Op != token.EQL || !t.isRecvField(be.X, "scalarType") || !ok2 || !ok3 || as.Tok != token.ASSIGN || len(as.Rhs) != 1 {
				err = fmt.Errorf("%s: unsupported if", t.at(x))
				return
			}
			call, ok := as.Rhs[0].(*ast.CallExpr) // v = v.DivByConstant(K)
			if !ok || len(call.Args) != 1 {
				err = fmt.Errorf("%s: unsupported conditional statement", t.at(x))
				return
			}
			sel, ok := call.Fun.(*ast.SelectorExpr)
			lit, ok2 := call.Args[0].(*ast.BasicLit)
			if !ok || !ok2 || sel.Sel.Name != "DivByConstant" {
				err = fmt.Errorf("%s: unsupported conditional statement", t.at(x))
				return
			}
			if id, ok := sel.X.(*ast.Ident); !ok || id.Name != "v" {
				err = fmt.Errorf("%s: unsupported conditional statement", t.at(x))
				return
			}
			post = append(post, fmt.Sprintf("(%s, %s)", q(ty.Name), q("(DivByConstant "+strings.TrimSuffix(lit.Value, ".")+" v)")))
		case *ast.ReturnStmt:
		default:
			err = fmt.Errorf("%s: unsupported statement", t.at(st))
			return
		}
	}
	if !built {
		err = fmt.Errorf("%s: vector%d.New(…) not found", pos, sp.n)
	}
	return
}

func c04Values(repo, out string, args []string) error {
	fset := token.NewFileSet()
	wf, err := parser.ParseFile(fset, filepath.Join(repo, "formats", "ply", "writer_vector1.go"), nil, 0)
	if err != nil {
		return err
	}
	rf, err := parser.ParseFile(fset, filepath.Join(repo, "formats", "ply", "reader_vector1.go"), nil, 0)
	if err != nil {
		return err
	}
	valueVar := func(t *c04vTr, fd *ast.FuncDecl) error {
		as, ok := fd.Body.List[0].(*ast.AssignStmt)
		if !ok || as.Tok != token.DEFINE || len(as.Lhs) != 1 || len(as.Rhs) != 1 {
			return fmt.Errorf("%s: first statement is not `v := recv.arr.At(i)`", t.at(fd))
		}
		call, ok := as.Rhs[0].(*ast.CallExpr)
		if !ok || len(call.Args) != 1 {
			return fmt.Errorf("%s: first statement is not `v := recv.arr.At(i)`", t.at(as))
		}
		s, ok := call.Fun.(*ast.SelectorExpr)
		if !ok || s.Sel.Name != "At" || !t.isRecvField(s.X, "arr") {
			return fmt.Errorf("%s: first statement is not `v := recv.arr.At(i)`", t.at(as))
		}
		t.val = as.Lhs[0].(*ast.Ident).Name
		return nil
	}

	// ---- binary writer
	bw := c04vMethod(wf, "builtVector1PropertyWriter", "Write")
	if bw == nil {
		return fmt.Errorf("writer_vector1.go: builtVector1PropertyWriter.Write not found")
	}
	tb := &c04vTr{fset: fset, file: "writer_vector1.go", recv: bw.Recv.List[0].Names[0].Name}
	if err := valueVar(tb, bw); err != nil {
		return err
	}
	sw, err := tb.theSwitch(bw, "format")
	if err != nil {
		return err
	}
	binWrite, err := tb.cases(sw, func(s ast.Stmt) (string, error) {
		switch x := s.(type) {
		case *ast.AssignStmt: // recv.buf[0] = E
			if x.Tok == token.ASSIGN && len(x.Lhs) == 1 && len(x.Rhs) == 1 {
				if ix, ok := x.Lhs[0].(*ast.IndexExpr); ok && tb.isRecvField(ix.X, "buf") {
					if lit, ok := ix.Index.(*ast.BasicLit); ok && lit.Value == "0" {
						e, err := tb.expr(x.Rhs[0])
						if err != nil {
							return "", err
						}
						return fmt.Sprintf("%s, %s", strconv.Quote("store8"), strconv.Quote(e)), nil
					}
				}
			}
		case *ast.ExprStmt: // recv.endian.PutUint32(recv.buf, E)
			if call, ok := x.X.(*ast.CallExpr); ok && len(call.Args) == 2 && tb.isRecvField(call.Args[0], "buf") {
				if s, ok := call.Fun.(*ast.SelectorExpr); ok && tb.isRecvField(s.X, "endian") {
					kind := map[string]string{"PutUint32": "put32", "PutUint64": "put64"}[s.Sel.Name]
					if kind != "" {
						e, err := tb.expr(call.Args[1])
						if err != nil {
							return "", err
						}
						return fmt.Sprintf("%s, %s", strconv.Quote(kind), strconv.Quote(e)), nil
					}
				}
			}
		}
		return "", fmt.Errorf("%s: unsupported store statement", tb.at(s))
	})
	if err != nil {
		return err
	}

	// ---- ASCII writer
	aw := c04vMethod(wf, "asciiVector1PropertyWriter", "Write")
	if aw == nil {
		return fmt.Errorf("writer_vector1.go: asciiVector1PropertyWriter.Write not found")
	}
	ta := &c04vTr{fset: fset, file: "writer_vector1.go", recv: aw.Recv.List[0].Names[0].Name}
	if err := valueVar(ta, aw); err != nil {
		return err
	}
	sw, err = ta.theSwitch(aw, "format")
	if err != nil {
		return err
	}
	asciiWrite, err := ta.cases(sw, func(s ast.Stmt) (string, error) {
		x, ok := s.(*ast.AssignStmt) // recv.buf = strconv.AppendInt(recv.buf, E, 10) | strconv.AppendFloat(recv.buf, E, 'f', -1, 64)
		if ok && x.Tok == token.ASSIGN && len(x.Lhs) == 1 && len(x.Rhs) == 1 && ta.isRecvField(x.Lhs[0], "buf") {
			if call, ok := x.Rhs[0].(*ast.CallExpr); ok && len(call.Args) >= 2 && ta.isRecvField(call.Args[0], "buf") {
				if sel, ok := call.Fun.(*ast.SelectorExpr); ok {
					if id, ok := sel.X.(*ast.Ident); ok && id.Name == "strconv" {
						rest := []string{}
						for _, a := range call.Args[2:] {
							switch l := a.(type) {
							case *ast.BasicLit:
								rest = append(rest, l.Value)
							case *ast.UnaryExpr:
								if bl, ok := l.X.(*ast.BasicLit); ok && l.Op == token.SUB {
									rest = append(rest, "-"+bl.Value)
									continue
								}
								return "", fmt.Errorf("%s: unsupported format argument", ta.at(a))
							default:
								return "", fmt.Errorf("%s: unsupported format argument", ta.at(a))
							}
						}
						if sel.Sel.Name != "AppendInt" && sel.Sel.Name != "AppendFloat" {
							return "", fmt.Errorf("%s: unsupported strconv call", ta.at(call))
						}
						e, err := ta.expr(call.Args[1])
						if err != nil {
							return "", err
						}
						return fmt.Sprintf("%s, %s", strconv.Quote(sel.Sel.Name+" "+strings.Join(rest, " ")), strconv.Quote(e)), nil
					}
				}
			}
		}
		return "", fmt.Errorf("%s: unsupported print statement", ta.at(s))
	})
	if err != nil {
		return err
	}

	// ---- binary reader
	br := c04vMethod(rf, "builtVector1PropertyReader", "Read")
	if br == nil {
		return fmt.Errorf("reader_vector1.go: builtVector1PropertyReader.Read not found")
	}
	tr := &c04vTr{fset: fset, file: "reader_vector1.go", recv: br.Recv.List[0].Names[0].Name}
	sw, err = tr.theSwitch(br, "scalarType")
	if err != nil {
		return err
	}
	binRead, err := tr.cases(sw, func(s ast.Stmt) (string, error) {
		x, ok := s.(*ast.AssignStmt) // v = E
		if ok && x.Tok == token.ASSIGN && len(x.Lhs) == 1 && len(x.Rhs) == 1 {
			if id, ok := x.Lhs[0].(*ast.Ident); ok && id.Name == "v" {
				e, err := tr.expr(x.Rhs[0])
				if err != nil {
					return "", err
				}
				return strconv.Quote(e), nil
			}
		}
		return "", fmt.Errorf("%s: unsupported load statement", tr.at(s))
	})
	if err != nil {
		return err
	}

	// ---- ASCII reader: v, err := strconv.ParseFloat(buf[recv.offset], BITS); …; if recv.scalarType == T { v /= K }
	ar := c04vMethod(rf, "builtAsciiVector1PropertyReader", "Read")
	if ar == nil {
		return fmt.Errorf("reader_vector1.go: builtAsciiVector1PropertyReader.Read not found")
	}
	tq := &c04vTr{fset: fset, file: "reader_vector1.go", recv: ar.Recv.List[0].Names[0].Name}
	bits := ""
	post := []string{}
	for i, s := range ar.Body.List {
		switch x := s.(type) {
		case *ast.AssignStmt:
			if i == 0 {
				call, ok := x.Rhs[0].(*ast.CallExpr)
				if !ok || len(call.Args) != 2 {
					return fmt.Errorf("%s: first statement is not strconv.ParseFloat(buf[off], bits)", tq.at(x))
				}
				sel, ok := call.Fun.(*ast.SelectorExpr)
				ix, ok2 := call.Args[0].(*ast.IndexExpr)
				lit, ok3 := call.Args[1].(*ast.BasicLit)
				if !ok || !ok2 || !ok3 || sel.Sel.Name != "ParseFloat" || !tq.isWireAt(ix.X, ix.Index) {
					return fmt.Errorf("%s: first statement is not strconv.ParseFloat(buf[off], bits)", tq.at(x))
				}
				bits = lit.Value
			} else if !(len(x.Lhs) == 1 && len(x.Rhs) == 1) {
				return fmt.Errorf("%s: unsupported statement", tq.at(x))
			} else if ix, ok := x.Lhs[0].(*ast.IndexExpr); !ok || !tq.isRecvField(ix.X, "arr") {
				return fmt.Errorf("%s: unsupported statement", tq.at(x))
			}
		case *ast.IfStmt:
			be, ok := x.Cond.(*ast.BinaryExpr)
			if !ok || x.Else != nil || x.Init != nil {
				return fmt.Errorf("%s: unsupported if", tq.at(x))
			}
			if be.Op == token.NEQ { // if err != nil { return err }
				if id, ok := be.X.(*ast.Ident); ok && id.Name == "err" && len(x.Body.List) == 1 {
					if _, ok := x.Body.List[0].(*ast.ReturnStmt); ok {
						continue
					}
				}
				return fmt.Errorf("%s: unsupported if", tq.at(x))
			}
			ty, ok2 := be.Y.(*ast.Ident)
			if be.Op != token.EQL || !tq.isRecvField(be.X, "scalarType") || !ok2 || len(x.Body.List) != 1 {
				return fmt.Errorf("%s: unsupported if", tq.at(x))
			}
			as, ok := x.Body.List[0].(*ast.AssignStmt)
			if !ok || as.Tok != token.QUO_ASSIGN || len(as.Lhs) != 1 || len(as.Rhs) != 1 {
				return fmt.Errorf("%s: unsupported conditional statement", tq.at(x))
			}
			if id, ok := as.Lhs[0].(*ast.Ident); !ok || id.Name != "v" {
				return fmt.Errorf("%s: unsupported conditional statement", tq.at(x))
			}
			k, err := tq.expr(as.Rhs[0])
			if err != nil {
				return err
			}
			post = append(post, fmt.Sprintf("(%s, %s)", strconv.Quote(ty.Name), strconv.Quote("(/ v "+k+")")))
		case *ast.ReturnStmt:
		default:
			return fmt.Errorf("%s: unsupported statement", tq.at(s))
		}
	}
	if bits == "" {
		return fmt.Errorf("reader_vector1.go: ParseFloat call not found")
	}

	var b strings.Builder
	b.WriteString("/-\n  GENERATED by /verif/go/facts (mode c04.values) from /repo/formats/ply/writer_vector{1,2,3,4}.go and reader_vector{1,2,3,4}.go.\n  Do not edit: regenerated by ./check before every build.\n-/\nnamespace PolyVerif.Gen.PlyValues\n\n")
	fmt.Fprintf(&b, "/-- %s  builtVector1PropertyWriter.Write: `case T…:` (constants, store, expression in the float64 component `v`), source order; the default case panics -/\ndef v1BinWrite : List (List String × String × String) :=\n  [%s]\n\n", tb.at(bw), strings.Join(binWrite, ",\n   "))
	fmt.Fprintf(&b, "/-- %s  asciiVector1PropertyWriter.Write: (constants, strconv call with its format arguments, expression printed); the default case panics -/\ndef v1AsciiWrite : List (List String × String × String) :=\n  [%s]\n\n", ta.at(aw), strings.Join(asciiWrite, ",\n   "))
	fmt.Fprintf(&b, "/-- %s  builtVector1PropertyReader.Read: (constants, expression in the bytes `wire` at the reader's offset); the default case panics -/\ndef v1BinRead : List (List String × String) :=\n  [%s]\n\n", tr.at(br), strings.Join(binRead, ",\n   "))
	fmt.Fprintf(&b, "/-- %s  builtAsciiVector1PropertyReader.Read: bit size of `strconv.ParseFloat(buf[offset], ·)` -/\ndef v1AsciiReadBits : Nat := %s\n\n", tq.at(ar), bits)
	fmt.Fprintf(&b, "/-- … and the conditional post-processing `if scalarType == T { v /= K }` (constant, expression) -/\ndef v1AsciiReadPost : List (String × String) :=\n  [%s]\n\n", strings.Join(post, ", "))
	for _, sp := range []c04vSpec{
		{2, "writer_vector2.go", "reader_vector2.go", "builtVector2PropertyWriter", "asciiVector2PropertyWriter", "builtVector2PropertyReader",
			[]string{"X", "Y"}, []string{"xOffset", "yOffset"}},
		{3, "writer_vector3.go", "reader_vector3.go", "builtVector3PropertyWriter", "asciiVector3PropertyWriter", "builtBinaryVector3PropertyReader",
			[]string{"X", "Y", "Z"}, []string{"xOffset", "yOffset", "zOffset"}},
		{4, "writer_vector4.go", "reader_vector4.go", "binaryVector4PropertyWriter", "asciiVector4PropertyWriter", "builtVector4PropertyReader",
			[]string{"X", "Y", "Z", "W"}, []string{"xOffset", "yOffset", "zOffset", "wOffset"}},
	} {
		bwr, awr, brd, pos, err := c04vVector(fset, repo, sp)
		if err != nil {
			return err
		}
		fmt.Fprintf(&b, "/-- %s  %s.Write: per `case` the stores (byte offset in the record buffer, component, store, expression in the component `v` — vector-library methods read componentwise) -/\ndef v%dBinWrite : List (List String × List (Nat × String × String × String)) :=\n  [%s]\n\n", pos[0], sp.binW, sp.n, strings.Join(bwr, ",\n   "))
		fmt.Fprintf(&b, "/-- %s  %s.Write: per `case` the prints (component, strconv call, expression), separated by `append(buf, ' ')`; a `fallthrough` case carries the following case's body -/\ndef v%dAsciiWrite : List (List String × List (String × String × String)) :=\n  [%s]\n\n", pos[1], sp.asciiW, sp.n, strings.Join(awr, ",\n   "))
		fmt.Fprintf(&b, "/-- %s  %s.Read: per `case` (component, expression in the bytes `wire` at that component's offset field) -/\ndef v%dBinRead : List (List String × List (String × String)) :=\n  [%s]\n\n", pos[2], sp.binR, sp.n, strings.Join(brd, ",\n   "))
		arows, apost, apos, err := c04vAsciiVecRead(fset, repo, sp)
		if err != nil {
			return err
		}
		fmt.Fprintf(&b, "/-- %s  builtAsciiVector%dPropertyReader.Read: per component (component, offset field of the token, bit size of `strconv.ParseFloat`), in the order of `vector%d.New(…)` -/\ndef v%dAsciiRead : List (String × String × Nat) :=\n  [%s]\n\n", apos, sp.n, sp.n, sp.n, strings.Join(arows, ", "))
		fmt.Fprintf(&b, "/-- … and the conditional post-processing `if scalarType == T { v = v.DivByConstant(K) }` -/\ndef v%dAsciiReadPost : List (String × String) :=\n  [%s]\n\n", sp.n, strings.Join(apost, ", "))
	}
	b.WriteString("end PolyVerif.Gen.PlyValues\n")
	return os.WriteFile(out, []byte(b.String()), 0o644)
}
