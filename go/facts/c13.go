// Engine F, property C13: lock discipline of the three concurrent entry points of
// generator/graph/instance.go  (UpdateParameter, ParameterData, Artifact of *Instance).
//
//	facts c13.locks -repo /repo -out LockFacts.lean
//
// The extractor walks the body of each of the three methods in source order (= evaluation order
// inside one statement: operands before the call that uses them, the receiver expression of a
// method call before its arguments) and prints one event per
//
//	i.producerLock.Lock()            .lock
//	i.producerLock.Unlock()          .unlock          (expression statement)
//	defer i.producerLock.Unlock()    .deferUnlock
//	i.producers[k]   (read)          .producersLookup
//	panic(..), fmt.Errorf(..)        .pure "<callee>"  (after the events of their arguments)
//	return ..                        .ret              (after the events of the results)
//	anything else that could touch shared state        .access "<source text>"
//
// "anything else" is: every other use of the receiver (field read, field write, method call, the
// bare receiver), every method call on any value, every call of a function that is not a builtin or
// a conversion to a predeclared type, every selector on a non-package value, every package-level
// variable of another package.  No type information is used: what cannot be recognised
// syntactically as harmless is an access.
//
// Control flow must not hide events: the list is ONE sequence, so nothing that matters for the lock
// discipline may be conditional or repeated.  Constructs whose events cannot be put into one
// source-order list, or that could hide a use of shared state, are an error (non-zero exit = broken
// obligation, the message names the construct and its line):
//   - go statements, closures, loops, switch/select, labels/goto/break/continue, channel operations;
//   - an `if` of any shape other than  `if [init;] cond { panic(<pure calls only>) }`  without else
//     (init and cond are always executed and are walked like statements; the body may emit nothing
//     but .pure events) — so no lock, unlock, lookup, access or return is ever conditional;
//   - a `return` that is not the last statement of the function body;
//   - more than one Lock() call;
//   - a defer of anything but the producerLock Unlock;
//   - any method of producerLock other than Lock/Unlock, producerLock used as a value, a
//     Lock/Unlock/RLock/RUnlock/TryLock/TryRLock call on anything else (another mutex);
//   - a missing method, a value receiver, a shadowed receiver, a producerLock field that is not a
//     sync.Mutex.
package main

import (
	"bytes"
	"fmt"
	"go/ast"
	"go/parser"
	"go/printer"
	"go/token"
	"os"
	"path/filepath"
	"strconv"
	"strings"
)

func init() { modes["c13.locks"] = c13Locks }

const c13File = "generator/graph/instance.go"
const c13Recv = "Instance"
const c13Lock = "producerLock"
const c13Map = "producers"

var c13Methods = []string{"UpdateParameter", "ParameterData", "Artifact"}

// builtins and conversions to predeclared types: calling them touches nothing but their arguments
var c13Harmless = map[string]bool{
	"len": true, "cap": true, "append": true, "copy": true, "make": true, "new": true, "min": true, "max": true,
	"string": true, "bool": true, "byte": true, "rune": true, "error": true,
	"int": true, "int8": true, "int16": true, "int32": true, "int64": true,
	"uint": true, "uint8": true, "uint16": true, "uint32": true, "uint64": true, "uintptr": true,
	"float32": true, "float64": true, "complex64": true, "complex128": true,
}

var c13LockMethods = map[string]bool{"Lock": true, "Unlock": true, "RLock": true, "RUnlock": true, "TryLock": true, "TryRLock": true}

type c13Walker struct {
	fset *token.FileSet
	recv string          // receiver identifier of the method being walked
	pkgs map[string]bool // names under which packages are imported in the file
	evs  []string
	last ast.Stmt // the last statement of the function body: the only place a return may stand
	lock ast.Node // the Lock() call already seen (a second one is an error)
}

func (w *c13Walker) errf(n ast.Node, format string, a ...any) error {
	p := w.fset.Position(n.Pos())
	return fmt.Errorf("%s:%d: %s", c13File, p.Line, fmt.Sprintf(format, a...))
}

// src prints a node as one line of source text without quotes / backslashes (safe inside a Lean string).
func (w *c13Walker) src(n ast.Node) string {
	var b bytes.Buffer
	printer.Fprint(&b, w.fset, n)
	s := strings.Join(strings.Fields(b.String()), " ")
	s = strings.NewReplacer("\"", "", "\\", "", "`", "").Replace(s)
	if len(s) > 120 {
		s = s[:117] + "..."
	}
	return s
}

func (w *c13Walker) emit(ev string)    { w.evs = append(w.evs, ev) }
func (w *c13Walker) access(n ast.Node) { w.emit(".access " + strconv.Quote(w.src(n))) }
func (w *c13Walker) accessS(s string)  { w.emit(".access " + strconv.Quote(s)) }
func (w *c13Walker) isRecv(e ast.Expr) bool {
	id, ok := e.(*ast.Ident)
	return ok && id.Name == w.recv
}

// recvField reports e == <recv>.<name>
func (w *c13Walker) recvField(e ast.Expr) (string, bool) {
	s, ok := e.(*ast.SelectorExpr)
	if !ok || !w.isRecv(s.X) {
		return "", false
	}
	return s.Sel.Name, true
}

func (w *c13Walker) exprs(es []ast.Expr) error {
	for _, e := range es {
		if err := w.expr(e); err != nil {
			return err
		}
	}
	return nil
}

// lockCall recognises <recv>.producerLock.<m>() and returns m.
func (w *c13Walker) lockCall(c *ast.CallExpr) (string, bool) {
	s, ok := c.Fun.(*ast.SelectorExpr)
	if !ok {
		return "", false
	}
	if f, ok := w.recvField(s.X); ok && f == c13Lock {
		return s.Sel.Name, true
	}
	return "", false
}

func (w *c13Walker) call(c *ast.CallExpr) error {
	if m, ok := w.lockCall(c); ok {
		if len(c.Args) != 0 {
			return w.errf(c, "lock operation with arguments: %s", w.src(c))
		}
		switch m {
		case "Lock":
			if w.lock != nil {
				return w.errf(c, "second %s.%s.Lock() (the first is at line %d)", w.recv, c13Lock, w.fset.Position(w.lock.Pos()).Line)
			}
			w.lock = c
			w.emit(".lock")
		case "Unlock":
			w.emit(".unlock")
		default:
			return w.errf(c, "unrecognised operation on %s: %s", c13Lock, w.src(c))
		}
		return nil
	}
	switch f := c.Fun.(type) {
	case *ast.Ident:
		if err := w.exprs(c.Args); err != nil {
			return err
		}
		switch {
		case f.Name == w.recv:
			return w.errf(c, "receiver called as a function: %s", w.src(c))
		case f.Name == "panic":
			w.emit(".pure \"panic\"")
		case f.Name == "recover" || f.Name == "delete" || f.Name == "close" || f.Name == "clear" || f.Name == "print" || f.Name == "println":
			// builtins with an effect on their argument / on control flow: keep them visible
			w.access(c)
		case c13Harmless[f.Name]:
			// value-only builtin / conversion: its arguments have been walked
		default:
			w.access(c) // package-level function of package graph (or a local function value)
		}
		return nil
	case *ast.SelectorExpr:
		if c13LockMethods[f.Sel.Name] {
			return w.errf(c, "lock operation on something other than %s.%s: %s", w.recv, c13Lock, w.src(c))
		}
		if x, ok := f.X.(*ast.Ident); ok && w.pkgs[x.Name] && x.Name != w.recv {
			// function of an imported package
			if err := w.exprs(c.Args); err != nil {
				return err
			}
			if x.Name == "fmt" && f.Sel.Name == "Errorf" {
				w.emit(".pure \"fmt.Errorf\"")
			} else {
				w.access(c)
			}
			return nil
		}
		// method call: operand first (a method call directly on the receiver does not count the
		// bare receiver as a separate event), then the arguments, then the call itself
		if !w.isRecv(f.X) {
			if fld, ok := w.recvField(f.X); ok && fld == c13Lock {
				return w.errf(c, "unrecognised operation on %s: %s", c13Lock, w.src(c))
			}
			if err := w.operand(f.X); err != nil {
				return err
			}
		}
		if err := w.exprs(c.Args); err != nil {
			return err
		}
		w.access(c)
		return nil
	case *ast.ParenExpr, *ast.ArrayType, *ast.MapType, *ast.StarExpr, *ast.InterfaceType, *ast.ChanType, *ast.FuncType, *ast.StructType:
		// conversion to a composite type ([]byte(x)) or a parenthesised callee
		if p, ok := f.(*ast.ParenExpr); ok {
			if err := w.expr(p.X); err != nil {
				return err
			}
			if err := w.exprs(c.Args); err != nil {
				return err
			}
			w.access(c)
			return nil
		}
		return w.exprs(c.Args)
	case *ast.IndexExpr, *ast.IndexListExpr:
		// generic instantiation f[T](..) or a call of an indexed function value
		if err := w.exprs(c.Args); err != nil {
			return err
		}
		w.access(c)
		return nil
	case *ast.FuncLit:
		return w.errf(c, "closure")
	}
	return w.errf(c, "unrecognised call %s", w.src(c))
}

// operand walks the operand of a method call / selector: a plain local identifier is no event
// (the call made on it is), everything else is walked as an expression.
func (w *c13Walker) operand(e ast.Expr) error {
	if id, ok := e.(*ast.Ident); ok && id.Name != w.recv {
		return nil
	}
	return w.expr(e)
}

func (w *c13Walker) expr(e ast.Expr) error {
	switch x := e.(type) {
	case nil:
		return nil
	case *ast.BasicLit:
		return nil
	case *ast.Ident:
		if x.Name == w.recv {
			w.accessS(w.recv + " (receiver used as a value)")
		}
		return nil
	case *ast.ParenExpr:
		return w.expr(x.X)
	case *ast.CallExpr:
		return w.call(x)
	case *ast.SelectorExpr:
		if f, ok := w.recvField(x); ok {
			if f == c13Lock {
				return w.errf(x, "%s.%s used as a value", w.recv, c13Lock)
			}
			w.access(x) // field of the receiver (including i.producers not directly indexed)
			return nil
		}
		if id, ok := x.X.(*ast.Ident); ok && w.pkgs[id.Name] {
			w.access(x) // package-level variable / constant / function value of another package
			return nil
		}
		if err := w.operand(x.X); err != nil {
			return err
		}
		w.access(x) // field or method value of some other value
		return nil
	case *ast.IndexExpr:
		if f, ok := w.recvField(x.X); ok && f == c13Map {
			if err := w.expr(x.Index); err != nil {
				return err
			}
			w.emit(".producersLookup")
			return nil
		}
		if err := w.expr(x.X); err != nil {
			return err
		}
		return w.expr(x.Index)
	case *ast.SliceExpr:
		if err := w.expr(x.X); err != nil {
			return err
		}
		return w.exprs([]ast.Expr{x.Low, x.High, x.Max})
	case *ast.StarExpr:
		if err := w.expr(x.X); err != nil {
			return err
		}
		w.access(x) // load through a pointer
		return nil
	case *ast.UnaryExpr:
		if x.Op == token.ARROW {
			return w.errf(x, "channel receive")
		}
		return w.expr(x.X)
	case *ast.BinaryExpr:
		if err := w.expr(x.X); err != nil {
			return err
		}
		return w.expr(x.Y)
	case *ast.TypeAssertExpr:
		return w.expr(x.X)
	case *ast.KeyValueExpr:
		if err := w.expr(x.Key); err != nil {
			return err
		}
		return w.expr(x.Value)
	case *ast.CompositeLit:
		return w.exprs(x.Elts)
	case *ast.FuncLit:
		return w.errf(x, "closure")
	}
	return w.errf(e, "unrecognised expression %T: %s", e, w.src(e))
}

// lhs walks an assignment target: a local identifier is no event; any other target is a write.
func (w *c13Walker) lhs(e ast.Expr) error {
	switch x := e.(type) {
	case *ast.Ident:
		if x.Name == w.recv {
			return w.errf(x, "assignment to the receiver")
		}
		return nil
	case *ast.ParenExpr:
		return w.lhs(x.X)
	case *ast.SelectorExpr:
		if f, ok := w.recvField(x); ok {
			if f == c13Lock {
				return w.errf(x, "assignment to %s.%s", w.recv, c13Lock)
			}
			w.accessS("write " + w.src(x))
			return nil
		}
		if err := w.operand(x.X); err != nil {
			return err
		}
		w.accessS("write " + w.src(x))
		return nil
	case *ast.IndexExpr:
		// a write into i.producers is NOT the whitelisted lookup
		if f, ok := w.recvField(x.X); ok {
			if err := w.expr(x.Index); err != nil {
				return err
			}
			w.accessS("write " + w.recv + "." + f + "[" + w.src(x.Index) + "]")
			return nil
		}
		if err := w.operand(x.X); err != nil {
			return err
		}
		if err := w.expr(x.Index); err != nil {
			return err
		}
		w.accessS("write " + w.src(x))
		return nil
	case *ast.StarExpr:
		if err := w.expr(x.X); err != nil {
			return err
		}
		w.accessS("write " + w.src(x))
		return nil
	}
	return w.errf(e, "unrecognised assignment target %T: %s", e, w.src(e))
}

func (w *c13Walker) stmts(ss []ast.Stmt) error {
	for _, s := range ss {
		if err := w.stmt(s); err != nil {
			return err
		}
	}
	return nil
}

func (w *c13Walker) stmt(s ast.Stmt) error {
	switch x := s.(type) {
	case nil:
		return nil
	case *ast.EmptyStmt:
		return nil
	case *ast.ExprStmt:
		return w.expr(x.X)
	case *ast.AssignStmt:
		// Go evaluates index / pointer operands of the targets and the right-hand sides in the usual
		// order and assigns afterwards; for the discipline checked here (everything between lock and
		// unlock) right-hand sides first, then the writes, is the order that matters
		if err := w.exprs(x.Rhs); err != nil {
			return err
		}
		if x.Tok != token.ASSIGN && x.Tok != token.DEFINE {
			// op= : the target is also read
			for _, l := range x.Lhs {
				if err := w.expr(l); err != nil {
					return err
				}
			}
		}
		for _, l := range x.Lhs {
			if err := w.lhs(l); err != nil {
				return err
			}
		}
		return nil
	case *ast.IncDecStmt:
		if err := w.expr(x.X); err != nil {
			return err
		}
		return w.lhs(x.X)
	case *ast.DeclStmt:
		gd, ok := x.Decl.(*ast.GenDecl)
		if !ok || gd.Tok != token.VAR {
			return w.errf(x, "unrecognised declaration")
		}
		for _, sp := range gd.Specs {
			vs, ok := sp.(*ast.ValueSpec)
			if !ok {
				return w.errf(x, "unrecognised declaration")
			}
			for _, n := range vs.Names {
				if n.Name == w.recv {
					return w.errf(x, "receiver shadowed")
				}
			}
			if err := w.exprs(vs.Values); err != nil {
				return err
			}
		}
		return nil
	case *ast.DeferStmt:
		if m, ok := w.lockCall(x.Call); ok && m == "Unlock" && len(x.Call.Args) == 0 {
			w.emit(".deferUnlock")
			return nil
		}
		return w.errf(x, "defer of something other than %s.%s.Unlock(): %s", w.recv, c13Lock, w.src(x.Call))
	case *ast.ReturnStmt:
		if s != w.last {
			return w.errf(x, "return that is not the last statement of the function body: %s", w.src(x))
		}
		if err := w.exprs(x.Results); err != nil {
			return err
		}
		w.emit(".ret")
		return nil
	case *ast.BlockStmt:
		return w.stmts(x.List)
	case *ast.IfStmt:
		// Control flow must not hide events: the event list is ONE sequence, so nothing that matters
		// for the lock discipline may be conditional.  The init statement and the condition are always
		// executed and are walked like any statement.  The only body accepted is the shape
		//     if <cond> { panic(<pure arguments>) }      (no else)
		// i.e. a branch that leaves the function without touching anything.
		if err := w.stmt(x.Init); err != nil {
			return err
		}
		if err := w.expr(x.Cond); err != nil {
			return err
		}
		if x.Else != nil {
			return w.errf(x.Else, "if statement with an else branch: %s", w.src(x))
		}
		if len(x.Body.List) != 1 {
			return w.errf(x, "if body is not a single panic(...) call (%d statements): %s", len(x.Body.List), w.src(x))
		}
		es, ok := x.Body.List[0].(*ast.ExprStmt)
		var pc *ast.CallExpr
		if ok {
			pc, ok = es.X.(*ast.CallExpr)
		}
		if ok {
			var id *ast.Ident
			id, ok = pc.Fun.(*ast.Ident)
			ok = ok && id.Name == "panic"
		}
		if !ok {
			return w.errf(x.Body.List[0], "statement under an if that is not a panic(...) call: %s", w.src(x.Body.List[0]))
		}
		before := len(w.evs)
		if err := w.call(pc); err != nil {
			return err
		}
		for _, ev := range w.evs[before:] {
			if !strings.HasPrefix(ev, ".pure ") {
				return w.errf(pc, "event %s under an if (only pure calls may be conditional): %s", ev, w.src(x))
			}
		}
		return nil
	case *ast.LabeledStmt:
		return w.errf(s, "labelled statement: %s", w.src(s))
	case *ast.BranchStmt:
		return w.errf(s, "%s statement", x.Tok)
	case *ast.GoStmt:
		return w.errf(s, "go statement: %s", w.src(s))
	case *ast.ForStmt, *ast.RangeStmt:
		return w.errf(s, "loop: %s", w.src(s))
	case *ast.SwitchStmt, *ast.TypeSwitchStmt, *ast.SelectStmt:
		return w.errf(s, "switch/select statement: %s", w.src(s))
	case *ast.SendStmt:
		return w.errf(s, "channel send: %s", w.src(s))
	}
	return w.errf(s, "unrecognised statement %T: %s", s, w.src(s))
}

// shadowing of the receiver name by a := or a parameter would make "the receiver" ambiguous
func c13Shadows(fd *ast.FuncDecl, recv string) ast.Node {
	var bad ast.Node
	if fd.Type.Params != nil {
		for _, f := range fd.Type.Params.List {
			for _, n := range f.Names {
				if n.Name == recv {
					bad = n
				}
			}
		}
	}
	if fd.Type.Results != nil {
		for _, f := range fd.Type.Results.List {
			for _, n := range f.Names {
				if n.Name == recv {
					bad = n
				}
			}
		}
	}
	ast.Inspect(fd.Body, func(n ast.Node) bool {
		if a, ok := n.(*ast.AssignStmt); ok && a.Tok == token.DEFINE {
			for _, l := range a.Lhs {
				if id, ok := l.(*ast.Ident); ok && id.Name == recv {
					bad = id
				}
			}
		}
		return true
	})
	return bad
}

func c13Locks(repo, out string, args []string) error {
	fset := token.NewFileSet()
	path := filepath.Join(repo, filepath.FromSlash(c13File))
	file, err := parser.ParseFile(fset, path, nil, parser.SkipObjectResolution)
	if err != nil {
		return err
	}

	// names of imported packages; the one that is "sync"
	pkgs := map[string]bool{}
	syncName := ""
	for _, im := range file.Imports {
		p, err := strconv.Unquote(im.Path.Value)
		if err != nil {
			return err
		}
		name := p[strings.LastIndex(p, "/")+1:]
		if im.Name != nil {
			name = im.Name.Name
		}
		if name == "." || name == "_" {
			return fmt.Errorf("%s: dot/blank import of %s", c13File, p)
		}
		pkgs[name] = true
		if p == "sync" {
			syncName = name
		}
	}

	// the lock must be a sync.Mutex held by value in Instance
	lockOK := false
	for _, d := range file.Decls {
		gd, ok := d.(*ast.GenDecl)
		if !ok || gd.Tok != token.TYPE {
			continue
		}
		for _, sp := range gd.Specs {
			ts := sp.(*ast.TypeSpec)
			st, ok := ts.Type.(*ast.StructType)
			if ts.Name.Name != c13Recv || !ok {
				continue
			}
			for _, f := range st.Fields.List {
				for _, n := range f.Names {
					if n.Name != c13Lock {
						continue
					}
					if se, ok := f.Type.(*ast.SelectorExpr); ok {
						if x, ok := se.X.(*ast.Ident); ok && syncName != "" && x.Name == syncName && se.Sel.Name == "Mutex" {
							lockOK = true
						}
					}
				}
			}
		}
	}
	if !lockOK {
		return fmt.Errorf("%s: %s.%s is not a field of type sync.Mutex", c13File, c13Recv, c13Lock)
	}

	found := map[string]*ast.FuncDecl{}
	for _, d := range file.Decls {
		fd, ok := d.(*ast.FuncDecl)
		if !ok || fd.Recv == nil || len(fd.Recv.List) != 1 {
			continue
		}
		want := false
		for _, m := range c13Methods {
			want = want || fd.Name.Name == m
		}
		if !want {
			continue
		}
		t := fd.Recv.List[0].Type
		st, ok := t.(*ast.StarExpr)
		if !ok {
			if id, ok := t.(*ast.Ident); ok && id.Name == c13Recv {
				return fmt.Errorf("%s: %s has a value receiver (the mutex would be copied)", c13File, fd.Name.Name)
			}
			continue
		}
		if id, ok := st.X.(*ast.Ident); !ok || id.Name != c13Recv {
			continue
		}
		if _, dup := found[fd.Name.Name]; dup {
			return fmt.Errorf("%s: method %s declared twice", c13File, fd.Name.Name)
		}
		found[fd.Name.Name] = fd
	}

	var b strings.Builder
	b.WriteString("-- GENERATED by go/facts (mode c13.locks) from " + c13File + " — do not edit\n")
	b.WriteString(`namespace PolyVerif.Gen.LockFacts

/-- what a function body does, in source order (one entry per lock operation, per use of the
    receiver's state or call on a node/parameter/producer, per return) -/
inductive Ev where
  | lock                       -- i.producerLock.Lock()
  | unlock                     -- i.producerLock.Unlock()   (not deferred)
  | deferUnlock                -- defer i.producerLock.Unlock()
  | producersLookup            -- i.producers[name]  (map read, whitelisted before the lock)
  | access (what : String)     -- any other use of receiver state / call on a node, parameter or producer
  | pure (what : String)       -- panic(...), fmt.Errorf(...): touches no shared state
  | ret                        -- return
  deriving DecidableEq, Repr

structure Fn where
  name : String
  evs : List Ev
  deriving Repr

def lockFacts : List Fn := [
`)
	for k, m := range c13Methods {
		fd := found[m]
		if fd == nil {
			return fmt.Errorf("%s: method (*%s).%s not found", c13File, c13Recv, m)
		}
		if fd.Body == nil {
			return fmt.Errorf("%s: method %s has no body", c13File, m)
		}
		if len(fd.Recv.List[0].Names) != 1 || fd.Recv.List[0].Names[0].Name == "_" {
			return fmt.Errorf("%s: method %s has no named receiver", c13File, m)
		}
		w := &c13Walker{fset: fset, recv: fd.Recv.List[0].Names[0].Name, pkgs: pkgs}
		if n := len(fd.Body.List); n > 0 {
			w.last = fd.Body.List[n-1]
		}
		if w.pkgs[w.recv] {
			return fmt.Errorf("%s: receiver of %s is named like an imported package", c13File, m)
		}
		if n := c13Shadows(fd, w.recv); n != nil {
			return w.errf(n, "receiver %q of %s is shadowed", w.recv, m)
		}
		if err := w.stmts(fd.Body.List); err != nil {
			return fmt.Errorf("%s: %w", m, err)
		}
		// a body without results can fall off its end: it returns there (with results Go demands a
		// terminating statement, so every way out is a return or a panic already listed)
		if fd.Type.Results == nil || len(fd.Type.Results.List) == 0 {
			if n := len(fd.Body.List); n == 0 {
				w.emit(".ret")
			} else if _, isRet := fd.Body.List[n-1].(*ast.ReturnStmt); !isRet {
				w.emit(".ret")
			}
		}
		sep := ","
		if k == len(c13Methods)-1 {
			sep = ""
		}
		fmt.Fprintf(&b, "  ⟨%s, [%s]⟩%s\n", strconv.Quote(m), strings.Join(w.evs, ", "), sep)
	}
	b.WriteString("]\n\nend PolyVerif.Gen.LockFacts\n")
	if out == "" {
		_, err = os.Stdout.WriteString(b.String())
		return err
	}
	return os.WriteFile(out, []byte(b.String()), 0o644)
}
