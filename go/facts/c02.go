// Engine F, properties C02 / C03: every rejection (`panic`) of modeling/mesh.go and modeling/topology.go with the function it
// occurs in and the conditions under which it is reached, read from the current tree with go/parser + go/ast and written as
// Lean data (PolyVerif/Gen/MeshGuards.lean).  The model's rejection branches ("exact rejection iffs") transcribe these guards;
// Props/C02Guards.lean pins the regenerated list, so a removed, weakened or inverted guard breaks a named theorem.
//
// A guard is printed as  <func>: <cond1> && <cond2> …  where each cond is an enclosing `if` condition (negated with `!(…)` when
// the panic sits in the else branch), `case <exprs>` / `default` for an enclosing switch clause, or `(fallthrough)` when the
// panic is an unconditional statement of the function body (reached when every earlier return was not taken).
package main

import (
	"bytes"
	"fmt"
	"go/ast"
	"go/parser"
	"go/printer"
	"go/token"
	"os"
	"path/filepath"
	"strconv"
	"strings"
)

func init() { modes["c02.guards"] = c02Guards }

func c02Src(fset *token.FileSet, n ast.Node) string {
	var b bytes.Buffer
	printer.Fprint(&b, fset, n)
	return strings.Join(strings.Fields(b.String()), " ")
}

func c02Guards(repo, out string, args []string) error {
	fset := token.NewFileSet()
	rows := []string{}
	for _, file := range []string{"mesh.go", "topology.go"} {
		f, err := parser.ParseFile(fset, filepath.Join(repo, "modeling", file), nil, 0)
		if err != nil {
			return err
		}
		for _, d := range f.Decls {
			fd, ok := d.(*ast.FuncDecl)
			if !ok || fd.Body == nil {
				continue
			}
			name := fd.Name.Name
			if fd.Recv != nil {
				name = c02Src(fset, fd.Recv.List[0].Type) + "." + name
			}
			var walk func(n ast.Node, conds []string)
			walk = func(n ast.Node, conds []string) {
				switch x := n.(type) {
				case *ast.BlockStmt:
					for _, st := range x.List {
						walk(st, conds)
					}
				case *ast.IfStmt:
					c := c02Src(fset, x.Cond)
					if x.Init != nil {
						c = c02Src(fset, x.Init) + "; " + c
					}
					walk(x.Body, append(append([]string{}, conds...), c))
					if x.Else != nil {
						walk(x.Else, append(append([]string{}, conds...), "!("+c+")"))
					}
				case *ast.SwitchStmt:
					tag := ""
					if x.Tag != nil {
						tag = c02Src(fset, x.Tag) + " "
					}
					for _, c := range x.Body.List {
						cc := c.(*ast.CaseClause)
						lab := "switch " + tag + "default"
						if cc.List != nil {
							es := []string{}
							for _, e := range cc.List {
								es = append(es, c02Src(fset, e))
							}
							lab = "switch " + tag + "case " + strings.Join(es, ", ")
						}
						for _, st := range cc.Body {
							walk(st, append(append([]string{}, conds...), lab))
						}
					}
				case *ast.ForStmt:
					walk(x.Body, append(append([]string{}, conds...), "for"))
				case *ast.RangeStmt:
					walk(x.Body, append(append([]string{}, conds...), "range "+c02Src(fset, x.X)))
				case *ast.ExprStmt:
					if call, ok := x.X.(*ast.CallExpr); ok {
						if id, ok := call.Fun.(*ast.Ident); ok && id.Name == "panic" {
							cs := conds
							if len(cs) == 0 {
								cs = []string{"(fallthrough)"}
							}
							rows = append(rows, strconv.Quote(file+" "+name+": "+strings.Join(cs, " && ")))
						}
					}
				case *ast.GoStmt, *ast.DeferStmt, *ast.AssignStmt, *ast.ReturnStmt, *ast.DeclStmt:
					// closures inside these statements: walk function literals for panics too
					ast.Inspect(n, func(m ast.Node) bool {
						if fl, ok := m.(*ast.FuncLit); ok {
							walk(fl.Body, append(append([]string{}, conds...), "func literal"))
							return false
						}
						return true
					})
				}
			}
			walk(fd.Body, nil)
		}
	}

	// ---- topology.go: the Topology constants in iota order and the arms of IndexSize()
	tf, err := parser.ParseFile(fset, filepath.Join(repo, "modeling", "topology.go"), nil, 0)
	if err != nil {
		return err
	}
	topoNames := []string{}
	sizeArms := []string{}
	for _, d := range tf.Decls {
		switch x := d.(type) {
		case *ast.GenDecl:
			if x.Tok != token.CONST {
				continue
			}
			isTopo := false
			for i, sp := range x.Specs {
				vs := sp.(*ast.ValueSpec)
				if i == 0 {
					id, ok := vs.Type.(*ast.Ident)
					if !ok || id.Name != "Topology" || len(vs.Values) != 1 || c02Src(fset, vs.Values[0]) != "iota" {
						break
					}
					isTopo = true
				} else if vs.Type != nil || len(vs.Values) != 0 {
					return fmt.Errorf("topology.go: constant %s breaks the iota sequence", vs.Names[0].Name)
				}
				if isTopo {
					for _, n := range vs.Names {
						topoNames = append(topoNames, strconv.Quote(n.Name))
					}
				}
			}
		case *ast.FuncDecl:
			if x.Name.Name != "IndexSize" || x.Recv == nil {
				continue
			}
			sw, ok := x.Body.List[0].(*ast.SwitchStmt)
			if !ok {
				return fmt.Errorf("topology.go: IndexSize does not start with a switch")
			}
			for _, c := range sw.Body.List {
				cc := c.(*ast.CaseClause)
				if cc.List == nil {
					return fmt.Errorf("topology.go: IndexSize has a default case (unexpected shape)")
				}
				names := []string{}
				for _, e := range cc.List {
					names = append(names, strconv.Quote(c02Src(fset, e)))
				}
				r, ok := cc.Body[0].(*ast.ReturnStmt)
				if !ok || len(cc.Body) != 1 {
					return fmt.Errorf("topology.go: an arm of IndexSize is not a single return")
				}
				lit, ok := r.Results[0].(*ast.BasicLit)
				if !ok || lit.Kind != token.INT {
					return fmt.Errorf("topology.go: an arm of IndexSize does not return an integer literal")
				}
				sizeArms = append(sizeArms, fmt.Sprintf("([%s], %s)", strings.Join(names, ", "), lit.Value))
			}
		}
	}
	if len(topoNames) == 0 || len(sizeArms) == 0 {
		return fmt.Errorf("topology.go: Topology constants or IndexSize not found")
	}
	var b strings.Builder
	b.WriteString("/-\n  GENERATED by /verif/go/facts (mode c02.guards) from /repo/modeling/mesh.go and topology.go.\n  Do not edit: regenerated by ./check before every build.\n-/\nnamespace PolyVerif.Gen.MeshGuards\n\n")
	fmt.Fprintf(&b, "/-- every `panic` of modeling/mesh.go and topology.go: `<file> <func>: <conditions under which it is reached>`, source order -/\ndef guards : List String :=\n  [%s]\n\n", strings.Join(rows, ",\n   "))
	fmt.Fprintf(&b, "/-- topology.go: the `Topology` constants in iota order (value = position) -/\ndef topologies : List String := [%s]\n\n/-- topology.go: `IndexSize()`: `case A, B: return N`, source order; anything else panics -/\ndef indexSizeArms : List (List String × Nat) := [%s]\n\n", strings.Join(topoNames, ", "), strings.Join(sizeArms, ", "))
	b.WriteString("end PolyVerif.Gen.MeshGuards\n")
	return os.WriteFile(out, []byte(b.String()), 0o644)
}
