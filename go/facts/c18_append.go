// Engine F, property C18, mode c18.append: the INDEX part of `func (m Mesh) Append(other Mesh) Mesh` (modeling/mesh.go),
// read with go/parser + go/ast and written as a program of PolyVerif/Model/AppendIR.lean into
// PolyVerif/Gen/PrimAppend.lean.
//
// Every statement of the body must be one of (anything else is an error — the extractor never guesses):
//
//	if m.topology != other.topology { panic(..) }                       guard (skipped)
//	L := m.AttributeLength() | other.AttributeLength()                   the two vertex counts
//	X := appendData(m.F, other.F, Lm, Lo, func..)                        attribute maps (NOT extracted; shape only)
//	T := make([]int, 0, ..)                                              the index buffer, empty
//	T = append(T, m.indices...) | append(T, other.indices...)            -> .appendAll recv | other
//	Y := make([]MeshMaterial, 0, ..); Y = append(Y, m.materials...) ..   materials (skipped; must not touch T)
//	for i := len(m.indices); i < len(T); i++ { T[i] += Lm }              -> .addFrom lenRecv recvVerts
//	return Mesh{ .., indices: T, .. }
package main

import (
	"fmt"
	"go/ast"
	"go/parser"
	"go/token"
	"os"
	"path/filepath"
	"strings"
)

func init() { modes["c18.append"] = c18Append }

func c18Append(repo, out string, args []string) error {
	if out == "" {
		return fmt.Errorf("c18.append: -out is required")
	}
	fset := token.NewFileSet()
	f, err := parser.ParseFile(fset, filepath.Join(repo, "modeling", "mesh.go"), nil, 0)
	if err != nil {
		return err
	}
	fd := c18Method(f, "Mesh", "Append")
	if fd == nil || fd.Body == nil || len(fd.Recv.List[0].Names) != 1 || len(fd.Type.Params.List) != 1 || len(fd.Type.Params.List[0].Names) != 1 {
		return fmt.Errorf("mesh.go: func (m Mesh) Append(other Mesh) not found")
	}
	m, o := fd.Recv.List[0].Names[0].Name, fd.Type.Params.List[0].Names[0].Name
	where := func(s ast.Node) string { return fset.Position(s.Pos()).String() }
	lenVar := map[string]string{} // variable -> "recv" | "other"
	idx := ""                     // the index buffer variable
	skipped := map[string]bool{}  // other local slices / maps (attribute data, materials)
	var prog []string
	returned := false
	mentions := func(n ast.Node, name string) bool {
		found := false
		ast.Inspect(n, func(x ast.Node) bool {
			if id, ok := x.(*ast.Ident); ok && id.Name == name {
				found = true
			}
			return true
		})
		return found
	}
	side := func(e ast.Expr, field string) string {
		switch c18Sel(e) {
		case m + "." + field:
			return "recv"
		case o + "." + field:
			return "other"
		}
		return ""
	}
	for _, s := range fd.Body.List {
		if returned {
			return fmt.Errorf("%s: statement after the return", where(s))
		}
		switch v := s.(type) {
		case *ast.IfStmt: // topology guard
			be, ok := v.Cond.(*ast.BinaryExpr)
			if !ok || v.Init != nil || v.Else != nil || be.Op != token.NEQ || side(be.X, "topology") != "recv" || side(be.Y, "topology") != "other" || len(v.Body.List) != 1 {
				return fmt.Errorf("%s: unsupported if statement (only the topology guard is recognised)", where(s))
			}
			es, ok := v.Body.List[0].(*ast.ExprStmt)
			if !ok {
				return fmt.Errorf("%s: the topology guard does not panic", where(s))
			}
			if pc, ok := es.X.(*ast.CallExpr); !ok || c18Sel(pc.Fun) != "panic" {
				return fmt.Errorf("%s: the topology guard does not panic", where(s))
			}
		case *ast.AssignStmt:
			if len(v.Lhs) != 1 || len(v.Rhs) != 1 {
				return fmt.Errorf("%s: multi-assignment", where(s))
			}
			lhs := c18Sel(v.Lhs[0])
			ce, ok := v.Rhs[0].(*ast.CallExpr)
			if !ok || lhs == "" {
				return fmt.Errorf("%s: unsupported assignment", where(s))
			}
			fn := c18Sel(ce.Fun)
			switch {
			case v.Tok == token.DEFINE && len(ce.Args) == 0 && (fn == m+".AttributeLength" || fn == o+".AttributeLength"):
				if fn == m+".AttributeLength" {
					lenVar[lhs] = "recv"
				} else {
					lenVar[lhs] = "other"
				}
			case v.Tok == token.DEFINE && fn == "appendData":
				if idx != "" && mentions(ce, idx) {
					return fmt.Errorf("%s: appendData mentions the index buffer", where(s))
				}
				skipped[lhs] = true
			case v.Tok == token.DEFINE && fn == "make" && len(ce.Args) == 3:
				at, ok := ce.Args[0].(*ast.ArrayType)
				if !ok || at.Len != nil {
					return fmt.Errorf("%s: unsupported make", where(s))
				}
				if bl, ok := ce.Args[1].(*ast.BasicLit); !ok || bl.Value != "0" {
					return fmt.Errorf("%s: make with a non-zero initial length", where(s))
				}
				if c18Sel(at.Elt) == "int" {
					if idx != "" {
						return fmt.Errorf("%s: a second []int buffer", where(s))
					}
					idx = lhs
				} else {
					skipped[lhs] = true
				}
			case v.Tok == token.ASSIGN && fn == "append" && len(ce.Args) == 2 && ce.Ellipsis != token.NoPos && c18Sel(ce.Args[0]) == lhs:
				if lhs == idx {
					sd := side(ce.Args[1], "indices")
					if sd == "" {
						return fmt.Errorf("%s: the index buffer is extended by something other than m.indices... / other.indices...", where(s))
					}
					prog = append(prog, ".appendAll ."+sd)
				} else if skipped[lhs] {
					if idx != "" && mentions(ce, idx) {
						return fmt.Errorf("%s: a skipped append mentions the index buffer", where(s))
					}
				} else {
					return fmt.Errorf("%s: append to an unknown slice %s", where(s), lhs)
				}
			default:
				return fmt.Errorf("%s: unsupported assignment to %s", where(s), lhs)
			}
		case *ast.ForStmt:
			// for i := len(m.indices); i < len(T); i++ { T[i] += Lm }
			bad := fmt.Errorf("%s: the loop is not `for i := len(%s.indices); i < len(%s); i++ { %s[i] += <vertex count of %s> }`", where(s), m, idx, idx, m)
			init, ok := v.Init.(*ast.AssignStmt)
			if !ok || idx == "" || init.Tok != token.DEFINE || len(init.Lhs) != 1 || len(init.Rhs) != 1 || v.Cond == nil || v.Post == nil || len(v.Body.List) != 1 {
				return bad
			}
			iv := c18Sel(init.Lhs[0])
			lo, ok := init.Rhs[0].(*ast.CallExpr)
			if !ok || c18Sel(lo.Fun) != "len" || len(lo.Args) != 1 || side(lo.Args[0], "indices") != "recv" {
				return bad
			}
			cond, ok := v.Cond.(*ast.BinaryExpr)
			if !ok || cond.Op != token.LSS || c18Sel(cond.X) != iv {
				return bad
			}
			hi, ok := cond.Y.(*ast.CallExpr)
			if !ok || c18Sel(hi.Fun) != "len" || len(hi.Args) != 1 || c18Sel(hi.Args[0]) != idx {
				return bad
			}
			if inc, ok := v.Post.(*ast.IncDecStmt); !ok || inc.Tok != token.INC || c18Sel(inc.X) != iv {
				return bad
			}
			as, ok := v.Body.List[0].(*ast.AssignStmt)
			if !ok || as.Tok != token.ADD_ASSIGN || len(as.Lhs) != 1 || len(as.Rhs) != 1 {
				return bad
			}
			ix, ok := as.Lhs[0].(*ast.IndexExpr)
			if !ok || c18Sel(ix.X) != idx || c18Sel(ix.Index) != iv {
				return bad
			}
			k, ok := lenVar[c18Sel(as.Rhs[0])]
			if !ok {
				return bad
			}
			prog = append(prog, ".addFrom .lenRecv ."+k+"Verts")
		case *ast.ReturnStmt:
			if len(v.Results) != 1 {
				return fmt.Errorf("%s: unsupported return", where(s))
			}
			cl, ok := v.Results[0].(*ast.CompositeLit)
			if !ok || c18Sel(cl.Type) != "Mesh" {
				return fmt.Errorf("%s: the result is not a Mesh{..} literal", where(s))
			}
			n := 0
			for _, el := range cl.Elts {
				kv, ok := el.(*ast.KeyValueExpr)
				if !ok {
					return fmt.Errorf("%s: unkeyed Mesh literal", where(s))
				}
				if c18Sel(kv.Key) == "indices" {
					n++
					if idx == "" || c18Sel(kv.Value) != idx {
						return fmt.Errorf("%s: `indices` is not the index buffer %s", where(s), idx)
					}
				} else if idx != "" && mentions(kv.Value, idx) {
					return fmt.Errorf("%s: the index buffer is stored in another field", where(s))
				}
			}
			if n != 1 {
				return fmt.Errorf("%s: the Mesh literal has no `indices` field", where(s))
			}
			returned = true
		default:
			return fmt.Errorf("%s: unsupported statement %T", where(s), s)
		}
	}
	if !returned {
		return fmt.Errorf("mesh.go Mesh.Append: no return")
	}
	var b strings.Builder
	b.WriteString("-- GENERATED by `go/facts c18.append` from /repo modeling/mesh.go (Mesh.Append, index part) — do not edit\n")
	b.WriteString("import PolyVerif.Model.AppendIR\nnamespace PolyVerif.Gen.PrimAppend\nopen PolyVerif.AppendIR\n\n")
	fmt.Fprintf(&b, "/-- mesh.go `func (%s Mesh) Append(%s Mesh)`: what happens to the index buffer `%s`, in source order -/\n", m, o, idx)
	fmt.Fprintf(&b, "def meshAppendIndices : List Stmt := [%s]\n\n", strings.Join(prog, ", "))
	b.WriteString("end PolyVerif.Gen.PrimAppend\n")
	return os.WriteFile(out, []byte(b.String()), 0o644)
}
