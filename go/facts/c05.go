// Engine F, property C05: the text the OBJ writer emits for a face line, read from the current tree
// (/repo/formats/obj/writer.go) with go/parser + go/ast and written as Lean data (PolyVerif/Gen/ObjText.lean):
//   * for each of the four face writers (writeFaceVerts, …AndUvs, …AndNormals, writeFaceVertAndUvsAndNormals) the
//     sequence of txt.Writer calls of the loop body as tokens — literal text, `Int` of (corner k, pool slot), line
//     break — with the shift definitions (`shift := 1 + offset`, `uvShift := uvOffset - offset`, …) checked and recorded;
//   * the attribute test chain in WriteMeshes that selects the face writer (hasNormals, hasUVs) ↦ writer.
// Props/C05Src.lean proves that the hand-written printed face line (Model/ObjLex.lean `printFaceL` over
// Model/ObjText.lean `showCornerL`, corners = Model/Obj.lean `mkCorner`) is the interpretation of this data.
//
// A shape that is not the expected one is an error — the extractor never guesses.
package main

import (
	"bytes"
	"fmt"
	"go/ast"
	"go/parser"
	"go/printer"
	"go/token"
	"os"
	"path/filepath"
	"strconv"
	"strings"
)

func init() { modes["c05.text"] = c05Text }

func c05Str(fset *token.FileSet, n ast.Node) string {
	var b bytes.Buffer
	printer.Fprint(&b, fset, n)
	return strings.Join(strings.Fields(b.String()), " ")
}

func c05Chars(s string) string {
	var parts []string
	for _, r := range s {
		parts = append(parts, strconv.QuoteRune(r))
	}
	return "[" + strings.Join(parts, ", ") + "]"
}

var c05Shifts = map[string]string{
	"shift":       "shift := 1 + offset",
	"uvShift":     "uvShift := uvOffset - offset",
	"normalShift": "normalShift := normalOffset - offset",
}

func c05FaceWriter(fset *token.FileSet, f *ast.File, name string, wantShifts []string) (string, error) {
	var fd *ast.FuncDecl
	for _, d := range f.Decls {
		if x, ok := d.(*ast.FuncDecl); ok && x.Recv == nil && x.Name.Name == name {
			fd = x
		}
	}
	if fd == nil {
		return "", fmt.Errorf("writer.go: func %s not found", name)
	}
	at := func(n ast.Node) string { return fmt.Sprintf("writer.go:%d", fset.Position(n.Pos()).Line) }
	if got := c05Str(fset, fd.Type); got != "func(tris *iter.ArrayIterator[int], out *txt.Writer, start, end, offset, uvOffset, normalOffset int)" {
		return "", fmt.Errorf("%s: unexpected parameters of %s: %s", at(fd), name, got)
	}
	n := len(fd.Body.List)
	if n != len(wantShifts)+1 {
		return "", fmt.Errorf("%s: %s has %d statements, expected %d", at(fd), name, n, len(wantShifts)+1)
	}
	for i, w := range wantShifts {
		if got := c05Str(fset, fd.Body.List[i]); got != c05Shifts[w] {
			return "", fmt.Errorf("%s: expected `%s`, found `%s`", at(fd.Body.List[i]), c05Shifts[w], got)
		}
	}
	loop, ok := fd.Body.List[n-1].(*ast.ForStmt)
	if !ok || loop.Init == nil || loop.Cond == nil || loop.Post == nil ||
		c05Str(fset, loop.Init) != "triIndex := start" || c05Str(fset, loop.Cond) != "triIndex < end" || c05Str(fset, loop.Post) != "triIndex += 3" {
		return "", fmt.Errorf("%s: expected `for triIndex := start; triIndex < end; triIndex += 3`", at(fd.Body.List[n-1]))
	}
	cornerOfAt := func(e ast.Expr) (int, bool) { // tris.At(triIndex+k) + shift
		be, ok := e.(*ast.BinaryExpr)
		if !ok || be.Op != token.ADD || c05Str(fset, be.Y) != "shift" {
			return 0, false
		}
		switch c05Str(fset, be.X) {
		case "tris.At(triIndex)":
			return 1, true
		case "tris.At(triIndex + 1)", "tris.At(triIndex+1)":
			return 2, true
		case "tris.At(triIndex + 2)", "tris.At(triIndex+2)":
			return 3, true
		}
		return 0, false
	}
	env := map[string]int{}
	var toks []string
	started, finished := false, false
	for _, st := range loop.Body.List {
		if finished {
			return "", fmt.Errorf("%s: statement after FinishEntry in %s", at(st), name)
		}
		switch s := st.(type) {
		case *ast.AssignStmt:
			if s.Tok != token.DEFINE || len(s.Lhs) != 1 || len(s.Rhs) != 1 || started {
				return "", fmt.Errorf("%s: unsupported assignment in %s: %s", at(s), name, c05Str(fset, s))
			}
			k, ok := cornerOfAt(s.Rhs[0])
			if !ok {
				return "", fmt.Errorf("%s: expected `pK := tris.At(triIndex+k) + shift`, found %s", at(s), c05Str(fset, s))
			}
			env[s.Lhs[0].(*ast.Ident).Name] = k
		case *ast.ExprStmt:
			call, ok := s.X.(*ast.CallExpr)
			if !ok {
				return "", fmt.Errorf("%s: unsupported statement in %s: %s", at(s), name, c05Str(fset, s))
			}
			sel, ok := call.Fun.(*ast.SelectorExpr)
			if !ok || c05Str(fset, sel.X) != "out" {
				return "", fmt.Errorf("%s: expected a call on `out` in %s: %s", at(s), name, c05Str(fset, s))
			}
			if sel.Sel.Name != "StartEntry" && !started {
				return "", fmt.Errorf("%s: output before StartEntry in %s", at(s), name)
			}
			switch sel.Sel.Name {
			case "StartEntry":
				if started || len(call.Args) != 0 {
					return "", fmt.Errorf("%s: unexpected StartEntry in %s", at(s), name)
				}
				started = true
			case "FinishEntry":
				if len(call.Args) != 0 {
					return "", fmt.Errorf("%s: unexpected FinishEntry in %s", at(s), name)
				}
				finished = true
			case "Space":
				toks = append(toks, ".lit [' ']")
			case "NewLine":
				toks = append(toks, ".nl")
			case "String":
				lit, ok := call.Args[0].(*ast.BasicLit)
				if !ok || lit.Kind != token.STRING || len(call.Args) != 1 {
					return "", fmt.Errorf("%s: String of a non-literal in %s", at(s), name)
				}
				v, err := strconv.Unquote(lit.Value)
				if err != nil {
					return "", err
				}
				toks = append(toks, ".lit "+c05Chars(v))
			case "Int":
				if len(call.Args) != 1 {
					return "", fmt.Errorf("%s: Int with %d arguments", at(s), len(call.Args))
				}
				k, slot := 0, ""
				if kk, ok := cornerOfAt(call.Args[0]); ok {
					k, slot = kk, "pos"
				} else if id, ok := call.Args[0].(*ast.Ident); ok && env[id.Name] > 0 {
					k, slot = env[id.Name], "pos"
				} else if be, ok := call.Args[0].(*ast.BinaryExpr); ok && be.Op == token.ADD {
					id, ok1 := be.X.(*ast.Ident)
					sh, ok2 := be.Y.(*ast.Ident)
					if ok1 && ok2 && env[id.Name] > 0 {
						k = env[id.Name]
						switch sh.Name {
						case "uvShift":
							slot = "uv"
						case "normalShift":
							slot = "nrm"
						}
					}
				}
				if slot == "" || ((slot == "uv" || slot == "nrm") && !c05Has(wantShifts, map[string]string{"uv": "uvShift", "nrm": "normalShift"}[slot])) {
					return "", fmt.Errorf("%s: unsupported Int argument in %s: %s", at(s), name, c05Str(fset, call.Args[0]))
				}
				toks = append(toks, fmt.Sprintf(".int %d .%s", k, slot))
			default:
				return "", fmt.Errorf("%s: unsupported txt.Writer call %s in %s", at(s), sel.Sel.Name, name)
			}
		default:
			return "", fmt.Errorf("%s: unsupported statement in %s: %s", at(st), name, c05Str(fset, st))
		}
	}
	if !finished {
		return "", fmt.Errorf("%s: no FinishEntry in %s", at(loop), name)
	}
	return "[" + strings.Join(toks, ", ") + "]", nil
}

func c05Has(l []string, x string) bool {
	for _, y := range l {
		if y == x {
			return true
		}
	}
	return false
}

func c05Text(repo, out string, args []string) error {
	fset := token.NewFileSet()
	f, err := parser.ParseFile(fset, filepath.Join(repo, "formats", "obj", "writer.go"), nil, 0)
	if err != nil {
		return err
	}
	var b strings.Builder
	b.WriteString("/-\n  GENERATED by /verif/go/facts (mode c05.text) from /repo/formats/obj/writer.go.\n  Do not edit: regenerated by ./check C05 before every build.\n-/\nnamespace PolyVerif.Gen.ObjText\n\n")
	b.WriteString("/-- which pool an index printed by `out.Int` addresses: `p` (= idx + shift, shift := 1 + offset), `p + uvShift`\n    (uvShift := uvOffset - offset), `p + normalShift` (normalShift := normalOffset - offset) -/\ninductive Slot where\n  | pos | uv | nrm\nderiving DecidableEq, Repr\n\n")
	b.WriteString("/-- one txt.Writer call of a face writer's loop body: literal text (`String`, `Space`), `Int` of corner k (1..3) in a\n    pool slot, `NewLine` -/\ninductive Tok where\n  | lit (cs : List Char)\n  | int (corner : Nat) (slot : Slot)\n  | nl\nderiving DecidableEq, Repr\n\n")
	writers := []struct {
		fn, lean string
		shifts   []string
	}{
		{"writeFaceVerts", "faceVerts", []string{"shift"}},
		{"writeFaceVertsAndUvs", "faceVertsUvs", []string{"shift", "uvShift"}},
		{"writeFaceVertsAndNormals", "faceVertsNormals", []string{"shift", "normalShift"}},
		{"writeFaceVertAndUvsAndNormals", "faceVertsUvsNormals", []string{"shift", "uvShift", "normalShift"}},
	}
	leanOf := map[string]string{}
	for _, w := range writers {
		toks, err := c05FaceWriter(fset, f, w.fn, w.shifts)
		if err != nil {
			return err
		}
		leanOf[w.fn] = w.lean
		fmt.Fprintf(&b, "/-- `%s`: %s -/\ndef %s : List Tok :=\n  %s\n\n", w.fn, strings.Join(w.shifts, ", "), w.lean, toks)
	}
	// the selection chain in WriteMeshes
	var wm *ast.FuncDecl
	for _, d := range f.Decls {
		if x, ok := d.(*ast.FuncDecl); ok && x.Recv == nil && x.Name.Name == "WriteMeshes" {
			wm = x
		}
	}
	if wm == nil {
		return fmt.Errorf("writer.go: func WriteMeshes not found")
	}
	var chain *ast.IfStmt
	ast.Inspect(wm.Body, func(n ast.Node) bool {
		if is, ok := n.(*ast.IfStmt); ok && chain == nil && len(is.Body.List) == 1 {
			if as, ok := is.Body.List[0].(*ast.AssignStmt); ok && c05Str(fset, as.Lhs[0]) == "faceWriter" {
				chain = is
				return false
			}
		}
		return true
	})
	if chain == nil {
		return fmt.Errorf("writer.go: no `if … { faceWriter = … }` chain in WriteMeshes")
	}
	hasN := "m.HasVertexAttribute(modeling.NormalAttribute)"
	hasT := "m.HasVertexAttribute(modeling.TexCoordAttribute)"
	conds := map[string]string{hasN + " && " + hasT: "(true, true)", hasN: "(true, false)", hasT: "(false, true)"}
	var rows []string
	var cur ast.Stmt = chain
	for cur != nil {
		target := func(bl *ast.BlockStmt) (string, error) {
			if len(bl.List) != 1 {
				return "", fmt.Errorf("writer.go:%d: branch of the faceWriter chain is not one assignment", fset.Position(bl.Pos()).Line)
			}
			as, ok := bl.List[0].(*ast.AssignStmt)
			if !ok || as.Tok != token.ASSIGN || c05Str(fset, as.Lhs[0]) != "faceWriter" || leanOf[c05Str(fset, as.Rhs[0])] == "" {
				return "", fmt.Errorf("writer.go:%d: unexpected branch of the faceWriter chain: %s", fset.Position(bl.Pos()).Line, c05Str(fset, bl))
			}
			return leanOf[c05Str(fset, as.Rhs[0])], nil
		}
		switch s := cur.(type) {
		case *ast.IfStmt:
			c, ok := conds[c05Str(fset, s.Cond)]
			if !ok || s.Init != nil {
				return fmt.Errorf("writer.go:%d: unexpected condition in the faceWriter chain: %s", fset.Position(s.Pos()).Line, c05Str(fset, s.Cond))
			}
			t, err := target(s.Body)
			if err != nil {
				return err
			}
			rows = append(rows, fmt.Sprintf("(some %s, %s)", c, t))
			cur = s.Else
		case *ast.BlockStmt:
			t, err := target(s)
			if err != nil {
				return err
			}
			rows = append(rows, fmt.Sprintf("(none, %s)", t))
			cur = nil
		default:
			return fmt.Errorf("writer.go: unexpected else in the faceWriter chain")
		}
	}
	b.WriteString("/-- the `if / else if / else` chain of WriteMeshes that picks the face writer: condition as (needs normals, needs uvs) —\n    a `false` component is not tested —, `none` = the final else; first match wins -/\ndef writerChain : List (Option (Bool × Bool) × List Tok) :=\n  [" + strings.Join(rows, ",\n   ") + "]\n\n")
	// ---- the reader's keyword dispatch: `switch components[0]` in ReadMesh (reader.go)
	rf, err := parser.ParseFile(fset, filepath.Join(repo, "formats", "obj", "reader.go"), nil, 0)
	if err != nil {
		return err
	}
	var sw *ast.SwitchStmt
	nsw := 0
	for _, d := range rf.Decls {
		if x, ok := d.(*ast.FuncDecl); ok && x.Recv == nil && x.Name.Name == "ReadMesh" {
			ast.Inspect(x.Body, func(n ast.Node) bool {
				if s, ok := n.(*ast.SwitchStmt); ok && s.Tag != nil && c05Str(fset, s.Tag) == "components[0]" {
					sw = s
					nsw++
				}
				return true
			})
		}
	}
	if sw == nil || nsw != 1 {
		return fmt.Errorf("reader.go: expected exactly one `switch components[0]` in ReadMesh, found %d", nsw)
	}
	var kws []string
	for _, cl := range sw.Body.List {
		cc := cl.(*ast.CaseClause)
		if cc.List == nil {
			return fmt.Errorf("reader.go:%d: the keyword switch has a default clause", fset.Position(cc.Pos()).Line)
		}
		for _, e := range cc.List {
			lit, ok := e.(*ast.BasicLit)
			if !ok || lit.Kind != token.STRING {
				return fmt.Errorf("reader.go:%d: case label is not a string literal: %s", fset.Position(e.Pos()).Line, c05Str(fset, e))
			}
			kws = append(kws, lit.Value)
		}
	}
	b.WriteString("/-- the case labels of `switch components[0]` in `ReadMesh` (reader.go), in source order; the switch has no default\n    clause: a line with any other first field is ignored -/\ndef readerKeywords : List String :=\n  [" + strings.Join(kws, ", ") + "]\n\n")
	b.WriteString("end PolyVerif.Gen.ObjText\n")
	return os.WriteFile(out, []byte(b.String()), 0o644)
}
