// Engine F, property C07: the two normal expressions of formats/stl, read from the current tree with
// go/parser + go/ast and written as Lean definitions over `[Scalar α]` (PolyVerif/Gen/StlNormals.lean).
//
// Extracted (a shape that is not the expected one is an error — the extractor never guesses):
//
//	formats/stl/write.go  func WriteMesh: the block that contains `n := <chain>.ToFloat32()`; in that block
//	                      v1, v2, v3 must be bound to tri.P1Vec3Attr / P2Vec3Attr / P3Vec3Attr(modeling.NormalAttribute)
//	                      -> def avgNormal (v1 v2 v3) := <chain>
//	formats/stl/read.go   func ReadMesh: `if tri.Normal.Zero() { normal = <chain> } else { normalExists = true; normal = tri.Normal.Float64() }`
//	                      -> def flatNormal (vertex1 vertex2 vertex3) := <chain>   (tri.VertexK.Float64() ↦ vertexK)
//
// A chain is a tree of method calls on vector values; the method table is the library table of engine T
// (PolyVerif/Model/Vec.lean, Go method names verbatim): Add Sub Cross Scale DivByConstant Normalized; the
// conversions ToFloat32 / ToFloat64 / Float64 are dropped (stored precision is the model's q32 / up).
package main

import (
	"fmt"
	"go/ast"
	"go/parser"
	"go/token"
	"os"
	"path/filepath"
	"sort"
	"strings"
)

func init() { modes["c07.normals"] = c07Normals }

type c07Printer struct {
	params map[string]bool
}

var c07VecMethods = map[string]int{"Add": 1, "Sub": 1, "Cross": 1, "Scale": 1, "DivByConstant": 1, "Normalized": 0}
var c07Conversions = map[string]bool{"ToFloat32": true, "ToFloat64": true, "Float64": true}

func (p *c07Printer) expr(e ast.Expr) (string, error) {
	switch x := e.(type) {
	case *ast.ParenExpr:
		return p.expr(x.X)
	case *ast.Ident:
		p.params[x.Name] = true
		return x.Name, nil
	case *ast.SelectorExpr: // tri.Vertex2 ↦ vertex2
		if id, ok := x.X.(*ast.Ident); ok && id.Name == "tri" {
			n := strings.ToLower(x.Sel.Name[:1]) + x.Sel.Name[1:]
			p.params[n] = true
			return n, nil
		}
		return "", fmt.Errorf("unsupported selector %v", x.Sel.Name)
	case *ast.BasicLit:
		if x.Kind == token.INT {
			return fmt.Sprintf("((%s : Nat) : α)", x.Value), nil
		}
		return "", fmt.Errorf("unsupported literal %s", x.Value)
	case *ast.CallExpr:
		sel, ok := x.Fun.(*ast.SelectorExpr)
		if !ok {
			return "", fmt.Errorf("unsupported call")
		}
		recv, err := p.expr(sel.X)
		if err != nil {
			return "", err
		}
		name := sel.Sel.Name
		if c07Conversions[name] && len(x.Args) == 0 {
			return recv, nil
		}
		ar, ok := c07VecMethods[name]
		if !ok || ar != len(x.Args) {
			return "", fmt.Errorf("method %s/%d is not in the vector table", name, len(x.Args))
		}
		if ar == 0 {
			return fmt.Sprintf("(%s).%s", recv, name), nil
		}
		a, err := p.expr(x.Args[0])
		if err != nil {
			return "", err
		}
		return fmt.Sprintf("((%s).%s (%s))", recv, name, a), nil
	}
	return "", fmt.Errorf("unsupported expression %T", e)
}

func c07FindFunc(f *ast.File, name string) *ast.FuncDecl {
	for _, d := range f.Decls {
		if fd, ok := d.(*ast.FuncDecl); ok && fd.Recv == nil && fd.Name.Name == name {
			return fd
		}
	}
	return nil
}

func c07IsCall(e ast.Expr, recv, method string, arg string) bool {
	c, ok := e.(*ast.CallExpr)
	if !ok {
		return false
	}
	s, ok := c.Fun.(*ast.SelectorExpr)
	if !ok || s.Sel.Name != method {
		return false
	}
	if id, ok := s.X.(*ast.Ident); !ok || id.Name != recv {
		return false
	}
	if arg == "" {
		return len(c.Args) == 0
	}
	if len(c.Args) != 1 {
		return false
	}
	a, ok := c.Args[0].(*ast.SelectorExpr)
	return ok && a.Sel.Name == arg
}

func c07Normals(repo, out string, args []string) error {
	fset := token.NewFileSet()
	// ---- write.go
	wf, err := parser.ParseFile(fset, filepath.Join(repo, "formats", "stl", "write.go"), nil, 0)
	if err != nil {
		return err
	}
	wm := c07FindFunc(wf, "WriteMesh")
	if wm == nil {
		return fmt.Errorf("formats/stl/write.go: func WriteMesh not found")
	}
	var avg string
	var avgLine int
	var avgErr error
	ast.Inspect(wm.Body, func(n ast.Node) bool {
		blk, ok := n.(*ast.BlockStmt)
		if !ok || avg != "" || avgErr != nil {
			return true
		}
		bound := map[string]ast.Expr{}
		for _, st := range blk.List {
			as, ok := st.(*ast.AssignStmt)
			if !ok || len(as.Lhs) != 1 || len(as.Rhs) != 1 {
				continue
			}
			id, ok := as.Lhs[0].(*ast.Ident)
			if !ok {
				continue
			}
			if id.Name == "n" && as.Tok == token.DEFINE {
				for k, m := range map[string]string{"v1": "P1Vec3Attr", "v2": "P2Vec3Attr", "v3": "P3Vec3Attr"} {
					if b, ok := bound[k]; !ok || !c07IsCall(b, "tri", m, "NormalAttribute") {
						avgErr = fmt.Errorf("write.go:%d: %s is not bound to tri.%s(modeling.NormalAttribute) in the block of `n :=`", fset.Position(as.Pos()).Line, k, m)
						return false
					}
				}
				top, ok := as.Rhs[0].(*ast.CallExpr)
				if !ok {
					avgErr = fmt.Errorf("write.go: `n :=` is not a call chain")
					return false
				}
				if s, ok := top.Fun.(*ast.SelectorExpr); !ok || s.Sel.Name != "ToFloat32" {
					avgErr = fmt.Errorf("write.go: `n := …` does not end in .ToFloat32()")
					return false
				}
				p := &c07Printer{params: map[string]bool{}}
				e, err := p.expr(as.Rhs[0])
				if err != nil {
					avgErr = fmt.Errorf("write.go:%d: %v", fset.Position(as.Pos()).Line, err)
					return false
				}
				ps := []string{}
				for k := range p.params {
					ps = append(ps, k)
				}
				sort.Strings(ps)
				if strings.Join(ps, " ") != "v1 v2 v3" {
					avgErr = fmt.Errorf("write.go: free variables of the normal chain are %v, expected v1 v2 v3", ps)
					return false
				}
				avg, avgLine = e, fset.Position(as.Pos()).Line
				return false
			}
			bound[id.Name] = as.Rhs[0]
		}
		return true
	})
	if avgErr != nil {
		return avgErr
	}
	if avg == "" {
		return fmt.Errorf("formats/stl/write.go: `n := <chain>.ToFloat32()` not found in WriteMesh")
	}
	// ---- read.go
	rf, err := parser.ParseFile(fset, filepath.Join(repo, "formats", "stl", "read.go"), nil, 0)
	if err != nil {
		return err
	}
	rm := c07FindFunc(rf, "ReadMesh")
	if rm == nil {
		return fmt.Errorf("formats/stl/read.go: func ReadMesh not found")
	}
	var flat string
	var flatLine int
	var flatErr error
	ast.Inspect(rm.Body, func(n ast.Node) bool {
		is, ok := n.(*ast.IfStmt)
		if !ok || flat != "" || flatErr != nil {
			return true
		}
		// if tri.Normal.Zero() { normal = <chain> } else { normalExists = true; normal = tri.Normal.Float64() }
		c, ok := is.Cond.(*ast.CallExpr)
		if !ok {
			return true
		}
		s, ok := c.Fun.(*ast.SelectorExpr)
		if !ok || s.Sel.Name != "Zero" || len(c.Args) != 0 {
			return true
		}
		if sx, ok := s.X.(*ast.SelectorExpr); !ok || sx.Sel.Name != "Normal" {
			return true
		}
		if len(is.Body.List) != 1 {
			flatErr = fmt.Errorf("read.go:%d: the zero-normal branch is not a single assignment", fset.Position(is.Pos()).Line)
			return false
		}
		as, ok := is.Body.List[0].(*ast.AssignStmt)
		if !ok || len(as.Lhs) != 1 || as.Tok != token.ASSIGN {
			flatErr = fmt.Errorf("read.go:%d: the zero-normal branch is not `normal = …`", fset.Position(is.Pos()).Line)
			return false
		}
		if id, ok := as.Lhs[0].(*ast.Ident); !ok || id.Name != "normal" {
			flatErr = fmt.Errorf("read.go:%d: the zero-normal branch does not assign `normal`", fset.Position(is.Pos()).Line)
			return false
		}
		eb, ok := is.Else.(*ast.BlockStmt)
		if !ok || len(eb.List) != 2 {
			flatErr = fmt.Errorf("read.go:%d: else branch is not `normalExists = true; normal = tri.Normal.Float64()`", fset.Position(is.Pos()).Line)
			return false
		}
		e2, ok := eb.List[1].(*ast.AssignStmt)
		if !ok || len(e2.Rhs) != 1 {
			flatErr = fmt.Errorf("read.go: else branch shape")
			return false
		}
		pe := &c07Printer{params: map[string]bool{}}
		if es, err := pe.expr(e2.Rhs[0]); err != nil || es != "normal" {
			flatErr = fmt.Errorf("read.go:%d: else branch does not assign tri.Normal.Float64() (got %q, %v)", fset.Position(e2.Pos()).Line, es, err)
			return false
		}
		p := &c07Printer{params: map[string]bool{}}
		e, err := p.expr(as.Rhs[0])
		if err != nil {
			flatErr = fmt.Errorf("read.go:%d: %v", fset.Position(as.Pos()).Line, err)
			return false
		}
		ps := []string{}
		for k := range p.params {
			ps = append(ps, k)
		}
		sort.Strings(ps)
		if strings.Join(ps, " ") != "vertex1 vertex2 vertex3" {
			flatErr = fmt.Errorf("read.go: free variables of the flat-normal chain are %v, expected vertex1 vertex2 vertex3", ps)
			return false
		}
		flat, flatLine = e, fset.Position(as.Pos()).Line
		return false
	})
	if flatErr != nil {
		return flatErr
	}
	if flat == "" {
		return fmt.Errorf("formats/stl/read.go: `if tri.Normal.Zero() { normal = … }` not found in ReadMesh")
	}
	var sb strings.Builder
	sb.WriteString("/-\n  GENERATED by /verif/go/facts (mode c07.normals) from /repo/formats/stl/write.go and read.go.\n  Do not edit: regenerated by ./check C07 before every build.\n-/\n")
	sb.WriteString("import PolyVerif.Model.Vec\n\nnamespace PolyVerif.Gen.StlNormals\nopen PolyVerif\n\nvariable {α : Type} [Scalar α]\n\n")
	fmt.Fprintf(&sb, "/-- formats/stl/write.go:%d  `n := …` in WriteMesh (v1, v2, v3 = tri.P1/P2/P3Vec3Attr(NormalAttribute)); the\n    result is then narrowed by `.ToFloat32()` -/\n", avgLine)
	fmt.Fprintf(&sb, "def avgNormal (v1 v2 v3 : V3 α) : V3 α :=\n  %s\n\n", avg)
	fmt.Fprintf(&sb, "/-- formats/stl/read.go:%d  `normal = …` in the `tri.Normal.Zero()` branch of ReadMesh\n    (vertexK = tri.VertexK.Float64()); the other branch assigns `tri.Normal.Float64()` -/\n", flatLine)
	fmt.Fprintf(&sb, "def flatNormal (vertex1 vertex2 vertex3 : V3 α) : V3 α :=\n  %s\n\n", flat)
	sb.WriteString("end PolyVerif.Gen.StlNormals\n")
	return os.WriteFile(out, []byte(sb.String()), 0o644)
}
