// Engine F, property C19: the closure-building glue of math/sdf/operators.go (Union, Intersect) and math/sdf/line.go
// (VarryingThicknessLine) — variadic functions with loops over slices of closures, outside the arithmetic translator's
// subset — read from the current tree with go/parser + go/ast and written as terms of the statement language of
// PolyVerif/Model/SdfOpsIR.lean (PolyVerif/Gen/SdfOpsShape.lean).  Props/C19Src.lean proves the hand models equal the
// interpretation of these terms.
//
// A statement that is not exactly one of the recognised forms is an error — the extractor never guesses.
package main

import (
	"bytes"
	"fmt"
	"go/ast"
	"go/parser"
	"go/printer"
	"go/token"
	"os"
	"path/filepath"
	"strconv"
	"strings"
)

func init() { modes["c19.ops"] = c19Ops }

func c19Str(fset *token.FileSet, n ast.Node) string {
	var b bytes.Buffer
	printer.Fprint(&b, fset, n)
	return strings.Join(strings.Fields(b.String()), " ")
}

func c19Func(f *ast.File, name string) *ast.FuncDecl {
	for _, d := range f.Decls {
		if fd, ok := d.(*ast.FuncDecl); ok && fd.Recv == nil && fd.Name.Name == name {
			return fd
		}
	}
	return nil
}

func c19Int(e ast.Expr) (int, bool) {
	l, ok := e.(*ast.BasicLit)
	if !ok || l.Kind != token.INT {
		return 0, false
	}
	n, err := strconv.Atoi(l.Value)
	return n, err == nil
}

// `len(name)`
func c19IsLen(e ast.Expr, name string) bool {
	c, ok := e.(*ast.CallExpr)
	if !ok || len(c.Args) != 1 || c.Ellipsis.IsValid() {
		return false
	}
	fn, ok := c.Fun.(*ast.Ident)
	if !ok || fn.Name != "len" {
		return false
	}
	a, ok := c.Args[0].(*ast.Ident)
	return ok && a.Name == name
}

func c19Ident(e ast.Expr, name string) bool {
	id, ok := e.(*ast.Ident)
	return ok && id.Name == name
}

// `math.Min` / `math.Max`
func c19MathOp(e ast.Expr) (string, bool) {
	s, ok := e.(*ast.SelectorExpr)
	if !ok || !c19Ident(s.X, "math") {
		return "", false
	}
	switch s.Sel.Name {
	case "Min":
		return ".min", true
	case "Max":
		return ".max", true
	}
	return "", false
}

// `name[<int literal>]`
func c19IndexLit(e ast.Expr, name string) (int, bool) {
	ix, ok := e.(*ast.IndexExpr)
	if !ok || !c19Ident(ix.X, name) {
		return 0, false
	}
	return c19Int(ix.Index)
}

// `f(arg)` with identifiers f, arg
func c19CallIdent(e ast.Expr, f, arg string) bool {
	c, ok := e.(*ast.CallExpr)
	return ok && len(c.Args) == 1 && !c.Ellipsis.IsValid() && c19Ident(c.Fun, f) && c19Ident(c.Args[0], arg)
}

// `x := e` (one name, one value); returns the name and the value
func c19Define(s ast.Stmt) (string, ast.Expr, bool) {
	a, ok := s.(*ast.AssignStmt)
	if !ok || a.Tok != token.DEFINE || len(a.Lhs) != 1 || len(a.Rhs) != 1 {
		return "", nil, false
	}
	id, ok := a.Lhs[0].(*ast.Ident)
	if !ok {
		return "", nil, false
	}
	return id.Name, a.Rhs[0], true
}

// a closure `func(v vector3.Float64) float64 { … }`: returns the parameter name and the body
func c19Closure(e ast.Expr) (string, *ast.BlockStmt, bool) {
	fl, ok := e.(*ast.FuncLit)
	if !ok || fl.Type.Params == nil || len(fl.Type.Params.List) != 1 || len(fl.Type.Params.List[0].Names) != 1 ||
		fl.Type.Results == nil || len(fl.Type.Results.List) != 1 {
		return "", nil, false
	}
	return fl.Type.Params.List[0].Names[0].Name, fl.Body, true
}

// `for i := S; i < len(slice); i++ { body }`: returns i, S, body
func c19For(s ast.Stmt, slice string) (string, int, *ast.BlockStmt, bool) {
	fs, ok := s.(*ast.ForStmt)
	if !ok || fs.Init == nil || fs.Cond == nil || fs.Post == nil {
		return "", 0, nil, false
	}
	iv, init, ok := c19Define(fs.Init)
	if !ok {
		return "", 0, nil, false
	}
	start, ok := c19Int(init)
	if !ok {
		return "", 0, nil, false
	}
	cond, ok := fs.Cond.(*ast.BinaryExpr)
	if !ok || cond.Op != token.LSS || !c19Ident(cond.X, iv) || !c19IsLen(cond.Y, slice) {
		return "", 0, nil, false
	}
	post, ok := fs.Post.(*ast.IncDecStmt)
	if !ok || post.Tok != token.INC || !c19Ident(post.X, iv) {
		return "", 0, nil, false
	}
	return iv, start, fs.Body, true
}

// the variadic combinators of operators.go
func c19Variadic(fset *token.FileSet, f *ast.File, name string) (string, int, error) {
	fd := c19Func(f, name)
	if fd == nil {
		return "", 0, fmt.Errorf("operators.go: func %s not found", name)
	}
	at := func(n ast.Node) string { return fmt.Sprintf("operators.go:%d", fset.Position(n.Pos()).Line) }
	ps := fd.Type.Params.List
	if len(ps) != 1 || len(ps[0].Names) != 1 {
		return "", 0, fmt.Errorf("%s: %s: expected one variadic parameter", at(fd), name)
	}
	if _, ok := ps[0].Type.(*ast.Ellipsis); !ok {
		return "", 0, fmt.Errorf("%s: %s: parameter is not variadic", at(fd), name)
	}
	fields := ps[0].Names[0].Name
	var out []string
	returned := false
	for _, st := range fd.Body.List {
		if returned {
			return "", 0, fmt.Errorf("%s: %s: statement after the final return", at(st), name)
		}
		switch s := st.(type) {
		case *ast.IfStmt:
			cond, ok := s.Cond.(*ast.BinaryExpr)
			if s.Init != nil || s.Else != nil || !ok || cond.Op != token.EQL || !c19IsLen(cond.X, fields) {
				return "", 0, fmt.Errorf("%s: %s: unrecognised if: %s", at(s), name, c19Str(fset, s.Cond))
			}
			k, ok := c19Int(cond.Y)
			if !ok {
				return "", 0, fmt.Errorf("%s: %s: length test against a non-literal", at(s), name)
			}
			body := s.Body.List
			switch {
			case len(body) == 1:
				if es, ok := body[0].(*ast.ExprStmt); ok {
					if c, ok := es.X.(*ast.CallExpr); ok && c19Ident(c.Fun, "panic") {
						out = append(out, fmt.Sprintf(".panicIfLen %d", k))
						continue
					}
				}
				if rs, ok := body[0].(*ast.ReturnStmt); ok && len(rs.Results) == 1 {
					if j, ok := c19IndexLit(rs.Results[0], fields); ok {
						out = append(out, fmt.Sprintf(".retFieldIfLen %d %d", k, j))
						continue
					}
				}
				return "", 0, fmt.Errorf("%s: %s: unrecognised if body: %s", at(s), name, c19Str(fset, s.Body))
			case len(body) == 3:
				an, ae, ok1 := c19Define(body[0])
				bn, be, ok2 := c19Define(body[1])
				rs, ok3 := body[2].(*ast.ReturnStmt)
				if !ok1 || !ok2 || !ok3 || len(rs.Results) != 1 || an == bn {
					return "", 0, fmt.Errorf("%s: %s: unrecognised if body: %s", at(s), name, c19Str(fset, s.Body))
				}
				i, oki := c19IndexLit(ae, fields)
				j, okj := c19IndexLit(be, fields)
				v, cb, okc := c19Closure(rs.Results[0])
				if !oki || !okj || !okc || len(cb.List) != 1 {
					return "", 0, fmt.Errorf("%s: %s: unrecognised pair case: %s", at(s), name, c19Str(fset, s.Body))
				}
				cr, ok := cb.List[0].(*ast.ReturnStmt)
				if !ok || len(cr.Results) != 1 {
					return "", 0, fmt.Errorf("%s: %s: unrecognised pair closure", at(s), name)
				}
				call, ok := cr.Results[0].(*ast.CallExpr)
				if !ok || len(call.Args) != 2 {
					return "", 0, fmt.Errorf("%s: %s: unrecognised pair closure", at(s), name)
				}
				op, ok := c19MathOp(call.Fun)
				if !ok || !c19CallIdent(call.Args[0], an, v) || !c19CallIdent(call.Args[1], bn, v) {
					return "", 0, fmt.Errorf("%s: %s: unrecognised pair closure: %s", at(s), name, c19Str(fset, cr))
				}
				out = append(out, fmt.Sprintf(".retPairIfLen %d %d %d %s", k, i, j, op))
				continue
			default:
				return "", 0, fmt.Errorf("%s: %s: unrecognised if body: %s", at(s), name, c19Str(fset, s.Body))
			}
		case *ast.ReturnStmt:
			if len(s.Results) != 1 {
				return "", 0, fmt.Errorf("%s: %s: unrecognised return", at(s), name)
			}
			v, cb, ok := c19Closure(s.Results[0])
			if !ok || len(cb.List) != 3 {
				return "", 0, fmt.Errorf("%s: %s: unrecognised final closure", at(s), name)
			}
			// acc := fields[J](v)
			acc, ae, ok := c19Define(cb.List[0])
			if !ok {
				return "", 0, fmt.Errorf("%s: %s: unrecognised accumulator init", at(cb.List[0]), name)
			}
			ic, ok := ae.(*ast.CallExpr)
			if !ok || len(ic.Args) != 1 || !c19Ident(ic.Args[0], v) {
				return "", 0, fmt.Errorf("%s: %s: unrecognised accumulator init: %s", at(cb.List[0]), name, c19Str(fset, ae))
			}
			init, ok := c19IndexLit(ic.Fun, fields)
			if !ok {
				return "", 0, fmt.Errorf("%s: %s: unrecognised accumulator init: %s", at(cb.List[0]), name, c19Str(fset, ae))
			}
			// for i := S; i < len(fields); i++ { acc = math.OP(acc, fields[i](v)) }
			iv, start, fb, ok := c19For(cb.List[1], fields)
			if !ok || len(fb.List) != 1 {
				return "", 0, fmt.Errorf("%s: %s: unrecognised loop", at(cb.List[1]), name)
			}
			as, ok := fb.List[0].(*ast.AssignStmt)
			if !ok || as.Tok != token.ASSIGN || len(as.Lhs) != 1 || len(as.Rhs) != 1 || !c19Ident(as.Lhs[0], acc) {
				return "", 0, fmt.Errorf("%s: %s: unrecognised loop body", at(fb), name)
			}
			call, ok := as.Rhs[0].(*ast.CallExpr)
			if !ok || len(call.Args) != 2 || !c19Ident(call.Args[0], acc) {
				return "", 0, fmt.Errorf("%s: %s: unrecognised loop body: %s", at(fb), name, c19Str(fset, as))
			}
			op, ok := c19MathOp(call.Fun)
			if !ok {
				return "", 0, fmt.Errorf("%s: %s: unrecognised loop operator: %s", at(fb), name, c19Str(fset, call.Fun))
			}
			fc, ok := call.Args[1].(*ast.CallExpr)
			if !ok || len(fc.Args) != 1 || !c19Ident(fc.Args[0], v) {
				return "", 0, fmt.Errorf("%s: %s: unrecognised loop operand: %s", at(fb), name, c19Str(fset, call.Args[1]))
			}
			fix, ok := fc.Fun.(*ast.IndexExpr)
			if !ok || !c19Ident(fix.X, fields) || !c19Ident(fix.Index, iv) {
				return "", 0, fmt.Errorf("%s: %s: unrecognised loop operand: %s", at(fb), name, c19Str(fset, call.Args[1]))
			}
			// return acc
			rr, ok := cb.List[2].(*ast.ReturnStmt)
			if !ok || len(rr.Results) != 1 || !c19Ident(rr.Results[0], acc) {
				return "", 0, fmt.Errorf("%s: %s: closure does not return the accumulator", at(cb.List[2]), name)
			}
			out = append(out, fmt.Sprintf(".retFold %d %d %s", init, start, op))
			returned = true
		default:
			return "", 0, fmt.Errorf("%s: %s: unrecognised statement: %s", at(st), name, c19Str(fset, st))
		}
	}
	if !returned {
		return "", 0, fmt.Errorf("%s: %s: no final return", at(fd), name)
	}
	return "[" + strings.Join(out, ", ") + "]", fset.Position(fd.Pos()).Line, nil
}

// VarryingThicknessLine of line.go
func c19VarLine(fset *token.FileSet, f *ast.File) (string, int, error) {
	const name = "VarryingThicknessLine"
	fd := c19Func(f, name)
	if fd == nil {
		return "", 0, fmt.Errorf("line.go: func %s not found", name)
	}
	at := func(n ast.Node) string { return fmt.Sprintf("line.go:%d", fset.Position(n.Pos()).Line) }
	ps := fd.Type.Params.List
	if len(ps) != 1 || len(ps[0].Names) != 1 {
		return "", 0, fmt.Errorf("%s: expected one parameter", at(fd))
	}
	pts := ps[0].Names[0].Name
	b := fd.Body.List
	if len(b) != 4 {
		return "", 0, fmt.Errorf("%s: expected 4 statements, found %d", at(fd), len(b))
	}
	// if len(pts) < K { panic(…) }
	is, ok := b[0].(*ast.IfStmt)
	if !ok || is.Init != nil || is.Else != nil || len(is.Body.List) != 1 {
		return "", 0, fmt.Errorf("%s: unrecognised guard", at(b[0]))
	}
	cond, ok := is.Cond.(*ast.BinaryExpr)
	if !ok || cond.Op != token.LSS || !c19IsLen(cond.X, pts) {
		return "", 0, fmt.Errorf("%s: unrecognised guard: %s", at(is), c19Str(fset, is.Cond))
	}
	minLen, ok := c19Int(cond.Y)
	if !ok {
		return "", 0, fmt.Errorf("%s: guard against a non-literal", at(is))
	}
	es, ok := is.Body.List[0].(*ast.ExprStmt)
	if !ok {
		return "", 0, fmt.Errorf("%s: guard body is not a panic", at(is))
	}
	if c, ok := es.X.(*ast.CallExpr); !ok || !c19Ident(c.Fun, "panic") {
		return "", 0, fmt.Errorf("%s: guard body is not a panic", at(is))
	}
	// sdfs := make(T, 0, cap)
	acc, me, ok := c19Define(b[1])
	if !ok {
		return "", 0, fmt.Errorf("%s: unrecognised slice allocation", at(b[1]))
	}
	mc, ok := me.(*ast.CallExpr)
	if !ok || !c19Ident(mc.Fun, "make") || len(mc.Args) < 2 {
		return "", 0, fmt.Errorf("%s: unrecognised slice allocation: %s", at(b[1]), c19Str(fset, me))
	}
	if n, ok := c19Int(mc.Args[1]); !ok || n != 0 {
		return "", 0, fmt.Errorf("%s: slice allocated with non-zero length: %s", at(b[1]), c19Str(fset, me))
	}
	// for i := S; i < len(pts); i++ { start := pts[i-A]; end := pts[i-B]; acc = append(acc, RoundedCone(…)) }
	iv, start, fb, ok := c19For(b[2], pts)
	if !ok || len(fb.List) != 3 {
		return "", 0, fmt.Errorf("%s: unrecognised loop", at(b[2]))
	}
	back := func(e ast.Expr) (int, bool) { // pts[i] or pts[i-K]
		ix, ok := e.(*ast.IndexExpr)
		if !ok || !c19Ident(ix.X, pts) {
			return 0, false
		}
		if c19Ident(ix.Index, iv) {
			return 0, true
		}
		be, ok := ix.Index.(*ast.BinaryExpr)
		if !ok || be.Op != token.SUB || !c19Ident(be.X, iv) {
			return 0, false
		}
		return c19Int(be.Y)
	}
	sn, se, ok1 := c19Define(fb.List[0])
	en, ee, ok2 := c19Define(fb.List[1])
	if !ok1 || !ok2 || sn == en {
		return "", 0, fmt.Errorf("%s: unrecognised loop body", at(fb))
	}
	sb, ok1 := back(se)
	eb, ok2 := back(ee)
	if !ok1 || !ok2 {
		return "", 0, fmt.Errorf("%s: unrecognised point selection: %s ; %s", at(fb), c19Str(fset, se), c19Str(fset, ee))
	}
	as, ok := fb.List[2].(*ast.AssignStmt)
	if !ok || as.Tok != token.ASSIGN || len(as.Lhs) != 1 || len(as.Rhs) != 1 || !c19Ident(as.Lhs[0], acc) {
		return "", 0, fmt.Errorf("%s: unrecognised append", at(fb.List[2]))
	}
	ap, ok := as.Rhs[0].(*ast.CallExpr)
	if !ok || !c19Ident(ap.Fun, "append") || len(ap.Args) != 2 || ap.Ellipsis.IsValid() || !c19Ident(ap.Args[0], acc) {
		return "", 0, fmt.Errorf("%s: unrecognised append: %s", at(fb.List[2]), c19Str(fset, as))
	}
	rc, ok := ap.Args[1].(*ast.CallExpr)
	if !ok || !c19Ident(rc.Fun, "RoundedCone") || len(rc.Args) != 4 {
		return "", 0, fmt.Errorf("%s: appended value is not RoundedCone(a, b, r1, r2): %s", at(fb.List[2]), c19Str(fset, ap.Args[1]))
	}
	sel := func(e ast.Expr, field string) (string, bool) { // start.Field → true, end.Field → false
		s, ok := e.(*ast.SelectorExpr)
		if !ok || s.Sel.Name != field {
			return "", false
		}
		if c19Ident(s.X, sn) {
			return "true", true
		}
		if c19Ident(s.X, en) {
			return "false", true
		}
		return "", false
	}
	a, oka := sel(rc.Args[0], "Point")
	bb, okb := sel(rc.Args[1], "Point")
	r1, okc := sel(rc.Args[2], "Radius")
	r2, okd := sel(rc.Args[3], "Radius")
	if !oka || !okb || !okc || !okd {
		return "", 0, fmt.Errorf("%s: unrecognised RoundedCone arguments: %s", at(rc), c19Str(fset, rc))
	}
	// return Union(acc...)
	rs, ok := b[3].(*ast.ReturnStmt)
	if !ok || len(rs.Results) != 1 {
		return "", 0, fmt.Errorf("%s: unrecognised return", at(b[3]))
	}
	uc, ok := rs.Results[0].(*ast.CallExpr)
	if !ok || !c19Ident(uc.Fun, "Union") || len(uc.Args) != 1 || !uc.Ellipsis.IsValid() || !c19Ident(uc.Args[0], acc) {
		return "", 0, fmt.Errorf("%s: does not return Union(%s...): %s", at(b[3]), acc, c19Str(fset, rs))
	}
	return fmt.Sprintf("{ minLen := %d, loopStart := %d, startBack := %d, endBack := %d, aFromStart := %s, bFromStart := %s, r1FromStart := %s, r2FromStart := %s }",
		minLen, start, sb, eb, a, bb, r1, r2), fset.Position(fd.Pos()).Line, nil
}

func c19Ops(repo, out string, args []string) error {
	fset := token.NewFileSet()
	ops, err := parser.ParseFile(fset, filepath.Join(repo, "math", "sdf", "operators.go"), nil, 0)
	if err != nil {
		return err
	}
	line, err := parser.ParseFile(fset, filepath.Join(repo, "math", "sdf", "line.go"), nil, 0)
	if err != nil {
		return err
	}
	var b strings.Builder
	b.WriteString("/-\n  GENERATED by /verif/go/facts (mode c19.ops) from /repo/math/sdf/operators.go and line.go.\n  Do not edit: regenerated by ./check C19 before every build.\n-/\nimport PolyVerif.Model.SdfOpsIR\n\nnamespace PolyVerif.Gen.SdfOpsShape\nopen PolyVerif.SdfOpsIR\n\n")
	for _, fn := range []struct{ goName, leanName string }{{"Union", "union"}, {"Intersect", "intersect"}} {
		term, ln, err := c19Variadic(fset, ops, fn.goName)
		if err != nil {
			return err
		}
		fmt.Fprintf(&b, "/-- math/sdf/operators.go:%d `%s` -/\ndef %s : List Stmt :=\n  %s\n\n", ln, fn.goName, fn.leanName, term)
	}
	term, ln, err := c19VarLine(fset, line)
	if err != nil {
		return err
	}
	fmt.Fprintf(&b, "/-- math/sdf/line.go:%d `VarryingThicknessLine` -/\ndef varLine : VarLineShape :=\n  %s\n\n", ln, term)
	b.WriteString("end PolyVerif.Gen.SdfOpsShape\n")
	return os.WriteFile(out, []byte(b.String()), 0o644)
}
