// Engine F, property C09: marching-cubes tables and the literal index glue of
// marchFloat1BlockPosition, read from the current tree with go/parser + go/ast
// and written as Lean data (PolyVerif/Gen/MarchTable.lean).
//
// Extracted (every shape that is not exactly the expected one is an error — the
// extractor never guesses):
//
//	table.go   triangulation (256 rows), cornerIndexAFromEdge, cornerIndexBFromEdge
//	canvas.go  marchingSectionSize; inside marchFloat1BlockPosition:
//	           cubeDataIndexIncrements  (corner offsets used for the sample lookup)
//	           cubeCornerPositions      (corner offsets used for the vertex positions)
//	           cubeDataBlockPositions   (per corner: which of x/y/zBlockPosition it uses)
//	           cubeCornersExistence[i] = cubeCorners[i] < cutoff       -> list of i (any other test: error)
//	           lookupIndex |= m  under  if cubeCornersExistence[i]   -> (i, m) pairs
//	           newIndex.X/Y/Z = k under  if pos.X/Y/Z != blockPosition.X/Y/Z -> k per axis
//	           the terminator constant of the triangle loop (triangulation[..][i] != -1) and its stride
package main

import (
	"fmt"
	"go/ast"
	"go/parser"
	"go/token"
	"os"
	"path/filepath"
	"strconv"
	"strings"
)

func init() { modes["c09.tables"] = c09Tables }

func c09Int(e ast.Expr) (int, error) {
	switch v := e.(type) {
	case *ast.BasicLit:
		if v.Kind != token.INT {
			return 0, fmt.Errorf("not an int literal: %s", v.Value)
		}
		n, err := strconv.ParseInt(v.Value, 0, 64)
		return int(n), err
	case *ast.UnaryExpr:
		if v.Op == token.SUB {
			n, err := c09Int(v.X)
			return -n, err
		}
		if v.Op == token.ADD {
			return c09Int(v.X)
		}
	case *ast.ParenExpr:
		return c09Int(v.X)
	}
	return 0, fmt.Errorf("unsupported constant expression %T", e)
}

func c09IntList(e ast.Expr) ([]int, error) {
	cl, ok := e.(*ast.CompositeLit)
	if !ok {
		return nil, fmt.Errorf("expected composite literal, got %T", e)
	}
	out := []int{}
	for _, el := range cl.Elts {
		if _, isKV := el.(*ast.KeyValueExpr); isKV {
			return nil, fmt.Errorf("keyed element in int table")
		}
		n, err := c09Int(el)
		if err != nil {
			return nil, err
		}
		out = append(out, n)
	}
	return out, nil
}

func c09FindVar(f *ast.File, name string) ast.Expr {
	for _, d := range f.Decls {
		gd, ok := d.(*ast.GenDecl)
		if !ok || (gd.Tok != token.VAR && gd.Tok != token.CONST) {
			continue
		}
		for _, s := range gd.Specs {
			vs := s.(*ast.ValueSpec)
			for i, n := range vs.Names {
				if n.Name == name && i < len(vs.Values) {
					return vs.Values[i]
				}
			}
		}
	}
	return nil
}

func c09Ident(e ast.Expr) string {
	switch v := e.(type) {
	case *ast.Ident:
		return v.Name
	case *ast.SelectorExpr:
		return c09Ident(v.X) + "." + v.Sel.Name
	}
	return ""
}

// offset expression of cubeCornerPositions: `xf` -> ("xf",0), `xf+1` -> ("xf",1)
func c09BasePlus(e ast.Expr) (string, int, error) {
	switch v := e.(type) {
	case *ast.Ident:
		return v.Name, 0, nil
	case *ast.BinaryExpr:
		if v.Op == token.ADD {
			id, ok := v.X.(*ast.Ident)
			if !ok {
				return "", 0, fmt.Errorf("corner position: lhs of + is %T", v.X)
			}
			n, err := c09Int(v.Y)
			return id.Name, n, err
		}
	}
	return "", 0, fmt.Errorf("corner position: unsupported expression %T", e)
}

func leanIntList(xs []int) string {
	p := make([]string, len(xs))
	for i, x := range xs {
		if x < 0 {
			p[i] = fmt.Sprintf("(%d)", x)
		} else {
			p[i] = strconv.Itoa(x)
		}
	}
	return "[" + strings.Join(p, ", ") + "]"
}

func c09Tables(repo, out string, args []string) error {
	fset := token.NewFileSet()
	dir := filepath.Join(repo, "modeling", "marching")
	tf, err := parser.ParseFile(fset, filepath.Join(dir, "table.go"), nil, 0)
	if err != nil {
		return err
	}
	cf, err := parser.ParseFile(fset, filepath.Join(dir, "canvas.go"), nil, 0)
	if err != nil {
		return err
	}

	// ---- table.go ---------------------------------------------------------
	triE := c09FindVar(tf, "triangulation")
	if triE == nil {
		return fmt.Errorf("table.go: var triangulation not found")
	}
	triCL, ok := triE.(*ast.CompositeLit)
	if !ok {
		return fmt.Errorf("triangulation is not a composite literal")
	}
	tri := [][]int{}
	for _, el := range triCL.Elts {
		if _, isKV := el.(*ast.KeyValueExpr); isKV {
			return fmt.Errorf("triangulation: keyed row")
		}
		row, err := c09IntList(el)
		if err != nil {
			return fmt.Errorf("triangulation row %d: %v", len(tri), err)
		}
		tri = append(tri, row)
	}
	var cornerA, cornerB []int
	for _, nm := range []string{"cornerIndexAFromEdge", "cornerIndexBFromEdge"} {
		e := c09FindVar(tf, nm)
		if e == nil {
			return fmt.Errorf("table.go: var %s not found", nm)
		}
		l, err := c09IntList(e)
		if err != nil {
			return fmt.Errorf("%s: %v", nm, err)
		}
		if nm == "cornerIndexAFromEdge" {
			cornerA = l
		} else {
			cornerB = l
		}
	}

	// ---- canvas.go --------------------------------------------------------
	secE := c09FindVar(cf, "marchingSectionSize")
	if secE == nil {
		return fmt.Errorf("canvas.go: const marchingSectionSize not found")
	}
	sectionSize, err := c09Int(secE)
	if err != nil {
		return fmt.Errorf("marchingSectionSize: %v", err)
	}
	var fn *ast.FuncDecl
	for _, d := range cf.Decls {
		if fd, ok := d.(*ast.FuncDecl); ok && fd.Name.Name == "marchFloat1BlockPosition" {
			fn = fd
		}
	}
	if fn == nil {
		return fmt.Errorf("canvas.go: func marchFloat1BlockPosition not found")
	}
	var increments, cornerPos, blockSel [][]int
	lookupBits := [][]int{}
	insideTests := []int{}
	neighbourIdx := map[string]int{}
	terminator, stride := 0, 0
	haveTerm := false
	var werr error
	fail := func(format string, a ...any) {
		if werr == nil {
			werr = fmt.Errorf(format, a...)
		}
	}
	ast.Inspect(fn.Body, func(n ast.Node) bool {
		switch s := n.(type) {
		case *ast.AssignStmt:
			if len(s.Lhs) != 1 || len(s.Rhs) != 1 {
				return true
			}
			name := c09Ident(s.Lhs[0])
			switch name {
			case "cubeDataIndexIncrements":
				cl, ok := s.Rhs[0].(*ast.CompositeLit)
				if !ok {
					fail("cubeDataIndexIncrements: not a literal")
					return false
				}
				for _, el := range cl.Elts {
					ecl, ok := el.(*ast.CompositeLit)
					if !ok || len(ecl.Elts) != 3 {
						fail("cubeDataIndexIncrements: element shape")
						return false
					}
					v := map[string]int{}
					for _, kv := range ecl.Elts {
						k, ok := kv.(*ast.KeyValueExpr)
						if !ok {
							fail("cubeDataIndexIncrements: unkeyed field")
							return false
						}
						x, err := c09Int(k.Value)
						if err != nil {
							fail("cubeDataIndexIncrements: %v", err)
							return false
						}
						v[c09Ident(k.Key)] = x
					}
					if len(v) != 3 {
						fail("cubeDataIndexIncrements: fields %v", v)
						return false
					}
					increments = append(increments, []int{v["X"], v["Y"], v["Z"]})
				}
			case "cubeCornerPositions":
				cl, ok := s.Rhs[0].(*ast.CompositeLit)
				if !ok {
					fail("cubeCornerPositions: not a literal")
					return false
				}
				for _, el := range cl.Elts {
					call, ok := el.(*ast.CallExpr)
					if !ok || c09Ident(call.Fun) != "vector3.New" || len(call.Args) != 3 {
						fail("cubeCornerPositions: element is not vector3.New(_,_,_)")
						return false
					}
					row := []int{}
					for i, a := range call.Args {
						b, k, err := c09BasePlus(a)
						if err != nil {
							fail("%v", err)
							return false
						}
						if b != []string{"xf", "yf", "zf"}[i] {
							fail("cubeCornerPositions: argument %d is based on %s", i, b)
							return false
						}
						row = append(row, k)
					}
					cornerPos = append(cornerPos, row)
				}
			case "cubeDataBlockPositions":
				cl, ok := s.Rhs[0].(*ast.CompositeLit)
				if !ok {
					fail("cubeDataBlockPositions: not a literal")
					return false
				}
				for _, el := range cl.Elts {
					if c09Ident(el) == "blockPosition" {
						blockSel = append(blockSel, []int{0, 0, 0})
						continue
					}
					ecl, ok := el.(*ast.CompositeLit)
					if !ok || len(ecl.Elts) != 3 {
						fail("cubeDataBlockPositions: element shape")
						return false
					}
					row := []int{-1, -1, -1}
					for _, kv := range ecl.Elts {
						k, ok := kv.(*ast.KeyValueExpr)
						if !ok {
							fail("cubeDataBlockPositions: unkeyed field")
							return false
						}
						ax := strings.Index("XYZ", c09Ident(k.Key))
						if ax < 0 || len(c09Ident(k.Key)) != 1 {
							fail("cubeDataBlockPositions: key %s", c09Ident(k.Key))
							return false
						}
						val := c09Ident(k.Value)
						lower := strings.ToLower("XYZ"[ax : ax+1])
						switch val {
						case "blockPosition." + "XYZ"[ax:ax+1]:
							row[ax] = 0
						case lower + "BlockPosition":
							row[ax] = 1
						default:
							fail("cubeDataBlockPositions: field %s = %s", c09Ident(k.Key), val)
							return false
						}
					}
					blockSel = append(blockSel, row)
				}
			case "":
				// cubeCornersExistence[i] = cubeCorners[i] < cutoff
				if ix, ok := s.Lhs[0].(*ast.IndexExpr); ok && c09Ident(ix.X) == "cubeCornersExistence" {
					i, err := c09Int(ix.Index)
					be, ok2 := s.Rhs[0].(*ast.BinaryExpr)
					if err != nil || !ok2 {
						fail("cubeCornersExistence[..]: unexpected assignment shape")
						return false
					}
					rx, ok3 := be.X.(*ast.IndexExpr)
					if !ok3 || c09Ident(rx.X) != "cubeCorners" || c09Ident(be.Y) != "cutoff" || be.Op != token.LSS {
						fail("cubeCornersExistence[%d]: expected `cubeCorners[%d] < cutoff` (inside = below the cutoff), found another test", i, i)
						return false
					}
					j, err := c09Int(rx.Index)
					if err != nil || j != i {
						fail("cubeCornersExistence[%d] tests cubeCorners[%d]", i, j)
						return false
					}
					insideTests = append(insideTests, i)
				}
			case "newIndex.X", "newIndex.Y", "newIndex.Z":
				if s.Tok == token.ASSIGN {
					k, err := c09Int(s.Rhs[0])
					if err != nil {
						fail("%s: %v", name, err)
						return false
					}
					if _, dup := neighbourIdx[name]; dup {
						fail("%s assigned twice", name)
						return false
					}
					neighbourIdx[name] = k
				}
			case "lookupIndex":
				if s.Tok == token.OR_ASSIGN {
					// handled at the enclosing if
				}
			}
		case *ast.IfStmt:
			// if cubeCornersExistence[i] { lookupIndex |= m }
			if ix, ok := s.Cond.(*ast.IndexExpr); ok && c09Ident(ix.X) == "cubeCornersExistence" && len(s.Body.List) == 1 && s.Else == nil {
				as, ok := s.Body.List[0].(*ast.AssignStmt)
				if ok && as.Tok == token.OR_ASSIGN && c09Ident(as.Lhs[0]) == "lookupIndex" {
					i, err1 := c09Int(ix.Index)
					m, err2 := c09Int(as.Rhs[0])
					if err1 != nil || err2 != nil {
						fail("lookupIndex bit: %v %v", err1, err2)
						return false
					}
					lookupBits = append(lookupBits, []int{i, m})
				}
			}
			// if pos.X != blockPosition.X { newIndex.X = k }   (condition shape is checked here)
			if be, ok := s.Cond.(*ast.BinaryExpr); ok && strings.HasPrefix(c09Ident(be.X), "pos.") {
				ax := strings.TrimPrefix(c09Ident(be.X), "pos.")
				if be.Op != token.NEQ || c09Ident(be.Y) != "blockPosition."+ax || len(s.Body.List) != 1 {
					fail("neighbour-index guard for axis %s has an unexpected shape", ax)
					return false
				}
				as, ok := s.Body.List[0].(*ast.AssignStmt)
				if !ok || c09Ident(as.Lhs[0]) != "newIndex."+ax {
					fail("neighbour-index guard for axis %s assigns something else", ax)
					return false
				}
			}
		case *ast.ForStmt:
			// for i := 0; triangulation[lookupIndex][i] != -1; i += 3
			if be, ok := s.Cond.(*ast.BinaryExpr); ok && be.Op == token.NEQ {
				if ix, ok := be.X.(*ast.IndexExpr); ok {
					if ix2, ok := ix.X.(*ast.IndexExpr); ok && c09Ident(ix2.X) == "triangulation" {
						t, err := c09Int(be.Y)
						if err != nil {
							fail("triangle loop terminator: %v", err)
							return false
						}
						terminator, haveTerm = t, true
						if as, ok := s.Post.(*ast.AssignStmt); ok && as.Tok == token.ADD_ASSIGN {
							stride, _ = c09Int(as.Rhs[0])
						}
					}
				}
			}
		}
		return true
	})
	if werr != nil {
		return werr
	}
	if len(increments) == 0 || len(cornerPos) == 0 || len(blockSel) == 0 || len(lookupBits) == 0 || !haveTerm || stride == 0 {
		return fmt.Errorf("marchFloat1BlockPosition: expected literals not found (increments %d, positions %d, blocks %d, bits %d, loop %v/%d)",
			len(increments), len(cornerPos), len(blockSel), len(lookupBits), haveTerm, stride)
	}
	for _, ax := range []string{"newIndex.X", "newIndex.Y", "newIndex.Z"} {
		if _, ok := neighbourIdx[ax]; !ok {
			return fmt.Errorf("marchFloat1BlockPosition: assignment %s = <const> not found", ax)
		}
	}

	// ---- emit ---------------------------------------------------------------
	var b strings.Builder
	b.WriteString("/- GENERATED by /verif/go/facts (mode c09.tables) from modeling/marching/{table.go,canvas.go}. DO NOT EDIT. -/\n")
	b.WriteString("namespace PolyVerif.Gen.March\n\n")
	// one definition per row: a single 256x16 literal of negative Int numerals exceeds the elaborator's default budget
	for i, row := range tri {
		fmt.Fprintf(&b, "def triRow%d : List Int := %s\n", i, leanIntList(row))
	}
	b.WriteString("\n/-- `triangulation` of table.go, row = case index -/\ndef triangulation : List (List Int) := [")
	for i := range tri {
		if i > 0 {
			b.WriteString(", ")
		}
		if i%16 == 0 {
			b.WriteString("\n  ")
		}
		fmt.Fprintf(&b, "triRow%d", i)
	}
	b.WriteString("]\n\n")
	fmt.Fprintf(&b, "def cornerIndexAFromEdge : List Nat := %s\n", leanIntList(cornerA))
	fmt.Fprintf(&b, "def cornerIndexBFromEdge : List Nat := %s\n\n", leanIntList(cornerB))
	for _, x := range append(append([]int{}, cornerA...), cornerB...) {
		if x < 0 {
			return fmt.Errorf("negative corner index in edge table")
		}
	}
	rows := func(name, doc string, m [][]int, typ string) {
		fmt.Fprintf(&b, "/-- %s -/\ndef %s : List (List %s) := [", doc, name, typ)
		for i, r := range m {
			if i > 0 {
				b.WriteString(", ")
			}
			b.WriteString(leanIntList(r))
		}
		b.WriteString("]\n")
	}
	rows("cubeDataIndexIncrements", "corner offsets used for the sample lookup (canvas.go)", increments, "Int")
	rows("cubeCornerPositions", "corner offsets used for vertex positions: `vector3.New(xf+dx, yf+dy, zf+dz)`", cornerPos, "Int")
	rows("cubeDataBlockPositions", "per corner and axis: 1 = uses x/y/zBlockPosition, 0 = uses blockPosition.X/Y/Z", blockSel, "Int")
	rows("lookupBits", "`if cubeCornersExistence[i] { lookupIndex |= m }` as [i, m]", lookupBits, "Int")
	fmt.Fprintf(&b, "/-- `newIndex.X/Y/Z = k` when the corner lives in the neighbouring block -/\ndef neighbourIndex : List Int := %s\n",
		leanIntList([]int{neighbourIdx["newIndex.X"], neighbourIdx["newIndex.Y"], neighbourIdx["newIndex.Z"]}))
	fmt.Fprintf(&b, "/-- corners `i` for which the code has `cubeCornersExistence[i] = cubeCorners[i] < cutoff` (any other test is an extraction error) -/\ndef insideTests : List Nat := %s\n", leanIntList(insideTests))
	fmt.Fprintf(&b, "def marchingSectionSize : Int := %d\n", sectionSize)
	fmt.Fprintf(&b, "/-- triangle loop: `for i := 0; triangulation[c][i] != terminator; i += stride` -/\ndef loopTerminator : Int := %d\ndef loopStride : Nat := %d\n", terminator, stride)
	b.WriteString("\nend PolyVerif.Gen.March\n")
	return os.WriteFile(out, []byte(b.String()), 0o644)
}
