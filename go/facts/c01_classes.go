// Engine F, property C01, second extractor: the SHARING SUMMARY of every exported function / method of package
// modeling (modeling/mesh.go) that returns a Mesh, derived from the source on every run.
//
// For each such function the extractor evaluates, flow-insensitively and through calls (callee summaries are computed by
// the same evaluator and substituted at the call site), where every component of the RETURNED mesh comes from:
//
//	components   topo, indices, materials, v1Data, v2Data, v3Data, v4Data
//	sources      recv i f    field f of the mesh-typed parameter i (0 = receiver), passed through unchanged (SHARED)
//	             elem i f    a slice stored in the map field f of mesh parameter i (m.v3Data[k], range over m.v3Data)
//	             caller j    the non-mesh parameter j, passed through unchanged (the caller's slice / map)
//	             celem j     an element of the non-mesh parameter j
//	             fresh       allocated in this call: make, new, composite literal, append onto a fresh-or-nil slice,
//	                         the result of a callee whose summary says fresh
//	             nil / val   the nil slice or map / a plain value (topology constants)
//	             unknown     anything else: dynamic dispatch, a callee that cannot be resolved, append onto memory
//	                         that is not fresh (THE ALIASING SHAPE: append(m.indices, …)), an unrecognised expression
//
// A component is a pair (obj, ent): the set of possible sources of the slice / map itself (union over all return
// statements and all assignments of the variables involved) and, for maps, the set of sources of everything stored
// into it.  Output: Lean data (Gen/C01Classes.lean).  Props/C01Classes.lean proves by `decide` over the complete table
// that every summary is the summary of one of the model's operation classes and equals the hand classification.
// Conservative: nothing is guessed; what the walker does not recognise is `unknown` and breaks the theorem by name.
package main

import (
	"fmt"
	"go/ast"
	"go/parser"
	"go/token"
	"os"
	"path/filepath"
	"sort"
	"strings"
)

func init() { modes["c01.classes"] = c01Classes }

var c01Fields = []string{"topology", "indices", "materials", "v1Data", "v2Data", "v3Data", "v4Data"}

func c01FieldIx(n string) int {
	for i, f := range c01Fields {
		if f == n {
			return i
		}
	}
	return -1
}

// a set of source atoms for the object and for what is stored into it
type c01Prov struct{ obj, ent map[string]bool }

func c01NewProv(atoms ...string) c01Prov {
	p := c01Prov{map[string]bool{}, map[string]bool{}}
	for _, a := range atoms {
		p.obj[a] = true
	}
	return p
}
func (p c01Prov) join(q c01Prov) {
	for a := range q.obj {
		p.obj[a] = true
	}
	for a := range q.ent {
		p.ent[a] = true
	}
}

type c01Mesh [7]c01Prov

func c01NewMesh() *c01Mesh {
	var m c01Mesh
	for i := range m {
		m[i] = c01NewProv()
	}
	return &m
}
func (m *c01Mesh) join(o *c01Mesh) {
	for i := range m {
		m[i].join(o[i])
	}
}

type c01Func struct {
	pkg    string
	decl   *ast.FuncDecl
	params []*ast.Object // index 0 = receiver (nil when none)
	isMesh []bool
	// results
	doneMesh  *c01Mesh
	doneSlice *c01Prov
	busy      bool
}

type c01World struct {
	fset  *token.FileSet
	funcs map[string][]*c01Func // by bare name (function or method)
	why   []string              // reasons recorded for `unknown`
}

func c01IsMeshType(pkg string, t ast.Expr) bool {
	switch v := t.(type) {
	case *ast.Ident:
		return pkg == "modeling" && v.Name == "Mesh"
	case *ast.SelectorExpr:
		x, ok := v.X.(*ast.Ident)
		return ok && x.Name == "modeling" && v.Sel.Name == "Mesh"
	}
	return false
}

// per-call evaluation context of one function body
type c01Ctx struct {
	w        *c01World
	fn       *c01Func
	defs     map[*ast.Object][]ast.Expr // every definition / assignment of a local
	stores   map[*ast.Object][]ast.Expr // everything stored INTO a local container: x[k] = e
	busyV    map[*ast.Object]bool
	rets     []ast.Expr
	nakedRes *ast.Object // (Mesh, error) functions: the named mesh result, when a naked return was seen
}

func (c *c01Ctx) unknown(why string, n ast.Node) string {
	pos := ""
	if n != nil {
		p := c.w.fset.Position(n.Pos())
		pos = fmt.Sprintf("%s:%d: ", filepath.Base(p.Filename), p.Line)
	}
	c.w.why = append(c.w.why, fmt.Sprintf("%s%s: %s", pos, c01DeclName(c.fn.decl), why))
	return "unknown"
}

func c01DeclName(d *ast.FuncDecl) string {
	if d.Recv != nil && len(d.Recv.List) == 1 {
		t := d.Recv.List[0].Type
		if s, ok := t.(*ast.StarExpr); ok {
			t = s.X
		}
		if ix, ok := t.(*ast.IndexExpr); ok {
			t = ix.X
		}
		if id, ok := t.(*ast.Ident); ok {
			return id.Name + "." + d.Name.Name
		}
	}
	return d.Name.Name
}

func (c *c01Ctx) paramIx(o *ast.Object) int {
	if o == nil {
		return -1
	}
	for i, p := range c.fn.params {
		if p == o {
			return i
		}
	}
	return -1
}

// collect definitions, stores and return statements (returns inside func literals are not returns of the function)
func (c *c01Ctx) collect(body *ast.BlockStmt) {
	var walk func(n ast.Node, inLit bool)
	walk = func(n ast.Node, inLit bool) {
		ast.Inspect(n, func(x ast.Node) bool {
			switch v := x.(type) {
			case *ast.FuncLit:
				if x != n {
					walk(v.Body, true)
					return false
				}
			case *ast.ReturnStmt:
				if !inLit {
					if c.w.returnsMeshErr(c.fn) {
						switch len(v.Results) {
						case 2: // the mesh; the error is not a component
							c.rets = append(c.rets, v.Results[0])
						case 0:
							// naked return: the named mesh result.  When it is never assigned it is the zero Mesh (the error path of the
							// transformers): it shares nothing and allocates nothing, so it is no result to classify
							var res *ast.Object
							if ns := c.fn.decl.Type.Results.List[0].Names; len(ns) == 1 {
								res = ns[0].Obj
							}
							if res == nil {
								c.rets = append(c.rets, nil)
							} else {
								c.nakedRes = res
							}
						default: // return f(x): both results from one call
							c.rets = append(c.rets, &ast.BadExpr{From: v.Pos()})
						}
					} else {
						c.rets = append(c.rets, v.Results...)
						if len(v.Results) == 0 {
							c.rets = append(c.rets, nil)
						}
					}
				}
			case *ast.AssignStmt:
				for i, l := range v.Lhs {
					var r ast.Expr
					if len(v.Rhs) == len(v.Lhs) {
						r = v.Rhs[i]
					} else {
						r = &ast.BadExpr{From: v.Rhs[0].Pos()} // multi-value call: unknown
					}
					if v.Tok != token.ASSIGN && v.Tok != token.DEFINE {
						continue // op= on an element or a number: no new slice / map value
					}
					switch lv := c01Unparen(l).(type) {
					case *ast.Ident:
						if lv.Obj != nil {
							c.defs[lv.Obj] = append(c.defs[lv.Obj], r)
						}
					case *ast.IndexExpr:
						if id, ok := c01Unparen(lv.X).(*ast.Ident); ok && id.Obj != nil {
							c.stores[id.Obj] = append(c.stores[id.Obj], r)
						}
					}
				}
			case *ast.RangeStmt:
				if id, ok := v.Value.(*ast.Ident); ok && id.Obj != nil {
					c.defs[id.Obj] = append(c.defs[id.Obj], c01Elem(v.X))
				}
			case *ast.DeclStmt:
				if gd, ok := v.Decl.(*ast.GenDecl); ok {
					for _, sp := range gd.Specs {
						if vs, ok := sp.(*ast.ValueSpec); ok {
							for i, nm := range vs.Names {
								if nm.Obj == nil {
									continue
								}
								if i < len(vs.Values) {
									c.defs[nm.Obj] = append(c.defs[nm.Obj], vs.Values[i])
								} else {
									c.defs[nm.Obj] = append(c.defs[nm.Obj], &ast.Ident{Name: "nil"})
								}
							}
						}
					}
				}
			}
			return true
		})
	}
	walk(body, false)
}

// index into a container: the sources of its elements
func c01Index(p c01Prov) c01Prov {
	r := c01NewProv()
	for a := range p.obj {
		switch {
		case strings.HasPrefix(a, "recv "):
			r.obj["elem "+a[5:]] = true
		case strings.HasPrefix(a, "caller "):
			r.obj["celem "+a[7:]] = true
		case a == "fresh":
			for e := range p.ent {
				r.obj[e] = true
			}
		case a == "nil":
			r.obj["nil"] = true
		default:
			r.obj["unknown"] = true
		}
	}
	return r
}

// the provenance of a slice- or map-valued expression
func (c *c01Ctx) slice(e ast.Expr) c01Prov {
	switch v := c01Unparen(e).(type) {
	case nil:
		return c01NewProv("nil")
	case *ast.Ident:
		if v.Name == "nil" {
			return c01NewProv("nil")
		}
		if v.Obj == nil {
			return c01NewProv("val") // a package-level constant of another file (topologies, attribute names)
		}
		if i := c.paramIx(v.Obj); i >= 0 {
			if c.fn.isMesh[i] {
				return c01NewProv(c.unknown("a mesh used where a slice or map is expected", v))
			}
			p := c01NewProv(fmt.Sprintf("caller %d", i))
			// a parameter that is also assigned in the body
			c.joinDefs(v.Obj, p)
			return p
		}
		if _, ok := c.defs[v.Obj]; !ok {
			if v.Obj.Kind == ast.Con {
				return c01NewProv("val")
			}
			return c01NewProv(c.unknown("variable "+v.Name+" without a definition seen", v))
		}
		p := c01NewProv()
		c.joinDefs(v.Obj, p)
		return p
	case *ast.BasicLit, *ast.BinaryExpr, *ast.UnaryExpr:
		return c01NewProv("val")
	case *ast.CompositeLit:
		p := c01NewProv("fresh")
		for _, el := range v.Elts {
			if kv, ok := el.(*ast.KeyValueExpr); ok {
				if _, isMap := v.Type.(*ast.MapType); isMap {
					q := c.slice(kv.Value)
					for a := range q.obj {
						p.ent[a] = true
					}
				}
			}
		}
		return p
	case *ast.SelectorExpr:
		if fi := c01FieldIx(v.Sel.Name); fi >= 0 {
			if m := c.mesh(v.X, true); m != nil {
				r := c01NewProv()
				r.join(m[fi])
				return r
			}
		}
		if x, ok := v.X.(*ast.Ident); ok && x.Obj == nil {
			return c01NewProv("val") // pkg.Constant
		}
		return c01NewProv(c.unknown("selector "+v.Sel.Name, v))
	case *ast.IndexExpr:
		return c01Index(c.slice(v.X))
	case *ast.SliceExpr:
		return c.slice(v.X)
	case *ast.CallExpr:
		name := c01CallName(v)
		switch name {
		case "?elem":
			return c01Index(c.slice(v.Args[0]))
		case "make", "new":
			return c01NewProv("fresh")
		case "len", "cap":
			return c01NewProv("val")
		case "append":
			b := c.slice(v.Args[0])
			r := c01NewProv()
			for a := range b.obj {
				switch a {
				case "fresh", "nil":
					r.obj["fresh"] = true
				default:
					r.obj[c.unknown("append onto memory that is not fresh ("+a+")", v)] = true
				}
			}
			if len(b.obj) == 0 {
				r.obj["fresh"] = true // only reachable through the variable being defined (x = append(x, …)): least fixpoint
			}
			// what is appended are elements: `append(fin[k], vals[i])` appends VALUES; slices of slices do not occur in a mesh
			for a := range b.ent {
				r.ent[a] = true
			}
			return r
		}
		if callee := c.resolve(v); callee != nil {
			if s := c.w.sliceSummary(callee); s != nil {
				return c.substSlice(*s, callee, v)
			}
		}
		return c01NewProv(c.unknown("call of "+name+" (callee not resolved to a unique analysable function)", v))
	}
	return c01NewProv(c.unknown(fmt.Sprintf("expression %T", e), e))
}

func (c *c01Ctx) joinDefs(o *ast.Object, p c01Prov) {
	if c.busyV[o] {
		return
	}
	c.busyV[o] = true
	for _, d := range c.defs[o] {
		p.join(c.slice(d))
	}
	for _, s := range c.stores[o] {
		q := c.slice(s)
		for a := range q.obj {
			p.ent[a] = true
		}
	}
	delete(c.busyV, o)
}

// the summary of a mesh-valued expression (nil when e is not recognisably a mesh and quiet is set)
func (c *c01Ctx) mesh(e ast.Expr, quiet bool) *c01Mesh {
	bad := func(why string) *c01Mesh {
		if quiet {
			return nil
		}
		m := c01NewMesh()
		u := c.unknown(why, e)
		for i := range m {
			m[i].obj[u] = true
		}
		return m
	}
	switch v := c01Unparen(e).(type) {
	case *ast.Ident:
		if v.Obj == nil {
			return bad("identifier " + v.Name)
		}
		if i := c.paramIx(v.Obj); i >= 0 {
			if !c.fn.isMesh[i] {
				return bad("parameter " + v.Name + " is not a mesh")
			}
			m := c01NewMesh()
			for f := range m {
				m[f].obj[fmt.Sprintf("recv %d %d", i, f)] = true
			}
			if c.busyV[v.Obj] {
				return m
			}
			c.busyV[v.Obj] = true
			for _, d := range c.defs[v.Obj] { // a mesh parameter re-assigned in the body
				m.join(c.mesh(d, false))
			}
			delete(c.busyV, v.Obj)
			return m
		}
		ds, ok := c.defs[v.Obj]
		if !ok {
			return bad("variable " + v.Name + " without a definition seen")
		}
		m := c01NewMesh()
		if c.busyV[v.Obj] {
			return m
		}
		c.busyV[v.Obj] = true
		for _, d := range ds {
			x := c.mesh(d, quiet)
			if x == nil {
				delete(c.busyV, v.Obj)
				return nil
			}
			m.join(x)
		}
		delete(c.busyV, v.Obj)
		return m
	case *ast.CompositeLit:
		if !c01IsMeshType(c.fn.pkg, v.Type) {
			return bad("composite literal that is not a Mesh")
		}
		m := c01NewMesh()
		seen := map[int]bool{}
		for _, el := range v.Elts {
			kv, ok := el.(*ast.KeyValueExpr)
			if !ok {
				return bad("unkeyed Mesh literal")
			}
			fi := c01FieldIx(kv.Key.(*ast.Ident).Name)
			if fi < 0 {
				return bad("unknown Mesh field")
			}
			seen[fi] = true
			q := c.slice(kv.Value)
			if fi == 0 { // the topology is a plain value: either the receiver's or some constant / parameter
				t := c01NewProv()
				for a := range q.obj {
					if strings.HasPrefix(a, "recv ") || a == "unknown" {
						t.obj[a] = true
					} else {
						t.obj["val"] = true
					}
				}
				q = t
			}
			m[fi].join(q)
		}
		for i := range m {
			if !seen[i] {
				m[i].obj["nil"] = true
			}
		}
		return m
	case *ast.CallExpr:
		callee := c.resolve(v)
		if callee == nil {
			return bad("call of " + c01CallName(v) + " (dynamic dispatch or callee outside the analysed packages)")
		}
		s := c.w.meshSummary(callee)
		if s == nil {
			return bad("callee " + c01DeclName(callee.decl) + " does not return a mesh")
		}
		return c.substMesh(s, callee, v)
	}
	return bad(fmt.Sprintf("expression %T", e))
}

// resolve a call syntactically: f(...), m.Method(...) with m a mesh, pkg.F(...), x.Method(...) with a unique method of that name
func (c *c01Ctx) resolve(call *ast.CallExpr) *c01Func {
	fun := c01Unparen(call.Fun)
	if ix, ok := fun.(*ast.IndexExpr); ok { // explicit instantiation
		fun = ix.X
	}
	var name string
	wantRecv := false
	switch f := fun.(type) {
	case *ast.Ident:
		name = f.Name
	case *ast.SelectorExpr:
		name = f.Sel.Name
		if x, ok := f.X.(*ast.Ident); ok && x.Obj == nil {
			wantRecv = false // package-qualified function
		} else {
			wantRecv = true
		}
	default:
		return nil
	}
	var found *c01Func
	for _, cand := range c.w.funcs[name] {
		if (cand.decl.Recv != nil) != wantRecv {
			continue
		}
		if wantRecv {
			// a method call: the receiver must agree in mesh-ness
			rm := c.mesh(fun.(*ast.SelectorExpr).X, true) != nil
			if rm != cand.isMesh[0] {
				continue
			}
			if !rm {
				// receiver is an interface / function value (a local or parameter of non-struct type): dynamic dispatch
				if id, ok := c01Unparen(fun.(*ast.SelectorExpr).X).(*ast.Ident); ok && id.Obj != nil {
					if i := c.paramIx(id.Obj); i < 0 {
						// a local: fine only when the method is unique below
					}
				}
			}
		} else if sel, ok := fun.(*ast.SelectorExpr); ok {
			if sel.X.(*ast.Ident).Name != cand.pkg {
				continue
			}
		} else if cand.pkg != c.fn.pkg {
			continue
		}
		if found != nil {
			return nil // ambiguous
		}
		found = cand
	}
	return found
}

// actual arguments by parameter index (0 = receiver)
func (c *c01Ctx) actuals(callee *c01Func, call *ast.CallExpr) []ast.Expr {
	out := make([]ast.Expr, len(callee.params))
	if callee.decl.Recv != nil {
		out[0] = c01Unparen(call.Fun).(*ast.SelectorExpr).X
	}
	for i, a := range call.Args {
		if i+1 < len(out) {
			out[i+1] = a
		}
	}
	return out
}

func (c *c01Ctx) substAtom(a string, callee *c01Func, act []ast.Expr, comp int, into c01Prov, asEnt bool) {
	add := func(p c01Prov) {
		if asEnt {
			for x := range p.obj {
				into.ent[x] = true
			}
			return
		}
		into.join(p)
	}
	var i, f int
	switch {
	case a == "fresh" || a == "nil" || a == "val" || a == "unknown":
		add(c01NewProv(a))
	case strings.HasPrefix(a, "recv "):
		fmt.Sscanf(a, "recv %d %d", &i, &f)
		m := c.mesh(act[i], false)
		add(m[f])
	case strings.HasPrefix(a, "elem "):
		fmt.Sscanf(a, "elem %d %d", &i, &f)
		m := c.mesh(act[i], false)
		add(c01Index(m[f]))
	case strings.HasPrefix(a, "caller "):
		fmt.Sscanf(a, "caller %d", &i)
		if i >= len(act) || act[i] == nil {
			add(c01NewProv(c.unknown("argument missing (variadic?)", nil)))
			return
		}
		add(c.slice(act[i]))
	case strings.HasPrefix(a, "celem "):
		fmt.Sscanf(a, "celem %d", &i)
		if i >= len(act) || act[i] == nil {
			add(c01NewProv(c.unknown("argument missing (variadic?)", nil)))
			return
		}
		add(c01Index(c.slice(act[i])))
	default:
		add(c01NewProv("unknown"))
	}
}

func (c *c01Ctx) substProv(p c01Prov, callee *c01Func, call *ast.CallExpr, comp int) c01Prov {
	act := c.actuals(callee, call)
	r := c01NewProv()
	for a := range p.obj {
		c.substAtom(a, callee, act, comp, r, false)
	}
	for a := range p.ent {
		c.substAtom(a, callee, act, comp, r, true)
	}
	return r
}

func (c *c01Ctx) substSlice(p c01Prov, callee *c01Func, call *ast.CallExpr) c01Prov {
	return c.substProv(p, callee, call, -1)
}

func (c *c01Ctx) substMesh(s *c01Mesh, callee *c01Func, call *ast.CallExpr) *c01Mesh {
	m := c01NewMesh()
	for i := range s {
		m[i] = c.substProv(s[i], callee, call, i)
	}
	return m
}

func (w *c01World) newCtx(f *c01Func) *c01Ctx {
	c := &c01Ctx{w: w, fn: f, defs: map[*ast.Object][]ast.Expr{}, stores: map[*ast.Object][]ast.Expr{}, busyV: map[*ast.Object]bool{}}
	if f.decl.Body != nil {
		c.collect(f.decl.Body)
	}
	if c.nakedRes != nil && len(c.defs[c.nakedRes]) > 0 {
		c.rets = append(c.rets, &ast.Ident{Name: c.nakedRes.Name, Obj: c.nakedRes})
	}
	return c
}

func (w *c01World) returnsMesh(f *c01Func) bool {
	r := f.decl.Type.Results
	if r != nil && len(r.List) == 1 && len(r.List[0].Names) <= 1 && c01IsMeshType(f.pkg, r.List[0].Type) {
		return true
	}
	return w.returnsMeshErr(f)
}

// (Mesh, error): the meshops Transformer methods
func (w *c01World) returnsMeshErr(f *c01Func) bool {
	r := f.decl.Type.Results
	if r == nil || len(r.List) != 2 || len(r.List[0].Names) > 1 || len(r.List[1].Names) > 1 || !c01IsMeshType(f.pkg, r.List[0].Type) {
		return false
	}
	id, ok := r.List[1].Type.(*ast.Ident)
	return ok && id.Name == "error"
}

func (w *c01World) meshSummary(f *c01Func) *c01Mesh {
	if !w.returnsMesh(f) {
		return nil
	}
	if f.doneMesh != nil {
		return f.doneMesh
	}
	m := c01NewMesh()
	if f.busy || f.decl.Body == nil {
		for i := range m {
			m[i].obj["unknown"] = true
		}
		w.why = append(w.why, c01DeclName(f.decl)+": recursive or bodyless")
		return m
	}
	f.busy = true
	c := w.newCtx(f)
	for _, r := range c.rets {
		if r == nil {
			for i := range m {
				m[i].obj[c.unknown("naked return", nil)] = true
			}
			continue
		}
		m.join(c.mesh(r, false))
	}
	f.busy = false
	f.doneMesh = m
	return m
}

func (w *c01World) sliceSummary(f *c01Func) *c01Prov {
	r := f.decl.Type.Results
	if r == nil || len(r.List) != 1 || len(r.List[0].Names) > 1 || w.returnsMesh(f) {
		return nil
	}
	switch r.List[0].Type.(type) {
	case *ast.ArrayType, *ast.MapType:
	default:
		return nil
	}
	if f.doneSlice != nil {
		return f.doneSlice
	}
	p := c01NewProv()
	if f.busy || f.decl.Body == nil {
		p.obj["unknown"] = true
		return &p
	}
	f.busy = true
	c := w.newCtx(f)
	for _, r := range c.rets {
		p.join(c.slice(r))
	}
	f.busy = false
	f.doneSlice = &p
	return &p
}

// mesh parameters are numbered by their rank among the mesh parameters in the output (receiver or first mesh argument = 0)
func c01Atoms(s map[string]bool, rank map[int]int) string {
	var as []string
	for a := range s {
		var i, f int
		if strings.HasPrefix(a, "recv ") {
			fmt.Sscanf(a, "recv %d %d", &i, &f)
			a = fmt.Sprintf("recv %d %d", rank[i], f)
		} else if strings.HasPrefix(a, "elem ") {
			fmt.Sscanf(a, "elem %d %d", &i, &f)
			a = fmt.Sprintf("elem %d %d", rank[i], f)
		}
		as = append(as, a)
	}
	sort.Strings(as)
	var out []string
	for _, a := range as {
		out = append(out, "."+a)
	}
	return "[" + strings.Join(out, ", ") + "]"
}

// args: the file whose exported Mesh-returning functions are summarised, then further files / directories whose
// functions may be resolved as callees; an argument prefixed with "+" is also a target (its exported functions returning
// exactly one modeling.Mesh are summarised; names are prefixed with the package name)
func c01Classes(repo, out string, args []string) error {
	if len(args) == 0 {
		return fmt.Errorf("c01.classes: no files given")
	}
	w := &c01World{fset: token.NewFileSet(), funcs: map[string][]*c01Func{}}
	var targets []*c01Func
	for ai, a := range args {
		isTarget := ai == 0
		if strings.HasPrefix(a, "+") { // a further file / directory whose exported Mesh-returning FUNCTIONS are summarised
			isTarget = true
			a = a[1:]
		}
		p := filepath.Join(repo, a)
		st, err := os.Stat(p)
		if err != nil {
			return err
		}
		files := []string{p}
		if st.IsDir() {
			files, _ = filepath.Glob(filepath.Join(p, "*.go"))
		}
		sort.Strings(files)
		for _, fp := range files {
			if strings.HasSuffix(fp, "_test.go") {
				continue
			}
			af, err := parser.ParseFile(w.fset, fp, nil, 0)
			if err != nil {
				return err
			}
			for _, d := range af.Decls {
				fd, ok := d.(*ast.FuncDecl)
				if !ok {
					continue
				}
				f := &c01Func{pkg: af.Name.Name, decl: fd}
				f.params = append(f.params, nil)
				f.isMesh = append(f.isMesh, false)
				if fd.Recv != nil && len(fd.Recv.List) == 1 {
					if len(fd.Recv.List[0].Names) == 1 {
						f.params[0] = fd.Recv.List[0].Names[0].Obj
					}
					f.isMesh[0] = c01IsMeshType(f.pkg, fd.Recv.List[0].Type)
				}
				for _, fl := range fd.Type.Params.List {
					if len(fl.Names) == 0 {
						f.params = append(f.params, nil)
						f.isMesh = append(f.isMesh, false)
					}
					for _, n := range fl.Names {
						f.params = append(f.params, n.Obj)
						f.isMesh = append(f.isMesh, c01IsMeshType(f.pkg, fl.Type))
					}
				}
				w.funcs[fd.Name.Name] = append(w.funcs[fd.Name.Name], f)
				if isTarget && fd.Name.IsExported() && w.returnsMesh(f) && (fd.Recv == nil || f.isMesh[0] || (w.returnsMeshErr(f) && fd.Name.Name == "Transform")) {
					targets = append(targets, f)
				}
			}
		}
	}
	sort.Slice(targets, func(i, j int) bool { return c01DeclName(targets[i].decl) < c01DeclName(targets[j].decl) })
	var b strings.Builder
	b.WriteString("-- GENERATED by /verif/go/facts c01.classes from the working tree; do not edit.\n")
	b.WriteString("-- Sharing summary of every exported function of package modeling that returns a Mesh (see go/facts/c01_classes.go).\n")
	b.WriteString("import PolyVerif.Model.MeshClasses\n\nnamespace PolyVerif.Gen.C01Classes\nopen PolyVerif.MeshClasses Src\n\n")
	fmt.Fprintf(&b, "def functionsSummarised : Nat := %d\n\n", len(targets))
	b.WriteString("/-- components in the order topology, indices, materials, v1Data, v2Data, v3Data, v4Data -/\n")
	b.WriteString("def table : List FnSummary := [\n")
	for ti, f := range targets {
		w.why = nil
		m := w.meshSummary(f)
		rank := map[int]int{}
		for pi, im := range f.isMesh {
			if im {
				rank[pi] = len(rank)
			}
		}
		nm := c01DeclName(f.decl)
		if f.pkg != "modeling" {
			nm = f.pkg + "." + nm
		}
		fmt.Fprintf(&b, "  ⟨%q, %d, [", nm, strings.Count(fmt.Sprint(f.isMesh), "true"))
		for i := range m {
			if i > 0 {
				b.WriteString(",")
			}
			if i == 3 {
				b.WriteString("\n   ")
			}
			ent := m[i].ent
			if i < 3 {
				ent = nil // what is stored into an index / material array are plain values
			} else {
				for a := range m[i].obj { // the caller's map handed in whole: its entries are elements of that parameter
					if strings.HasPrefix(a, "caller ") {
						ent["celem "+a[7:]] = true
					}
				}
			}
			fmt.Fprintf(&b, " ⟨%s, %s⟩", c01Atoms(m[i].obj, rank), c01Atoms(ent, rank))
		}
		b.WriteString("]⟩")
		if ti+1 < len(targets) {
			b.WriteString(",")
		}
		b.WriteString("\n")
		seen := map[string]bool{}
		hasUnknown := false
		for i := range m {
			hasUnknown = hasUnknown || m[i].obj["unknown"] || (i >= 3 && m[i].ent["unknown"])
		}
		if !hasUnknown {
			w.why = nil
		}
		for _, y := range w.why {
			if !seen[y] {
				seen[y] = true
				fmt.Fprintf(&b, "  -- unknown: %s\n", y)
			}
		}
	}
	b.WriteString("]\n\nend PolyVerif.Gen.C01Classes\n")
	return os.WriteFile(out, []byte(b.String()), 0o644)
}
