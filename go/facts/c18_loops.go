// Engine F, property C18: the INTEGER SKELETON (loop nests, loop bounds, integer assignments, appends to
// slices) of the ring / fan primitive constructors, read from the current tree with go/parser + go/ast
// (no type checker) and written as terms of the loop language of PolyVerif/Model/LoopIR.lean
// (PolyVerif/Gen/PrimLoops.lean).
//
//	sphere.go      func UVSphere, func UVSphereUnwelded
//	hemisphere.go  func (h Hemisphere) UV
//	circle.go      func (c Circle) ToMesh
//	cylinder.go    func (c Cylinder) ToMesh   (+ the Append structure: cylinderAppends)
//
// Every construct that is not one of the recognised shapes is an error naming file:line and the construct
// (the check then reports a broken obligation) — the extractor never guesses.  Translation rules:
//
//	params   the `int` parameters of the signature in order, for methods preceded by the configured integer
//	         receiver fields (`c.Sides`); they are variables 0,1,…; they can never be assigned
//	guards   leading `if A < B { panic(...) }` with integer A, B
//	slices   function-level `x := make([]T, n[, cap])`, n an integer expression -> `alloc id n`
//	E        int literals, tracked int variables, `len(trackedSlice)`, + - * % /, parentheses
//	assign   `x := <int expr>` declares a new variable id; `x = <int expr>` only when x was declared in the SAME
//	         loop body (function level: at function level) — anything else is loop-carried state and refused
//	vertex copies (extension, switch c18lTrackVertexCopies)  `a := t[e]`, t a tracked non-int slice, e an integer
//	         expression: a is a tracked variable holding the index e; `append(s, a)` then pushes `var a`
//	push     `s = append(s, a1, …)`: integer expression -> its E; `t[e]` (t tracked non-int slice) -> E of e;
//	         vertex-copy variable -> its variable; any other value -> `lit 0` (for an []int slice: refused)
//	loop     `for v := lo; v < hi (v <= hi); v++ { body }`, lo / hi integer, not mentioning len / v / a variable
//	         assigned in the body
//	ignored  `s[e] = value` for a tracked slice that is not the index slice
//	skipped  every other statement, provided its AST contains no write to a tracked name (assignment / IncDec /
//	         range variable / `&x` with a tracked root, `append(tracked, …)`), no `panic`, no `return` / `break` /
//	         `continue` / `goto` that leaves it, and mentions the index slice only as `len(idx)`, `idx[e]` or
//	         `modeling.NewTriangleMesh(idx)`
//	return   at function level ends the translation
package main

import (
	"bytes"
	"fmt"
	"go/ast"
	"go/parser"
	"go/printer"
	"go/token"
	"os"
	"path/filepath"
	"strconv"
	"strings"
)

func init() { modes["c18.loops"] = c18Loops }

// `a := t[e]` declares a tracked variable holding the index e (see the header); false = the literal rule
// (`a := <non-integer>` is skipped, a later `append(s, a)` pushes `lit 0`)
const c18lTrackVertexCopies = true

type c18lCfg struct {
	lean      string   // Lean definition name
	file      string   // file in modeling/primitives
	recv      string   // receiver type ("" = plain function)
	fn        string   // function / method name
	idx       string   // the []int slice handed to modeling.NewTriangleMesh
	verts     string   // the slice set as modeling.PositionAttribute
	intFields []string // integer receiver fields that count as parameters
	appends   bool     // also extract the Append structure (cylinder)
}

var c18lCfgs = []c18lCfg{
	{lean: "uvSphere", file: "sphere.go", fn: "UVSphere", idx: "tris", verts: "positions"},
	{lean: "hemisphere", file: "hemisphere.go", recv: "Hemisphere", fn: "UV", idx: "tris", verts: "positions"},
	{lean: "uvSphereUnwelded", file: "sphere.go", fn: "UVSphereUnwelded", idx: "tris", verts: "finalVerts"},
	{lean: "circle", file: "circle.go", recv: "Circle", fn: "ToMesh", idx: "tris", verts: "vertices", intFields: []string{"Sides"}},
	{lean: "cylinder", file: "cylinder.go", recv: "Cylinder", fn: "ToMesh", idx: "tris", verts: "vertices", intFields: []string{"Sides"}, appends: true},
}

// ---- the loop language ------------------------------------------------------------------------------------

type c18lE struct {
	op   string // lit var len add sub mul mod div
	n    int    // lit: value, var: variable id, len: slice id
	a, b *c18lE
}

func (e *c18lE) bare() string {
	switch e.op {
	case "lit", "var", "len":
		return fmt.Sprintf("%s %d", e.op, e.n)
	}
	return fmt.Sprintf("%s %s %s", e.op, e.a.arg(), e.b.arg())
}

func (e *c18lE) arg() string { return "(" + e.bare() + ")" }

func (e *c18lE) any(p func(*c18lE) bool) bool {
	if e == nil {
		return false
	}
	return p(e) || e.a.any(p) || e.b.any(p)
}

type c18lS struct {
	kind   string // assign push alloc loop
	k      int    // variable id (assign, loop) / slice id (push, alloc)
	e      *c18lE
	es     []*c18lE
	lo, hi *c18lE
	incl   bool
	body   []*c18lS
}

func c18lAtom(s *c18lS, ind int) string {
	switch s.kind {
	case "assign":
		return fmt.Sprintf("(assign %d %s)", s.k, s.e.arg())
	case "alloc":
		return fmt.Sprintf("(alloc %d %s)", s.k, s.e.arg())
	case "push":
		p := make([]string, len(s.es))
		for i, e := range s.es {
			p[i] = e.bare()
		}
		return fmt.Sprintf("(push %d [%s])", s.k, strings.Join(p, ", "))
	case "loop":
		return fmt.Sprintf("(loop %d %s %s %t\n%s)", s.k, s.lo.arg(), s.hi.arg(), s.incl, c18lSeq(s.body, ind+2))
	}
	panic("c18.loops: unknown statement kind " + s.kind)
}

// right-nested `(seq s1 (seq s2 (… sn)))`, one statement per line, closing parentheses accumulated at the end
func c18lSeq(list []*c18lS, ind int) string {
	pad := strings.Repeat(" ", ind)
	if len(list) == 0 {
		return pad + "skip"
	}
	var b strings.Builder
	for i, s := range list {
		if i < len(list)-1 {
			b.WriteString(pad + "(seq " + c18lAtom(s, ind) + "\n")
		} else {
			b.WriteString(pad + c18lAtom(s, ind) + strings.Repeat(")", len(list)-1))
		}
	}
	return b.String()
}

// the body of a definition: as c18lSeq at indentation 4, without the outermost pair of parentheses
func c18lTop(list []*c18lS) string {
	s := c18lSeq(list, 4)
	if len(list) >= 2 {
		s = "    " + s[5:len(s)-1]
	}
	return s
}

func c18lAssigned(list []*c18lS, into map[int]bool) {
	for _, s := range list {
		if s.kind == "assign" || s.kind == "loop" {
			into[s.k] = true
		}
		c18lAssigned(s.body, into)
	}
}

// ---- translation ------------------------------------------------------------------------------------------

type c18lBind struct {
	kind   string // "int" (tracked integer variable), "vref" (vertex copy), "slice", "recv", "other" (untracked, shadows)
	id     int
	body   int  // int / vref: id of the loop body it was declared in (0 = function level); -1 = never assignable
	eltInt bool // slice: element type is `int`
}

func (b *c18lBind) tracked() bool {
	return b != nil && (b.kind == "int" || b.kind == "vref" || b.kind == "slice" || b.kind == "recv")
}

type c18lCtx struct {
	fset       *token.FileSet
	cfg        c18lCfg
	recvName   string
	scopes     []map[string]*c18lBind
	nextVar    int
	nextSlice  int
	nextBody   int
	params     []string // "name=id"
	slices     []string
	vars       []string
	guards     [][2]*c18lE
	skipped    []string // report of skipped / ignored statements (printed to stderr when C18L_VERBOSE is set)
	idxBind    *c18lBind
	sliceByNam map[string]*c18lBind
}

func (c *c18lCtx) src(n ast.Node) string {
	var buf bytes.Buffer
	printer.Fprint(&buf, c.fset, n)
	s := strings.Join(strings.Fields(buf.String()), " ")
	if len(s) > 100 {
		s = s[:100] + " …"
	}
	return s
}

func (c *c18lCtx) errf(n ast.Node, format string, a ...any) error {
	p := c.fset.Position(n.Pos())
	return fmt.Errorf("%s:%d: %s — `%s`", filepath.Base(p.Filename), p.Line, fmt.Sprintf(format, a...), c.src(n))
}

func (c *c18lCtx) push() { c.scopes = append(c.scopes, map[string]*c18lBind{}) }
func (c *c18lCtx) pop()  { c.scopes = c.scopes[:len(c.scopes)-1] }
func (c *c18lCtx) lookup(name string) *c18lBind {
	for i := len(c.scopes) - 1; i >= 0; i-- {
		if b, ok := c.scopes[i][name]; ok {
			return b
		}
	}
	return nil
}
func (c *c18lCtx) declare(name string, b *c18lBind) {
	if name != "_" {
		c.scopes[len(c.scopes)-1][name] = b
	}
}
func (c *c18lCtx) declareInt(name, kind string, body int) *c18lBind {
	b := &c18lBind{kind: kind, id: c.nextVar, body: body}
	c.nextVar++
	c.vars = append(c.vars, fmt.Sprintf("%s=%d", name, b.id))
	c.declare(name, b)
	return b
}

func c18lUnparen(e ast.Expr) ast.Expr {
	for {
		p, ok := e.(*ast.ParenExpr)
		if !ok {
			return e
		}
		e = p.X
	}
}

// the identifier an lvalue / operand is rooted at: x, x[i], x.f, *x, x[a:b], (x)
func c18lRoot(e ast.Expr) *ast.Ident {
	for {
		switch v := e.(type) {
		case *ast.Ident:
			return v
		case *ast.IndexExpr:
			e = v.X
		case *ast.SelectorExpr:
			e = v.X
		case *ast.StarExpr:
			e = v.X
		case *ast.ParenExpr:
			e = v.X
		case *ast.SliceExpr:
			e = v.X
		default:
			return nil
		}
	}
}

func (c *c18lCtx) rootTracked(e ast.Expr) bool {
	id := c18lRoot(e)
	return id != nil && c.lookup(id.Name).tracked()
}

// rule 4: integer expressions; ok = false: "non-integer"
func (c *c18lCtx) intExpr(e ast.Expr) (*c18lE, bool) {
	switch v := e.(type) {
	case *ast.ParenExpr:
		return c.intExpr(v.X)
	case *ast.BasicLit:
		if v.Kind != token.INT {
			return nil, false
		}
		n, err := strconv.ParseInt(v.Value, 0, 64)
		if err != nil || n < 0 {
			return nil, false
		}
		return &c18lE{op: "lit", n: int(n)}, true
	case *ast.Ident:
		if b := c.lookup(v.Name); b != nil && b.kind == "int" {
			return &c18lE{op: "var", n: b.id}, true
		}
		return nil, false
	case *ast.SelectorExpr: // integer receiver field = parameter
		x, ok := v.X.(*ast.Ident)
		if !ok || c.recvName == "" || x.Name != c.recvName {
			return nil, false
		}
		if b := c.lookup(x.Name); b == nil || b.kind != "recv" {
			return nil, false
		}
		for i, f := range c.cfg.intFields {
			if f == v.Sel.Name {
				return &c18lE{op: "var", n: i}, true
			}
		}
		return nil, false
	case *ast.CallExpr:
		f, ok := v.Fun.(*ast.Ident)
		if !ok || f.Name != "len" || c.lookup("len") != nil || len(v.Args) != 1 || v.Ellipsis != token.NoPos {
			return nil, false
		}
		s, ok := c18lUnparen(v.Args[0]).(*ast.Ident)
		if !ok {
			return nil, false
		}
		if b := c.lookup(s.Name); b != nil && b.kind == "slice" {
			return &c18lE{op: "len", n: b.id}, true
		}
		return nil, false
	case *ast.BinaryExpr:
		op := map[token.Token]string{token.ADD: "add", token.SUB: "sub", token.MUL: "mul", token.REM: "mod", token.QUO: "div"}[v.Op]
		if op == "" {
			return nil, false
		}
		a, ok := c.intExpr(v.X)
		if !ok {
			return nil, false
		}
		b, ok := c.intExpr(v.Y)
		if !ok {
			return nil, false
		}
		return &c18lE{op: op, a: a, b: b}, true
	}
	return nil, false
}

// `make([]T, n[, cap])`: the element type and the length argument
func c18lMakeSlice(e ast.Expr) (elt ast.Expr, n ast.Expr, ok bool) {
	call, isCall := c18lUnparen(e).(*ast.CallExpr)
	if !isCall || call.Ellipsis != token.NoPos {
		return nil, nil, false
	}
	f, isId := call.Fun.(*ast.Ident)
	if !isId || f.Name != "make" || (len(call.Args) != 2 && len(call.Args) != 3) {
		return nil, nil, false
	}
	at, isArr := call.Args[0].(*ast.ArrayType)
	if !isArr || at.Len != nil {
		return nil, nil, false
	}
	return at.Elt, call.Args[1], true
}

func c18lAppendCall(e ast.Expr) *ast.CallExpr {
	call, ok := c18lUnparen(e).(*ast.CallExpr)
	if !ok {
		return nil
	}
	if f, ok := call.Fun.(*ast.Ident); ok && f.Name == "append" {
		return call
	}
	return nil
}

// rule 7: a statement / expression that is skipped must not write a tracked name (see the header)
func (c *c18lCtx) checkSkipped(root ast.Node) error {
	var err error
	stack := []ast.Node{}
	fail := func(n ast.Node, format string, a ...any) {
		if err == nil {
			err = c.errf(n, format, a...)
		}
	}
	// is there an enclosing node (inside the skipped statement) that catches a return / break / continue?
	encl := func(tok token.Token) bool {
		for i := len(stack) - 1; i >= 0; i-- {
			switch stack[i].(type) {
			case *ast.FuncLit:
				return true
			case *ast.ForStmt, *ast.RangeStmt:
				if tok == token.BREAK || tok == token.CONTINUE {
					return true
				}
			case *ast.SwitchStmt, *ast.TypeSwitchStmt, *ast.SelectStmt:
				if tok == token.BREAK {
					return true
				}
			}
		}
		return false
	}
	ast.Inspect(root, func(n ast.Node) bool {
		if n == nil {
			stack = stack[:len(stack)-1]
			return true
		}
		if err != nil {
			return false
		}
		var parent ast.Node
		if len(stack) > 0 {
			parent = stack[len(stack)-1]
		}
		switch v := n.(type) {
		case *ast.AssignStmt:
			for _, l := range v.Lhs {
				if c.rootTracked(l) {
					fail(v, "write to tracked name `%s` inside a skipped statement", c18lRoot(l).Name)
				}
			}
		case *ast.IncDecStmt:
			if c.rootTracked(v.X) {
				fail(v, "write to tracked name `%s` inside a skipped statement", c18lRoot(v.X).Name)
			}
		case *ast.RangeStmt:
			for _, l := range []ast.Expr{v.Key, v.Value} {
				if l != nil && c.rootTracked(l) {
					fail(v, "range variable is the tracked name `%s` inside a skipped statement", c18lRoot(l).Name)
				}
			}
		case *ast.UnaryExpr:
			if v.Op == token.AND && c.rootTracked(v.X) {
				fail(v, "address of tracked name `%s` taken inside a skipped statement", c18lRoot(v.X).Name)
			}
		case *ast.CallExpr:
			if f, ok := v.Fun.(*ast.Ident); ok {
				if f.Name == "append" && len(v.Args) > 0 {
					if id := c18lRoot(v.Args[0]); id != nil {
						if b := c.lookup(id.Name); b != nil && b.kind == "slice" {
							fail(v, "append to tracked slice `%s` inside a skipped statement", id.Name)
						}
					}
				}
				if f.Name == "panic" {
					fail(v, "panic inside a skipped statement (only leading `if A < B { panic(...) }` guards are modelled)")
				}
			}
		case *ast.ReturnStmt:
			if !encl(token.RETURN) {
				fail(v, "return inside a skipped statement")
			}
		case *ast.BranchStmt:
			if v.Tok != token.FALLTHROUGH && (v.Tok == token.GOTO || v.Label != nil || !encl(v.Tok)) {
				fail(v, "%s leaving a skipped statement", v.Tok)
			}
		case *ast.LabeledStmt:
			fail(v, "label inside a skipped statement")
		case *ast.Ident:
			if b := c.lookup(v.Name); b != nil && b == c.idxBind {
				ok := false
				switch p := parent.(type) {
				case *ast.CallExpr:
					if len(p.Args) == 1 && p.Args[0] == ast.Expr(v) {
						fn := c18Sel(p.Fun)
						ok = (fn == "len" && c.lookup("len") == nil) || fn == "modeling.NewTriangleMesh"
					}
				case *ast.IndexExpr:
					ok = p.X == ast.Expr(v)
				}
				if !ok {
					fail(v, "the index slice `%s` is mentioned inside a skipped statement other than as len(%s), %s[e] or modeling.NewTriangleMesh(%s)",
						v.Name, v.Name, v.Name, v.Name)
				}
			}
		}
		stack = append(stack, n)
		return true
	})
	return err
}

func (c *c18lCtx) note(n ast.Node, why string) {
	p := c.fset.Position(n.Pos())
	c.skipped = append(c.skipped, fmt.Sprintf("%s %s:%d %s: %s", c.cfg.lean, filepath.Base(p.Filename), p.Line, why, c.src(n)))
}

// skip a statement after the write check; names it declares at this level are recorded as untracked (they shadow)
func (c *c18lCtx) skip(st ast.Stmt, why string) error {
	if err := c.checkSkipped(st); err != nil {
		return err
	}
	switch v := st.(type) {
	case *ast.AssignStmt:
		if v.Tok == token.DEFINE {
			for _, l := range v.Lhs {
				if id, ok := l.(*ast.Ident); ok {
					c.declare(id.Name, &c18lBind{kind: "other"})
				}
			}
		}
	case *ast.DeclStmt:
		if gd, ok := v.Decl.(*ast.GenDecl); ok {
			for _, sp := range gd.Specs {
				switch s := sp.(type) {
				case *ast.ValueSpec:
					for _, id := range s.Names {
						c.declare(id.Name, &c18lBind{kind: "other"})
					}
				case *ast.TypeSpec:
					c.declare(s.Name.Name, &c18lBind{kind: "other"})
				}
			}
		}
	}
	c.note(st, why)
	return nil
}

// rule 6
func (c *c18lCtx) pushArg(sl *c18lBind, slName string, a ast.Expr) (*c18lE, error) {
	if e, ok := c.intExpr(a); ok {
		return e, nil
	}
	if sl.eltInt {
		return nil, c.errf(a, "non-integer expression appended to the []int slice `%s`", slName)
	}
	u := c18lUnparen(a)
	if ix, ok := u.(*ast.IndexExpr); ok {
		if id, ok := c18lUnparen(ix.X).(*ast.Ident); ok {
			if b := c.lookup(id.Name); b != nil && b.kind == "slice" {
				if b.eltInt {
					return nil, c.errf(a, "element of the []int slice `%s` appended to `%s`", id.Name, slName)
				}
				e, ok := c.intExpr(ix.Index)
				if !ok {
					return nil, c.errf(a, "vertex copy `%s[e]` whose index is not an integer expression", id.Name)
				}
				return e, nil
			}
		}
	}
	if id, ok := u.(*ast.Ident); ok {
		if b := c.lookup(id.Name); b != nil && b.kind == "vref" {
			return &c18lE{op: "var", n: b.id}, nil
		}
	}
	if err := c.checkSkipped(a); err != nil {
		return nil, err
	}
	return &c18lE{op: "lit", n: 0}, nil
}

func (c *c18lCtx) assign(st *ast.AssignStmt, body int, funcLevel bool) ([]*c18lS, error) {
	if st.Tok != token.DEFINE && st.Tok != token.ASSIGN { // += etc.
		for _, l := range st.Lhs {
			if c.rootTracked(l) {
				return nil, c.errf(st, "compound assignment to tracked name `%s`", c18lRoot(l).Name)
			}
		}
		return nil, c.skip(st, "skipped (untracked compound assignment)")
	}
	if len(st.Lhs) != 1 || len(st.Rhs) != 1 { // rule 5: multi-assign
		for _, r := range st.Rhs {
			if _, ok := c.intExpr(r); ok {
				return nil, c.errf(st, "multi-assignment with an integer right-hand side")
			}
			if _, _, ok := c18lMakeSlice(r); ok && funcLevel {
				return nil, c.errf(st, "multi-assignment declaring a slice with make")
			}
		}
		if st.Tok == token.ASSIGN {
			for _, l := range st.Lhs {
				if c.rootTracked(l) {
					return nil, c.errf(st, "multi-assignment to tracked name `%s`", c18lRoot(l).Name)
				}
			}
		}
		return nil, c.skip(st, "skipped (multi-assignment, all right-hand sides non-integer)")
	}
	lhs, rhs := c18lUnparen(st.Lhs[0]), st.Rhs[0]

	// `s[e] = value`
	if ix, ok := lhs.(*ast.IndexExpr); ok && st.Tok == token.ASSIGN {
		if id, ok := c18lUnparen(ix.X).(*ast.Ident); ok {
			if b := c.lookup(id.Name); b != nil && b.kind == "slice" {
				if b == c.idxBind || b.eltInt {
					return nil, c.errf(st, "index assignment to the []int slice `%s`", id.Name)
				}
				if err := c.checkSkipped(ix.Index); err != nil {
					return nil, err
				}
				if err := c.checkSkipped(rhs); err != nil {
					return nil, err
				}
				c.note(st, "ignored (index assignment, length unchanged)")
				return nil, nil
			}
		}
	}
	id, isIdent := lhs.(*ast.Ident)
	if !isIdent {
		if c.rootTracked(lhs) {
			return nil, c.errf(st, "assignment through tracked name `%s`", c18lRoot(lhs).Name)
		}
		return nil, c.skip(st, "skipped (untracked lvalue)")
	}
	var lb *c18lBind
	if st.Tok == token.ASSIGN {
		lb = c.lookup(id.Name)
	}

	// rule 3: slices
	if elt, n, ok := c18lMakeSlice(rhs); ok && funcLevel && st.Tok == token.DEFINE && c.lookup("make") == nil {
		e, ok := c.intExpr(n)
		if !ok {
			return nil, c.errf(st, "make with a length that is not an integer expression")
		}
		b := &c18lBind{kind: "slice", id: c.nextSlice, eltInt: c18Sel(elt) == "int"}
		c.nextSlice++
		c.slices = append(c.slices, fmt.Sprintf("%s=%d", id.Name, b.id))
		c.declare(id.Name, b)
		c.sliceByNam[id.Name] = b
		if id.Name == c.cfg.idx {
			c.idxBind = b
		}
		return []*c18lS{{kind: "alloc", k: b.id, e: e}}, nil
	}

	// rule 6: appends
	if call := c18lAppendCall(rhs); call != nil && c.lookup("append") == nil && len(call.Args) > 0 {
		var ab *c18lBind
		aid := c18lRoot(call.Args[0])
		if aid != nil {
			if b := c.lookup(aid.Name); b != nil && b.kind == "slice" {
				ab = b
			}
		}
		if ab != nil || (lb != nil && lb.kind == "slice") {
			first, firstIsIdent := c18lUnparen(call.Args[0]).(*ast.Ident)
			if st.Tok != token.ASSIGN || lb == nil || lb.kind != "slice" || !firstIsIdent || first.Name != id.Name || ab != lb {
				return nil, c.errf(st, "append involving a tracked slice that is not of the form `s = append(s, …)`")
			}
			if call.Ellipsis != token.NoPos {
				return nil, c.errf(st, "append with `...` spread to tracked slice `%s`", id.Name)
			}
			es := []*c18lE{}
			for _, a := range call.Args[1:] {
				e, err := c.pushArg(lb, id.Name, a)
				if err != nil {
					return nil, err
				}
				es = append(es, e)
			}
			return []*c18lS{{kind: "push", k: lb.id, es: es}}, nil
		}
	}

	// rule 5: integer assignments
	if e, ok := c.intExpr(rhs); ok {
		if st.Tok == token.DEFINE {
			b := c.declareInt(id.Name, "int", body)
			return []*c18lS{{kind: "assign", k: b.id, e: e}}, nil
		}
		switch {
		case lb == nil || lb.kind == "other":
			return nil, c.skip(st, "skipped (integer value assigned to an untracked variable)")
		case lb.kind == "int":
			if lb.body != body {
				return nil, c.errf(st, "assignment to `%s`, which was declared outside the current loop body (loop-carried state / parameter / loop variable)", id.Name)
			}
			return []*c18lS{{kind: "assign", k: lb.id, e: e}}, nil
		default:
			return nil, c.errf(st, "integer assigned to tracked %s `%s`", lb.kind, id.Name)
		}
	}

	// non-integer right-hand side
	if lb.tracked() {
		return nil, c.errf(st, "non-integer (untranslatable) value assigned to tracked name `%s`", id.Name)
	}
	if c18lTrackVertexCopies && st.Tok == token.DEFINE {
		if ix, ok := c18lUnparen(rhs).(*ast.IndexExpr); ok {
			if sid, ok := c18lUnparen(ix.X).(*ast.Ident); ok {
				if b := c.lookup(sid.Name); b != nil && b.kind == "slice" && !b.eltInt {
					if e, ok := c.intExpr(ix.Index); ok {
						nb := c.declareInt(id.Name, "vref", body)
						return []*c18lS{{kind: "assign", k: nb.id, e: e}}, nil
					}
				}
			}
		}
	}
	return nil, c.skip(st, "skipped (non-integer value, untracked variable)")
}

// rule 7: loops
func (c *c18lCtx) loop(st *ast.ForStmt) (*c18lS, error) {
	init, ok := st.Init.(*ast.AssignStmt)
	if !ok || init.Tok != token.DEFINE || len(init.Lhs) != 1 || len(init.Rhs) != 1 {
		return nil, c.errf(st, "for statement whose init is not `v := lo`")
	}
	v, ok := init.Lhs[0].(*ast.Ident)
	if !ok || v.Name == "_" {
		return nil, c.errf(st, "for statement whose init is not `v := lo`")
	}
	lo, ok := c.intExpr(init.Rhs[0])
	if !ok {
		return nil, c.errf(st, "for statement whose lower bound is not an integer expression")
	}
	cond, ok := c18lUnparen(st.Cond).(*ast.BinaryExpr)
	if st.Cond == nil || !ok || (cond.Op != token.LSS && cond.Op != token.LEQ) {
		return nil, c.errf(st, "for statement whose condition is not `v < hi` / `v <= hi`")
	}
	if x, ok := c18lUnparen(cond.X).(*ast.Ident); !ok || x.Name != v.Name {
		return nil, c.errf(st, "for statement whose condition is not `v < hi` / `v <= hi`")
	}
	post, ok := st.Post.(*ast.IncDecStmt)
	if !ok || post.Tok != token.INC {
		return nil, c.errf(st, "for statement whose post statement is not `v++`")
	}
	if x, ok := c18lUnparen(post.X).(*ast.Ident); !ok || x.Name != v.Name {
		return nil, c.errf(st, "for statement whose post statement is not `v++`")
	}
	c.push()
	defer c.pop()
	vb := c.declareInt(v.Name, "int", -1)
	hi, ok := c.intExpr(cond.Y)
	if !ok {
		return nil, c.errf(st, "for statement whose upper bound is not an integer expression")
	}
	c.nextBody++
	body, err := c.stmts(st.Body.List, c.nextBody, false)
	if err != nil {
		return nil, err
	}
	assigned := map[int]bool{vb.id: true}
	c18lAssigned(body, assigned)
	for _, b := range []*c18lE{lo, hi} {
		if b.any(func(e *c18lE) bool { return e.op == "len" || (e.op == "var" && assigned[e.n]) }) {
			return nil, c.errf(st, "loop bound mentions len, the loop variable or a variable assigned in the body")
		}
	}
	return &c18lS{kind: "loop", k: vb.id, lo: lo, hi: hi, incl: cond.Op == token.LEQ, body: body}, nil
}

// rule 2: `if A < B { panic(...) }`
func (c *c18lCtx) guard(st ast.Stmt) ([2]*c18lE, bool) {
	var none [2]*c18lE
	is, ok := st.(*ast.IfStmt)
	if !ok || is.Init != nil || is.Else != nil || len(is.Body.List) != 1 {
		return none, false
	}
	cond, ok := c18lUnparen(is.Cond).(*ast.BinaryExpr)
	if !ok || cond.Op != token.LSS {
		return none, false
	}
	es, ok := is.Body.List[0].(*ast.ExprStmt)
	if !ok {
		return none, false
	}
	call, ok := es.X.(*ast.CallExpr)
	if !ok {
		return none, false
	}
	if f, ok := call.Fun.(*ast.Ident); !ok || f.Name != "panic" || c.lookup("panic") != nil {
		return none, false
	}
	a, ok := c.intExpr(cond.X)
	if !ok {
		return none, false
	}
	b, ok := c.intExpr(cond.Y)
	if !ok {
		return none, false
	}
	return [2]*c18lE{a, b}, true
}

func (c *c18lCtx) stmts(list []ast.Stmt, body int, funcLevel bool) ([]*c18lS, error) {
	c.push()
	defer c.pop()
	out := []*c18lS{}
	leading := funcLevel
	for _, st := range list {
		if leading {
			if g, ok := c.guard(st); ok {
				c.guards = append(c.guards, g)
				continue
			}
			leading = false
		}
		switch v := st.(type) {
		case *ast.ReturnStmt:
			if !funcLevel {
				return nil, c.errf(st, "return inside a loop body")
			}
			return out, nil
		case *ast.AssignStmt:
			ss, err := c.assign(v, body, funcLevel)
			if err != nil {
				return nil, err
			}
			out = append(out, ss...)
		case *ast.ForStmt:
			s, err := c.loop(v)
			if err != nil {
				return nil, err
			}
			out = append(out, s)
		case *ast.IncDecStmt:
			if c.rootTracked(v.X) {
				return nil, c.errf(st, "increment / decrement of tracked name `%s`", c18lRoot(v.X).Name)
			}
			if err := c.skip(st, "skipped"); err != nil {
				return nil, err
			}
		case *ast.BranchStmt, *ast.LabeledStmt, *ast.GoStmt, *ast.DeferStmt:
			return nil, c.errf(st, "control-flow statement in a translated statement list")
		default:
			if err := c.skip(st, "skipped"); err != nil {
				return nil, err
			}
		}
	}
	return out, nil
}

// ---- one constructor ----------------------------------------------------------------------------------------

type c18lResult struct {
	text    string
	skipped []string
}

func c18lFunc(f *ast.File, name string) (*ast.FuncDecl, int) {
	var found *ast.FuncDecl
	n := 0
	for _, d := range f.Decls {
		if fd, ok := d.(*ast.FuncDecl); ok && fd.Recv == nil && fd.Name.Name == name {
			found = fd
			n++
		}
	}
	return found, n
}

func c18lExtract(fset *token.FileSet, f *ast.File, cfg c18lCfg) (*c18lResult, error) {
	var fd *ast.FuncDecl
	goName := cfg.fn
	if cfg.recv == "" {
		var n int
		fd, n = c18lFunc(f, cfg.fn)
		if n != 1 {
			return nil, fmt.Errorf("%s: expected exactly one func %s (found %d)", cfg.file, cfg.fn, n)
		}
	} else {
		goName = cfg.recv + "." + cfg.fn
		fd = c18Method(f, cfg.recv, cfg.fn)
	}
	if fd == nil || fd.Body == nil {
		return nil, fmt.Errorf("%s: func %s not found", cfg.file, goName)
	}
	c := &c18lCtx{fset: fset, cfg: cfg, sliceByNam: map[string]*c18lBind{}}
	c.push()
	// rule 1: parameters
	if fd.Recv != nil {
		if len(fd.Recv.List[0].Names) == 1 {
			c.recvName = fd.Recv.List[0].Names[0].Name
			c.declare(c.recvName, &c18lBind{kind: "recv"})
		}
		if c.recvName == "" || c.recvName == "_" {
			if len(cfg.intFields) > 0 {
				return nil, c.errf(fd, "method without a named receiver")
			}
		}
		for _, fld := range cfg.intFields {
			c.params = append(c.params, fmt.Sprintf("%s.%s=%d", c.recvName, fld, c.nextVar))
			c.nextVar++
		}
	}
	for _, p := range fd.Type.Params.List {
		for _, nm := range p.Names {
			if c18Sel(p.Type) == "int" {
				if _, isId := p.Type.(*ast.Ident); isId && nm.Name != "_" {
					b := &c18lBind{kind: "int", id: c.nextVar, body: -1}
					c.nextVar++
					c.params = append(c.params, fmt.Sprintf("%s=%d", nm.Name, b.id))
					c.declare(nm.Name, b)
					continue
				}
			}
			c.declare(nm.Name, &c18lBind{kind: "other"})
		}
	}
	nparams := c.nextVar
	c.vars = nil
	body, err := c.stmts(fd.Body.List, 0, true)
	if err != nil {
		return nil, err
	}
	ib, vb := c.sliceByNam[cfg.idx], c.sliceByNam[cfg.verts]
	if ib == nil || !ib.eltInt {
		return nil, c.errf(fd, "the index slice `%s` is not declared by a function-level `%s := make([]int, …)`", cfg.idx, cfg.idx)
	}
	if vb == nil || vb.eltInt {
		return nil, c.errf(fd, "the vertex slice `%s` is not declared by a function-level `%s := make([]T, …)`", cfg.verts, cfg.verts)
	}
	// the configured slices must be the ones handed to NewTriangleMesh / set as PositionAttribute
	usesIdx, usesPos := 0, 0
	otherIdx, otherPos := false, false
	ast.Inspect(fd.Body, func(nd ast.Node) bool {
		switch v := nd.(type) {
		case *ast.CallExpr:
			if c18Sel(v.Fun) == "modeling.NewTriangleMesh" {
				if len(v.Args) == 1 && c18Sel(v.Args[0]) == cfg.idx {
					usesIdx++
				} else {
					otherIdx = true
				}
			}
		case *ast.KeyValueExpr:
			if c18Sel(v.Key) == "modeling.PositionAttribute" {
				if c18Sel(v.Value) == cfg.verts {
					usesPos++
				} else {
					otherPos = true
				}
			}
		}
		return true
	})
	if usesIdx != 1 || otherIdx {
		return nil, c.errf(fd, "expected exactly one modeling.NewTriangleMesh call, with argument `%s`", cfg.idx)
	}
	if usesPos != 1 || otherPos {
		return nil, c.errf(fd, "expected exactly one `modeling.PositionAttribute: …` entry, with value `%s`", cfg.verts)
	}

	var b strings.Builder
	fmt.Fprintf(&b, "/-- %s `%s`: params %s; slices %s;\n    vars %s -/\n", cfg.file, goName,
		strings.Join(c.params, " "), strings.Join(c.slices, " "), strings.Join(c.vars, " "))
	fmt.Fprintf(&b, "def %s : Prog := {\n", cfg.lean)
	fmt.Fprintf(&b, "  params := %d\n", nparams)
	gs := make([]string, len(c.guards))
	for i, g := range c.guards {
		gs[i] = fmt.Sprintf("(%s, %s)", g[0].bare(), g[1].bare())
	}
	fmt.Fprintf(&b, "  guards := [%s]\n", strings.Join(gs, ", "))
	fmt.Fprintf(&b, "  idx := %d\n", ib.id)
	fmt.Fprintf(&b, "  verts := %d\n", vb.id)
	fmt.Fprintf(&b, "  body :=\n%s }\n", c18lTop(body))

	if cfg.appends {
		s, err := c18lAppends(c, fd)
		if err != nil {
			return nil, err
		}
		b.WriteString("\n" + s)
	}
	return &c18lResult{text: b.String(), skipped: c.skipped}, nil
}

// rule 10: the Append structure of Cylinder.ToMesh
//
//	<mesh> := modeling.NewTriangleMesh(<idx>)…                       (function level, once)
//	if !c.<Flag> { <mesh> = <mesh>.Append(<circleVar>.ToMesh()…) }   (function level, in order)
//	return <mesh>
//
// with every <circleVar> declared once as `Circle{… Sides: c.Sides …}` and neither it nor its Sides assigned again;
// any other assignment to <mesh> is an error.
func c18lAppends(c *c18lCtx, fd *ast.FuncDecl) (string, error) {
	list := fd.Body.List
	if len(list) == 0 {
		return "", c.errf(fd, "empty function body")
	}
	ret, ok := list[len(list)-1].(*ast.ReturnStmt)
	if !ok || len(ret.Results) != 1 {
		return "", c.errf(list[len(list)-1], "the last statement is not `return <mesh variable>`")
	}
	meshId, ok := ret.Results[0].(*ast.Ident)
	if !ok {
		return "", c.errf(ret, "the last statement is not `return <mesh variable>`")
	}
	mesh := meshId.Name
	type pair struct{ flag, circle string }
	pairs := []pair{}
	decls := 0
	recognised := map[*ast.AssignStmt]bool{}
	for _, st := range list {
		switch v := st.(type) {
		case *ast.ReturnStmt:
			if st != ast.Stmt(ret) {
				return "", c.errf(st, "return before the end of the function")
			}
		case *ast.AssignStmt:
			if len(v.Lhs) == 1 && len(v.Rhs) == 1 && c18Sel(v.Lhs[0]) == mesh && v.Tok == token.DEFINE {
				// root of the call chain must be modeling.NewTriangleMesh(idx)
				e := v.Rhs[0]
				for {
					call, ok := e.(*ast.CallExpr)
					if !ok {
						return "", c.errf(v, "`%s` is not declared as a call chain on modeling.NewTriangleMesh(%s)", mesh, c.cfg.idx)
					}
					if c18Sel(call.Fun) == "modeling.NewTriangleMesh" {
						if len(call.Args) != 1 || c18Sel(call.Args[0]) != c.cfg.idx {
							return "", c.errf(v, "`%s` is not declared as a call chain on modeling.NewTriangleMesh(%s)", mesh, c.cfg.idx)
						}
						break
					}
					sel, ok := call.Fun.(*ast.SelectorExpr)
					if !ok {
						return "", c.errf(v, "`%s` is not declared as a call chain on modeling.NewTriangleMesh(%s)", mesh, c.cfg.idx)
					}
					if sel.Sel.Name == "Append" {
						return "", c.errf(v, "Append in the declaration of `%s`", mesh)
					}
					e = sel.X
				}
				decls++
				recognised[v] = true
			}
		case *ast.IfStmt:
			if len(v.Body.List) != 1 {
				continue
			}
			as, ok := v.Body.List[0].(*ast.AssignStmt)
			if !ok || len(as.Lhs) != 1 || len(as.Rhs) != 1 || c18Sel(as.Lhs[0]) != mesh {
				continue
			}
			bad := func() (string, error) {
				return "", c.errf(v, "assignment to `%s` that is not of the form `if !%s.<Flag> { %s = %s.Append(<circle>.ToMesh()…) }`",
					mesh, c.recvName, mesh, mesh)
			}
			if v.Init != nil || v.Else != nil || as.Tok != token.ASSIGN || decls != 1 {
				return bad()
			}
			not, ok := c18lUnparen(v.Cond).(*ast.UnaryExpr)
			if !ok || not.Op != token.NOT {
				return bad()
			}
			fsel, ok := c18lUnparen(not.X).(*ast.SelectorExpr)
			if !ok || c18Sel(fsel.X) != c.recvName || c.recvName == "" {
				return bad()
			}
			call, ok := as.Rhs[0].(*ast.CallExpr)
			if !ok || c18Sel(call.Fun) != mesh+".Append" || len(call.Args) != 1 || call.Ellipsis != token.NoPos {
				return bad()
			}
			circle := ""
			e := call.Args[0]
			for circle == "" {
				cc, ok := e.(*ast.CallExpr)
				if !ok {
					return bad()
				}
				sel, ok := cc.Fun.(*ast.SelectorExpr)
				if !ok {
					return bad()
				}
				if id, isId := sel.X.(*ast.Ident); isId {
					if sel.Sel.Name != "ToMesh" || len(cc.Args) != 0 {
						return bad()
					}
					circle = id.Name
				} else {
					if sel.Sel.Name == "Append" {
						return bad()
					}
					e = sel.X
				}
			}
			pairs = append(pairs, pair{fsel.Sel.Name, circle})
			recognised[as] = true
		}
	}
	if decls != 1 {
		return "", c.errf(fd, "expected exactly one function-level `%s := modeling.NewTriangleMesh(%s)…` (found %d)", mesh, c.cfg.idx, decls)
	}
	// no other write to the mesh variable, no other Append
	var werr error
	ast.Inspect(fd.Body, func(nd ast.Node) bool {
		if werr != nil {
			return false
		}
		switch v := nd.(type) {
		case *ast.AssignStmt:
			for _, l := range v.Lhs {
				if id := c18lRoot(l); id != nil && id.Name == mesh && !recognised[v] {
					werr = c.errf(v, "unrecognised assignment to the mesh variable `%s`", mesh)
				}
			}
		case *ast.UnaryExpr:
			if id := c18lRoot(v.X); v.Op == token.AND && id != nil && id.Name == mesh {
				werr = c.errf(v, "address of the mesh variable `%s` taken", mesh)
			}
		}
		return true
	})
	if werr != nil {
		return "", werr
	}
	// the circle variables
	for _, p := range pairs {
		declared := 0
		var derr error
		ast.Inspect(fd.Body, func(nd ast.Node) bool {
			if derr != nil {
				return false
			}
			switch v := nd.(type) {
			case *ast.AssignStmt:
				for i, l := range v.Lhs {
					id := c18lRoot(l)
					if id == nil || id.Name != p.circle {
						continue
					}
					if _, isId := l.(*ast.Ident); isId {
						// the declaration: function level, `x := Circle{… Sides: c.Sides …}`
						atTop := false
						for _, st := range list {
							if st == ast.Stmt(v) {
								atTop = true
							}
						}
						var cl *ast.CompositeLit
						isLit := false
						if len(v.Lhs) == len(v.Rhs) {
							cl, isLit = v.Rhs[i].(*ast.CompositeLit)
						}
						if !atTop || v.Tok != token.DEFINE || !isLit || c18Sel(cl.Type) != "Circle" {
							derr = c.errf(v, "`%s` is assigned other than by a function-level `%s := Circle{…}`", p.circle, p.circle)
							return false
						}
						sidesOK := 0
						for _, el := range cl.Elts {
							kv, ok := el.(*ast.KeyValueExpr)
							if !ok {
								derr = c.errf(v, "unkeyed Circle literal")
								return false
							}
							if c18Sel(kv.Key) == "Sides" {
								if e, ok := c.paramExpr(kv.Value); ok && e.op == "var" && e.n == 0 {
									sidesOK++
								} else {
									sidesOK = -100
								}
							}
						}
						if sidesOK != 1 {
							derr = c.errf(v, "`%s` is not declared with `Sides: %s.%s`", p.circle, c.recvName, c.cfg.intFields[0])
							return false
						}
						declared++
					} else if sel, isSel := c18lUnparen(l).(*ast.SelectorExpr); !isSel || sel.Sel.Name == "Sides" || c18Sel(sel.X) != p.circle {
						derr = c.errf(v, "write to `%s` that may change its Sides", p.circle)
						return false
					}
				}
			case *ast.IncDecStmt:
				if id := c18lRoot(v.X); id != nil && id.Name == p.circle {
					derr = c.errf(v, "write to `%s`", p.circle)
				}
			case *ast.UnaryExpr:
				if id := c18lRoot(v.X); v.Op == token.AND && id != nil && id.Name == p.circle {
					derr = c.errf(v, "address of `%s` taken", p.circle)
				}
			}
			return true
		})
		if derr != nil {
			return "", derr
		}
		if declared != 1 {
			return "", c.errf(fd, "expected exactly one declaration `%s := Circle{… Sides: %s.%s …}` (found %d)", p.circle, c.recvName, c.cfg.intFields[0], declared)
		}
	}
	ps := make([]string, len(pairs))
	for i, p := range pairs {
		ps[i] = fmt.Sprintf("(%q, %q)", p.flag, p.circle)
	}
	var b strings.Builder
	fmt.Fprintf(&b, "/-- %s `%s.%s`: after the loops, in source order, `if !%s.<Flag> { %s = %s.Append(<circle>.ToMesh()…) }` as\n"+
		"    (Flag, circle); every circle is declared as `Circle{… Sides: %s.%s …}` -/\n",
		c.cfg.file, c.cfg.recv, c.cfg.fn, c.recvName, mesh, mesh, c.recvName, c.cfg.intFields[0])
	fmt.Fprintf(&b, "def %sAppends : List (String × String) := [%s]\n", c.cfg.lean, strings.Join(ps, ", "))
	return b.String(), nil
}

// an integer expression over the parameters only (evaluated in the outermost scope: receiver fields)
func (c *c18lCtx) paramExpr(e ast.Expr) (*c18lE, bool) {
	saved := c.scopes
	c.scopes = c.scopes[:1]
	defer func() { c.scopes = saved }()
	return c.intExpr(e)
}

func c18Loops(repo, out string, args []string) error {
	if out == "" {
		return fmt.Errorf("c18.loops: -out is required")
	}
	fset := token.NewFileSet()
	dir := filepath.Join(repo, "modeling", "primitives")
	files := map[string]*ast.File{}
	var b strings.Builder
	b.WriteString("-- GENERATED by `go/facts c18.loops` from /repo modeling/primitives/{sphere,hemisphere,circle,cylinder}.go — do not edit\n")
	b.WriteString("import PolyVerif.Model.LoopIR\n")
	b.WriteString("namespace PolyVerif.Gen.PrimLoops\n")
	b.WriteString("open PolyVerif.LoopIR PolyVerif.LoopIR.E PolyVerif.LoopIR.S\n\n")
	skipped := []string{}
	for _, cfg := range c18lCfgs {
		f := files[cfg.file]
		if f == nil {
			var err error
			f, err = parser.ParseFile(fset, filepath.Join(dir, cfg.file), nil, 0)
			if err != nil {
				return err
			}
			files[cfg.file] = f
		}
		r, err := c18lExtract(fset, f, cfg)
		if err != nil {
			return fmt.Errorf("c18.loops %s: %v", cfg.lean, err)
		}
		b.WriteString(r.text + "\n")
		skipped = append(skipped, r.skipped...)
	}
	b.WriteString("end PolyVerif.Gen.PrimLoops\n")
	if os.Getenv("C18L_VERBOSE") != "" {
		for _, s := range skipped {
			fmt.Fprintln(os.Stderr, s)
		}
	}
	return os.WriteFile(out, []byte(b.String()), 0o644)
}
