// Engine F, property C18: the INTEGER SKELETON (loop nests, loop bounds, integer assignments, appends to
// slices) of the ring / fan primitive constructors, read from the current tree with go/parser + go/ast
// (no type checker) and written as terms of the loop language of PolyVerif/Model/LoopIR.lean
// (PolyVerif/Gen/PrimLoops.lean).
//
//	sphere.go      func UVSphere, func UVSphereUnwelded
//	hemisphere.go  func (h Hemisphere) UV
//	circle.go      func (c Circle) ToMesh
//	cylinder.go    func (c Cylinder) ToMesh   (+ the Append structure: cylinderAppends)
//
// Every construct that is not one of the recognised shapes is an error naming file:line and the construct
// (the check then reports a broken obligation) — the extractor never guesses.  Translation rules:
//
//	params   the `int` parameters of the signature in order, for methods preceded by the configured integer
//	         receiver fields (`c.Sides`); they are variables 0,1,…; they can never be assigned
//	guards   leading `if A < B { panic(...) }` with integer A, B
//	slices   function-level `x := make([]T, n[, cap])`, n an integer expression -> `alloc id n`
//	E        int literals, tracked int variables, `len(trackedSlice)`, + - * % /, parentheses
//	assign   `x := <int expr>` declares a new variable id; `x = <int expr>` only when x was declared in the SAME
//	         loop body (function level: at function level) — anything else is loop-carried state and refused
//	vertex copies (extension, switch c18lTrackVertexCopies)  `a := t[e]`, t a tracked non-int slice, e an integer
//	         expression: a is a tracked variable holding the index e; `append(s, a)` then pushes `var a`
//	push     `s = append(s, a1, …)`: integer expression -> its E; `t[e]` (t tracked non-int slice) -> E of e;
//	         vertex-copy variable -> its variable; any other value -> `lit 0` (for an []int slice: refused)
//	loop     `for v := lo; v < hi (v <= hi); v++ { body }`, lo / hi integer, not mentioning len / v / a variable
//	         assigned in the body
//	ignored  `s[e] = value` for a tracked slice that is not the index slice
//	skipped  every other statement, provided its AST contains no write to a tracked name (assignment / IncDec /
//	         range variable / `&x` with a tracked root, `append(tracked, …)`), no `panic`, no `return` / `break` /
//	         `continue` / `goto` that leaves it, and mentions the index slice only as `len(idx)`, `idx[e]` or
//	         `modeling.NewTriangleMesh(idx)`
//	return   at function level ends the translation
//
// FLOAT / VECTOR code (statements fassign vassign vpush vset of LoopIR, inserted where the Go statements are; the
// integer statements above are unchanged by it):
//
//	fpars    the configured float receiver fields (`c.Radius`), then the `float64` parameters of the signature, in
//	         order: float parameters 0,1,…; they can never be assigned
//	FE       int literal / float literal with integral value -> `nat (lit n)`; other plain decimal literal -> `lit num
//	         10^decimals`; `math.Pi` -> `pi`; `float64(<E>)` -> `nat E`; float local -> `fvar k`; float parameter ->
//	         `fpar k`; + - * / as parsed; unary minus -> `neg`; `math.Sin(x)` / `math.Cos(x)`.  Not translated: a binary
//	         operation on two CONSTANT operands that the Go compiler folds in exact arithmetic, unless it is a
//	         multiplication by / division by an integral power-of-two literal with at least one non-integer constant
//	         operand (`2.0 * math.Pi`, `math.Pi / 2`: exact either way); `1 / 2` (integer constant division) is refused
//	VE       `vector3.New(a, b, c)` / `vector3.New[float64](…)` (without `[float64]`: not all three arguments integer
//	         constants — that would instantiate int) -> `new`; `v.Scale(f)`, `v.Add(w)`, `v.Normalized()` on a VE
//	         receiver; `vector3.Zero[float64]()`; vector local -> `vvar k`; `t[e]`, t a tracked []vector3.Float64
//	         slice, e an integer expression -> `at t e`
//	assign   `x := <FE>` -> `fassign k e`, k a NEW float-variable id (float locals are numbered separately, in source
//	         order); `v := <VE>` -> `vassign k ve` (vector locals numbered separately); `x = <FE / VE>` to a float /
//	         vector local declared in the SAME body -> same id (another body: loop-carried state, refused).  A vertex
//	         copy `a := t[e]` (t a vector slice) yields its integer `assign` and then `vassign k (at t e)`
//	opaque   an assignment whose right-hand side is neither E nor FE nor VE emits nothing and leaves the variable
//	         opaque; an opaque variable makes every expression that mentions it untranslatable
//	vpush    `s = append(s, v1, …)`, s a tracked []vector3.Float64 slice: `vpush s [VE…]` immediately before the
//	         `push`; an untranslatable argument is REFUSED
//	vset     `s[e] = v`, s a tracked []vector3.Float64 slice: `vset s E VE`; untranslatable index / value: REFUSED
//	nrm      the single `.SetFloat3Data(m)` call (receiver `modeling.NewTriangleMesh(idx)`, possibly through other
//	         SetFloatNData calls); m a map literal or a variable declared once at function level by a map literal and
//	         mentioned nowhere else; its keys are `modeling.<Name>`; `modeling.NormalAttribute: N` with N a tracked
//	         vector slice -> `nrm := some (N, false)`, N = `vector3.Array[float64](<tracked vector slice>).Normalized()`
//	         -> `some (slice, true)`, no such key -> field omitted; the literal must come after the last translated
//	         write to a tracked slice
//	imports  `math` / `vector3` must be the unrenamed imports "math" / "github.com/EliCDavis/vector/vector3" and not
//	         shadowed by a local name
package main

import (
	"bytes"
	"fmt"
	"go/ast"
	"go/parser"
	"go/printer"
	"go/token"
	"os"
	"path/filepath"
	"strconv"
	"strings"
)

func init() { modes["c18.loops"] = c18Loops }

// `a := t[e]` declares a tracked variable holding the index e (see the header); false = the literal rule
// (`a := <non-integer>` is skipped, a later `append(s, a)` pushes `lit 0`)
const c18lTrackVertexCopies = true

type c18lCfg struct {
	lean      string   // Lean definition name
	file      string   // file in modeling/primitives
	recv      string   // receiver type ("" = plain function)
	fn        string   // function / method name
	idx       string   // the []int slice handed to modeling.NewTriangleMesh
	verts     string   // the slice set as modeling.PositionAttribute
	intFields []string // integer receiver fields that count as parameters
	fltFields []string // float64 receiver fields that count as float parameters
	appends   bool     // also extract the Append structure (cylinder)
}

var c18lCfgs = []c18lCfg{
	{lean: "uvSphere", file: "sphere.go", fn: "UVSphere", idx: "tris", verts: "positions"},
	{lean: "hemisphere", file: "hemisphere.go", recv: "Hemisphere", fn: "UV", idx: "tris", verts: "positions", fltFields: []string{"Radius"}},
	{lean: "uvSphereUnwelded", file: "sphere.go", fn: "UVSphereUnwelded", idx: "tris", verts: "finalVerts"},
	{lean: "circle", file: "circle.go", recv: "Circle", fn: "ToMesh", idx: "tris", verts: "vertices", intFields: []string{"Sides"}, fltFields: []string{"Radius"}},
	{lean: "cylinder", file: "cylinder.go", recv: "Cylinder", fn: "ToMesh", idx: "tris", verts: "vertices", intFields: []string{"Sides"}, fltFields: []string{"Radius", "Height"}, appends: true},
}

const (
	c18lMathPath = "math"
	c18lVec3Path = "github.com/EliCDavis/vector/vector3"
)

// ---- the loop language ------------------------------------------------------------------------------------

type c18lE struct {
	op   string // lit var len add sub mul mod div
	n    int    // lit: value, var: variable id, len: slice id
	a, b *c18lE
}

func (e *c18lE) bare() string {
	switch e.op {
	case "lit", "var", "len":
		return fmt.Sprintf("%s %d", e.op, e.n)
	}
	return fmt.Sprintf("%s %s %s", e.op, e.a.arg(), e.b.arg())
}

func (e *c18lE) arg() string { return "(" + e.bare() + ")" }

func (e *c18lE) any(p func(*c18lE) bool) bool {
	if e == nil {
		return false
	}
	return p(e) || e.a.any(p) || e.b.any(p)
}

// float expressions; every constructor is written with the prefix `FE.` (add sub mul div lit also exist in E)
type c18lFE struct {
	op   string // nat lit pi fpar fvar add sub mul div neg sin cos
	n, d int    // lit: num den; fpar / fvar: id
	e    *c18lE // nat
	a, b *c18lFE
}

func (f *c18lFE) bare() string {
	switch f.op {
	case "nat":
		return "FE.nat " + f.e.arg()
	case "lit":
		return fmt.Sprintf("FE.lit %d %d", f.n, f.d)
	case "pi":
		return "FE.pi"
	case "fpar", "fvar":
		return fmt.Sprintf("FE.%s %d", f.op, f.n)
	case "neg", "sin", "cos":
		return fmt.Sprintf("FE.%s %s", f.op, f.a.arg())
	}
	return fmt.Sprintf("FE.%s %s %s", f.op, f.a.arg(), f.b.arg())
}

func (f *c18lFE) arg() string {
	if f.op == "pi" {
		return f.bare()
	}
	return "(" + f.bare() + ")"
}

// vector expressions; every constructor is written with the prefix `VE.`
type c18lVE struct {
	op      string  // new vvar scale add normalized zero at
	k       int     // vvar: id; at: slice id
	x, y, z *c18lFE // new; scale: x is the factor
	v, w    *c18lVE
	e       *c18lE // at: index
}

func (v *c18lVE) bare() string {
	switch v.op {
	case "new":
		return fmt.Sprintf("VE.new %s %s %s", v.x.arg(), v.y.arg(), v.z.arg())
	case "vvar":
		return fmt.Sprintf("VE.vvar %d", v.k)
	case "scale":
		return fmt.Sprintf("VE.scale %s %s", v.v.arg(), v.x.arg())
	case "add":
		return fmt.Sprintf("VE.add %s %s", v.v.arg(), v.w.arg())
	case "normalized":
		return "VE.normalized " + v.v.arg()
	case "zero":
		return "VE.zero"
	case "at":
		return fmt.Sprintf("VE.at %d %s", v.k, v.e.arg())
	}
	panic("c18.loops: unknown vector expression " + v.op)
}

func (v *c18lVE) arg() string {
	if v.op == "zero" {
		return v.bare()
	}
	return "(" + v.bare() + ")"
}

type c18lS struct {
	kind   string // assign push alloc loop / fassign vassign vpush vset
	k      int    // variable id (assign, loop, fassign, vassign) / slice id (push, alloc, vpush, vset)
	e      *c18lE // assign, alloc; vset: the index
	es     []*c18lE
	lo, hi *c18lE
	incl   bool
	body   []*c18lS
	fe     *c18lFE   // fassign
	ve     *c18lVE   // vassign, vset
	ves    []*c18lVE // vpush
}

func c18lAtom(s *c18lS, ind int) string {
	switch s.kind {
	case "fassign":
		return fmt.Sprintf("(fassign %d (%s))", s.k, s.fe.bare())
	case "vassign":
		return fmt.Sprintf("(vassign %d (%s))", s.k, s.ve.bare())
	case "vpush":
		p := make([]string, len(s.ves))
		for i, v := range s.ves {
			p[i] = v.bare()
		}
		return fmt.Sprintf("(vpush %d [%s])", s.k, strings.Join(p, ", "))
	case "vset":
		return fmt.Sprintf("(vset %d %s (%s))", s.k, s.e.arg(), s.ve.bare())
	case "assign":
		return fmt.Sprintf("(assign %d %s)", s.k, s.e.arg())
	case "alloc":
		return fmt.Sprintf("(alloc %d %s)", s.k, s.e.arg())
	case "push":
		p := make([]string, len(s.es))
		for i, e := range s.es {
			p[i] = e.bare()
		}
		return fmt.Sprintf("(push %d [%s])", s.k, strings.Join(p, ", "))
	case "loop":
		return fmt.Sprintf("(loop %d %s %s %t\n%s)", s.k, s.lo.arg(), s.hi.arg(), s.incl, c18lSeq(s.body, ind+2))
	}
	panic("c18.loops: unknown statement kind " + s.kind)
}

// right-nested `(seq s1 (seq s2 (… sn)))`, one statement per line, closing parentheses accumulated at the end
func c18lSeq(list []*c18lS, ind int) string {
	pad := strings.Repeat(" ", ind)
	if len(list) == 0 {
		return pad + "skip"
	}
	var b strings.Builder
	for i, s := range list {
		if i < len(list)-1 {
			b.WriteString(pad + "(seq " + c18lAtom(s, ind) + "\n")
		} else {
			b.WriteString(pad + c18lAtom(s, ind) + strings.Repeat(")", len(list)-1))
		}
	}
	return b.String()
}

// the body of a definition: as c18lSeq at indentation 4, without the outermost pair of parentheses
func c18lTop(list []*c18lS) string {
	s := c18lSeq(list, 4)
	if len(list) >= 2 {
		s = "    " + s[5:len(s)-1]
	}
	return s
}

func c18lAssigned(list []*c18lS, into map[int]bool) {
	for _, s := range list {
		if s.kind == "assign" || s.kind == "loop" {
			into[s.k] = true
		}
		c18lAssigned(s.body, into)
	}
}

// ---- translation ------------------------------------------------------------------------------------------

type c18lBind struct {
	kind string // "int" (tracked integer variable), "vref" (vertex copy), "slice", "recv", "other" (untracked / opaque, shadows),
	// "float" (float local), "vec" (vector local), "fpar" (float parameter)
	id     int
	body   int  // int / vref / float / vec: id of the loop body it was declared in (0 = function level); -1 = never assignable
	eltInt bool // slice: element type is `int`
	eltVec bool // slice: element type is `vector3.Float64`
	vid    int  // vref: id of the vector local holding the copied vertex (-1: the source is not a vector slice)
	opaque bool // float / vec: the last value assigned was untranslatable
	line   int  // line of the declaration (other / float / vec), for messages
}

func (b *c18lBind) tracked() bool {
	if b == nil {
		return false
	}
	switch b.kind {
	case "int", "vref", "slice", "recv", "float", "vec", "fpar":
		return true
	}
	return false
}

type c18lCtx struct {
	fset       *token.FileSet
	cfg        c18lCfg
	recvName   string
	scopes     []map[string]*c18lBind
	nextVar    int
	nextSlice  int
	nextBody   int
	nextFVar   int
	nextVVar   int
	nextFPar   int
	params     []string // "name=id"
	slices     []string
	vars       []string
	fpars      []string
	fvars      []string
	vvars      []string
	guards     [][2]*c18lE
	skipped    []string // report of skipped / ignored statements (printed to stderr when C18L_VERBOSE is set)
	idxBind    *c18lBind
	sliceByNam map[string]*c18lBind
	imports    map[string]string // local package name -> import path
	lastWrite  token.Pos         // position of the last translated write to a tracked slice
}

// why an expression is not an FE / VE
type c18lWhy struct {
	n   ast.Node
	msg string
}

func c18lNo(n ast.Node, format string, a ...any) *c18lWhy {
	return &c18lWhy{n: n, msg: fmt.Sprintf(format, a...)}
}

func (c *c18lCtx) line(n ast.Node) int { return c.fset.Position(n.Pos()).Line }

// `name` is the package imported (unrenamed) from `path`, not shadowed by a local declaration
func (c *c18lCtx) pkgIs(name, path string) bool {
	return c.lookup(name) == nil && c.imports[name] == path
}

func (c *c18lCtx) src(n ast.Node) string {
	var buf bytes.Buffer
	printer.Fprint(&buf, c.fset, n)
	s := strings.Join(strings.Fields(buf.String()), " ")
	if len(s) > 100 {
		s = s[:100] + " …"
	}
	return s
}

func (c *c18lCtx) errf(n ast.Node, format string, a ...any) error {
	p := c.fset.Position(n.Pos())
	return fmt.Errorf("%s:%d: %s — `%s`", filepath.Base(p.Filename), p.Line, fmt.Sprintf(format, a...), c.src(n))
}

func (c *c18lCtx) push() { c.scopes = append(c.scopes, map[string]*c18lBind{}) }
func (c *c18lCtx) pop()  { c.scopes = c.scopes[:len(c.scopes)-1] }
func (c *c18lCtx) lookup(name string) *c18lBind {
	for i := len(c.scopes) - 1; i >= 0; i-- {
		if b, ok := c.scopes[i][name]; ok {
			return b
		}
	}
	return nil
}
func (c *c18lCtx) declare(name string, b *c18lBind) {
	if name != "_" {
		c.scopes[len(c.scopes)-1][name] = b
	}
}
func (c *c18lCtx) declareInt(name, kind string, body int) *c18lBind {
	b := &c18lBind{kind: kind, id: c.nextVar, body: body}
	c.nextVar++
	c.vars = append(c.vars, fmt.Sprintf("%s=%d", name, b.id))
	c.declare(name, b)
	return b
}

func c18lUnparen(e ast.Expr) ast.Expr {
	for {
		p, ok := e.(*ast.ParenExpr)
		if !ok {
			return e
		}
		e = p.X
	}
}

// the identifier an lvalue / operand is rooted at: x, x[i], x.f, *x, x[a:b], (x)
func c18lRoot(e ast.Expr) *ast.Ident {
	for {
		switch v := e.(type) {
		case *ast.Ident:
			return v
		case *ast.IndexExpr:
			e = v.X
		case *ast.SelectorExpr:
			e = v.X
		case *ast.StarExpr:
			e = v.X
		case *ast.ParenExpr:
			e = v.X
		case *ast.SliceExpr:
			e = v.X
		default:
			return nil
		}
	}
}

func (c *c18lCtx) rootTracked(e ast.Expr) bool {
	id := c18lRoot(e)
	return id != nil && c.lookup(id.Name).tracked()
}

// rule 4: integer expressions; ok = false: "non-integer"
func (c *c18lCtx) intExpr(e ast.Expr) (*c18lE, bool) {
	switch v := e.(type) {
	case *ast.ParenExpr:
		return c.intExpr(v.X)
	case *ast.BasicLit:
		if v.Kind != token.INT {
			return nil, false
		}
		n, err := strconv.ParseInt(v.Value, 0, 64)
		if err != nil || n < 0 {
			return nil, false
		}
		return &c18lE{op: "lit", n: int(n)}, true
	case *ast.Ident:
		if b := c.lookup(v.Name); b != nil && b.kind == "int" {
			return &c18lE{op: "var", n: b.id}, true
		}
		return nil, false
	case *ast.SelectorExpr: // integer receiver field = parameter
		x, ok := v.X.(*ast.Ident)
		if !ok || c.recvName == "" || x.Name != c.recvName {
			return nil, false
		}
		if b := c.lookup(x.Name); b == nil || b.kind != "recv" {
			return nil, false
		}
		for i, f := range c.cfg.intFields {
			if f == v.Sel.Name {
				return &c18lE{op: "var", n: i}, true
			}
		}
		return nil, false
	case *ast.CallExpr:
		f, ok := v.Fun.(*ast.Ident)
		if !ok || f.Name != "len" || c.lookup("len") != nil || len(v.Args) != 1 || v.Ellipsis != token.NoPos {
			return nil, false
		}
		s, ok := c18lUnparen(v.Args[0]).(*ast.Ident)
		if !ok {
			return nil, false
		}
		if b := c.lookup(s.Name); b != nil && b.kind == "slice" {
			return &c18lE{op: "len", n: b.id}, true
		}
		return nil, false
	case *ast.BinaryExpr:
		op := map[token.Token]string{token.ADD: "add", token.SUB: "sub", token.MUL: "mul", token.REM: "mod", token.QUO: "div"}[v.Op]
		if op == "" {
			return nil, false
		}
		a, ok := c.intExpr(v.X)
		if !ok {
			return nil, false
		}
		b, ok := c.intExpr(v.Y)
		if !ok {
			return nil, false
		}
		return &c18lE{op: op, a: a, b: b}, true
	}
	return nil, false
}

// a plain decimal literal `ddd`, `ddd.`, `.ddd`, `ddd.ddd` (no exponent, no base prefix, no `_`):
// integral value -> (n, 1), else (digits, 10^decimals)
func c18lDecimal(s string) (num, den int, ok bool) {
	ip, fp, _ := strings.Cut(s, ".")
	if ip == "" && fp == "" {
		return 0, 0, false
	}
	for _, r := range ip + fp {
		if r < '0' || r > '9' {
			return 0, 0, false
		}
	}
	if len(ip) > 1 && ip[0] == '0' && !strings.Contains(s, ".") { // legacy octal `017`
		return 0, 0, false
	}
	if len(ip)+len(fp) > 15 {
		return 0, 0, false
	}
	if strings.Trim(fp, "0") == "" {
		fp = ""
	}
	n, err := strconv.ParseInt("0"+ip+fp, 10, 64)
	if err != nil {
		return 0, 0, false
	}
	den = 1
	for range fp {
		den *= 10
	}
	return int(n), den, true
}

// constant operands (folded by the compiler in exact arithmetic): 0 = not a constant, 1 = integer constant
// (literals and operators only), 2 = other constant (a float literal, math.Pi, float64(<integer constant>) inside)
func (c *c18lCtx) constKind(e ast.Expr) int {
	switch v := e.(type) {
	case *ast.ParenExpr:
		return c.constKind(v.X)
	case *ast.BasicLit:
		switch v.Kind {
		case token.INT:
			return 1
		case token.FLOAT:
			return 2
		}
	case *ast.SelectorExpr:
		if x, ok := v.X.(*ast.Ident); ok && x.Name == "math" && v.Sel.Name == "Pi" && c.pkgIs("math", c18lMathPath) {
			return 2
		}
	case *ast.UnaryExpr:
		if v.Op == token.SUB || v.Op == token.ADD {
			return c.constKind(v.X)
		}
	case *ast.BinaryExpr:
		a, b := c.constKind(v.X), c.constKind(v.Y)
		if a == 0 || b == 0 {
			return 0
		}
		return max(a, b)
	case *ast.CallExpr:
		if f, ok := v.Fun.(*ast.Ident); ok && f.Name == "float64" && len(v.Args) == 1 && c.constKind(v.Args[0]) != 0 {
			return 2
		}
	}
	return 0
}

// ±(literal with an integral power-of-two value)
func c18lPow2Lit(e ast.Expr) bool {
	e = c18lUnparen(e)
	if u, ok := e.(*ast.UnaryExpr); ok && u.Op == token.SUB {
		e = c18lUnparen(u.X)
	}
	bl, ok := e.(*ast.BasicLit)
	if !ok || (bl.Kind != token.INT && bl.Kind != token.FLOAT) {
		return false
	}
	n, den, ok := c18lDecimal(bl.Value)
	return ok && den == 1 && n > 0 && n&(n-1) == 0
}

func (c *c18lCtx) noIdent(id *ast.Ident, what string) *c18lWhy {
	b := c.lookup(id.Name)
	switch {
	case b == nil:
		return c18lNo(id, "`%s` is not a %s (not declared by a translated statement)", id.Name, what)
	case (b.kind == "float" || b.kind == "vec") && b.opaque:
		return c18lNo(id, "use of the OPAQUE variable `%s` (its last assigned value was untranslatable; declared at line %d)", id.Name, b.line)
	case b.kind == "other" && b.line > 0:
		return c18lNo(id, "use of the OPAQUE variable `%s` (declared at line %d with an untranslatable value)", id.Name, b.line)
	}
	return c18lNo(id, "`%s` is not a %s (it is: %s)", id.Name, what, b.kind)
}

// float expressions (see the header)
func (c *c18lCtx) floatExpr(e ast.Expr) (*c18lFE, *c18lWhy) {
	switch v := e.(type) {
	case *ast.ParenExpr:
		return c.floatExpr(v.X)
	case *ast.BasicLit:
		if v.Kind != token.INT && v.Kind != token.FLOAT {
			return nil, c18lNo(v, "literal that is not a number")
		}
		n, den, ok := c18lDecimal(v.Value)
		if !ok {
			return nil, c18lNo(v, "numeric literal that is not a plain decimal of at most 15 digits")
		}
		if den == 1 {
			return &c18lFE{op: "nat", e: &c18lE{op: "lit", n: n}}, nil
		}
		return &c18lFE{op: "lit", n: n, d: den}, nil
	case *ast.Ident:
		if b := c.lookup(v.Name); b != nil {
			switch {
			case b.kind == "float" && !b.opaque:
				return &c18lFE{op: "fvar", n: b.id}, nil
			case b.kind == "fpar":
				return &c18lFE{op: "fpar", n: b.id}, nil
			}
		}
		return nil, c.noIdent(v, "float variable")
	case *ast.SelectorExpr:
		x, ok := v.X.(*ast.Ident)
		if !ok {
			return nil, c18lNo(v, "selector that is neither math.Pi nor a float receiver field")
		}
		if x.Name == "math" && c.pkgIs("math", c18lMathPath) {
			if v.Sel.Name == "Pi" {
				return &c18lFE{op: "pi"}, nil
			}
			return nil, c18lNo(v, "math.%s is not modelled", v.Sel.Name)
		}
		if c.recvName != "" && x.Name == c.recvName {
			if b := c.lookup(x.Name); b != nil && b.kind == "recv" {
				for i, f := range c.cfg.fltFields {
					if f == v.Sel.Name {
						return &c18lFE{op: "fpar", n: i}, nil
					}
				}
			}
		}
		return nil, c18lNo(v, "selector that is neither math.Pi nor a float receiver field")
	case *ast.CallExpr:
		if v.Ellipsis != token.NoPos {
			return nil, c18lNo(v, "call with `...`")
		}
		if f, ok := v.Fun.(*ast.Ident); ok {
			if f.Name != "float64" || c.lookup("float64") != nil || len(v.Args) != 1 {
				return nil, c18lNo(v, "call of `%s` in a float expression", f.Name)
			}
			ie, ok := c.intExpr(v.Args[0])
			if !ok {
				return nil, c18lNo(v, "float64(…) of something that is not an integer expression")
			}
			return &c18lFE{op: "nat", e: ie}, nil
		}
		if sel, ok := v.Fun.(*ast.SelectorExpr); ok {
			if x, ok := sel.X.(*ast.Ident); ok && x.Name == "math" && c.pkgIs("math", c18lMathPath) {
				op := map[string]string{"Sin": "sin", "Cos": "cos"}[sel.Sel.Name]
				if op == "" || len(v.Args) != 1 {
					return nil, c18lNo(v, "math.%s(…) is not modelled (only math.Sin / math.Cos)", sel.Sel.Name)
				}
				a, why := c.floatExpr(v.Args[0])
				if why != nil {
					return nil, why
				}
				return &c18lFE{op: op, a: a}, nil
			}
		}
		return nil, c18lNo(v, "call that is not float64(…) / math.Sin(…) / math.Cos(…)")
	case *ast.UnaryExpr:
		if v.Op != token.SUB {
			return nil, c18lNo(v, "unary `%s` in a float expression", v.Op)
		}
		a, why := c.floatExpr(v.X)
		if why != nil {
			return nil, why
		}
		return &c18lFE{op: "neg", a: a}, nil
	case *ast.BinaryExpr:
		op := map[token.Token]string{token.ADD: "add", token.SUB: "sub", token.MUL: "mul", token.QUO: "div"}[v.Op]
		if op == "" {
			return nil, c18lNo(v, "binary `%s` in a float expression", v.Op)
		}
		if ka, kb := c.constKind(v.X), c.constKind(v.Y); ka != 0 && kb != 0 {
			switch {
			case ka == 1 && kb == 1:
				return nil, c18lNo(v, "integer constant arithmetic in a float expression (Go evaluates it in the integers)")
			case op == "mul" && (c18lPow2Lit(v.X) || c18lPow2Lit(v.Y)), op == "div" && c18lPow2Lit(v.Y):
				// exact either way
			default:
				return nil, c18lNo(v, "constant expression that the Go compiler folds in exact arithmetic (not a float64 operation)")
			}
		}
		a, why := c.floatExpr(v.X)
		if why != nil {
			return nil, why
		}
		b, why := c.floatExpr(v.Y)
		if why != nil {
			return nil, why
		}
		return &c18lFE{op: op, a: a, b: b}, nil
	}
	return nil, c18lNo(e, "not a float expression")
}

// the element type of a tracked vector slice: `vector3.Float64` / `vector3.Vector[float64]`
func (c *c18lCtx) isVec3Type(t ast.Expr) bool {
	if !c.pkgIs("vector3", c18lVec3Path) || c.lookup("float64") != nil {
		return false
	}
	switch v := t.(type) {
	case *ast.SelectorExpr:
		x, ok := v.X.(*ast.Ident)
		return ok && x.Name == "vector3" && v.Sel.Name == "Float64"
	case *ast.IndexExpr:
		return c18Sel(v.X) == "vector3.Vector" && c18Sel(v.Index) == "float64"
	}
	return false
}

// vector expressions (see the header)
func (c *c18lCtx) vecExpr(e ast.Expr) (*c18lVE, *c18lWhy) {
	switch v := e.(type) {
	case *ast.ParenExpr:
		return c.vecExpr(v.X)
	case *ast.Ident:
		if b := c.lookup(v.Name); b != nil {
			switch {
			case b.kind == "vec" && !b.opaque:
				return &c18lVE{op: "vvar", k: b.id}, nil
			case b.kind == "vref" && b.vid >= 0:
				return &c18lVE{op: "vvar", k: b.vid}, nil
			}
		}
		return nil, c.noIdent(v, "vector variable")
	case *ast.IndexExpr:
		id, ok := c18lUnparen(v.X).(*ast.Ident)
		if !ok {
			return nil, c18lNo(v, "index expression that is not `t[e]` with t a tracked vector slice")
		}
		b := c.lookup(id.Name)
		if b == nil || b.kind != "slice" || !b.eltVec {
			return nil, c18lNo(v, "`%s` is not a tracked []vector3.Float64 slice", id.Name)
		}
		ie, ok := c.intExpr(v.Index)
		if !ok {
			return nil, c18lNo(v, "element of `%s` whose index is not an integer expression", id.Name)
		}
		return &c18lVE{op: "at", k: b.id, e: ie}, nil
	case *ast.CallExpr:
		if v.Ellipsis != token.NoPos {
			return nil, c18lNo(v, "call with `...`")
		}
		fun := v.Fun
		explicit := false
		if ix, ok := fun.(*ast.IndexExpr); ok {
			if c18Sel(ix.Index) != "float64" || c.lookup("float64") != nil {
				return nil, c18lNo(v, "generic instantiation other than [float64]")
			}
			if _, isId := ix.Index.(*ast.Ident); !isId {
				return nil, c18lNo(v, "generic instantiation other than [float64]")
			}
			explicit = true
			fun = ix.X
		}
		sel, ok := fun.(*ast.SelectorExpr)
		if !ok {
			return nil, c18lNo(v, "call that is not vector3.New / vector3.Zero[float64] / .Scale / .Add / .Normalized")
		}
		if x, ok := sel.X.(*ast.Ident); ok && x.Name == "vector3" && c.pkgIs("vector3", c18lVec3Path) {
			switch sel.Sel.Name {
			case "New":
				if len(v.Args) != 3 {
					return nil, c18lNo(v, "vector3.New without three arguments")
				}
				if !explicit && c.constKind(v.Args[0]) == 1 && c.constKind(v.Args[1]) == 1 && c.constKind(v.Args[2]) == 1 {
					return nil, c18lNo(v, "vector3.New of three integer constants (instantiates int, not float64)")
				}
				var fs [3]*c18lFE
				for i, a := range v.Args {
					f, why := c.floatExpr(a)
					if why != nil {
						return nil, why
					}
					fs[i] = f
				}
				return &c18lVE{op: "new", x: fs[0], y: fs[1], z: fs[2]}, nil
			case "Zero":
				if !explicit || len(v.Args) != 0 {
					return nil, c18lNo(v, "vector3.Zero that is not `vector3.Zero[float64]()`")
				}
				return &c18lVE{op: "zero"}, nil
			}
			return nil, c18lNo(v, "vector3.%s is not modelled", sel.Sel.Name)
		}
		if explicit {
			return nil, c18lNo(v, "instantiated call that is not vector3.New / vector3.Zero")
		}
		switch sel.Sel.Name {
		case "Scale", "Add":
			if len(v.Args) != 1 {
				return nil, c18lNo(v, ".%s without exactly one argument", sel.Sel.Name)
			}
		case "Normalized":
			if len(v.Args) != 0 {
				return nil, c18lNo(v, ".Normalized with arguments")
			}
		default:
			return nil, c18lNo(v, "method .%s is not modelled (only .Scale / .Add / .Normalized)", sel.Sel.Name)
		}
		recv, why := c.vecExpr(sel.X)
		if why != nil {
			return nil, why
		}
		switch sel.Sel.Name {
		case "Scale":
			f, why := c.floatExpr(v.Args[0])
			if why != nil {
				return nil, why
			}
			return &c18lVE{op: "scale", v: recv, x: f}, nil
		case "Add":
			w, why := c.vecExpr(v.Args[0])
			if why != nil {
				return nil, why
			}
			return &c18lVE{op: "add", v: recv, w: w}, nil
		}
		return &c18lVE{op: "normalized", v: recv}, nil
	}
	return nil, c18lNo(e, "not a vector expression")
}

// `make([]T, n[, cap])`: the element type and the length argument
func c18lMakeSlice(e ast.Expr) (elt ast.Expr, n ast.Expr, ok bool) {
	call, isCall := c18lUnparen(e).(*ast.CallExpr)
	if !isCall || call.Ellipsis != token.NoPos {
		return nil, nil, false
	}
	f, isId := call.Fun.(*ast.Ident)
	if !isId || f.Name != "make" || (len(call.Args) != 2 && len(call.Args) != 3) {
		return nil, nil, false
	}
	at, isArr := call.Args[0].(*ast.ArrayType)
	if !isArr || at.Len != nil {
		return nil, nil, false
	}
	return at.Elt, call.Args[1], true
}

func c18lAppendCall(e ast.Expr) *ast.CallExpr {
	call, ok := c18lUnparen(e).(*ast.CallExpr)
	if !ok {
		return nil
	}
	if f, ok := call.Fun.(*ast.Ident); ok && f.Name == "append" {
		return call
	}
	return nil
}

// rule 7: a statement / expression that is skipped must not write a tracked name (see the header)
func (c *c18lCtx) checkSkipped(root ast.Node) error {
	var err error
	stack := []ast.Node{}
	fail := func(n ast.Node, format string, a ...any) {
		if err == nil {
			err = c.errf(n, format, a...)
		}
	}
	// is there an enclosing node (inside the skipped statement) that catches a return / break / continue?
	encl := func(tok token.Token) bool {
		for i := len(stack) - 1; i >= 0; i-- {
			switch stack[i].(type) {
			case *ast.FuncLit:
				return true
			case *ast.ForStmt, *ast.RangeStmt:
				if tok == token.BREAK || tok == token.CONTINUE {
					return true
				}
			case *ast.SwitchStmt, *ast.TypeSwitchStmt, *ast.SelectStmt:
				if tok == token.BREAK {
					return true
				}
			}
		}
		return false
	}
	ast.Inspect(root, func(n ast.Node) bool {
		if n == nil {
			stack = stack[:len(stack)-1]
			return true
		}
		if err != nil {
			return false
		}
		var parent ast.Node
		if len(stack) > 0 {
			parent = stack[len(stack)-1]
		}
		switch v := n.(type) {
		case *ast.AssignStmt:
			for _, l := range v.Lhs {
				if c.rootTracked(l) {
					fail(v, "write to tracked name `%s` inside a skipped statement", c18lRoot(l).Name)
				}
			}
		case *ast.IncDecStmt:
			if c.rootTracked(v.X) {
				fail(v, "write to tracked name `%s` inside a skipped statement", c18lRoot(v.X).Name)
			}
		case *ast.RangeStmt:
			for _, l := range []ast.Expr{v.Key, v.Value} {
				if l != nil && c.rootTracked(l) {
					fail(v, "range variable is the tracked name `%s` inside a skipped statement", c18lRoot(l).Name)
				}
			}
		case *ast.UnaryExpr:
			if v.Op == token.AND && c.rootTracked(v.X) {
				fail(v, "address of tracked name `%s` taken inside a skipped statement", c18lRoot(v.X).Name)
			}
		case *ast.CallExpr:
			if f, ok := v.Fun.(*ast.Ident); ok {
				if f.Name == "append" && len(v.Args) > 0 {
					if id := c18lRoot(v.Args[0]); id != nil {
						if b := c.lookup(id.Name); b != nil && b.kind == "slice" {
							fail(v, "append to tracked slice `%s` inside a skipped statement", id.Name)
						}
					}
				}
				if f.Name == "panic" {
					fail(v, "panic inside a skipped statement (only leading `if A < B { panic(...) }` guards are modelled)")
				}
			}
		case *ast.ReturnStmt:
			if !encl(token.RETURN) {
				fail(v, "return inside a skipped statement")
			}
		case *ast.BranchStmt:
			if v.Tok != token.FALLTHROUGH && (v.Tok == token.GOTO || v.Label != nil || !encl(v.Tok)) {
				fail(v, "%s leaving a skipped statement", v.Tok)
			}
		case *ast.LabeledStmt:
			fail(v, "label inside a skipped statement")
		case *ast.Ident:
			if b := c.lookup(v.Name); b != nil && b == c.idxBind {
				ok := false
				switch p := parent.(type) {
				case *ast.CallExpr:
					if len(p.Args) == 1 && p.Args[0] == ast.Expr(v) {
						fn := c18Sel(p.Fun)
						ok = (fn == "len" && c.lookup("len") == nil) || fn == "modeling.NewTriangleMesh"
					}
				case *ast.IndexExpr:
					ok = p.X == ast.Expr(v)
				}
				if !ok {
					fail(v, "the index slice `%s` is mentioned inside a skipped statement other than as len(%s), %s[e] or modeling.NewTriangleMesh(%s)",
						v.Name, v.Name, v.Name, v.Name)
				}
			}
		}
		stack = append(stack, n)
		return true
	})
	return err
}

func (c *c18lCtx) note(n ast.Node, why string) {
	p := c.fset.Position(n.Pos())
	c.skipped = append(c.skipped, fmt.Sprintf("%s %s:%d %s: %s", c.cfg.lean, filepath.Base(p.Filename), p.Line, why, c.src(n)))
}

// skip a statement after the write check; names it declares at this level are recorded as untracked (they shadow)
func (c *c18lCtx) skip(st ast.Stmt, why string) error {
	if err := c.checkSkipped(st); err != nil {
		return err
	}
	switch v := st.(type) {
	case *ast.AssignStmt:
		if v.Tok == token.DEFINE {
			for _, l := range v.Lhs {
				if id, ok := l.(*ast.Ident); ok {
					c.declare(id.Name, &c18lBind{kind: "other", line: c.line(st)})
				}
			}
		}
	case *ast.DeclStmt:
		if gd, ok := v.Decl.(*ast.GenDecl); ok {
			for _, sp := range gd.Specs {
				switch s := sp.(type) {
				case *ast.ValueSpec:
					for _, id := range s.Names {
						c.declare(id.Name, &c18lBind{kind: "other", line: c.line(st)})
					}
				case *ast.TypeSpec:
					c.declare(s.Name.Name, &c18lBind{kind: "other"})
				}
			}
		}
	}
	c.note(st, why)
	return nil
}

// rule 6
func (c *c18lCtx) pushArg(sl *c18lBind, slName string, a ast.Expr) (*c18lE, error) {
	if e, ok := c.intExpr(a); ok {
		return e, nil
	}
	if sl.eltInt {
		return nil, c.errf(a, "non-integer expression appended to the []int slice `%s`", slName)
	}
	u := c18lUnparen(a)
	if ix, ok := u.(*ast.IndexExpr); ok {
		if id, ok := c18lUnparen(ix.X).(*ast.Ident); ok {
			if b := c.lookup(id.Name); b != nil && b.kind == "slice" {
				if b.eltInt {
					return nil, c.errf(a, "element of the []int slice `%s` appended to `%s`", id.Name, slName)
				}
				e, ok := c.intExpr(ix.Index)
				if !ok {
					return nil, c.errf(a, "vertex copy `%s[e]` whose index is not an integer expression", id.Name)
				}
				return e, nil
			}
		}
	}
	if id, ok := u.(*ast.Ident); ok {
		if b := c.lookup(id.Name); b != nil && b.kind == "vref" {
			return &c18lE{op: "var", n: b.id}, nil
		}
	}
	if err := c.checkSkipped(a); err != nil {
		return nil, err
	}
	return &c18lE{op: "lit", n: 0}, nil
}

func (c *c18lCtx) assign(st *ast.AssignStmt, body int, funcLevel bool) ([]*c18lS, error) {
	if st.Tok != token.DEFINE && st.Tok != token.ASSIGN { // += etc.
		for _, l := range st.Lhs {
			if c.rootTracked(l) {
				return nil, c.errf(st, "compound assignment to tracked name `%s`", c18lRoot(l).Name)
			}
		}
		return nil, c.skip(st, "skipped (untracked compound assignment)")
	}
	if len(st.Lhs) != 1 || len(st.Rhs) != 1 { // rule 5: multi-assign
		for _, r := range st.Rhs {
			if _, ok := c.intExpr(r); ok {
				return nil, c.errf(st, "multi-assignment with an integer right-hand side")
			}
			if _, _, ok := c18lMakeSlice(r); ok && funcLevel {
				return nil, c.errf(st, "multi-assignment declaring a slice with make")
			}
		}
		if st.Tok == token.ASSIGN {
			for _, l := range st.Lhs {
				if c.rootTracked(l) {
					return nil, c.errf(st, "multi-assignment to tracked name `%s`", c18lRoot(l).Name)
				}
			}
		}
		return nil, c.skip(st, "skipped (multi-assignment, all right-hand sides non-integer)")
	}
	lhs, rhs := c18lUnparen(st.Lhs[0]), st.Rhs[0]

	// `s[e] = value`
	if ix, ok := lhs.(*ast.IndexExpr); ok && st.Tok == token.ASSIGN {
		if id, ok := c18lUnparen(ix.X).(*ast.Ident); ok {
			if b := c.lookup(id.Name); b != nil && b.kind == "slice" {
				if b == c.idxBind || b.eltInt {
					return nil, c.errf(st, "index assignment to the []int slice `%s`", id.Name)
				}
				if b.eltVec { // vset
					ie, ok := c.intExpr(ix.Index)
					if !ok {
						return nil, c.errf(st, "index assignment to the vector slice `%s` whose index is not an integer expression", id.Name)
					}
					ve, why := c.vecExpr(rhs)
					if why != nil {
						return nil, c.errf(why.n, "untranslatable value assigned to an element of the vector slice `%s` (line %d): %s", id.Name, c.line(st), why.msg)
					}
					c.lastWrite = st.Pos()
					return []*c18lS{{kind: "vset", k: b.id, e: ie, ve: ve}}, nil
				}
				if err := c.checkSkipped(ix.Index); err != nil {
					return nil, err
				}
				if err := c.checkSkipped(rhs); err != nil {
					return nil, err
				}
				c.note(st, "ignored (index assignment, length unchanged)")
				return nil, nil
			}
		}
	}
	id, isIdent := lhs.(*ast.Ident)
	if !isIdent {
		if c.rootTracked(lhs) {
			return nil, c.errf(st, "assignment through tracked name `%s`", c18lRoot(lhs).Name)
		}
		return nil, c.skip(st, "skipped (untracked lvalue)")
	}
	var lb *c18lBind
	if st.Tok == token.ASSIGN {
		lb = c.lookup(id.Name)
	}

	// rule 3: slices
	if elt, n, ok := c18lMakeSlice(rhs); ok && funcLevel && st.Tok == token.DEFINE && c.lookup("make") == nil {
		e, ok := c.intExpr(n)
		if !ok {
			return nil, c.errf(st, "make with a length that is not an integer expression")
		}
		b := &c18lBind{kind: "slice", id: c.nextSlice, eltInt: c18Sel(elt) == "int", eltVec: c.isVec3Type(elt)}
		c.nextSlice++
		c.lastWrite = st.Pos()
		c.slices = append(c.slices, fmt.Sprintf("%s=%d", id.Name, b.id))
		c.declare(id.Name, b)
		c.sliceByNam[id.Name] = b
		if id.Name == c.cfg.idx {
			c.idxBind = b
		}
		return []*c18lS{{kind: "alloc", k: b.id, e: e}}, nil
	}

	// rule 6: appends
	if call := c18lAppendCall(rhs); call != nil && c.lookup("append") == nil && len(call.Args) > 0 {
		var ab *c18lBind
		aid := c18lRoot(call.Args[0])
		if aid != nil {
			if b := c.lookup(aid.Name); b != nil && b.kind == "slice" {
				ab = b
			}
		}
		if ab != nil || (lb != nil && lb.kind == "slice") {
			first, firstIsIdent := c18lUnparen(call.Args[0]).(*ast.Ident)
			if st.Tok != token.ASSIGN || lb == nil || lb.kind != "slice" || !firstIsIdent || first.Name != id.Name || ab != lb {
				return nil, c.errf(st, "append involving a tracked slice that is not of the form `s = append(s, …)`")
			}
			if call.Ellipsis != token.NoPos {
				return nil, c.errf(st, "append with `...` spread to tracked slice `%s`", id.Name)
			}
			es := []*c18lE{}
			for _, a := range call.Args[1:] {
				e, err := c.pushArg(lb, id.Name, a)
				if err != nil {
					return nil, err
				}
				es = append(es, e)
			}
			c.lastWrite = st.Pos()
			if lb.eltVec { // vpush, immediately before the push
				ves := []*c18lVE{}
				for _, a := range call.Args[1:] {
					ve, why := c.vecExpr(a)
					if why != nil {
						return nil, c.errf(why.n, "untranslatable value appended to the vector slice `%s` (line %d): %s", id.Name, c.line(st), why.msg)
					}
					ves = append(ves, ve)
				}
				return []*c18lS{{kind: "vpush", k: lb.id, ves: ves}, {kind: "push", k: lb.id, es: es}}, nil
			}
			return []*c18lS{{kind: "push", k: lb.id, es: es}}, nil
		}
	}

	// `x = <value>` to a float parameter / float local / vector local
	if lb != nil && (lb.kind == "fpar" || lb.kind == "float" || lb.kind == "vec") {
		if lb.kind == "fpar" {
			return nil, c.errf(st, "assignment to the float parameter `%s`", id.Name)
		}
		if lb.body != body {
			return nil, c.errf(st, "assignment to `%s`, which was declared outside the current loop body (loop-carried state)", id.Name)
		}
		var why *c18lWhy
		var out *c18lS
		if lb.kind == "float" {
			var fe *c18lFE
			if fe, why = c.floatExpr(rhs); why == nil {
				out = &c18lS{kind: "fassign", k: lb.id, fe: fe}
			}
		} else {
			var ve *c18lVE
			if ve, why = c.vecExpr(rhs); why == nil {
				out = &c18lS{kind: "vassign", k: lb.id, ve: ve}
			}
		}
		if why != nil {
			if err := c.checkSkipped(rhs); err != nil {
				return nil, err
			}
			lb.opaque = true
			c.note(st, "OPAQUE from here ("+why.msg+")")
			return nil, nil
		}
		lb.opaque = false
		return []*c18lS{out}, nil
	}

	// rule 5: integer assignments
	if e, ok := c.intExpr(rhs); ok {
		if st.Tok == token.DEFINE {
			b := c.declareInt(id.Name, "int", body)
			return []*c18lS{{kind: "assign", k: b.id, e: e}}, nil
		}
		switch {
		case lb == nil || lb.kind == "other":
			return nil, c.skip(st, "skipped (integer value assigned to an untracked variable)")
		case lb.kind == "int":
			if lb.body != body {
				return nil, c.errf(st, "assignment to `%s`, which was declared outside the current loop body (loop-carried state / parameter / loop variable)", id.Name)
			}
			return []*c18lS{{kind: "assign", k: lb.id, e: e}}, nil
		default:
			return nil, c.errf(st, "integer assigned to tracked %s `%s`", lb.kind, id.Name)
		}
	}

	// non-integer right-hand side
	if lb.tracked() {
		return nil, c.errf(st, "non-integer (untranslatable) value assigned to tracked name `%s`", id.Name)
	}
	if c18lTrackVertexCopies && st.Tok == token.DEFINE {
		if ix, ok := c18lUnparen(rhs).(*ast.IndexExpr); ok {
			if sid, ok := c18lUnparen(ix.X).(*ast.Ident); ok {
				if b := c.lookup(sid.Name); b != nil && b.kind == "slice" && !b.eltInt {
					if e, ok := c.intExpr(ix.Index); ok {
						nb := c.declareInt(id.Name, "vref", body)
						nb.vid = -1
						out := []*c18lS{{kind: "assign", k: nb.id, e: e}}
						if b.eltVec { // the copied vertex itself: a new vector local
							nb.vid = c.nextVVar
							c.nextVVar++
							c.vvars = append(c.vvars, fmt.Sprintf("%s=%d", id.Name, nb.vid))
							out = append(out, &c18lS{kind: "vassign", k: nb.vid, ve: &c18lVE{op: "at", k: b.id, e: e}})
						}
						return out, nil
					}
				}
			}
		}
	}
	if st.Tok == token.DEFINE && id.Name != "_" {
		fe, whyF := c.floatExpr(rhs)
		if whyF == nil {
			b := &c18lBind{kind: "float", id: c.nextFVar, body: body, line: c.line(st)}
			c.nextFVar++
			c.fvars = append(c.fvars, fmt.Sprintf("%s=%d", id.Name, b.id))
			c.declare(id.Name, b)
			return []*c18lS{{kind: "fassign", k: b.id, fe: fe}}, nil
		}
		ve, whyV := c.vecExpr(rhs)
		if whyV == nil {
			b := &c18lBind{kind: "vec", id: c.nextVVar, body: body, line: c.line(st)}
			c.nextVVar++
			c.vvars = append(c.vvars, fmt.Sprintf("%s=%d", id.Name, b.id))
			c.declare(id.Name, b)
			return []*c18lS{{kind: "vassign", k: b.id, ve: ve}}, nil
		}
		return nil, c.skip(st, "skipped, variable OPAQUE (not an integer expression; as float: "+whyF.msg+"; as vector: "+whyV.msg+")")
	}
	return nil, c.skip(st, "skipped (non-integer value, untracked variable)")
}

// rule 7: loops
func (c *c18lCtx) loop(st *ast.ForStmt) (*c18lS, error) {
	init, ok := st.Init.(*ast.AssignStmt)
	if !ok || init.Tok != token.DEFINE || len(init.Lhs) != 1 || len(init.Rhs) != 1 {
		return nil, c.errf(st, "for statement whose init is not `v := lo`")
	}
	v, ok := init.Lhs[0].(*ast.Ident)
	if !ok || v.Name == "_" {
		return nil, c.errf(st, "for statement whose init is not `v := lo`")
	}
	lo, ok := c.intExpr(init.Rhs[0])
	if !ok {
		return nil, c.errf(st, "for statement whose lower bound is not an integer expression")
	}
	cond, ok := c18lUnparen(st.Cond).(*ast.BinaryExpr)
	if st.Cond == nil || !ok || (cond.Op != token.LSS && cond.Op != token.LEQ) {
		return nil, c.errf(st, "for statement whose condition is not `v < hi` / `v <= hi`")
	}
	if x, ok := c18lUnparen(cond.X).(*ast.Ident); !ok || x.Name != v.Name {
		return nil, c.errf(st, "for statement whose condition is not `v < hi` / `v <= hi`")
	}
	post, ok := st.Post.(*ast.IncDecStmt)
	if !ok || post.Tok != token.INC {
		return nil, c.errf(st, "for statement whose post statement is not `v++`")
	}
	if x, ok := c18lUnparen(post.X).(*ast.Ident); !ok || x.Name != v.Name {
		return nil, c.errf(st, "for statement whose post statement is not `v++`")
	}
	c.push()
	defer c.pop()
	vb := c.declareInt(v.Name, "int", -1)
	hi, ok := c.intExpr(cond.Y)
	if !ok {
		return nil, c.errf(st, "for statement whose upper bound is not an integer expression")
	}
	c.nextBody++
	body, err := c.stmts(st.Body.List, c.nextBody, false)
	if err != nil {
		return nil, err
	}
	assigned := map[int]bool{vb.id: true}
	c18lAssigned(body, assigned)
	for _, b := range []*c18lE{lo, hi} {
		if b.any(func(e *c18lE) bool { return e.op == "len" || (e.op == "var" && assigned[e.n]) }) {
			return nil, c.errf(st, "loop bound mentions len, the loop variable or a variable assigned in the body")
		}
	}
	return &c18lS{kind: "loop", k: vb.id, lo: lo, hi: hi, incl: cond.Op == token.LEQ, body: body}, nil
}

// rule 2: `if A < B { panic(...) }`
func (c *c18lCtx) guard(st ast.Stmt) ([2]*c18lE, bool) {
	var none [2]*c18lE
	is, ok := st.(*ast.IfStmt)
	if !ok || is.Init != nil || is.Else != nil || len(is.Body.List) != 1 {
		return none, false
	}
	cond, ok := c18lUnparen(is.Cond).(*ast.BinaryExpr)
	if !ok || cond.Op != token.LSS {
		return none, false
	}
	es, ok := is.Body.List[0].(*ast.ExprStmt)
	if !ok {
		return none, false
	}
	call, ok := es.X.(*ast.CallExpr)
	if !ok {
		return none, false
	}
	if f, ok := call.Fun.(*ast.Ident); !ok || f.Name != "panic" || c.lookup("panic") != nil {
		return none, false
	}
	a, ok := c.intExpr(cond.X)
	if !ok {
		return none, false
	}
	b, ok := c.intExpr(cond.Y)
	if !ok {
		return none, false
	}
	return [2]*c18lE{a, b}, true
}

func (c *c18lCtx) stmts(list []ast.Stmt, body int, funcLevel bool) ([]*c18lS, error) {
	c.push()
	defer c.pop()
	out := []*c18lS{}
	leading := funcLevel
	for _, st := range list {
		if leading {
			if g, ok := c.guard(st); ok {
				c.guards = append(c.guards, g)
				continue
			}
			leading = false
		}
		switch v := st.(type) {
		case *ast.ReturnStmt:
			if !funcLevel {
				return nil, c.errf(st, "return inside a loop body")
			}
			return out, nil
		case *ast.AssignStmt:
			ss, err := c.assign(v, body, funcLevel)
			if err != nil {
				return nil, err
			}
			out = append(out, ss...)
		case *ast.ForStmt:
			s, err := c.loop(v)
			if err != nil {
				return nil, err
			}
			out = append(out, s)
		case *ast.IncDecStmt:
			if c.rootTracked(v.X) {
				return nil, c.errf(st, "increment / decrement of tracked name `%s`", c18lRoot(v.X).Name)
			}
			if err := c.skip(st, "skipped"); err != nil {
				return nil, err
			}
		case *ast.BranchStmt, *ast.LabeledStmt, *ast.GoStmt, *ast.DeferStmt:
			return nil, c.errf(st, "control-flow statement in a translated statement list")
		default:
			if err := c.skip(st, "skipped"); err != nil {
				return nil, err
			}
		}
	}
	return out, nil
}

func c18lNames(l []string) string {
	if len(l) == 0 {
		return "(none)"
	}
	return strings.Join(l, " ")
}

// ---- one constructor ----------------------------------------------------------------------------------------

type c18lResult struct {
	text    string
	skipped []string
}

func c18lFunc(f *ast.File, name string) (*ast.FuncDecl, int) {
	var found *ast.FuncDecl
	n := 0
	for _, d := range f.Decls {
		if fd, ok := d.(*ast.FuncDecl); ok && fd.Recv == nil && fd.Name.Name == name {
			found = fd
			n++
		}
	}
	return found, n
}

func c18lExtract(fset *token.FileSet, f *ast.File, cfg c18lCfg) (*c18lResult, error) {
	var fd *ast.FuncDecl
	goName := cfg.fn
	if cfg.recv == "" {
		var n int
		fd, n = c18lFunc(f, cfg.fn)
		if n != 1 {
			return nil, fmt.Errorf("%s: expected exactly one func %s (found %d)", cfg.file, cfg.fn, n)
		}
	} else {
		goName = cfg.recv + "." + cfg.fn
		fd = c18Method(f, cfg.recv, cfg.fn)
	}
	if fd == nil || fd.Body == nil {
		return nil, fmt.Errorf("%s: func %s not found", cfg.file, goName)
	}
	c := &c18lCtx{fset: fset, cfg: cfg, sliceByNam: map[string]*c18lBind{}, imports: map[string]string{}}
	for _, im := range f.Imports {
		path, err := strconv.Unquote(im.Path.Value)
		if err != nil {
			continue
		}
		name := path[strings.LastIndex(path, "/")+1:]
		if im.Name != nil {
			name = im.Name.Name
		}
		c.imports[name] = path
	}
	c.push()
	// rule 1: parameters
	if fd.Recv != nil {
		if len(fd.Recv.List[0].Names) == 1 {
			c.recvName = fd.Recv.List[0].Names[0].Name
			c.declare(c.recvName, &c18lBind{kind: "recv"})
		}
		if c.recvName == "" || c.recvName == "_" {
			if len(cfg.intFields) > 0 || len(cfg.fltFields) > 0 {
				return nil, c.errf(fd, "method without a named receiver")
			}
		}
		for _, fld := range cfg.intFields {
			c.params = append(c.params, fmt.Sprintf("%s.%s=%d", c.recvName, fld, c.nextVar))
			c.nextVar++
		}
		for _, fld := range cfg.fltFields {
			c.fpars = append(c.fpars, fmt.Sprintf("%s.%s=%d", c.recvName, fld, c.nextFPar))
			c.nextFPar++
		}
	}
	for _, p := range fd.Type.Params.List {
		for _, nm := range p.Names {
			if _, isId := p.Type.(*ast.Ident); isId && c18Sel(p.Type) == "float64" && nm.Name != "_" {
				b := &c18lBind{kind: "fpar", id: c.nextFPar, body: -1}
				c.nextFPar++
				c.fpars = append(c.fpars, fmt.Sprintf("%s=%d", nm.Name, b.id))
				c.declare(nm.Name, b)
				continue
			}
			if c18Sel(p.Type) == "int" {
				if _, isId := p.Type.(*ast.Ident); isId && nm.Name != "_" {
					b := &c18lBind{kind: "int", id: c.nextVar, body: -1}
					c.nextVar++
					c.params = append(c.params, fmt.Sprintf("%s=%d", nm.Name, b.id))
					c.declare(nm.Name, b)
					continue
				}
			}
			c.declare(nm.Name, &c18lBind{kind: "other"})
		}
	}
	nparams := c.nextVar
	c.vars = nil
	body, err := c.stmts(fd.Body.List, 0, true)
	if err != nil {
		return nil, err
	}
	ib, vb := c.sliceByNam[cfg.idx], c.sliceByNam[cfg.verts]
	if ib == nil || !ib.eltInt {
		return nil, c.errf(fd, "the index slice `%s` is not declared by a function-level `%s := make([]int, …)`", cfg.idx, cfg.idx)
	}
	if vb == nil || vb.eltInt {
		return nil, c.errf(fd, "the vertex slice `%s` is not declared by a function-level `%s := make([]T, …)`", cfg.verts, cfg.verts)
	}
	// the configured slices must be the ones handed to NewTriangleMesh / set as PositionAttribute
	usesIdx, usesPos := 0, 0
	otherIdx, otherPos := false, false
	ast.Inspect(fd.Body, func(nd ast.Node) bool {
		switch v := nd.(type) {
		case *ast.CallExpr:
			if c18Sel(v.Fun) == "modeling.NewTriangleMesh" {
				if len(v.Args) == 1 && c18Sel(v.Args[0]) == cfg.idx {
					usesIdx++
				} else {
					otherIdx = true
				}
			}
		case *ast.KeyValueExpr:
			if c18Sel(v.Key) == "modeling.PositionAttribute" {
				if c18Sel(v.Value) == cfg.verts {
					usesPos++
				} else {
					otherPos = true
				}
			}
		}
		return true
	})
	if usesIdx != 1 || otherIdx {
		return nil, c.errf(fd, "expected exactly one modeling.NewTriangleMesh call, with argument `%s`", cfg.idx)
	}
	if usesPos != 1 || otherPos {
		return nil, c.errf(fd, "expected exactly one `modeling.PositionAttribute: …` entry, with value `%s`", cfg.verts)
	}

	nrm, err := c.normals(fd)
	if err != nil {
		return nil, err
	}

	var b strings.Builder
	fmt.Fprintf(&b, "/-- %s `%s`: params %s; slices %s;\n    vars %s;\n    fpars %s; fvars %s; vvars %s -/\n", cfg.file, goName,
		strings.Join(c.params, " "), strings.Join(c.slices, " "), strings.Join(c.vars, " "),
		c18lNames(c.fpars), c18lNames(c.fvars), c18lNames(c.vvars))
	fmt.Fprintf(&b, "def %s : Prog := {\n", cfg.lean)
	fmt.Fprintf(&b, "  params := %d\n", nparams)
	gs := make([]string, len(c.guards))
	for i, g := range c.guards {
		gs[i] = fmt.Sprintf("(%s, %s)", g[0].bare(), g[1].bare())
	}
	fmt.Fprintf(&b, "  guards := [%s]\n", strings.Join(gs, ", "))
	fmt.Fprintf(&b, "  idx := %d\n", ib.id)
	fmt.Fprintf(&b, "  verts := %d\n", vb.id)
	if nrm != "" {
		fmt.Fprintf(&b, "  nrm := %s\n", nrm)
	}
	fmt.Fprintf(&b, "  body :=\n%s }\n", c18lTop(body))

	if cfg.appends {
		s, err := c18lAppends(c, fd)
		if err != nil {
			return nil, err
		}
		b.WriteString("\n" + s)
	}
	return &c18lResult{text: b.String(), skipped: c.skipped}, nil
}

// the `nrm` field: "" (no normals supplied) or `some (slice, normalized)`; see the header.  Runs after the translation
// (only the outermost scope is left): slices are resolved through sliceByNam (function-level declarations).
func (c *c18lCtx) normals(fd *ast.FuncDecl) (string, error) {
	var calls []*ast.CallExpr
	ast.Inspect(fd.Body, func(nd ast.Node) bool {
		if call, ok := nd.(*ast.CallExpr); ok {
			if sel, ok := call.Fun.(*ast.SelectorExpr); ok && sel.Sel.Name == "SetFloat3Data" {
				calls = append(calls, call)
			}
		}
		return true
	})
	if len(calls) != 1 {
		return "", c.errf(fd, "expected exactly one .SetFloat3Data(…) call (found %d)", len(calls))
	}
	call := calls[0]
	if len(call.Args) != 1 || call.Ellipsis != token.NoPos {
		return "", c.errf(call, ".SetFloat3Data without exactly one argument")
	}
	// the receiver: modeling.NewTriangleMesh(idx), possibly through other SetFloatNData calls
	for r := call.Fun.(*ast.SelectorExpr).X; ; {
		rc, ok := r.(*ast.CallExpr)
		if !ok {
			return "", c.errf(call, "the receiver of .SetFloat3Data is not modeling.NewTriangleMesh(%s) (possibly through SetFloatNData calls)", c.cfg.idx)
		}
		if c18Sel(rc.Fun) == "modeling.NewTriangleMesh" {
			break
		}
		sel, ok := rc.Fun.(*ast.SelectorExpr)
		if !ok || !(sel.Sel.Name == "SetFloat1Data" || sel.Sel.Name == "SetFloat2Data" || sel.Sel.Name == "SetFloat4Data") {
			return "", c.errf(call, "the receiver of .SetFloat3Data is not modeling.NewTriangleMesh(%s) (possibly through SetFloatNData calls)", c.cfg.idx)
		}
		r = sel.X
	}
	var lit *ast.CompositeLit
	var litStmtPos token.Pos
	switch a := c18lUnparen(call.Args[0]).(type) {
	case *ast.CompositeLit:
		lit, litStmtPos = a, a.Pos()
	case *ast.Ident:
		// a variable: declared once at function level by a literal, mentioned nowhere else
		mentions := 0
		ast.Inspect(fd.Body, func(nd ast.Node) bool {
			if id, ok := nd.(*ast.Ident); ok && id.Name == a.Name {
				mentions++
			}
			return true
		})
		for _, st := range fd.Body.List {
			as, ok := st.(*ast.AssignStmt)
			if !ok || as.Tok != token.DEFINE || len(as.Lhs) != 1 || len(as.Rhs) != 1 || c18Sel(as.Lhs[0]) != a.Name {
				continue
			}
			if _, isId := as.Lhs[0].(*ast.Ident); !isId {
				continue
			}
			if cl, ok := as.Rhs[0].(*ast.CompositeLit); ok && lit == nil {
				lit, litStmtPos = cl, as.Pos()
			}
		}
		if lit == nil || mentions != 2 {
			return "", c.errf(call, "the argument `%s` of .SetFloat3Data is not a variable declared once at function level by a map literal and mentioned nowhere else (mentions: %d)", a.Name, mentions)
		}
	default:
		return "", c.errf(call, "the argument of .SetFloat3Data is neither a map literal nor a variable")
	}
	if _, ok := lit.Type.(*ast.MapType); !ok {
		return "", c.errf(lit, "the argument of .SetFloat3Data is not a map literal")
	}
	if litStmtPos < c.lastWrite {
		return "", c.errf(lit, "the .SetFloat3Data map literal comes before a translated write to a tracked slice (line %d)", c.fset.Position(c.lastWrite).Line)
	}
	vecSlice := func(e ast.Expr) *c18lBind {
		id, ok := c18lUnparen(e).(*ast.Ident)
		if !ok {
			return nil
		}
		if b := c.sliceByNam[id.Name]; b != nil && b.eltVec {
			return b
		}
		return nil
	}
	nrm, seenPos, seenNrm := "", 0, 0
	for _, el := range lit.Elts {
		kv, ok := el.(*ast.KeyValueExpr)
		if !ok {
			return "", c.errf(el, "unkeyed element in the .SetFloat3Data map literal")
		}
		ks, ok := kv.Key.(*ast.SelectorExpr)
		if !ok {
			return "", c.errf(kv.Key, "key of the .SetFloat3Data map literal that is not `modeling.<Name>`")
		}
		if kx, isId := ks.X.(*ast.Ident); !isId || kx.Name != "modeling" {
			return "", c.errf(kv.Key, "key of the .SetFloat3Data map literal that is not `modeling.<Name>`")
		}
		switch ks.Sel.Name {
		case "PositionAttribute":
			seenPos++
			if c18Sel(kv.Value) != c.cfg.verts || vecSlice(kv.Value) == nil {
				return "", c.errf(kv, "modeling.PositionAttribute is not the tracked vector slice `%s`", c.cfg.verts)
			}
		case "NormalAttribute":
			seenNrm++
			if b := vecSlice(kv.Value); b != nil {
				nrm = fmt.Sprintf("some (%d, false)", b.id)
				continue
			}
			// vector3.Array[float64](<slice>).Normalized()
			bad := func() (string, error) {
				return "", c.errf(kv, "modeling.NormalAttribute is neither a tracked vector slice nor `vector3.Array[float64](<tracked vector slice>).Normalized()`")
			}
			nc, ok := c18lUnparen(kv.Value).(*ast.CallExpr)
			if !ok || len(nc.Args) != 0 {
				return bad()
			}
			ns, ok := nc.Fun.(*ast.SelectorExpr)
			if !ok || ns.Sel.Name != "Normalized" {
				return bad()
			}
			conv, ok := c18lUnparen(ns.X).(*ast.CallExpr)
			if !ok || len(conv.Args) != 1 || conv.Ellipsis != token.NoPos {
				return bad()
			}
			inst, ok := conv.Fun.(*ast.IndexExpr)
			if !ok {
				return bad()
			}
			ty, isSel := inst.X.(*ast.SelectorExpr)
			targ, isId := inst.Index.(*ast.Ident)
			if !isSel || !isId || c18Sel(ty) != "vector3.Array" || targ.Name != "float64" || !c.pkgIs("vector3", c18lVec3Path) || c.lookup("float64") != nil {
				return bad()
			}
			b := vecSlice(conv.Args[0])
			if b == nil {
				return bad()
			}
			nrm = fmt.Sprintf("some (%d, true)", b.id)
		}
	}
	if seenPos != 1 || seenNrm > 1 {
		return "", c.errf(lit, "the .SetFloat3Data map literal must have exactly one modeling.PositionAttribute and at most one modeling.NormalAttribute entry")
	}
	return nrm, nil
}

// rule 10: the Append structure of Cylinder.ToMesh
//
//	<mesh> := modeling.NewTriangleMesh(<idx>)…                       (function level, once)
//	if !c.<Flag> { <mesh> = <mesh>.Append(<circleVar>.ToMesh()…) }   (function level, in order)
//	return <mesh>
//
// with every <circleVar> declared once as `Circle{… Sides: c.Sides …}` and neither it nor its Sides assigned again;
// any other assignment to <mesh> is an error.
func c18lAppends(c *c18lCtx, fd *ast.FuncDecl) (string, error) {
	list := fd.Body.List
	if len(list) == 0 {
		return "", c.errf(fd, "empty function body")
	}
	ret, ok := list[len(list)-1].(*ast.ReturnStmt)
	if !ok || len(ret.Results) != 1 {
		return "", c.errf(list[len(list)-1], "the last statement is not `return <mesh variable>`")
	}
	meshId, ok := ret.Results[0].(*ast.Ident)
	if !ok {
		return "", c.errf(ret, "the last statement is not `return <mesh variable>`")
	}
	mesh := meshId.Name
	type pair struct{ flag, circle string }
	pairs := []pair{}
	decls := 0
	recognised := map[*ast.AssignStmt]bool{}
	for _, st := range list {
		switch v := st.(type) {
		case *ast.ReturnStmt:
			if st != ast.Stmt(ret) {
				return "", c.errf(st, "return before the end of the function")
			}
		case *ast.AssignStmt:
			if len(v.Lhs) == 1 && len(v.Rhs) == 1 && c18Sel(v.Lhs[0]) == mesh && v.Tok == token.DEFINE {
				// root of the call chain must be modeling.NewTriangleMesh(idx)
				e := v.Rhs[0]
				for {
					call, ok := e.(*ast.CallExpr)
					if !ok {
						return "", c.errf(v, "`%s` is not declared as a call chain on modeling.NewTriangleMesh(%s)", mesh, c.cfg.idx)
					}
					if c18Sel(call.Fun) == "modeling.NewTriangleMesh" {
						if len(call.Args) != 1 || c18Sel(call.Args[0]) != c.cfg.idx {
							return "", c.errf(v, "`%s` is not declared as a call chain on modeling.NewTriangleMesh(%s)", mesh, c.cfg.idx)
						}
						break
					}
					sel, ok := call.Fun.(*ast.SelectorExpr)
					if !ok {
						return "", c.errf(v, "`%s` is not declared as a call chain on modeling.NewTriangleMesh(%s)", mesh, c.cfg.idx)
					}
					if sel.Sel.Name == "Append" {
						return "", c.errf(v, "Append in the declaration of `%s`", mesh)
					}
					e = sel.X
				}
				decls++
				recognised[v] = true
			}
		case *ast.IfStmt:
			if len(v.Body.List) != 1 {
				continue
			}
			as, ok := v.Body.List[0].(*ast.AssignStmt)
			if !ok || len(as.Lhs) != 1 || len(as.Rhs) != 1 || c18Sel(as.Lhs[0]) != mesh {
				continue
			}
			bad := func() (string, error) {
				return "", c.errf(v, "assignment to `%s` that is not of the form `if !%s.<Flag> { %s = %s.Append(<circle>.ToMesh()…) }`",
					mesh, c.recvName, mesh, mesh)
			}
			if v.Init != nil || v.Else != nil || as.Tok != token.ASSIGN || decls != 1 {
				return bad()
			}
			not, ok := c18lUnparen(v.Cond).(*ast.UnaryExpr)
			if !ok || not.Op != token.NOT {
				return bad()
			}
			fsel, ok := c18lUnparen(not.X).(*ast.SelectorExpr)
			if !ok || c18Sel(fsel.X) != c.recvName || c.recvName == "" {
				return bad()
			}
			call, ok := as.Rhs[0].(*ast.CallExpr)
			if !ok || c18Sel(call.Fun) != mesh+".Append" || len(call.Args) != 1 || call.Ellipsis != token.NoPos {
				return bad()
			}
			circle := ""
			e := call.Args[0]
			for circle == "" {
				cc, ok := e.(*ast.CallExpr)
				if !ok {
					return bad()
				}
				sel, ok := cc.Fun.(*ast.SelectorExpr)
				if !ok {
					return bad()
				}
				if id, isId := sel.X.(*ast.Ident); isId {
					if sel.Sel.Name != "ToMesh" || len(cc.Args) != 0 {
						return bad()
					}
					circle = id.Name
				} else {
					if sel.Sel.Name == "Append" {
						return bad()
					}
					e = sel.X
				}
			}
			pairs = append(pairs, pair{fsel.Sel.Name, circle})
			recognised[as] = true
		}
	}
	if decls != 1 {
		return "", c.errf(fd, "expected exactly one function-level `%s := modeling.NewTriangleMesh(%s)…` (found %d)", mesh, c.cfg.idx, decls)
	}
	// no other write to the mesh variable, no other Append
	var werr error
	ast.Inspect(fd.Body, func(nd ast.Node) bool {
		if werr != nil {
			return false
		}
		switch v := nd.(type) {
		case *ast.AssignStmt:
			for _, l := range v.Lhs {
				if id := c18lRoot(l); id != nil && id.Name == mesh && !recognised[v] {
					werr = c.errf(v, "unrecognised assignment to the mesh variable `%s`", mesh)
				}
			}
		case *ast.UnaryExpr:
			if id := c18lRoot(v.X); v.Op == token.AND && id != nil && id.Name == mesh {
				werr = c.errf(v, "address of the mesh variable `%s` taken", mesh)
			}
		}
		return true
	})
	if werr != nil {
		return "", werr
	}
	// the circle variables
	for _, p := range pairs {
		declared := 0
		var derr error
		ast.Inspect(fd.Body, func(nd ast.Node) bool {
			if derr != nil {
				return false
			}
			switch v := nd.(type) {
			case *ast.AssignStmt:
				for i, l := range v.Lhs {
					id := c18lRoot(l)
					if id == nil || id.Name != p.circle {
						continue
					}
					if _, isId := l.(*ast.Ident); isId {
						// the declaration: function level, `x := Circle{… Sides: c.Sides …}`
						atTop := false
						for _, st := range list {
							if st == ast.Stmt(v) {
								atTop = true
							}
						}
						var cl *ast.CompositeLit
						isLit := false
						if len(v.Lhs) == len(v.Rhs) {
							cl, isLit = v.Rhs[i].(*ast.CompositeLit)
						}
						if !atTop || v.Tok != token.DEFINE || !isLit || c18Sel(cl.Type) != "Circle" {
							derr = c.errf(v, "`%s` is assigned other than by a function-level `%s := Circle{…}`", p.circle, p.circle)
							return false
						}
						sidesOK := 0
						for _, el := range cl.Elts {
							kv, ok := el.(*ast.KeyValueExpr)
							if !ok {
								derr = c.errf(v, "unkeyed Circle literal")
								return false
							}
							if c18Sel(kv.Key) == "Sides" {
								if e, ok := c.paramExpr(kv.Value); ok && e.op == "var" && e.n == 0 {
									sidesOK++
								} else {
									sidesOK = -100
								}
							}
						}
						if sidesOK != 1 {
							derr = c.errf(v, "`%s` is not declared with `Sides: %s.%s`", p.circle, c.recvName, c.cfg.intFields[0])
							return false
						}
						declared++
					} else if sel, isSel := c18lUnparen(l).(*ast.SelectorExpr); !isSel || sel.Sel.Name == "Sides" || c18Sel(sel.X) != p.circle {
						derr = c.errf(v, "write to `%s` that may change its Sides", p.circle)
						return false
					}
				}
			case *ast.IncDecStmt:
				if id := c18lRoot(v.X); id != nil && id.Name == p.circle {
					derr = c.errf(v, "write to `%s`", p.circle)
				}
			case *ast.UnaryExpr:
				if id := c18lRoot(v.X); v.Op == token.AND && id != nil && id.Name == p.circle {
					derr = c.errf(v, "address of `%s` taken", p.circle)
				}
			}
			return true
		})
		if derr != nil {
			return "", derr
		}
		if declared != 1 {
			return "", c.errf(fd, "expected exactly one declaration `%s := Circle{… Sides: %s.%s …}` (found %d)", p.circle, c.recvName, c.cfg.intFields[0], declared)
		}
	}
	ps := make([]string, len(pairs))
	for i, p := range pairs {
		ps[i] = fmt.Sprintf("(%q, %q)", p.flag, p.circle)
	}
	var b strings.Builder
	fmt.Fprintf(&b, "/-- %s `%s.%s`: after the loops, in source order, `if !%s.<Flag> { %s = %s.Append(<circle>.ToMesh()…) }` as\n"+
		"    (Flag, circle); every circle is declared as `Circle{… Sides: %s.%s …}` -/\n",
		c.cfg.file, c.cfg.recv, c.cfg.fn, c.recvName, mesh, mesh, c.recvName, c.cfg.intFields[0])
	fmt.Fprintf(&b, "def %sAppends : List (String × String) := [%s]\n", c.cfg.lean, strings.Join(ps, ", "))
	return b.String(), nil
}

// an integer expression over the parameters only (evaluated in the outermost scope: receiver fields)
func (c *c18lCtx) paramExpr(e ast.Expr) (*c18lE, bool) {
	saved := c.scopes
	c.scopes = c.scopes[:1]
	defer func() { c.scopes = saved }()
	return c.intExpr(e)
}

func c18Loops(repo, out string, args []string) error {
	if out == "" {
		return fmt.Errorf("c18.loops: -out is required")
	}
	fset := token.NewFileSet()
	dir := filepath.Join(repo, "modeling", "primitives")
	files := map[string]*ast.File{}
	var b strings.Builder
	b.WriteString("-- GENERATED by `go/facts c18.loops` from /repo modeling/primitives/{sphere,hemisphere,circle,cylinder}.go — do not edit\n")
	b.WriteString("import PolyVerif.Model.LoopIR\n")
	b.WriteString("namespace PolyVerif.Gen.PrimLoops\n")
	b.WriteString("open PolyVerif.LoopIR PolyVerif.LoopIR.E PolyVerif.LoopIR.S\n\n")
	skipped := []string{}
	for _, cfg := range c18lCfgs {
		f := files[cfg.file]
		if f == nil {
			var err error
			f, err = parser.ParseFile(fset, filepath.Join(dir, cfg.file), nil, 0)
			if err != nil {
				return err
			}
			files[cfg.file] = f
		}
		r, err := c18lExtract(fset, f, cfg)
		if err != nil {
			return fmt.Errorf("c18.loops %s: %v", cfg.lean, err)
		}
		b.WriteString(r.text + "\n")
		skipped = append(skipped, r.skipped...)
	}
	b.WriteString("end PolyVerif.Gen.PrimLoops\n")
	if os.Getenv("C18L_VERBOSE") != "" {
		for _, s := range skipped {
			fmt.Fprintln(os.Stderr, s)
		}
	}
	return os.WriteFile(out, []byte(b.String()), 0o644)
}
