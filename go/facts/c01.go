// Engine F, property C01: store sites of the mesh operations and the provenance of what they store into.
//
// For every function (closures included in their enclosing function) of the scanned files the extractor lists
// every syntactic STORE SITE
//
//	x[i] = v   x[i] op= v   x[i]++        (index-store; x a slice or map)
//	append(x, …)                            (may write into x's spare capacity)
//	copy(x, …)   delete(x, k)   sort.*(x…)  slices.Sort*(x…)
//	p.f = v  through a pointer parameter / pointer receiver / package variable   (field-store)
//
// together with a conservative, purely syntactic, intra-procedural judgement `fresh`: the memory stored into was
// allocated by this very call.  The judgement (optimistic fixpoint over the local variables of the function):
//
//	make(…), new(…), composite literals, nil, literals, arithmetic, func literals      fresh
//	append(a, …)                                                                     fresh iff a is
//	a local variable                                  fresh iff EVERY definition / assignment of that name is
//	x[k] (element of a container)                     fresh iff x is fresh and everything ever stored into x
//	                                                  (x[k] = e, literal elements, appended elements) is fresh
//	x[a:b]                                            fresh iff x is
//	range variables over X                            fresh iff elements of X are
//	parameters, receivers, package-level variables, results of any other call                     NOT fresh
//
// Files listed after `--own-receiver` (formats/gltf: a stateful *Writer) are scanned with ONE relaxation: memory reached
// from a receiver or parameter of type *Writer counts as the writer's own state (buffers, tables, caches), not as mesh memory;
// every other store there — in particular any `*p = v` through a mesh pointer handed in by the caller — is judged as usual.
// Anything the walker does not recognise is NOT fresh.  Output: Lean data; the obligation
//
//	∀ s ∈ sites, s.fresh = true
//
// is discharged by `decide` in Props/C01.lean (theorem store_sites_fresh), so a new in-place write in the scanned
// files breaks a named theorem on the next run.  Conservative: a rewrite that stores into a caller-provided scratch
// buffer trips it although the property may still hold.  Not tracked: stores performed by callees outside the
// scanned files into slices passed to them (only sort.* / slices.Sort* are recognised as writers).
package main

import (
	"fmt"
	"go/ast"
	"go/parser"
	"go/printer"
	"go/token"
	"os"
	"path/filepath"
	"sort"
	"strings"
)

func init() { modes["c01.stores"] = c01Stores }

type c01Site struct {
	file, fn, kind, base string
	line                 int
	fresh                bool
}

// pseudo-expression: an element of container x
func c01Elem(x ast.Expr) ast.Expr {
	return &ast.CallExpr{Fun: &ast.Ident{Name: "?elem"}, Args: []ast.Expr{x}}
}

type c01Fn struct {
	fset    *token.FileSet
	pkgVars map[string]bool
	params  map[*ast.Object]bool       // parameters, receivers, named results, closure parameters
	ptrPar  map[*ast.Object]bool       // … of pointer type
	defs    map[*ast.Object][]ast.Expr // every definition / assignment of a local variable (resolved object: scoping respected)
	elems   map[*ast.Object][]ast.Expr // everything ever stored into that container
	notF    map[*ast.Object]bool       // fixpoint: variables found not fresh
	notE    map[*ast.Object]bool       // fixpoint: variables whose elements are not all fresh
	fields  map[string][]ast.Expr      // everything ever stored into a struct field of that name (x.f = e, T{f: e})
	notFld  map[string]bool            // fixpoint: field names that received something not fresh
	recv    map[*ast.Object]bool       // *Writer receiver / parameters: the writer's own state is not mesh memory (--own-receiver files)
	pkg     string                     // package name of the function being analysed
}

func c01Unparen(e ast.Expr) ast.Expr {
	for {
		p, ok := e.(*ast.ParenExpr)
		if !ok {
			return e
		}
		e = p.X
	}
}

func c01CallName(c *ast.CallExpr) string {
	switch f := c01Unparen(c.Fun).(type) {
	case *ast.Ident:
		return f.Name
	case *ast.SelectorExpr:
		if x, ok := f.X.(*ast.Ident); ok {
			return x.Name + "." + f.Sel.Name
		}
	}
	return ""
}

func (f *c01Fn) isLocal(id *ast.Ident) bool {
	if id.Obj == nil {
		return false
	}
	_, ok := f.defs[id.Obj]
	return ok && !f.params[id.Obj]
}

// in --own-receiver files: memory reached from the method's own pointer receiver (a stateful writer object: its buffers,
// tables and caches) is the writer's, not a mesh's
func (f *c01Fn) recvRooted(e ast.Expr) bool {
	if len(f.recv) == 0 {
		return false
	}
	for {
		switch v := c01Unparen(e).(type) {
		case *ast.Ident:
			return v.Obj != nil && f.recv[v.Obj]
		case *ast.SelectorExpr:
			e = v.X
		case *ast.IndexExpr:
			e = v.X
		case *ast.SliceExpr:
			e = v.X
		case *ast.StarExpr:
			e = v.X
		default:
			return false
		}
	}
}

func (f *c01Fn) fresh(e ast.Expr) bool {
	if f.recvRooted(e) {
		return true
	}
	switch v := c01Unparen(e).(type) {
	case nil:
		return true // `var x T`: zero value
	case *ast.Ident:
		if v.Name == "nil" || v.Name == "true" || v.Name == "false" {
			return true
		}
		return f.isLocal(v) && !f.notF[v.Obj]
	case *ast.BasicLit, *ast.BinaryExpr, *ast.FuncLit, *ast.CompositeLit:
		return true
	case *ast.UnaryExpr:
		if v.Op == token.AND {
			return f.fresh(v.X)
		}
		return true // arithmetic / logical negation
	case *ast.CallExpr:
		switch c01CallName(v) {
		case "?elem":
			return f.elemFresh(v.Args[0])
		case "make", "new", "len", "cap":
			return true
		case "append":
			return len(v.Args) > 0 && f.fresh(v.Args[0])
		}
		// a plain function of the scanned files all of whose return values were judged fresh by this same analysis
		if name := c01CallName(v); name != "" {
			if !strings.Contains(name, ".") {
				name = f.pkg + "." + name
			}
			return c01FreshRet[name]
		}
		return false
	case *ast.IndexExpr:
		return f.elemFresh(v.X)
	case *ast.SliceExpr:
		return f.fresh(v.X)
	case *ast.SelectorExpr:
		// field of a struct allocated here (or reached through a fresh pointer), provided every value that any
		// field of this name ever receives in this function is fresh
		if _, known := f.fields[v.Sel.Name]; !known {
			return false
		}
		return f.fresh(v.X) && !f.notFld[v.Sel.Name]
	}
	return false
}

func (f *c01Fn) elemFresh(x ast.Expr) bool {
	switch v := c01Unparen(x).(type) {
	case *ast.Ident:
		return f.isLocal(v) && !f.notF[v.Obj] && !f.notE[v.Obj]
	case *ast.IndexExpr:
		return f.elemFresh(v.X)
	case *ast.SliceExpr:
		return f.elemFresh(v.X)
	}
	return false
}

func (f *c01Fn) def(id *ast.Ident, e ast.Expr) {
	if id.Name == "_" || id.Obj == nil {
		return
	}
	name := id.Obj
	f.defs[name] = append(f.defs[name], e)
	// elements a literal / append puts into the container
	switch v := c01Unparen(e).(type) {
	case *ast.CompositeLit:
		for _, el := range v.Elts {
			if kv, ok := el.(*ast.KeyValueExpr); ok {
				el = kv.Value
			}
			f.elems[name] = append(f.elems[name], el)
		}
	case *ast.CallExpr:
		if c01CallName(v) == "append" {
			for _, a := range v.Args[1:] {
				if v.Ellipsis.IsValid() {
					f.elems[name] = append(f.elems[name], c01Elem(a))
				} else {
					f.elems[name] = append(f.elems[name], a)
				}
			}
		}
	}
}

func (f *c01Fn) fieldList(fl *ast.FieldList) {
	if fl == nil {
		return
	}
	for _, fd := range fl.List {
		_, ptr := fd.Type.(*ast.StarExpr)
		for _, n := range fd.Names {
			if n.Obj == nil {
				continue
			}
			f.params[n.Obj] = true
			f.defs[n.Obj] = append(f.defs[n.Obj], n)
			if ptr {
				f.ptrPar[n.Obj] = true
			}
		}
	}
}

func (f *c01Fn) collect(body ast.Node) {
	ast.Inspect(body, func(n ast.Node) bool {
		switch s := n.(type) {
		case *ast.FuncLit:
			f.fieldList(s.Type.Params)
			f.fieldList(s.Type.Results)
		case *ast.CompositeLit:
			for _, el := range s.Elts {
				if kv, ok := el.(*ast.KeyValueExpr); ok {
					if k, ok := kv.Key.(*ast.Ident); ok {
						f.fields[k.Name] = append(f.fields[k.Name], kv.Value)
					}
				}
			}
		case *ast.AssignStmt:
			for i, lhs := range s.Lhs {
				var rhs ast.Expr
				if len(s.Rhs) == len(s.Lhs) {
					rhs = s.Rhs[i]
				} else {
					rhs = s.Rhs[0] // multi-value call / comma-ok: judged as the call itself (not fresh)
					if _, isIdx := c01Unparen(rhs).(*ast.IndexExpr); isIdx && i == 1 {
						rhs = &ast.BasicLit{Kind: token.INT, Value: "0"} // the `ok` of v, ok := m[k]
					}
				}
				if s.Tok != token.ASSIGN && s.Tok != token.DEFINE {
					rhs = &ast.BasicLit{Kind: token.INT, Value: "0"} // x op= v: arithmetic
				}
				switch l := c01Unparen(lhs).(type) {
				case *ast.Ident:
					f.def(l, rhs)
				case *ast.IndexExpr:
					if id, ok := c01Unparen(l.X).(*ast.Ident); ok && id.Obj != nil {
						f.elems[id.Obj] = append(f.elems[id.Obj], rhs)
					}
				case *ast.SelectorExpr:
					f.fields[l.Sel.Name] = append(f.fields[l.Sel.Name], rhs)
				}
			}
		case *ast.ValueSpec:
			for i, n := range s.Names {
				if i < len(s.Values) {
					f.def(n, s.Values[i])
				} else if len(s.Values) == 0 {
					f.def(n, nil)
				} else {
					f.def(n, s.Values[0])
				}
			}
		case *ast.RangeStmt:
			if id, ok := s.Key.(*ast.Ident); ok && s.Tok == token.DEFINE {
				f.def(id, &ast.BasicLit{Kind: token.INT, Value: "0"}) // key / index: a value
			}
			if id, ok := s.Value.(*ast.Ident); ok && s.Tok == token.DEFINE {
				f.def(id, c01Elem(s.X))
			}
		case *ast.TypeSwitchStmt:
			if a, ok := s.Assign.(*ast.AssignStmt); ok {
				if id, ok := a.Lhs[0].(*ast.Ident); ok {
					f.def(id, &ast.Ident{Name: "?typeswitch"})
				}
			}
		}
		return true
	})
}

func (f *c01Fn) fixpoint() {
	for changed := true; changed; {
		changed = false
		for name, ds := range f.defs {
			if f.params[name] || f.notF[name] {
				continue
			}
			for _, d := range ds {
				if !f.fresh(d) {
					f.notF[name], changed = true, true
					break
				}
			}
		}
		for name, es := range f.fields {
			if f.notFld[name] {
				continue
			}
			for _, e := range es {
				if !f.fresh(e) {
					f.notFld[name], changed = true, true
					break
				}
			}
		}
		for name, es := range f.elems {
			if f.notE[name] {
				continue
			}
			for _, e := range es {
				if !f.fresh(e) {
					f.notE[name], changed = true, true
					break
				}
			}
		}
	}
}

func (f *c01Fn) str(e ast.Expr) string {
	var b strings.Builder
	printer.Fprint(&b, f.fset, e)
	s := strings.Join(strings.Fields(b.String()), " ")
	if len(s) > 60 {
		s = s[:57] + "..."
	}
	return s
}

func (f *c01Fn) root(e ast.Expr) *ast.Ident {
	for {
		switch v := c01Unparen(e).(type) {
		case *ast.Ident:
			return v
		case *ast.SelectorExpr:
			e = v.X
		case *ast.IndexExpr:
			e = v.X
		case *ast.SliceExpr:
			e = v.X
		case *ast.StarExpr:
			e = v.X
		default:
			return nil
		}
	}
}

func (f *c01Fn) sites(file, fn string, body ast.Node) []c01Site {
	var out []c01Site
	add := func(pos token.Pos, kind string, base ast.Expr, fresh bool) {
		out = append(out, c01Site{file, fn, kind, f.str(base), f.fset.Position(pos).Line, fresh})
	}
	lhsStore := func(lhs ast.Expr) {
		switch l := c01Unparen(lhs).(type) {
		case *ast.IndexExpr:
			add(l.Pos(), "index-store", l.X, f.fresh(l.X))
		case *ast.SelectorExpr:
			r := f.root(l.X)
			switch {
			case f.recvRooted(l.X):
				add(l.Pos(), "field-store (receiver state)", l.X, true)
			case r == nil:
				add(l.Pos(), "field-store", l.X, false)
			case r.Obj == nil || f.ptrPar[r.Obj] || (!f.isLocal(r) && !f.params[r.Obj]):
				// unresolved / package-level / pointer parameter
				add(l.Pos(), "field-store", l.X, false)
			case f.params[r.Obj]:
				// field of a by-value parameter / receiver: a private copy of the struct, unless the path goes
				// through an index or a dereference
				if _, plain := c01Unparen(l.X).(*ast.Ident); !plain {
					add(l.Pos(), "field-store", l.X, false)
				}
			default:
				if _, plain := c01Unparen(l.X).(*ast.Ident); !plain || !f.fresh(l.X) {
					// a local struct value is private; anything reached through an element or pointer must be fresh
					if !plain {
						add(l.Pos(), "field-store", l.X, f.fresh(l.X))
					}
				}
			}
		case *ast.StarExpr:
			add(l.Pos(), "deref-store", l.X, f.fresh(l.X))
		}
	}
	ast.Inspect(body, func(n ast.Node) bool {
		switch s := n.(type) {
		case *ast.AssignStmt:
			for _, lhs := range s.Lhs {
				lhsStore(lhs)
			}
		case *ast.IncDecStmt:
			lhsStore(s.X)
		case *ast.CallExpr:
			name := c01CallName(s)
			// methods that announce an in-place update of their receiver (vector3.Array.ScaleInplace, …)
			if sel, ok := c01Unparen(s.Fun).(*ast.SelectorExpr); ok {
				if ln := strings.ToLower(sel.Sel.Name); strings.Contains(ln, "inplace") {
					base := sel.X
					if conv, ok := c01Unparen(base).(*ast.CallExpr); ok && len(conv.Args) == 1 {
						base = conv.Args[0] // T(x).ScaleInplace(): the conversion shares x's array
					}
					add(s.Pos(), "inplace-call "+sel.Sel.Name, base, f.fresh(base))
				}
			}
			switch {
			case name == "append" && len(s.Args) > 0:
				add(s.Pos(), "append", s.Args[0], f.fresh(s.Args[0]))
			case (name == "copy" || name == "delete" || name == "clear") && len(s.Args) > 0:
				add(s.Pos(), name, s.Args[0], f.fresh(s.Args[0]))
			case (strings.HasPrefix(name, "sort.") || strings.HasPrefix(name, "slices.Sort") || name == "slices.Reverse") && len(s.Args) > 0:
				add(s.Pos(), name, s.Args[0], f.fresh(s.Args[0]))
			}
		}
		return true
	})
	return out
}

// summaries: package.Function -> every returned expression is fresh (computed pessimistically, iterated)
var c01FreshRet = map[string]bool{}

func (f *c01Fn) returnsFresh(body *ast.BlockStmt, nres int) bool {
	ok, seen := true, false
	var walk func(n ast.Node) bool
	walk = func(n ast.Node) bool {
		switch s := n.(type) {
		case *ast.FuncLit:
			return false // returns of closures are not returns of the function
		case *ast.ReturnStmt:
			seen = true
			if len(s.Results) == 0 && nres > 0 {
				ok = false // naked return of named results
			}
			for _, r := range s.Results {
				if !f.fresh(r) {
					ok = false
				}
			}
		}
		return true
	}
	ast.Inspect(body, walk)
	return ok && seen
}

func c01Stores(repo, out string, args []string) error {
	if len(args) == 0 {
		return fmt.Errorf("c01.stores: no files / directories given")
	}
	var files []string
	ownRecv := map[string]bool{}
	own := false
	for _, a := range args {
		if a == "--own-receiver" {
			own = true
			continue
		}
		p := filepath.Join(repo, a)
		st, err := os.Stat(p)
		if err != nil {
			return err
		}
		if !st.IsDir() {
			files = append(files, p)
			ownRecv[p] = own
			continue
		}
		ms, _ := filepath.Glob(filepath.Join(p, "*.go"))
		for _, m := range ms {
			if !strings.HasSuffix(m, "_test.go") {
				files = append(files, m)
				ownRecv[m] = own
			}
		}
	}
	sort.Strings(files)
	fset := token.NewFileSet()
	parsed := map[string]*ast.File{}
	pkgVars := map[string]map[string]bool{} // per directory
	for _, p := range files {
		af, err := parser.ParseFile(fset, p, nil, 0)
		if err != nil {
			return err
		}
		parsed[p] = af
	}
	// package-level variables of every package touched (all files of the directory, not only the scanned ones)
	for _, p := range files {
		dir := filepath.Dir(p)
		if pkgVars[dir] != nil {
			continue
		}
		pkgVars[dir] = map[string]bool{}
		ms, _ := filepath.Glob(filepath.Join(dir, "*.go"))
		for _, m := range ms {
			if strings.HasSuffix(m, "_test.go") {
				continue
			}
			af, err := parser.ParseFile(token.NewFileSet(), m, nil, 0)
			if err != nil {
				return err
			}
			for _, d := range af.Decls {
				if gd, ok := d.(*ast.GenDecl); ok && gd.Tok == token.VAR {
					for _, sp := range gd.Specs {
						for _, n := range sp.(*ast.ValueSpec).Names {
							pkgVars[dir][n.Name] = true
						}
					}
				}
			}
		}
	}
	newFn := func(p string) *c01Fn {
		return &c01Fn{fset: fset, pkgVars: pkgVars[filepath.Dir(p)], pkg: parsed[p].Name.Name, params: map[*ast.Object]bool{}, ptrPar: map[*ast.Object]bool{},
			defs: map[*ast.Object][]ast.Expr{}, elems: map[*ast.Object][]ast.Expr{}, notF: map[*ast.Object]bool{}, notE: map[*ast.Object]bool{},
			fields: map[string][]ast.Expr{}, notFld: map[string]bool{}}
	}
	for round := 0; round < 4; round++ { // summaries only grow from "nothing is known to return fresh memory"
		for _, p := range files {
			for _, d := range parsed[p].Decls {
				fd, ok := d.(*ast.FuncDecl)
				if !ok || fd.Body == nil || fd.Recv != nil || fd.Type.Results == nil {
					continue
				}
				f := newFn(p)
				f.fieldList(fd.Type.Params)
				f.fieldList(fd.Type.Results)
				f.collect(fd.Body)
				f.fixpoint()
				if f.returnsFresh(fd.Body, len(fd.Type.Results.List)) {
					c01FreshRet[f.pkg+"."+fd.Name.Name] = true
				}
			}
		}
	}
	var sites []c01Site
	nFuncs := 0
	for _, p := range files {
		rel, _ := filepath.Rel(repo, p)
		for _, d := range parsed[p].Decls {
			fd, ok := d.(*ast.FuncDecl)
			if !ok || fd.Body == nil {
				continue
			}
			nFuncs++
			f := newFn(p)
			f.fieldList(fd.Recv)
			if ownRecv[p] {
				// the stateful writer object: receiver or parameter of type *Writer
				f.recv = map[*ast.Object]bool{}
				for _, fl := range []*ast.FieldList{fd.Recv, fd.Type.Params} {
					if fl == nil {
						continue
					}
					for _, fld := range fl.List {
						if st, ptr := fld.Type.(*ast.StarExpr); ptr {
							if id, ok := st.X.(*ast.Ident); ok && id.Name == "Writer" {
								for _, n := range fld.Names {
									if n.Obj != nil {
										f.recv[n.Obj] = true
									}
								}
							}
						}
					}
				}
			}
			f.fieldList(fd.Type.Params)
			f.fieldList(fd.Type.Results)
			f.collect(fd.Body)
			f.fixpoint()
			name := fd.Name.Name
			if fd.Recv != nil && len(fd.Recv.List) > 0 {
				name = f.str(fd.Recv.List[0].Type) + "." + name
			}
			sites = append(sites, f.sites(rel, name, fd.Body)...)
		}
	}
	var b strings.Builder
	b.WriteString("-- GENERATED by /verif/go/facts c01.stores from the working tree; do not edit.\n")
	b.WriteString("-- Store sites of the mesh operations with the provenance of the memory they store into (see go/facts/c01.go).\n")
	b.WriteString("namespace PolyVerif.Gen.C01Stores\n\n")
	b.WriteString("structure Site where\n  file : String\n  line : Nat\n  fn : String\n  kind : String\n  base : String\n  fresh : Bool\n\n")
	fmt.Fprintf(&b, "def filesScanned : Nat := %d\ndef functionsScanned : Nat := %d\n\n", len(files), nFuncs)
	b.WriteString("def sites : List Site := [\n")
	for i, s := range sites {
		sep := ","
		if i == len(sites)-1 {
			sep = ""
		}
		fmt.Fprintf(&b, "  ⟨%q, %d, %q, %q, %q, %v⟩%s\n", s.file, s.line, s.fn, s.kind, s.base, s.fresh, sep)
	}
	b.WriteString("]\n\n/-- the sites whose target is not provably allocated by the call itself -/\n")
	b.WriteString("def suspicious : List Site := sites.filter fun s => !s.fresh\n\nend PolyVerif.Gen.C01Stores\n")
	return os.WriteFile(out, []byte(b.String()), 0o644)
}
