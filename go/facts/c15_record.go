// Engine F, property C15: the per-record write sequence of formats/splat/write.go, translated from the current tree
// (go/parser + go/ast) into a Lean definition over the codec environment `Splat.Env α`
// (PolyVerif/Gen/SplatRecord.lean):
//
//	for i := 0; i < count; i++ {                       one loop iteration =
//	    pos := posData.At(i)                            def writeSeq (E) (s : Splat α) : List (UInt32 ⊕ UInt8)
//	    writer.Float32(float32(pos.X())) …              one entry per writer.Float32 / writer.Byte call, in order
//	    color := fdcData.At(i).Scale(SH_C0).Add(vector3.Fill(0.5)).Clamp(0, 1)
//	    writer.Byte(byte(color.X() * 255)) …
//	}
//
// Expression subset: `<attr>Data.At(i)` (the splat's fields), vector chains `.Scale(k) .Add(vectorN.Fill(k)) .Clamp(a, b)`
// read componentwise, `.X() .Y() .Z() .W()`, `+ - * /`, unary minus, numeric literals, `SH_C0`, `math.Exp`,
// `float32(e)` (= `E.to32`), `byte(e)` (= `byteOf (E.trunc e)`).  Anything else is an error — the extractor never guesses.
// Props/C15Record.lean proves the hand model's `encSplat` / `encRec` equal to the regenerated sequence.
package main

import (
	"bytes"
	"fmt"
	"go/ast"
	"go/parser"
	"go/printer"
	"go/token"
	"math/big"
	"os"
	"path/filepath"
	"strings"
)

func init() { modes["c15.splatrecord"] = c15SplatRecord }

func c15Src(fset *token.FileSet, n ast.Node) string {
	var b bytes.Buffer
	printer.Fprint(&b, fset, n)
	return strings.Join(strings.Fields(b.String()), " ")
}

// the splat fields behind `<name>.At(i)`
var c15Attr = map[string][]string{
	"posData":      {"s.px", "s.py", "s.pz"},
	"scaleData":    {"s.sx", "s.sy", "s.sz"},
	"fdcData":      {"s.cx", "s.cy", "s.cz"},
	"rotationData": {"s.r0", "s.r1", "s.r2", "s.r3"},
	"opacityData":  {"s.op"},
}

// which mesh accessor each local must come from (checked, so a swapped attribute is noticed)
var c15Source = map[string]string{
	"posData":      "mesh.Float3Attribute(modeling.PositionAttribute)",
	"scaleData":    "mesh.Float3Attribute(modeling.ScaleAttribute)",
	"fdcData":      "mesh.Float3Attribute(modeling.FDCAttribute)",
	"opacityData":  "mesh.Float1Attribute(modeling.OpacityAttribute)",
	"rotationData": "mesh.Float4Attribute(modeling.RotationAttribute)",
}

type c15Val struct {
	comps []string // one Lean expression per component (len 1 = scalar)
}

type c15Tr struct {
	fset *token.FileSet
	env  map[string]c15Val
}

func (t *c15Tr) at(n ast.Node) string { return fmt.Sprintf("write.go:%d", t.fset.Position(n.Pos()).Line) }

func c15Lit(v string) (string, error) {
	r, ok := new(big.Rat).SetString(strings.TrimSuffix(v, "."))
	if !ok || r.Sign() < 0 {
		return "", fmt.Errorf("unsupported numeric literal %s", v)
	}
	if r.IsInt() {
		return fmt.Sprintf("((%s : Nat) : α)", r.Num().String()), nil
	}
	return fmt.Sprintf("(lit %s %s : α)", r.Num().String(), r.Denom().String()), nil
}

func (t *c15Tr) scalar(e ast.Expr) (string, error) {
	v, err := t.val(e)
	if err != nil {
		return "", err
	}
	if len(v.comps) != 1 {
		return "", fmt.Errorf("%s: a scalar is expected here", t.at(e))
	}
	return v.comps[0], nil
}

func (t *c15Tr) val(e ast.Expr) (c15Val, error) {
	switch x := e.(type) {
	case *ast.ParenExpr:
		return t.val(x.X)
	case *ast.BasicLit:
		s, err := c15Lit(x.Value)
		if err != nil {
			return c15Val{}, fmt.Errorf("%s: %v", t.at(x), err)
		}
		return c15Val{[]string{s}}, nil
	case *ast.Ident:
		if x.Name == "SH_C0" {
			return c15Val{[]string{"E.shC0"}}, nil
		}
		if v, ok := t.env[x.Name]; ok {
			return v, nil
		}
		return c15Val{}, fmt.Errorf("%s: unknown identifier %s", t.at(x), x.Name)
	case *ast.UnaryExpr:
		if x.Op != token.SUB {
			return c15Val{}, fmt.Errorf("%s: unsupported unary operator", t.at(x))
		}
		s, err := t.scalar(x.X)
		return c15Val{[]string{"(-" + s + ")"}}, err
	case *ast.BinaryExpr:
		op := map[token.Token]string{token.ADD: "+", token.SUB: "-", token.MUL: "*", token.QUO: "/"}[x.Op]
		if op == "" {
			return c15Val{}, fmt.Errorf("%s: unsupported operator %s", t.at(x), x.Op)
		}
		l, err := t.scalar(x.X)
		if err != nil {
			return c15Val{}, err
		}
		r, err := t.scalar(x.Y)
		if err != nil {
			return c15Val{}, err
		}
		return c15Val{[]string{fmt.Sprintf("(%s %s %s)", l, op, r)}}, nil
	case *ast.CallExpr:
		// conversions and math
		if id, ok := x.Fun.(*ast.Ident); ok && len(x.Args) == 1 {
			a, err := t.scalar(x.Args[0])
			if err != nil {
				return c15Val{}, err
			}
			switch id.Name {
			case "float32":
				return c15Val{[]string{"(E.to32 " + a + ")"}}, nil
			case "byte":
				return c15Val{[]string{"(byteOf (E.trunc " + a + "))"}}, nil
			}
			return c15Val{}, fmt.Errorf("%s: unsupported conversion %s", t.at(x), id.Name)
		}
		sel, ok := x.Fun.(*ast.SelectorExpr)
		if !ok {
			return c15Val{}, fmt.Errorf("%s: unsupported call", t.at(x))
		}
		if pk, ok := sel.X.(*ast.Ident); ok && pk.Name == "math" {
			if sel.Sel.Name == "Exp" && len(x.Args) == 1 {
				a, err := t.scalar(x.Args[0])
				return c15Val{[]string{"(E.exp " + a + ")"}}, err
			}
			return c15Val{}, fmt.Errorf("%s: unsupported math.%s", t.at(x), sel.Sel.Name)
		}
		// <attr>Data.At(i)
		if id, ok := sel.X.(*ast.Ident); ok && sel.Sel.Name == "At" {
			if f, ok := c15Attr[id.Name]; ok && len(x.Args) == 1 {
				if ix, ok := x.Args[0].(*ast.Ident); !ok || ix.Name != "i" {
					return c15Val{}, fmt.Errorf("%s: %s.At is not indexed by the loop variable", t.at(x), id.Name)
				}
				return c15Val{append([]string{}, f...)}, nil
			}
		}
		recv, err := t.val(sel.X)
		if err != nil {
			return c15Val{}, err
		}
		comp := map[string]int{"X": 0, "Y": 1, "Z": 2, "W": 3}
		if k, ok := comp[sel.Sel.Name]; ok && len(x.Args) == 0 {
			if len(recv.comps) < 2 || k >= len(recv.comps) {
				return c15Val{}, fmt.Errorf("%s: component %s of a %d-vector", t.at(x), sel.Sel.Name, len(recv.comps))
			}
			return c15Val{[]string{recv.comps[k]}}, nil
		}
		if len(recv.comps) < 2 {
			return c15Val{}, fmt.Errorf("%s: vector method %s on a scalar", t.at(x), sel.Sel.Name)
		}
		out := make([]string, len(recv.comps))
		switch sel.Sel.Name {
		case "Scale":
			if len(x.Args) != 1 {
				break
			}
			k, err := t.scalar(x.Args[0])
			if err != nil {
				return c15Val{}, err
			}
			for i, c := range recv.comps {
				out[i] = fmt.Sprintf("(%s * %s)", c, k)
			}
			return c15Val{out}, nil
		case "Add":
			// only vectorN.Fill(k)
			if len(x.Args) == 1 {
				if fc, ok := x.Args[0].(*ast.CallExpr); ok && len(fc.Args) == 1 {
					if fs, ok := fc.Fun.(*ast.SelectorExpr); ok && fs.Sel.Name == "Fill" {
						k, err := t.scalar(fc.Args[0])
						if err != nil {
							return c15Val{}, err
						}
						for i, c := range recv.comps {
							out[i] = fmt.Sprintf("(%s + %s)", c, k)
						}
						return c15Val{out}, nil
					}
				}
			}
		case "Clamp":
			if len(x.Args) == 2 {
				lo, err := t.scalar(x.Args[0])
				if err != nil {
					return c15Val{}, err
				}
				hi, err := t.scalar(x.Args[1])
				if err != nil {
					return c15Val{}, err
				}
				for i, c := range recv.comps {
					out[i] = fmt.Sprintf("(vclamp %s %s %s)", c, lo, hi)
				}
				return c15Val{out}, nil
			}
		}
		return c15Val{}, fmt.Errorf("%s: unsupported vector method %s", t.at(x), sel.Sel.Name)
	}
	return c15Val{}, fmt.Errorf("%s: unsupported expression %T", t.at(e), e)
}


// ---------------------------------------------------------------- reader side (formats/splat/read.go)

// the record word / byte at a buffer offset
var c15Word = map[int]string{0: "r.p0", 4: "r.p1", 8: "r.p2", 12: "r.s0", 16: "r.s1", 20: "r.s2"}
var c15Byte = map[int]string{24: "r.c0", 25: "r.c1", 26: "r.c2", 27: "r.al", 28: "r.r0", 29: "r.r1", 30: "r.r2", 31: "r.r3"}

// which splat fields each accumulated slice holds, and the attribute it must be stored under
var c15Target = map[string][]string{
	"positionData": {"px", "py", "pz"},
	"scaleData":    {"sx", "sy", "sz"},
	"colorData":    {"cx", "cy", "cz"},
	"opacityData":  {"op"},
	"rotationData": {"r0", "r1", "r2", "r3"},
}
var c15StoredAs = map[string]string{
	"modeling.RotationAttribute": "rotationData", "modeling.PositionAttribute": "positionData",
	"modeling.ScaleAttribute": "scaleData", "modeling.FDCAttribute": "colorData", "modeling.OpacityAttribute": "opacityData",
}

var c15AfterLoop []string

type c15Rd struct {
	fset *token.FileSet
	env  map[string]string
}

func (t *c15Rd) at(n ast.Node) string { return fmt.Sprintf("read.go:%d", t.fset.Position(n.Pos()).Line) }

func (t *c15Rd) offset(e ast.Expr) (int, bool, error) { // (offset, isSlice)
	switch x := e.(type) {
	case *ast.Ident:
		if x.Name == "splatBuffer" {
			return 0, true, nil
		}
	case *ast.SliceExpr:
		if id, ok := x.X.(*ast.Ident); ok && id.Name == "splatBuffer" && x.High == nil && x.Low != nil {
			if l, ok := x.Low.(*ast.BasicLit); ok {
				var k int
				fmt.Sscan(l.Value, &k)
				return k, true, nil
			}
		}
	case *ast.IndexExpr:
		if id, ok := x.X.(*ast.Ident); ok && id.Name == "splatBuffer" {
			if l, ok := x.Index.(*ast.BasicLit); ok {
				var k int
				fmt.Sscan(l.Value, &k)
				return k, false, nil
			}
		}
	}
	return 0, false, fmt.Errorf("%s: unsupported buffer access", t.at(e))
}

func (t *c15Rd) expr(e ast.Expr) (string, error) {
	switch x := e.(type) {
	case *ast.ParenExpr:
		return t.expr(x.X)
	case *ast.BasicLit:
		s, err := c15Lit(x.Value)
		if err != nil {
			return "", fmt.Errorf("%s: %v", t.at(x), err)
		}
		return s, nil
	case *ast.Ident:
		if x.Name == "SH_C0" {
			return "E.shC0", nil
		}
		if v, ok := t.env[x.Name]; ok {
			return v, nil
		}
		return "", fmt.Errorf("%s: unknown identifier %s", t.at(x), x.Name)
	case *ast.UnaryExpr:
		if x.Op != token.SUB {
			return "", fmt.Errorf("%s: unsupported unary operator", t.at(x))
		}
		s, err := t.expr(x.X)
		return "(-" + s + ")", err
	case *ast.BinaryExpr:
		op := map[token.Token]string{token.ADD: "+", token.SUB: "-", token.MUL: "*", token.QUO: "/"}[x.Op]
		if op == "" {
			return "", fmt.Errorf("%s: unsupported operator %s", t.at(x), x.Op)
		}
		l, err := t.expr(x.X)
		if err != nil {
			return "", err
		}
		r, err := t.expr(x.Y)
		if err != nil {
			return "", err
		}
		return fmt.Sprintf("(%s %s %s)", l, op, r), nil
	case *ast.CallExpr:
		src := c15Src(t.fset, x.Fun)
		switch src {
		case "float64":
			// float64(splatBuffer[k]) = the byte as a number; float64(<float32 value>) = the value
			if len(x.Args) == 1 {
				if k, isSlice, err := t.offset(x.Args[0]); err == nil && !isSlice {
					b, ok := c15Byte[k]
					if !ok {
						return "", fmt.Errorf("%s: byte offset %d is not a byte field of the record", t.at(x), k)
					}
					return "(byteF " + b + ")", nil
				}
				return t.expr(x.Args[0])
			}
		case "math.Float32frombits":
			if len(x.Args) == 1 {
				if c, ok := x.Args[0].(*ast.CallExpr); ok && c15Src(t.fset, c.Fun) == "binary.LittleEndian.Uint32" && len(c.Args) == 1 {
					k, isSlice, err := t.offset(c.Args[0])
					if err != nil {
						return "", err
					}
					w, ok := c15Word[k]
					if !ok || !isSlice {
						return "", fmt.Errorf("%s: word offset %d is not a word field of the record", t.at(x), k)
					}
					return "(E.of32 " + w + ")", nil
				}
			}
		case "math.Log":
			if len(x.Args) == 1 {
				a, err := t.expr(x.Args[0])
				return "(E.log " + a + ")", err
			}
		}
		return "", fmt.Errorf("%s: unsupported call %s", t.at(x), src)
	}
	return "", fmt.Errorf("%s: unsupported expression %T", t.at(e), e)
}

// c15ReadSplat translates one iteration of the record loop of splat.Read into the fields of a `Splat α`.
func c15ReadSplat(repo string) (string, string, error) {
	t := &c15Rd{fset: token.NewFileSet(), env: map[string]string{}}
	f, err := parser.ParseFile(t.fset, filepath.Join(repo, "formats", "splat", "read.go"), nil, 0)
	if err != nil {
		return "", "", err
	}
	var rd *ast.FuncDecl
	for _, d := range f.Decls {
		if fd, ok := d.(*ast.FuncDecl); ok && fd.Recv == nil && fd.Name.Name == "Read" {
			rd = fd
		}
	}
	if rd == nil {
		return "", "", fmt.Errorf("read.go: func Read not found")
	}
	var loop *ast.ForStmt
	bufSize := ""
	for _, st := range rd.Body.List {
		switch s := st.(type) {
		case *ast.AssignStmt:
			if len(s.Lhs) == 1 && c15Src(t.fset, s.Lhs[0]) == "splatBuffer" {
				bufSize = c15Src(t.fset, s.Rhs[0])
			}
		case *ast.ForStmt:
			loop = s
		}
	}
	if loop == nil || loop.Cond != nil {
		return "", "", fmt.Errorf("read.go: record loop `for { … }` not found")
	}
	fields := map[string]string{}
	for i, st := range loop.Body.List {
		if i == 0 {
			if c15Src(t.fset, st) != "_, err = io.ReadFull(in, splatBuffer)" {
				return "", "", fmt.Errorf("%s: the loop does not start with `_, err = io.ReadFull(in, splatBuffer)`", t.at(st))
			}
			continue
		}
		if i == 1 {
			if is, ok := st.(*ast.IfStmt); !ok || c15Src(t.fset, is.Cond) != "err != nil" || c15Src(t.fset, is.Body.List[0]) != "break" {
				return "", "", fmt.Errorf("%s: expected `if err != nil { break }`", t.at(st))
			}
			continue
		}
		as, ok := st.(*ast.AssignStmt)
		if !ok || len(as.Lhs) != 1 || len(as.Rhs) != 1 {
			return "", "", fmt.Errorf("%s: unsupported statement in the record loop", t.at(st))
		}
		name := c15Src(t.fset, as.Lhs[0])
		if as.Tok == token.DEFINE {
			v, err := t.expr(as.Rhs[0])
			if err != nil {
				return "", "", err
			}
			t.env[name] = v
			continue
		}
		tgt, ok := c15Target[name]
		if !ok {
			return "", "", fmt.Errorf("%s: assignment to %s", t.at(st), name)
		}
		ap, ok := as.Rhs[0].(*ast.CallExpr)
		if !ok || c15Src(t.fset, ap.Fun) != "append" || len(ap.Args) != 2 || c15Src(t.fset, ap.Args[0]) != name {
			return "", "", fmt.Errorf("%s: expected %s = append(%s, …)", t.at(st), name, name)
		}
		val := ap.Args[1]
		comps := []ast.Expr{val}
		// vectorN.New(a, b, c).ToFloat64()
		if c, ok := val.(*ast.CallExpr); ok {
			if sel, ok := c.Fun.(*ast.SelectorExpr); ok && sel.Sel.Name == "ToFloat64" {
				if nc, ok := sel.X.(*ast.CallExpr); ok && strings.HasSuffix(c15Src(t.fset, nc.Fun), ".New") {
					comps = nc.Args
				}
			}
		}
		if len(comps) != len(tgt) {
			return "", "", fmt.Errorf("%s: %s gets %d components, expected %d", t.at(st), name, len(comps), len(tgt))
		}
		for k, ce := range comps {
			v, err := t.expr(ce)
			if err != nil {
				return "", "", err
			}
			fields[tgt[k]] = v
		}
	}
	order := []string{"px", "py", "pz", "sx", "sy", "sz", "cx", "cy", "cz", "op", "r0", "r1", "r2", "r3"}
	parts := []string{}
	for _, k := range order {
		v, ok := fields[k]
		if !ok {
			return "", "", fmt.Errorf("read.go: field %s of the splat is never stored", k)
		}
		parts = append(parts, fmt.Sprintf("%s := %s", k, v))
	}
	// the attribute each slice is stored under
	stored := 0
	var serr error
	ast.Inspect(rd, func(n ast.Node) bool {
		kv, ok := n.(*ast.KeyValueExpr)
		if !ok {
			return true
		}
		if want, ok := c15StoredAs[c15Src(t.fset, kv.Key)]; ok {
			if got := c15Src(t.fset, kv.Value); got != want {
				serr = fmt.Errorf("%s: %s is stored from %s, expected %s", t.at(kv), c15Src(t.fset, kv.Key), got, want)
			}
			stored++
		}
		return true
	})
	if serr != nil {
		return "", "", serr
	}
	if stored != 5 {
		return "", "", fmt.Errorf("read.go: %d of the 5 splat attributes are stored in the returned point cloud", stored)
	}
	// what follows the loop: `if err == io.EOF { err = nil }` and the return of (cloud, err)
	after := []string{}
	seen := false
	for _, st := range rd.Body.List {
		if st == ast.Stmt(loop) {
			seen = true
			continue
		}
		if seen {
			if _, isRet := st.(*ast.ReturnStmt); isRet {
				r := st.(*ast.ReturnStmt)
				after = append(after, "return <cloud>, "+c15Src(t.fset, r.Results[len(r.Results)-1]))
			} else {
				after = append(after, c15Src(t.fset, st))
			}
		}
	}
	c15AfterLoop = after
	return "{ " + strings.Join(parts, ",\n    ") + " }", bufSize, nil
}

func c15SplatRecord(repo, out string, args []string) error {
	t := &c15Tr{fset: token.NewFileSet(), env: map[string]c15Val{}}
	f, err := parser.ParseFile(t.fset, filepath.Join(repo, "formats", "splat", "write.go"), nil, 0)
	if err != nil {
		return err
	}
	var wr *ast.FuncDecl
	shc0 := ""
	for _, d := range f.Decls {
		if fd, ok := d.(*ast.FuncDecl); ok && fd.Recv == nil && fd.Name.Name == "Write" {
			wr = fd
		}
		if gd, ok := d.(*ast.GenDecl); ok && gd.Tok == token.CONST {
			for _, sp := range gd.Specs {
				vs := sp.(*ast.ValueSpec)
				if vs.Names[0].Name == "SH_C0" {
					shc0 = vs.Values[0].(*ast.BasicLit).Value
				}
			}
		}
	}
	if wr == nil || shc0 == "" {
		return fmt.Errorf("write.go: func Write or const SH_C0 not found")
	}
	// the five accessors and the writer's byte order
	order := ""
	var loop *ast.ForStmt
	for _, st := range wr.Body.List {
		switch s := st.(type) {
		case *ast.AssignStmt:
			if len(s.Lhs) == 1 && len(s.Rhs) == 1 {
				name := s.Lhs[0].(*ast.Ident).Name
				src := c15Src(t.fset, s.Rhs[0])
				if want, ok := c15Source[name]; ok && src != want {
					return fmt.Errorf("%s: %s := %s, expected %s", t.at(s), name, src, want)
				}
				if name == "writer" {
					order = src
				}
			}
		case *ast.ForStmt:
			loop = s
		}
	}
	if loop == nil {
		return fmt.Errorf("write.go: record loop not found")
	}
	if c15Src(t.fset, loop.Init) != "i := 0" || c15Src(t.fset, loop.Cond) != "i < count" || c15Src(t.fset, loop.Post) != "i++" {
		return fmt.Errorf("%s: record loop is not `for i := 0; i < count; i++`", t.at(loop))
	}
	seq := []string{}
	for _, st := range loop.Body.List {
		switch s := st.(type) {
		case *ast.AssignStmt:
			if s.Tok != token.DEFINE || len(s.Lhs) != 1 {
				return fmt.Errorf("%s: unsupported assignment in the record loop", t.at(s))
			}
			v, err := t.val(s.Rhs[0])
			if err != nil {
				return err
			}
			t.env[s.Lhs[0].(*ast.Ident).Name] = v
		case *ast.ExprStmt:
			c, ok := s.X.(*ast.CallExpr)
			if !ok {
				return fmt.Errorf("%s: unsupported statement", t.at(s))
			}
			sel, ok := c.Fun.(*ast.SelectorExpr)
			if !ok || c15Src(t.fset, sel.X) != "writer" || len(c.Args) != 1 {
				return fmt.Errorf("%s: unsupported call in the record loop", t.at(s))
			}
			a, err := t.scalar(c.Args[0])
			if err != nil {
				return err
			}
			switch sel.Sel.Name {
			case "Float32":
				if !strings.HasPrefix(a, "(E.to32 ") {
					return fmt.Errorf("%s: writer.Float32 argument is not a float32(...) conversion", t.at(s))
				}
				seq = append(seq, ".inl "+a)
			case "Byte":
				if !strings.HasPrefix(a, "(byteOf ") {
					return fmt.Errorf("%s: writer.Byte argument is not a byte(...) conversion", t.at(s))
				}
				seq = append(seq, ".inr "+a)
			default:
				return fmt.Errorf("%s: unsupported writer method %s", t.at(s), sel.Sel.Name)
			}
		case *ast.IfStmt:
			if c15Src(t.fset, s.Cond) != "writer.Error() != nil" {
				return fmt.Errorf("%s: unsupported if in the record loop", t.at(s))
			}
		default:
			return fmt.Errorf("%s: unsupported statement %T in the record loop", t.at(st), st)
		}
	}
	var b strings.Builder
	b.WriteString("/-\n  GENERATED by /verif/go/facts (mode c15.splatrecord) from /repo/formats/splat/write.go.\n  Do not edit: regenerated by ./check C15 before every build.\n-/\nimport PolyVerif.Model.Splat\n\nnamespace PolyVerif.Gen.SplatRecord\nopen PolyVerif PolyVerif.Splat Scalar\n\nvariable {α : Type} [Scalar α]\n\n")
	fmt.Fprintf(&b, "/-- one iteration of the record loop of `splat.Write`: the argument of every `writer.Float32` (left) / `writer.Byte`\n    (right) call, in source order -/\ndef writeSeq (E : Env α) (s : Splat α) : List (UInt32 ⊕ UInt8) :=\n  [%s]\n\n", strings.Join(seq, ",\n   "))
	fmt.Fprintf(&b, "/-- `const SH_C0` as written -/\ndef shC0Literal : String := %q\n/-- how the `bitlib` writer is constructed (byte order) -/\ndef writerCtor : String := %q\n\n", shc0, order)
	rdDef, bufSize, err := c15ReadSplat(repo)
	if err != nil {
		return err
	}
	fmt.Fprintf(&b, "/-- one iteration of the record loop of `splat.Read` (formats/splat/read.go): the splat appended for the 32-byte record `r` -/\ndef readSplat (E : Env α) (r : Rec) : Splat α :=\n  %s\n\n/-- the read buffer -/\ndef readBuffer : String := %q\n\n", rdDef, bufSize)
	qs := []string{}
	for _, a := range c15AfterLoop {
		qs = append(qs, fmt.Sprintf("%q", a))
	}
	fmt.Fprintf(&b, "/-- the record loop of `splat.Read` is `for { _, err = io.ReadFull(in, splatBuffer); if err != nil { break }; … }` (checked by the\n    extractor); these are the statements after it -/\ndef readAfterLoop : List String := [%s]\n\n", strings.Join(qs, ", "))
	b.WriteString("end PolyVerif.Gen.SplatRecord\n")
	return os.WriteFile(out, []byte(b.String()), 0o644)
}
