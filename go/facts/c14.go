// Engine F, property C14: the control skeleton of formats/pts/reader.go `ReadPointCloud`, read from the current tree with
// go/parser + go/ast and written as Lean data (PolyVerif/Gen/PtsSkeleton.lean): the loop condition, every `if` of the per-line
// loop body with what its branch does (`return-error`, or the variables it stores / the fields of `contents` it parses), and the
// checks after the loop.  Props/C14Pts.lean pins them: they are the decisions the PTS reader model (PolyVerif/Model/Readers.lean)
// transcribes — in particular the completeness check `curLine < parsedCount` after the loop and the per-line field-count checks
// that make a truncated file an error rather than a shorter cloud.  A shape that is not the expected one is an error.
package main

import (
	"bytes"
	"fmt"
	"go/ast"
	"go/parser"
	"go/printer"
	"go/token"
	"os"
	"path/filepath"
	"sort"
	"strconv"
	"strings"
)

func init() { modes["c14.pts"] = c14Pts }

func c14Src(fset *token.FileSet, n ast.Node) string {
	var b bytes.Buffer
	printer.Fprint(&b, fset, n)
	return strings.Join(strings.Fields(b.String()), " ")
}

// what a branch does: "return-error" when it ends in `return nil, <err>`; otherwise the sorted set of assigned variables
// and of `contents[k]` indices it reads
func c14Action(fset *token.FileSet, b *ast.BlockStmt) string {
	if len(b.List) > 0 {
		if r, ok := b.List[len(b.List)-1].(*ast.ReturnStmt); ok && len(r.Results) == 2 && c14Src(fset, r.Results[0]) == "nil" {
			return "return-error"
		}
	}
	stores := map[string]bool{}
	reads := map[string]bool{}
	errChecked := true
	ast.Inspect(b, func(n ast.Node) bool {
		switch x := n.(type) {
		case *ast.AssignStmt:
			for _, l := range x.Lhs {
				s := c14Src(fset, l)
				if s != "err" && s != "_" {
					stores[s] = true
				}
			}
		case *ast.IndexExpr:
			if id, ok := x.X.(*ast.Ident); ok && id.Name == "contents" {
				reads[c14Src(fset, x)] = true
			}
		}
		return true
	})
	// every `err :=`/`err =` produced inside the branch must be followed by `if err != nil { return nil, err }`
	for i, st := range b.List {
		as, ok := st.(*ast.AssignStmt)
		if !ok {
			continue
		}
		hasErr := false
		for _, l := range as.Lhs {
			if c14Src(fset, l) == "err" {
				hasErr = true
			}
		}
		if !hasErr {
			continue
		}
		okNext := false
		if i+1 < len(b.List) {
			if is, ok := b.List[i+1].(*ast.IfStmt); ok && c14Src(fset, is.Cond) == "err != nil" && c14Action(fset, is.Body) == "return-error" {
				okNext = true
			}
		}
		if !okNext {
			errChecked = false
		}
	}
	keys := func(m map[string]bool) string {
		xs := []string{}
		for k := range m {
			xs = append(xs, k)
		}
		sort.Strings(xs)
		return strings.Join(xs, ",")
	}
	s := "store " + keys(stores) + " from " + keys(reads)
	if !errChecked {
		s += " (parse error NOT checked)"
	}
	return s
}

func c14Pts(repo, out string, args []string) error {
	fset := token.NewFileSet()
	f, err := parser.ParseFile(fset, filepath.Join(repo, "formats", "pts", "reader.go"), nil, 0)
	if err != nil {
		return err
	}
	var fn *ast.FuncDecl
	for _, d := range f.Decls {
		if fd, ok := d.(*ast.FuncDecl); ok && fd.Recv == nil && fd.Name.Name == "ReadPointCloud" {
			fn = fd
		}
	}
	if fn == nil {
		return fmt.Errorf("reader.go: func ReadPointCloud not found")
	}
	at := func(n ast.Node) string { return fmt.Sprintf("reader.go:%d", fset.Position(n.Pos()).Line) }
	var loop *ast.ForStmt
	loopAt := -1
	for i, st := range fn.Body.List {
		if fs, ok := st.(*ast.ForStmt); ok {
			if loop != nil {
				return fmt.Errorf("%s: more than one top-level loop in ReadPointCloud", at(fs))
			}
			loop, loopAt = fs, i
		}
	}
	if loop == nil || loop.Init != nil || loop.Post != nil || loop.Cond == nil {
		return fmt.Errorf("reader.go: the line loop `for <cond> { … }` not found")
	}
	var ifs func(is *ast.IfStmt, prefix string) []string
	ifs = func(is *ast.IfStmt, prefix string) []string {
		rows := []string{strconv.Quote(prefix + "if " + c14Src(fset, is.Cond) + " => " + c14Action(fset, is.Body))}
		switch e := is.Else.(type) {
		case *ast.IfStmt:
			rows = append(rows, ifs(e, "else ")...)
		case *ast.BlockStmt:
			rows = append(rows, strconv.Quote("else => "+c14Action(fset, e)))
		}
		return rows
	}
	body := []string{}
	for _, st := range loop.Body.List {
		switch x := st.(type) {
		case *ast.IfStmt:
			body = append(body, ifs(x, "")...)
		default:
			body = append(body, strconv.Quote(c14Src(fset, st)))
		}
	}
	before := []string{}
	for _, st := range fn.Body.List[:loopAt] {
		if is, ok := st.(*ast.IfStmt); ok {
			before = append(before, ifs(is, "")...)
		} else if as, ok := st.(*ast.AssignStmt); ok {
			before = append(before, strconv.Quote(c14Src(fset, as)))
		} else if es, ok := st.(*ast.ExprStmt); ok {
			before = append(before, strconv.Quote(c14Src(fset, es)))
		}
	}
	after := []string{}
	for _, st := range fn.Body.List[loopAt+1:] {
		if is, ok := st.(*ast.IfStmt); ok {
			act := c14Action(fset, is.Body)
			if act == "return-error" {
				after = append(after, ifs(is, "")...)
			}
		}
	}
	var b strings.Builder
	b.WriteString("/-\n  GENERATED by /verif/go/facts (mode c14.pts) from /repo/formats/pts/reader.go.\n  Do not edit: regenerated by ./check C14 before every build.\n-/\nnamespace PolyVerif.Gen.PtsSkeleton\n\n")
	fmt.Fprintf(&b, "/-- statements of `ReadPointCloud` before the line loop (assignments, calls, `if … => action`) -/\ndef beforeLoop : List String :=\n  [%s]\n\n", strings.Join(before, ",\n   "))
	fmt.Fprintf(&b, "/-- %s  condition of the line loop -/\ndef loopCond : String := %q\n\n", at(loop), c14Src(fset, loop.Cond))
	fmt.Fprintf(&b, "/-- the body of the line loop: plain statements, and every `if` with what its branch does -/\ndef lineSteps : List String :=\n  [%s]\n\n", strings.Join(body, ",\n   "))
	fmt.Fprintf(&b, "/-- the error checks after the loop -/\ndef afterLoop : List String :=\n  [%s]\n\n", strings.Join(after, ",\n   "))
	b.WriteString("end PolyVerif.Gen.PtsSkeleton\n")
	return os.WriteFile(out, []byte(b.String()), 0o644)
}
