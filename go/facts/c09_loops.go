// Engine F, property C09: the LOOP / FETCH skeleton of modeling/marching/canvas.go, read from the current tree with
// go/parser + go/ast and written as Lean data (PolyVerif/Gen/MarchLoops.lean).  Props/C09Loops.lean proves that the
// hand-written model of the cell / block loops (Model/March.lean `fetchCorner`, `bindex`; Props/C09.lean `localCells`,
// `globalOf`, `cellEmit`, `vertR`) is the interpretation of this data, so that an off-by-one in a loop bound, a swapped
// corner, `<` vs `<=`, a changed block size or a changed neighbour-block rule breaks a named theorem before any sample runs.
//
// Extracted (every shape that is not exactly the expected one is an ERROR - the extractor never guesses):
//
//	marchFloat1                  `for blockPosition := range section.positions { finalMesh = finalMesh.Append(d.marchFloat1BlockPosition(..)) }`
//	marchFloat1BlockPosition     the three nested cell loops (variable, start, comparison, bound, step), outermost first;
//	                             per loop `aBlockPosition := blockPosition.A; if a == <bound> { aBlockPosition += k; ... }`;
//	                             the early `continue`s of the z and y loops (which block they test);
//	                             the corner fetch: `newIndex := {X: x + cubeDataIndexIncrements[i].X, ..}`, the guards
//	                             `if pos.A != blockPosition.A { newIndex.A = k }`, `cubeDataIndexes[i] = d.index(newIndex.X, ..)`,
//	                             `cubeData[i] = d.float1Data[dataIndex]`, missing block => `allValid = false; break` + `continue`;
//	                             `cubeCorners[i] = cubeData[j][cubeDataIndexes[k]]`; `cubeCornersExistence[i] = cubeCorners[j] OP cutoff`;
//	                             `xf := float64(x)` ...; `offset := vector3.New(float64(blockPosition.X)*<const>, ..)`;
//	                             the three vertices of the triangle loop (tables used, row offsets, argument order of
//	                             interpolateVerts, `.Add(offset)`, order of the LookupOrAdd appends);
//	                             the statement skeleton of the innermost loop body (one label per statement)
//	index                        `return (z * S^2) + (y * S) + x` as (parameter, power of marchingSectionSize) terms
//
// Constants are given as (m, c) meaning m * marchingSectionSize + c; powers of marchingSectionSize are resolved through the
// const declarations of canvas.go.
package main

import (
	"bytes"
	"fmt"
	"go/ast"
	"go/parser"
	"go/printer"
	"go/token"
	"os"
	"path/filepath"
	"strconv"
	"strings"
)

func init() { modes["c09.loops"] = c09Loops }

type c09lCtx struct {
	fset *token.FileSet
	file *ast.File
}

func (c *c09lCtx) str(n ast.Node) string {
	var b bytes.Buffer
	printer.Fprint(&b, c.fset, n)
	return strings.Join(strings.Fields(b.String()), " ")
}

func (c *c09lCtx) at(n ast.Node) string {
	return fmt.Sprintf("canvas.go:%d", c.fset.Position(n.Pos()).Line)
}

func c09lUnparen(e ast.Expr) ast.Expr {
	for {
		p, ok := e.(*ast.ParenExpr)
		if !ok {
			return e
		}
		e = p.X
	}
}

// lin evaluates a constant expression to m*marchingSectionSize + c (only +, - and the identifier itself / int literals).
func (c *c09lCtx) lin(e ast.Expr) (int, int, error) {
	e = c09lUnparen(e)
	switch v := e.(type) {
	case *ast.BasicLit:
		n, err := c09Int(v)
		return 0, n, err
	case *ast.Ident:
		if v.Name == "marchingSectionSize" {
			return 1, 0, nil
		}
		return 0, 0, fmt.Errorf("%s: constant expression uses identifier %s (only marchingSectionSize is understood)", c.at(e), v.Name)
	case *ast.UnaryExpr:
		if v.Op == token.SUB {
			m, k, err := c.lin(v.X)
			return -m, -k, err
		}
	case *ast.BinaryExpr:
		m1, k1, err := c.lin(v.X)
		if err != nil {
			return 0, 0, err
		}
		m2, k2, err := c.lin(v.Y)
		if err != nil {
			return 0, 0, err
		}
		switch v.Op {
		case token.ADD:
			return m1 + m2, k1 + k2, nil
		case token.SUB:
			return m1 - m2, k1 - k2, nil
		}
	}
	return 0, 0, fmt.Errorf("%s: unsupported constant expression `%s`", c.at(e), c.str(e))
}

// pow evaluates a constant expression to the exponent p with value marchingSectionSize^p (products of named constants only).
func (c *c09lCtx) pow(e ast.Expr, depth int) (int, error) {
	if depth > 8 {
		return 0, fmt.Errorf("constant definitions nest too deep")
	}
	e = c09lUnparen(e)
	switch v := e.(type) {
	case *ast.Ident:
		if v.Name == "marchingSectionSize" {
			return 1, nil
		}
		def := c09FindVar(c.file, v.Name)
		if def == nil {
			return 0, fmt.Errorf("%s: identifier %s is not a package constant", c.at(e), v.Name)
		}
		return c.pow(def, depth+1)
	case *ast.BinaryExpr:
		if v.Op == token.MUL {
			a, err := c.pow(v.X, depth+1)
			if err != nil {
				return 0, err
			}
			b, err := c.pow(v.Y, depth+1)
			return a + b, err
		}
	}
	return 0, fmt.Errorf("%s: `%s` is not a power of marchingSectionSize", c.at(e), c.str(e))
}

func c09lAxisUpper(s string) int {
	if len(s) == 1 {
		return strings.Index("XYZ", s)
	}
	return -1
}

func c09lAxisLower(s string) int {
	if len(s) == 1 {
		return strings.Index("xyz", s)
	}
	return -1
}

func c09lCmp(op token.Token) (string, bool) {
	switch op {
	case token.LSS:
		return "<", true
	case token.LEQ:
		return "<=", true
	case token.GTR:
		return ">", true
	case token.GEQ:
		return ">=", true
	case token.EQL:
		return "==", true
	case token.NEQ:
		return "!=", true
	}
	return "", false
}

func c09lFunc(f *ast.File, name string) *ast.FuncDecl {
	for _, d := range f.Decls {
		if fd, ok := d.(*ast.FuncDecl); ok && fd.Name.Name == name {
			return fd
		}
	}
	return nil
}

type c09lLoop struct {
	axis         int
	start        int
	op           string
	boundM       int
	boundC       int
	step         int
	stepOp       string
	stepM, stepC int // the `a == <const>` of the block step
	stepInc      int
	early        []int // block selector tested by the early continue; nil when the loop has none
	rest         []ast.Stmt
}

// selector row of a VectorInt literal {X: .., Y: .., Z: ..}: 0 = blockPosition.A, 1 = aBlockPosition
func (c *c09lCtx) blockSel(e ast.Expr) ([]int, error) {
	cl, ok := e.(*ast.CompositeLit)
	if !ok || len(cl.Elts) != 3 || c.str(cl.Type) != "modeling.VectorInt" {
		return nil, fmt.Errorf("%s: expected modeling.VectorInt{X:, Y:, Z:}, found `%s`", c.at(e), c.str(e))
	}
	row := []int{-1, -1, -1}
	for _, el := range cl.Elts {
		kv, ok := el.(*ast.KeyValueExpr)
		if !ok {
			return nil, fmt.Errorf("%s: unkeyed field", c.at(el))
		}
		ax := c09lAxisUpper(c09Ident(kv.Key))
		if ax < 0 || row[ax] != -1 {
			return nil, fmt.Errorf("%s: field %s", c.at(el), c.str(kv.Key))
		}
		switch c09Ident(kv.Value) {
		case "blockPosition." + "XYZ"[ax:ax+1]:
			row[ax] = 0
		case "xyz"[ax:ax+1] + "BlockPosition":
			row[ax] = 1
		default:
			return nil, fmt.Errorf("%s: field %s = `%s`", c.at(el), c.str(kv.Key), c.str(kv.Value))
		}
	}
	return row, nil
}

// one cell loop: header, the block-step prologue, and what follows
func (c *c09lCtx) loop(fs *ast.ForStmt) (*c09lLoop, error) {
	l := &c09lLoop{}
	init, ok := fs.Init.(*ast.AssignStmt)
	if !ok || init.Tok != token.DEFINE || len(init.Lhs) != 1 || len(init.Rhs) != 1 {
		return nil, fmt.Errorf("%s: loop init is not `v := k`", c.at(fs))
	}
	v := c09Ident(init.Lhs[0])
	l.axis = c09lAxisLower(v)
	if l.axis < 0 {
		return nil, fmt.Errorf("%s: loop variable %s is not x, y or z", c.at(fs), v)
	}
	var err error
	if l.start, err = c09Int(init.Rhs[0]); err != nil {
		return nil, fmt.Errorf("%s: loop start: %v", c.at(fs), err)
	}
	cond, ok := fs.Cond.(*ast.BinaryExpr)
	if !ok || c09Ident(cond.X) != v {
		return nil, fmt.Errorf("%s: loop condition is not `%s OP bound`", c.at(fs), v)
	}
	if l.op, ok = c09lCmp(cond.Op); !ok {
		return nil, fmt.Errorf("%s: loop comparison %s", c.at(fs), cond.Op)
	}
	if l.boundM, l.boundC, err = c.lin(cond.Y); err != nil {
		return nil, err
	}
	switch p := fs.Post.(type) {
	case *ast.IncDecStmt:
		if c09Ident(p.X) != v {
			return nil, fmt.Errorf("%s: loop post statement changes %s", c.at(fs), c.str(p.X))
		}
		if p.Tok == token.INC {
			l.step = 1
		} else {
			l.step = -1
		}
	case *ast.AssignStmt:
		if len(p.Lhs) != 1 || c09Ident(p.Lhs[0]) != v || (p.Tok != token.ADD_ASSIGN && p.Tok != token.SUB_ASSIGN) {
			return nil, fmt.Errorf("%s: loop post statement `%s`", c.at(fs), c.str(p))
		}
		k, err := c09Int(p.Rhs[0])
		if err != nil {
			return nil, err
		}
		if p.Tok == token.SUB_ASSIGN {
			k = -k
		}
		l.step = k
	default:
		return nil, fmt.Errorf("%s: loop post statement missing", c.at(fs))
	}
	body := fs.Body.List
	if len(body) < 3 {
		return nil, fmt.Errorf("%s: body of the %s loop has %d statements", c.at(fs), v, len(body))
	}
	bp := v + "BlockPosition"
	// aBlockPosition := blockPosition.A
	d, ok := body[0].(*ast.AssignStmt)
	if !ok || d.Tok != token.DEFINE || len(d.Lhs) != 1 || c09Ident(d.Lhs[0]) != bp || c09Ident(d.Rhs[0]) != "blockPosition."+"XYZ"[l.axis:l.axis+1] {
		return nil, fmt.Errorf("%s: first statement of the %s loop is not `%s := blockPosition.%s`", c.at(body[0]), v, bp, "XYZ"[l.axis:l.axis+1])
	}
	// if a == <const> { aBlockPosition += k ; [next := ..; if _, ok := section.positions[next]; !ok { continue }] }
	is, ok := body[1].(*ast.IfStmt)
	if !ok || is.Init != nil || is.Else != nil {
		return nil, fmt.Errorf("%s: second statement of the %s loop is not a plain if", c.at(body[1]), v)
	}
	ic, ok := is.Cond.(*ast.BinaryExpr)
	if !ok || c09Ident(ic.X) != v {
		return nil, fmt.Errorf("%s: block-step condition `%s`", c.at(is), c.str(is.Cond))
	}
	if l.stepOp, ok = c09lCmp(ic.Op); !ok {
		return nil, fmt.Errorf("%s: block-step comparison", c.at(is))
	}
	if l.stepM, l.stepC, err = c.lin(ic.Y); err != nil {
		return nil, err
	}
	if len(is.Body.List) != 1 && len(is.Body.List) != 3 {
		return nil, fmt.Errorf("%s: block-step body has %d statements", c.at(is), len(is.Body.List))
	}
	inc, ok := is.Body.List[0].(*ast.AssignStmt)
	if !ok || len(inc.Lhs) != 1 || c09Ident(inc.Lhs[0]) != bp || (inc.Tok != token.ADD_ASSIGN && inc.Tok != token.SUB_ASSIGN) {
		return nil, fmt.Errorf("%s: expected `%s += k`, found `%s`", c.at(is.Body.List[0]), bp, c.str(is.Body.List[0]))
	}
	if l.stepInc, err = c09Int(inc.Rhs[0]); err != nil {
		return nil, err
	}
	if inc.Tok == token.SUB_ASSIGN {
		l.stepInc = -l.stepInc
	}
	if len(is.Body.List) == 3 {
		nd, ok := is.Body.List[1].(*ast.AssignStmt)
		if !ok || nd.Tok != token.DEFINE || len(nd.Lhs) != 1 || len(nd.Rhs) != 1 {
			return nil, fmt.Errorf("%s: expected `next := modeling.VectorInt{..}`", c.at(is.Body.List[1]))
		}
		next := c09Ident(nd.Lhs[0])
		if l.early, err = c.blockSel(nd.Rhs[0]); err != nil {
			return nil, err
		}
		want := "if _, ok := section.positions[" + next + "]; !ok { continue }"
		if got := c.str(is.Body.List[2]); got != want {
			return nil, fmt.Errorf("%s: early continue: expected `%s`, found `%s`", c.at(is.Body.List[2]), want, got)
		}
	}
	l.rest = body[2:]
	return l, nil
}

// flat prints a statement list as a skeleton: loops / ifs contribute a header line and their (indented) bodies, every other
// statement is printed whole (whitespace-normalised).  Used for the BLOCK-level functions, whose text is pinned in Lean.
func (c *c09lCtx) flat(list []ast.Stmt, ind string, out *[]string) {
	for _, s := range list {
		switch v := s.(type) {
		case *ast.ForStmt:
			h := ind + "for "
			if v.Init != nil {
				h += c.str(v.Init)
			}
			h += "; "
			if v.Cond != nil {
				h += c.str(v.Cond)
			}
			h += "; "
			if v.Post != nil {
				h += c.str(v.Post)
			}
			*out = append(*out, h)
			c.flat(v.Body.List, ind+". ", out)
		case *ast.RangeStmt:
			k, val := "_", "_"
			if v.Key != nil {
				k = c.str(v.Key)
			}
			if v.Value != nil {
				val = c.str(v.Value)
			}
			*out = append(*out, ind+"for "+k+", "+val+" := range "+c.str(v.X))
			c.flat(v.Body.List, ind+". ", out)
		case *ast.IfStmt:
			h := ind + "if "
			if v.Init != nil {
				h += c.str(v.Init) + "; "
			}
			*out = append(*out, h+c.str(v.Cond))
			c.flat(v.Body.List, ind+". ", out)
			if v.Else != nil {
				*out = append(*out, ind+"else")
				if eb, ok := v.Else.(*ast.BlockStmt); ok {
					c.flat(eb.List, ind+". ", out)
				} else {
					c.flat([]ast.Stmt{v.Else}, ind+". ", out)
				}
			}
		case *ast.SwitchStmt:
			*out = append(*out, ind+"switch "+c.str(v.Tag))
			for _, cc := range v.Body.List {
				cl := cc.(*ast.CaseClause)
				lbl := "default"
				if len(cl.List) > 0 {
					ps := []string{}
					for _, e := range cl.List {
						ps = append(ps, c.str(e))
					}
					lbl = "case " + strings.Join(ps, ", ")
				}
				*out = append(*out, ind+lbl)
				c.flat(cl.Body, ind+". ", out)
			}
		case *ast.BlockStmt:
			c.flat(v.List, ind, out)
		default:
			*out = append(*out, ind+c.str(s))
		}
	}
}

func (c *c09lCtx) flatFunc(name string) ([]string, error) {
	fd := c09lFunc(c.file, name)
	if fd == nil || fd.Body == nil {
		return nil, fmt.Errorf("canvas.go: func %s not found", name)
	}
	out := []string{}
	c.flat(fd.Body.List, "", &out)
	return out, nil
}

func c09lTuple(xs ...string) string { return "(" + strings.Join(xs, ", ") + ")" }
func c09lI(n int) string             { return strconv.Itoa(n) }
func c09lQ(s string) string          { return strconv.Quote(s) }
func c09lList(xs []string) string    { return "[" + strings.Join(xs, ", ") + "]" }

func c09Loops(repo, out string, args []string) error {
	fset := token.NewFileSet()
	cf, err := parser.ParseFile(fset, filepath.Join(repo, "modeling", "marching", "canvas.go"), nil, 0)
	if err != nil {
		return err
	}
	c := &c09lCtx{fset: fset, file: cf}

	secE := c09FindVar(cf, "marchingSectionSize")
	if secE == nil {
		return fmt.Errorf("canvas.go: const marchingSectionSize not found")
	}
	sectionSize, err := c09Int(secE)
	if err != nil {
		return fmt.Errorf("marchingSectionSize: %v", err)
	}

	// ---- index ------------------------------------------------------------------------------------------------
	idx := c09lFunc(cf, "index")
	if idx == nil || idx.Recv == nil {
		return fmt.Errorf("canvas.go: method index not found")
	}
	params := []string{}
	for _, f := range idx.Type.Params.List {
		for _, n := range f.Names {
			params = append(params, n.Name)
		}
	}
	if len(params) != 3 || len(idx.Body.List) != 1 {
		return fmt.Errorf("%s: index has %d parameters / %d statements", c.at(idx), len(params), len(idx.Body.List))
	}
	ret, ok := idx.Body.List[0].(*ast.ReturnStmt)
	if !ok || len(ret.Results) != 1 {
		return fmt.Errorf("%s: index body is not one return", c.at(idx))
	}
	paramNo := func(name string) int {
		for i, p := range params {
			if p == name {
				return i
			}
		}
		return -1
	}
	indexTerms := []string{}
	var sum func(e ast.Expr) error
	sum = func(e ast.Expr) error {
		e = c09lUnparen(e)
		if be, ok := e.(*ast.BinaryExpr); ok && be.Op == token.ADD {
			if err := sum(be.X); err != nil {
				return err
			}
			return sum(be.Y)
		}
		if id, ok := e.(*ast.Ident); ok {
			p := paramNo(id.Name)
			if p < 0 {
				return fmt.Errorf("%s: index term `%s` is not a parameter", c.at(e), id.Name)
			}
			indexTerms = append(indexTerms, c09lTuple(c09lI(p), "0"))
			return nil
		}
		if be, ok := e.(*ast.BinaryExpr); ok && be.Op == token.MUL {
			p := paramNo(c09Ident(c09lUnparen(be.X)))
			k := be.Y
			if p < 0 {
				p = paramNo(c09Ident(c09lUnparen(be.Y)))
				k = be.X
			}
			if p < 0 {
				return fmt.Errorf("%s: index term `%s` has no parameter factor", c.at(e), c.str(e))
			}
			pw, err := c.pow(k, 0)
			if err != nil {
				return err
			}
			indexTerms = append(indexTerms, c09lTuple(c09lI(p), c09lI(pw)))
			return nil
		}
		return fmt.Errorf("%s: index term `%s`", c.at(e), c.str(e))
	}
	if err := sum(ret.Results[0]); err != nil {
		return err
	}

	// ---- marchFloat1 ---------------------------------------------------------------------------------------------
	mf := c09lFunc(cf, "marchFloat1")
	if mf == nil {
		return fmt.Errorf("canvas.go: func marchFloat1 not found")
	}
	if len(mf.Body.List) != 3 {
		return fmt.Errorf("%s: marchFloat1 has %d statements, expected 3", c.at(mf), len(mf.Body.List))
	}
	blockLoop := []string{}
	for _, s := range mf.Body.List {
		blockLoop = append(blockLoop, c09lQ(c.str(s)))
	}

	// ---- marchFloat1BlockPosition ----------------------------------------------------------------------------------
	fn := c09lFunc(cf, "marchFloat1BlockPosition")
	if fn == nil {
		return fmt.Errorf("canvas.go: func marchFloat1BlockPosition not found")
	}
	var outer *ast.ForStmt
	var offsetE ast.Expr
	for _, s := range fn.Body.List {
		switch v := s.(type) {
		case *ast.ForStmt:
			if outer != nil {
				return fmt.Errorf("%s: second top-level loop in marchFloat1BlockPosition", c.at(s))
			}
			outer = v
		case *ast.RangeStmt:
			return fmt.Errorf("%s: unexpected top-level range loop in marchFloat1BlockPosition", c.at(s))
		case *ast.AssignStmt:
			if len(v.Lhs) == 1 && c09Ident(v.Lhs[0]) == "offset" {
				if offsetE != nil {
					return fmt.Errorf("%s: offset assigned twice", c.at(s))
				}
				offsetE = v.Rhs[0]
			}
		}
	}
	if outer == nil || offsetE == nil {
		return fmt.Errorf("marchFloat1BlockPosition: cell loop / offset not found")
	}
	// offset := vector3.New(float64(blockPosition.X)*K, ..)
	oc, ok := offsetE.(*ast.CallExpr)
	if !ok || c09Ident(oc.Fun) != "vector3.New" || len(oc.Args) != 3 {
		return fmt.Errorf("%s: offset is not vector3.New(_,_,_)", c.at(offsetE))
	}
	blockOffset := []string{}
	for _, a := range oc.Args {
		be, ok := c09lUnparen(a).(*ast.BinaryExpr)
		if !ok || be.Op != token.MUL {
			return fmt.Errorf("%s: offset component `%s`", c.at(a), c.str(a))
		}
		call, ok := be.X.(*ast.CallExpr)
		if !ok || c09Ident(call.Fun) != "float64" || len(call.Args) != 1 || !strings.HasPrefix(c09Ident(call.Args[0]), "blockPosition.") {
			return fmt.Errorf("%s: offset component `%s`", c.at(a), c.str(a))
		}
		ax := c09lAxisUpper(strings.TrimPrefix(c09Ident(call.Args[0]), "blockPosition."))
		if ax < 0 {
			return fmt.Errorf("%s: offset component `%s`", c.at(a), c.str(a))
		}
		m, k, err := c.lin(be.Y)
		if err != nil {
			return err
		}
		blockOffset = append(blockOffset, c09lTuple(c09lI(ax), c09lTuple(c09lI(m), c09lI(k))))
	}

	loops := []*c09lLoop{}
	cur := outer
	for depth := 0; depth < 3; depth++ {
		l, err := c.loop(cur)
		if err != nil {
			return err
		}
		loops = append(loops, l)
		if depth < 2 {
			if len(l.rest) != 1 {
				return fmt.Errorf("%s: loop %d has %d statements after the block step, expected the next loop only", c.at(cur), depth, len(l.rest))
			}
			nx, ok := l.rest[0].(*ast.ForStmt)
			if !ok {
				return fmt.Errorf("%s: expected the next cell loop", c.at(l.rest[0]))
			}
			cur = nx
		}
	}
	inner := loops[2].rest

	cellLoops, blockSteps, early := []string{}, []string{}, []string{}
	for _, l := range loops {
		cellLoops = append(cellLoops, c09lTuple(c09lI(l.axis), c09lI(l.start), c09lQ(l.op), c09lTuple(c09lI(l.boundM), c09lI(l.boundC)), c09lI(l.step)))
		blockSteps = append(blockSteps, c09lTuple(c09lI(l.axis), c09lQ(l.stepOp), c09lTuple(c09lI(l.stepM), c09lI(l.stepC)), c09lI(l.stepInc)))
		if l.early != nil {
			early = append(early, c09lTuple(c09lI(l.axis), leanIntList(l.early)))
		}
	}

	// innermost body: statement labels + the pieces
	shape := []string{}
	newIndexInit, newIndexGuards, indexArgs := []string{}, []string{}, []string{}
	cornerReads, insideCmp, floatVars, triUses := []string{}, []string{}, []string{}, []string{}
	fetchLoopSeen, validSeen, triSeen := false, false, false
	fetchFrame := []string{}
	for si, s := range inner {
		switch v := s.(type) {
		case *ast.AssignStmt:
			if len(v.Lhs) != 1 || len(v.Rhs) != 1 {
				return fmt.Errorf("%s: multi-assignment `%s` in the cell body", c.at(s), c.str(s))
			}
			lhs := c.str(v.Lhs[0])
			shape = append(shape, lhs)
			if ix, ok := v.Lhs[0].(*ast.IndexExpr); ok {
				i, err := c09Int(ix.Index)
				if err != nil {
					return fmt.Errorf("%s: %v", c.at(s), err)
				}
				switch c09Ident(ix.X) {
				case "cubeCorners":
					// cubeCorners[i] = cubeData[j][cubeDataIndexes[k]]
					o, ok1 := v.Rhs[0].(*ast.IndexExpr)
					var in1, in2 *ast.IndexExpr
					ok2, ok3 := false, false
					if ok1 {
						in1, ok2 = o.X.(*ast.IndexExpr)
						in2, ok3 = o.Index.(*ast.IndexExpr)
					}
					if !ok1 || !ok2 || !ok3 || c09Ident(in1.X) != "cubeData" || c09Ident(in2.X) != "cubeDataIndexes" || v.Tok != token.ASSIGN {
						return fmt.Errorf("%s: expected cubeCorners[i] = cubeData[j][cubeDataIndexes[k]], found `%s`", c.at(s), c.str(s))
					}
					j, err1 := c09Int(in1.Index)
					k, err2 := c09Int(in2.Index)
					if err1 != nil || err2 != nil {
						return fmt.Errorf("%s: non-constant corner index", c.at(s))
					}
					cornerReads = append(cornerReads, c09lTuple(c09lI(i), c09lI(j), c09lI(k)))
				case "cubeCornersExistence":
					be, ok1 := v.Rhs[0].(*ast.BinaryExpr)
					var rx *ast.IndexExpr
					ok2 := false
					if ok1 {
						rx, ok2 = be.X.(*ast.IndexExpr)
					}
					if !ok1 || !ok2 || c09Ident(rx.X) != "cubeCorners" || c09Ident(be.Y) != "cutoff" || v.Tok != token.ASSIGN {
						return fmt.Errorf("%s: expected cubeCornersExistence[i] = cubeCorners[j] OP cutoff, found `%s`", c.at(s), c.str(s))
					}
					op, okc := c09lCmp(be.Op)
					j, err := c09Int(rx.Index)
					if !okc || err != nil {
						return fmt.Errorf("%s: inside test `%s`", c.at(s), c.str(s))
					}
					insideCmp = append(insideCmp, c09lTuple(c09lI(i), c09lI(j), c09lQ(op)))
				case "cubeData", "cubeDataIndexes":
					// initial values, overwritten by the fetch loop whenever the cell is not skipped; pinned through the skeleton only
				default:
					return fmt.Errorf("%s: unexpected indexed assignment `%s`", c.at(s), c.str(s))
				}
				continue
			}
			switch lhs {
			case "xf", "yf", "zf":
				call, ok := v.Rhs[0].(*ast.CallExpr)
				if !ok || c09Ident(call.Fun) != "float64" || len(call.Args) != 1 || c09lAxisLower(c09Ident(call.Args[0])) < 0 || v.Tok != token.DEFINE {
					return fmt.Errorf("%s: expected %s := float64(<loop variable>)", c.at(s), lhs)
				}
				floatVars = append(floatVars, c09lTuple(c09lI(c09lAxisLower(lhs[:1])), c09lI(c09lAxisLower(c09Ident(call.Args[0])))))
			case "cubeDataBlockPositions", "cubeCornerPositions":
				// literals extracted by mode c09.tables
			case "allValid":
				if c.str(s) != "allValid := true" {
					return fmt.Errorf("%s: `%s`", c.at(s), c.str(s))
				}
			case "lookupIndex":
				if c.str(s) != "lookupIndex := 0" {
					return fmt.Errorf("%s: `%s`", c.at(s), c.str(s))
				}
			default:
				return fmt.Errorf("%s: unexpected assignment `%s` in the cell body", c.at(s), c.str(s))
			}
		case *ast.RangeStmt:
			// for i, pos := range cubeDataBlockPositions { if dataIndex, ok := section.positions[pos]; ok { .. } else { allValid = false; break } }
			shape = append(shape, "range "+c.str(v.X))
			if fetchLoopSeen || c.str(v.X) != "cubeDataBlockPositions" || c09Ident(v.Key) != "i" || c09Ident(v.Value) != "pos" || len(v.Body.List) != 1 {
				return fmt.Errorf("%s: unexpected range loop in the cell body", c.at(s))
			}
			fetchLoopSeen = true
			is, ok := v.Body.List[0].(*ast.IfStmt)
			if !ok || is.Init == nil || c.str(is.Init) != "dataIndex, ok := section.positions[pos]" || c.str(is.Cond) != "ok" {
				return fmt.Errorf("%s: fetch loop body is not `if dataIndex, ok := section.positions[pos]; ok`", c.at(v))
			}
			eb, ok := is.Else.(*ast.BlockStmt)
			if !ok || len(eb.List) != 2 || c.str(eb.List[0]) != "allValid = false" || c.str(eb.List[1]) != "break" {
				return fmt.Errorf("%s: fetch loop else-branch is not `allValid = false; break`", c.at(is))
			}
			fetchFrame = append(fetchFrame, c09lQ("if dataIndex, ok := section.positions[pos]; ok"), c09lQ("else { allValid = false; break }"))
			// next statement must be `if !allValid { continue }`
			if si+1 >= len(inner) || c.str(inner[si+1]) != "if !allValid { continue }" {
				return fmt.Errorf("%s: fetch loop is not followed by `if !allValid { continue }`", c.at(s))
			}
			guardAxes := 0
			for bi, bs := range is.Body.List {
				switch w := bs.(type) {
				case *ast.AssignStmt:
					l0 := c.str(w.Lhs[0])
					switch {
					case l0 == "cubeData[i]":
						if c.str(bs) != "cubeData[i] = d.float1Data[dataIndex]" {
							return fmt.Errorf("%s: `%s`", c.at(bs), c.str(bs))
						}
						fetchFrame = append(fetchFrame, c09lQ(c.str(bs)))
					case l0 == "newIndex" && w.Tok == token.DEFINE:
						cl, ok := w.Rhs[0].(*ast.CompositeLit)
						if !ok || len(cl.Elts) != 3 || len(newIndexInit) != 0 {
							return fmt.Errorf("%s: newIndex literal", c.at(bs))
						}
						for _, el := range cl.Elts {
							kv, ok := el.(*ast.KeyValueExpr)
							if !ok {
								return fmt.Errorf("%s: newIndex: unkeyed field", c.at(el))
							}
							f := c09lAxisUpper(c09Ident(kv.Key))
							be, ok := kv.Value.(*ast.BinaryExpr)
							if f < 0 || !ok || be.Op != token.ADD {
								return fmt.Errorf("%s: newIndex field `%s`", c.at(el), c.str(el))
							}
							lv := c09lAxisLower(c09Ident(be.X))
							sel, ok := be.Y.(*ast.SelectorExpr)
							if lv < 0 || !ok || c.str(sel.X) != "cubeDataIndexIncrements[i]" || c09lAxisUpper(sel.Sel.Name) < 0 {
								return fmt.Errorf("%s: newIndex field `%s` is not <loop var> + cubeDataIndexIncrements[i].<F>", c.at(el), c.str(el))
							}
							newIndexInit = append(newIndexInit, c09lTuple(c09lI(f), c09lI(lv), c09lI(c09lAxisUpper(sel.Sel.Name))))
						}
					case l0 == "cubeDataIndexes[i]":
						call, ok := w.Rhs[0].(*ast.CallExpr)
						if !ok || c09Ident(call.Fun) != "d.index" || len(call.Args) != 3 || w.Tok != token.ASSIGN || bi != len(is.Body.List)-1 {
							return fmt.Errorf("%s: expected cubeDataIndexes[i] = d.index(_,_,_) as the last statement, found `%s`", c.at(bs), c.str(bs))
						}
						for _, a := range call.Args {
							id := c09Ident(a)
							if !strings.HasPrefix(id, "newIndex.") || c09lAxisUpper(strings.TrimPrefix(id, "newIndex.")) < 0 {
								return fmt.Errorf("%s: index argument `%s`", c.at(a), c.str(a))
							}
							indexArgs = append(indexArgs, c09lI(c09lAxisUpper(strings.TrimPrefix(id, "newIndex."))))
						}
					default:
						return fmt.Errorf("%s: unexpected statement `%s` in the fetch loop", c.at(bs), c.str(bs))
					}
				case *ast.IfStmt:
					// if pos.A != blockPosition.B { newIndex.C = k }
					be, ok := w.Cond.(*ast.BinaryExpr)
					if !ok || w.Init != nil || w.Else != nil || len(w.Body.List) != 1 {
						return fmt.Errorf("%s: guard `%s`", c.at(bs), c.str(bs))
					}
					op, okc := c09lCmp(be.Op)
					pa := c09lAxisUpper(strings.TrimPrefix(c09Ident(be.X), "pos."))
					ba := c09lAxisUpper(strings.TrimPrefix(c09Ident(be.Y), "blockPosition."))
					as, oka := w.Body.List[0].(*ast.AssignStmt)
					if !okc || pa < 0 || ba < 0 || !oka || as.Tok != token.ASSIGN || !strings.HasPrefix(c09Ident(be.X), "pos.") || !strings.HasPrefix(c09Ident(be.Y), "blockPosition.") {
						return fmt.Errorf("%s: guard `%s`", c.at(bs), c.str(bs))
					}
					na := c09lAxisUpper(strings.TrimPrefix(c09Ident(as.Lhs[0]), "newIndex."))
					k, err := c09Int(as.Rhs[0])
					if na < 0 || err != nil || !strings.HasPrefix(c09Ident(as.Lhs[0]), "newIndex.") {
						return fmt.Errorf("%s: guard body `%s`", c.at(bs), c.str(as))
					}
					newIndexGuards = append(newIndexGuards, c09lTuple(c09lI(pa), c09lQ(op), c09lI(ba), c09lI(na), c09lI(k)))
					guardAxes++
				default:
					return fmt.Errorf("%s: unexpected statement `%s` in the fetch loop", c.at(bs), c.str(bs))
				}
			}
			if len(newIndexInit) != 3 || len(indexArgs) != 3 {
				return fmt.Errorf("%s: fetch loop: newIndex / d.index not found", c.at(s))
			}
		case *ast.IfStmt:
			lbl := "if " + c.str(v.Cond)
			shape = append(shape, lbl)
			switch {
			case c.str(s) == "if !allValid { continue }":
				if validSeen || !fetchLoopSeen {
					return fmt.Errorf("%s: misplaced `if !allValid`", c.at(s))
				}
				validSeen = true
			case strings.HasPrefix(lbl, "if cubeCornersExistence["):
				// `lookupIndex |= m`, extracted by mode c09.tables
				if len(v.Body.List) != 1 || v.Else != nil || v.Init != nil || !strings.HasPrefix(c.str(v.Body.List[0]), "lookupIndex |= ") {
					return fmt.Errorf("%s: `%s`", c.at(s), c.str(s))
				}
			default:
				return fmt.Errorf("%s: unexpected if statement `%s` in the cell body", c.at(s), lbl)
			}
		case *ast.ForStmt:
			shape = append(shape, "for "+c.str(v.Init)+"; "+c.str(v.Cond)+"; "+c.str(v.Post))
			if triSeen || si != len(inner)-1 {
				return fmt.Errorf("%s: the triangle loop must be the single, last loop of the cell body", c.at(s))
			}
			triSeen = true
			// a_j := TA[triangulation[lookupIndex][i+j]], b_j := TB[..]; v_j := interpolateVerts(P[a], P[b], C[a], C[b], cutoff).Add(offset); append(tris, LookupOrAdd(v1), ..)
			type def struct {
				table string
				row   int
			}
			defs := map[string]def{}
			verts := map[string]string{}
			order := []string{}
			for _, ts := range v.Body.List {
				as, ok := ts.(*ast.AssignStmt)
				if !ok || len(as.Lhs) != 1 || len(as.Rhs) != 1 {
					return fmt.Errorf("%s: triangle loop statement `%s`", c.at(ts), c.str(ts))
				}
				name := c.str(as.Lhs[0])
				switch rhs := as.Rhs[0].(type) {
				case *ast.IndexExpr:
					// TA[triangulation[lookupIndex][i+j]]
					tab := c09Ident(rhs.X)
					in, ok := rhs.Index.(*ast.IndexExpr)
					if !ok || c.str(in.X) != "triangulation[lookupIndex]" || as.Tok != token.DEFINE {
						return fmt.Errorf("%s: `%s`", c.at(ts), c.str(ts))
					}
					row := -1
					if c09Ident(in.Index) == "i" {
						row = 0
					} else if be, ok := in.Index.(*ast.BinaryExpr); ok && be.Op == token.ADD && c09Ident(be.X) == "i" {
						row, err = c09Int(be.Y)
						if err != nil {
							return err
						}
					}
					if row < 0 {
						return fmt.Errorf("%s: row index `%s`", c.at(ts), c.str(in.Index))
					}
					defs[name] = def{tab, row}
				case *ast.CallExpr:
					if name == "marchingWorkingData.tris" {
						if c09Ident(rhs.Fun) != "append" || len(rhs.Args) != 4 || c.str(rhs.Args[0]) != "marchingWorkingData.tris" {
							return fmt.Errorf("%s: `%s`", c.at(ts), c.str(ts))
						}
						for _, a := range rhs.Args[1:] {
							ca, ok := a.(*ast.CallExpr)
							if !ok || c09Ident(ca.Fun) != "LookupOrAdd" || len(ca.Args) != 2 || c.str(ca.Args[0]) != "marchingWorkingData" {
								return fmt.Errorf("%s: append argument `%s`", c.at(a), c.str(a))
							}
							order = append(order, c.str(ca.Args[1]))
						}
						continue
					}
					// interpolateVerts(P[a], P[b], C[a], C[b], cutoff).Add(offset)
					sel, ok := rhs.Fun.(*ast.SelectorExpr)
					if !ok || sel.Sel.Name != "Add" || len(rhs.Args) != 1 || c.str(rhs.Args[0]) != "offset" || as.Tok != token.DEFINE {
						return fmt.Errorf("%s: vertex `%s`", c.at(ts), c.str(ts))
					}
					iv, ok := sel.X.(*ast.CallExpr)
					if !ok || c09Ident(iv.Fun) != "interpolateVerts" || len(iv.Args) != 5 || c.str(iv.Args[4]) != "cutoff" {
						return fmt.Errorf("%s: vertex `%s`", c.at(ts), c.str(ts))
					}
					parts := []string{}
					rowSeen := -1
					tabs := []string{}
					for ai, a := range iv.Args[:4] {
						ix, ok := a.(*ast.IndexExpr)
						want := "cubeCornerPositions"
						if ai >= 2 {
							want = "cubeCorners"
						}
						if !ok || c09Ident(ix.X) != want {
							return fmt.Errorf("%s: interpolateVerts argument %d `%s`", c.at(a), ai, c.str(a))
						}
						d, ok := defs[c09Ident(ix.Index)]
						if !ok {
							return fmt.Errorf("%s: interpolateVerts argument %d uses unknown index `%s`", c.at(a), ai, c.str(ix.Index))
						}
						if rowSeen >= 0 && d.row != rowSeen {
							return fmt.Errorf("%s: vertex mixes table rows %d and %d", c.at(ts), rowSeen, d.row)
						}
						rowSeen = d.row
						tabs = append(tabs, d.table)
						parts = append(parts, c09lQ(d.table))
					}
					verts[name] = c09lTuple(c09lI(rowSeen), c09lList(parts))
				default:
					return fmt.Errorf("%s: triangle loop statement `%s`", c.at(ts), c.str(ts))
				}
			}
			if len(order) != 3 {
				return fmt.Errorf("%s: triangle loop appends %d vertices", c.at(s), len(order))
			}
			for _, o := range order {
				vv, ok := verts[o]
				if !ok {
					return fmt.Errorf("%s: appended vertex %s is not an interpolateVerts(..).Add(offset) of this loop", c.at(s), o)
				}
				triUses = append(triUses, vv)
			}
		default:
			return fmt.Errorf("%s: unexpected statement `%s` in the cell body", c.at(s), c.str(s))
		}
	}
	if !fetchLoopSeen || !validSeen || !triSeen {
		return fmt.Errorf("marchFloat1BlockPosition: fetch loop / validity test / triangle loop not found (%v %v %v)", fetchLoopSeen, validSeen, triSeen)
	}

	// ---- emit --------------------------------------------------------------------------------------------------------
	var b strings.Builder
	b.WriteString("/- GENERATED by /verif/go/facts (mode c09.loops) from modeling/marching/canvas.go. DO NOT EDIT.\n")
	b.WriteString("   Constants are pairs (m, c) = m * marchingSectionSize + c; axes are 0, 1, 2 = x/X, y/Y, z/Z. -/\n")
	b.WriteString("namespace PolyVerif.Gen.MarchLoops\n\n")
	fmt.Fprintf(&b, "def sectionSize : Int := %d\n\n", sectionSize)
	fmt.Fprintf(&b, "/-- `marchFloat1`: its statements -/\ndef blockLoop : List String := %s\n\n", c09lList(blockLoop))
	fmt.Fprintf(&b, "/-- the nested cell loops of `marchFloat1BlockPosition`, outermost first: (axis of the variable, start, comparison, bound, step) -/\n")
	fmt.Fprintf(&b, "def cellLoops : List (Nat × Int × String × (Int × Int) × Int) := %s\n\n", c09lList(cellLoops))
	fmt.Fprintf(&b, "/-- per loop: `aBlockPosition := blockPosition.A; if a OP const { aBlockPosition += k .. }` as (axis, OP, const, k) -/\n")
	fmt.Fprintf(&b, "def blockSteps : List (Nat × String × (Int × Int) × Int) := %s\n\n", c09lList(blockSteps))
	fmt.Fprintf(&b, "/-- inside that `if`: `next := VectorInt{..}; if _, ok := section.positions[next]; !ok { continue }` as (axis of the loop, block selector: 1 = aBlockPosition, 0 = blockPosition.A) -/\n")
	fmt.Fprintf(&b, "def earlyContinues : List (Nat × List Int) := %s\n\n", c09lList(early))
	fmt.Fprintf(&b, "/-- frame of the fetch loop `for i, pos := range cubeDataBlockPositions` (followed by `if !allValid { continue }`) -/\n")
	fmt.Fprintf(&b, "def fetchFrame : List String := %s\n\n", c09lList(fetchFrame))
	fmt.Fprintf(&b, "/-- `newIndex := {F: v + cubeDataIndexIncrements[i].G}` as (F, v, G) -/\n")
	fmt.Fprintf(&b, "def newIndexInit : List (Nat × Nat × Nat) := %s\n\n", c09lList(newIndexInit))
	fmt.Fprintf(&b, "/-- `if pos.P OP blockPosition.B { newIndex.F = k }` as (P, OP, B, F, k), in source order -/\n")
	fmt.Fprintf(&b, "def newIndexGuards : List (Nat × String × Nat × Nat × Int) := %s\n\n", c09lList(newIndexGuards))
	fmt.Fprintf(&b, "/-- `cubeDataIndexes[i] = d.index(newIndex.A0, newIndex.A1, newIndex.A2)` -/\n")
	fmt.Fprintf(&b, "def indexArgs : List Nat := %s\n\n", c09lList(indexArgs))
	fmt.Fprintf(&b, "/-- `index(p0, p1, p2)` = sum of p_i * marchingSectionSize^e as (i, e), in source order -/\n")
	fmt.Fprintf(&b, "def indexTerms : List (Nat × Nat) := %s\n\n", c09lList(indexTerms))
	fmt.Fprintf(&b, "/-- `cubeCorners[i] = cubeData[j][cubeDataIndexes[k]]` as (i, j, k) -/\n")
	fmt.Fprintf(&b, "def cornerReads : List (Nat × Nat × Nat) := %s\n\n", c09lList(cornerReads))
	fmt.Fprintf(&b, "/-- `cubeCornersExistence[i] = cubeCorners[j] OP cutoff` as (i, j, OP) -/\n")
	fmt.Fprintf(&b, "def insideCmp : List (Nat × Nat × String) := %s\n\n", c09lList(insideCmp))
	fmt.Fprintf(&b, "/-- `xf := float64(x)` .. as (axis of the float variable, axis of the loop variable) -/\n")
	fmt.Fprintf(&b, "def floatVars : List (Nat × Nat) := %s\n\n", c09lList(floatVars))
	fmt.Fprintf(&b, "/-- `offset := vector3.New(float64(blockPosition.A) * const, ..)` as (A, const) per component -/\n")
	fmt.Fprintf(&b, "def blockOffset : List (Nat × (Int × Int)) := %s\n\n", c09lList(blockOffset))
	fmt.Fprintf(&b, "/-- the three appended vertices in append order: (j, [T1, T2, T3, T4]) for\n    `interpolateVerts(cubeCornerPositions[T1[e]], cubeCornerPositions[T2[e]], cubeCorners[T3[e]], cubeCorners[T4[e]], cutoff).Add(offset)`, `e = triangulation[lookupIndex][i+j]` -/\n")
	fmt.Fprintf(&b, "def triVertexUses : List (Nat × List String) := %s\n\n", c09lList(triUses))
	qs := make([]string, len(shape))
	for i, s := range shape {
		qs[i] = c09lQ(s)
	}
	fmt.Fprintf(&b, "/-- one label per statement of the innermost loop body after the block step -/\ndef cellBodyShape : List String := [\n  %s]\n\n", strings.Join(qs, ",\n  "))
	// ---- block level: the functions whose text the model of the canvas filling / block enumeration / weld transcribes ----
	for _, fnName := range []string{"fieldBounds", "chunkSectionsInRange", "canvasPosToChunkPos", "AddField", "addFloat1Range", "chunkIndex_atomic", "MarchOnAttribute", "March"} {
		lines, err := c.flatFunc(fnName)
		if err != nil {
			return err
		}
		qs := make([]string, len(lines))
		for i, l := range lines {
			qs[i] = c09lQ(l)
		}
		fmt.Fprintf(&b, "/-- `%s`: statement skeleton (loops / ifs as header + indented body, other statements printed whole) -/\ndef src_%s : List String := [\n  %s]\n\n", fnName, fnName, strings.Join(qs, ",\n  "))
	}
	// top-level statements of marchFloat1BlockPosition before / after the cell loops (an early return would show here)
	pro := []string{}
	for _, st := range fn.Body.List {
		if _, isFor := st.(*ast.ForStmt); isFor {
			pro = append(pro, c09lQ("<cell loops>"))
			continue
		}
		if as, ok := st.(*ast.AssignStmt); ok && len(as.Lhs) == 1 {
			pro = append(pro, c09lQ(c.str(as.Lhs[0])+" "+as.Tok.String()+" .."))
			continue
		}
		if _, ok := st.(*ast.ReturnStmt); ok {
			pro = append(pro, c09lQ("return .."))
			continue
		}
		return fmt.Errorf("%s: unexpected top-level statement `%s` in marchFloat1BlockPosition", c.at(st), c.str(st))
	}
	fmt.Fprintf(&b, "/-- top-level statements of `marchFloat1BlockPosition` (labels) -/\ndef blockPrologue : List String := %s\n\n", c09lList(pro))
	b.WriteString("end PolyVerif.Gen.MarchLoops\n")
	return os.WriteFile(out, []byte(b.String()), 0o644)
}
