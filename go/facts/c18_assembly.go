// Engine F, property C18: the ASSEMBLY of the composite primitives (which sub-meshes are appended, and how each one is
// rotated / translated before the Append), read from the current tree with go/parser + go/ast (no type checker) and
// written as data of PolyVerif/Model/LoopIR.lean (`Placement`, `CapAppend`, `QuadFace`, `FE`, `VE`) into
// PolyVerif/Gen/PrimAssembly.lean.  Companion of c18_loops.go (same package; its scopes, bindings and statement
// translation are reused, its output is not changed).
//
//	cylinder.go  func (c Cylinder) ToMesh       cylinderCaps                           (A)
//	cube.go      func (c Cube) UnweldedQuads    cubeLocals, cubeFaces  (+ func rotate) (B)
//	quad.go      func (q Quad) ToMesh           quadLocals, quadPositions, quadNormals (C)
//
// Every construct that is not one of the recognised shapes is an error naming file:line and the construct — the
// extractor never guesses.
//
//	chain    the method calls after `<sub-mesh>.ToMesh()`: at most one `.Transform(…)` followed by at most one
//	         `.Translate(<VE>)`; after `rotate(…)` only the `.Translate`; any other method / order: refused
//	Transform  one or two arguments, each exactly `meshops.RotateAttribute3DTransformer{Attribute: modeling.PositionAttribute
//	         | modeling.NormalAttribute, Amount: quaternion.FromTheta(<FE theta>, <VE axis>)}` (keyed, both keys, no
//	         others; either order of the two attributes — they act on different attributes); a duplicate attribute, another
//	         attribute, another transformer, `&…`, `...`: refused.  Position -> rotPos, Normal -> rotNrm
//	rotate   `rotate(m, quaternion.FromTheta(theta, axis))` = rotPos = rotNrm = (theta, axis), PROVIDED cube.go declares
//	         exactly one package-level `func rotate(m modeling.Mesh, q quaternion.Quaternion) modeling.Mesh` whose body
//	         is the single statement `return m.Transform(<Position transformer with Amount: q>, <Normal transformer with
//	         Amount: q>)` (checked structurally, parameter names free); anything else: refused
//	(A)      Cylinder.ToMesh is walked with the SAME code as c18.loops (c18lCtx.assign / loop / skip, configuration
//	         c18lCfgs "cylinder"), so that parameters and float locals get the same numbers; the function-level
//	         `if !c.<Flag> { mesh = mesh.Append(<circle>.ToMesh()<chain>) }` statements are translated where they stand
//	         (scopes live).  Cross-checks: c18lAppends (the c18.loops recognition, all its conditions) must yield the same
//	         (flag, circle) list; the fpars / fvars header of c18.loops' own extraction must be identical; a float local
//	         mentioned by a cap must be assigned exactly once, at function level (the consumer reads it from the final
//	         float environment of the loop program); vector locals are not accepted in a cap
//	(B) (C)  a function-level walk: `x := <FE>` declares float local k (source order; its FE is entry k of the locals
//	         list); `x = …` / any write to a float local, a face variable or an inlined vector: refused; `v := <VE>` binds
//	         v to the vector expression, which is INLINED where v is used (`up := vector3.Up[float64]()`);
//	         (B) `<name> := Quad{UVs: …, Width: <FE>, Depth: <FE>}.ToMesh()<chain>` / `<name> := rotate(Quad{…}.ToMesh(),
//	         quaternion.FromTheta(<FE>, <VE>))<chain>` declares a face (keyed literal, Width and Depth exactly once — FEs over
//	         the receiver fields and, if the source says so, the float locals —, UVs ignored); the last statement `return f1.Append(f2)…Append(fn)` fixes the order: every declared face exactly
//	         once, nothing else; (C) the last statement `return modeling.NewTriangleMesh(…)<SetFloatNData calls>` with
//	         exactly one `.SetFloat3Data(map[…]…{…})`: the elements of its `modeling.PositionAttribute` /
//	         `modeling.NormalAttribute` entries (both required, once) are VEs; other `modeling.<Name>` keys are ignored.
//	         Every other statement is skipped, provided (c18lCtx.checkSkipped) it writes no tracked name, contains no panic
//	         / escaping return / branch, and does not MENTION a face variable
//	fpars    the configured float receiver fields in configuration order; the struct declaration must give them the
//	         type float64
//	FE       as c18_loops.go (integer-valued constants -> `FE.nat (lit n)`, other plain decimals -> `FE.lit`, `math.Pi` ->
//	         `FE.pi`, float64(<E>), float locals / parameters, + - * /, unary minus, math.Sin / math.Cos, parentheses
//	         transparent) EXCEPT that the constant-folding guard of c18_loops.go is NOT applied: an operation on two
//	         constant operands is translated structurally (`math.Pi*(3./2.)` -> `FE.mul FE.pi (FE.div (FE.nat (lit 3))
//	         (FE.nat (lit 2)))`).  The Go compiler folds such an expression in exact arithmetic and rounds once, whereas the
//	         structural term rounds after every operation: the two may differ in the last bits, and the CONSUMER of this
//	         file compares with a tolerance.  Only a division of two INTEGER constants (`1/2`, evaluated in the integers by
//	         Go) stays refused
//	VE       `vector3.New(a, b, c)` / `vector3.New[float64](…)` (as c18_loops.go), `v.Scale(f)`, `v.Add(w)`,
//	         `v.Normalized()`, an inlined vector name, and the library constants, written `vector3.<Name>[float64]()`:
//	         Zero -> `VE.zero`; Up (0,1,0), Down (0,-1,0), Left (-1,0,0), Right (1,0,0), Forward (0,0,1), Backwards (0,0,-1)
//	         -> `VE.new …` with `FE.nat (lit 0|1)` / `FE.neg (FE.nat (lit 1))` (github.com/EliCDavis/vector v1.8.0 vector3.go)
//	imports  math, vector3, quaternion, modeling, meshops must be the unrenamed imports of the expected paths, not
//	         shadowed by a local name
package main

import (
	"fmt"
	"go/ast"
	"go/parser"
	"go/token"
	"os"
	"path/filepath"
	"strconv"
	"strings"
)

func init() { modes["c18.assembly"] = c18Assembly }

const (
	c18aQuatPath    = "github.com/EliCDavis/polyform/math/quaternion"
	c18aModPath     = "github.com/EliCDavis/polyform/modeling"
	c18aMeshopsPath = "github.com/EliCDavis/polyform/modeling/meshops"
)

// extraction context: the c18.loops context plus the inlined vectors and the face variables
type c18aCtx struct {
	*c18lCtx
	inline map[*c18lBind]*c18lVE // function-level `v := <VE>`: the expression v stands for
	faces  map[*c18lBind]bool    // (B) the face variables
}

type c18aPlacement struct {
	rotPosT, rotNrmT *c18lFE
	rotPosA, rotNrmA *c18lVE
	translate        *c18lVE
}

func (p *c18aPlacement) lean() string {
	fs := []string{}
	if p.rotPosT != nil {
		fs = append(fs, fmt.Sprintf("rotPos := some (%s, %s)", p.rotPosT.bare(), p.rotPosA.bare()))
	}
	if p.rotNrmT != nil {
		fs = append(fs, fmt.Sprintf("rotNrm := some (%s, %s)", p.rotNrmT.bare(), p.rotNrmA.bare()))
	}
	if p.translate != nil {
		fs = append(fs, "translate := some "+p.translate.arg())
	}
	if len(fs) == 0 {
		return "{ }"
	}
	return "{ " + strings.Join(fs, ", ") + " }"
}

// `[` one element per line `]`
func c18aList(elems []string) string {
	if len(elems) == 0 {
		return "[]"
	}
	return "[\n  " + strings.Join(elems, ",\n  ") + "]"
}

// the set-up of c18lExtract: imports, receiver, parameters (same order, same numbering)
func c18aNewCtx(fset *token.FileSet, f *ast.File, cfg c18lCfg) (*c18aCtx, *ast.FuncDecl, error) {
	fd := c18Method(f, cfg.recv, cfg.fn)
	if fd == nil || fd.Body == nil {
		return nil, nil, fmt.Errorf("%s: func %s.%s not found", cfg.file, cfg.recv, cfg.fn)
	}
	n := 0
	for _, d := range f.Decls {
		if x, ok := d.(*ast.FuncDecl); ok && x.Recv != nil && len(x.Recv.List) == 1 && x.Name.Name == cfg.fn && c18Sel(x.Recv.List[0].Type) == cfg.recv {
			n++
		}
	}
	if n != 1 {
		return nil, nil, fmt.Errorf("%s: expected exactly one func %s.%s (found %d)", cfg.file, cfg.recv, cfg.fn, n)
	}
	c := &c18lCtx{fset: fset, cfg: cfg, sliceByNam: map[string]*c18lBind{}, imports: map[string]string{}}
	for _, im := range f.Imports {
		path, err := strconv.Unquote(im.Path.Value)
		if err != nil {
			continue
		}
		name := path[strings.LastIndex(path, "/")+1:]
		if im.Name != nil {
			name = im.Name.Name
		}
		c.imports[name] = path
	}
	c.push()
	if len(fd.Recv.List[0].Names) == 1 {
		c.recvName = fd.Recv.List[0].Names[0].Name
		c.declare(c.recvName, &c18lBind{kind: "recv"})
	}
	if c.recvName == "" || c.recvName == "_" {
		return nil, nil, c.errf(fd, "method without a named receiver")
	}
	if _, isPtr := fd.Recv.List[0].Type.(*ast.StarExpr); isPtr {
		return nil, nil, c.errf(fd, "pointer receiver")
	}
	for _, fld := range cfg.intFields {
		c.params = append(c.params, fmt.Sprintf("%s.%s=%d", c.recvName, fld, c.nextVar))
		c.nextVar++
	}
	for _, fld := range cfg.fltFields {
		c.fpars = append(c.fpars, fmt.Sprintf("%s.%s=%d", c.recvName, fld, c.nextFPar))
		c.nextFPar++
	}
	for _, p := range fd.Type.Params.List {
		for _, nm := range p.Names {
			if _, isId := p.Type.(*ast.Ident); isId && c18Sel(p.Type) == "float64" && nm.Name != "_" {
				b := &c18lBind{kind: "fpar", id: c.nextFPar, body: -1}
				c.nextFPar++
				c.fpars = append(c.fpars, fmt.Sprintf("%s=%d", nm.Name, b.id))
				c.declare(nm.Name, b)
				continue
			}
			if _, isId := p.Type.(*ast.Ident); isId && c18Sel(p.Type) == "int" && nm.Name != "_" {
				b := &c18lBind{kind: "int", id: c.nextVar, body: -1}
				c.nextVar++
				c.params = append(c.params, fmt.Sprintf("%s=%d", nm.Name, b.id))
				c.declare(nm.Name, b)
				continue
			}
			c.declare(nm.Name, &c18lBind{kind: "other"})
		}
	}
	c.vars = nil
	if err := c18aFloatFields(c, f, cfg); err != nil {
		return nil, nil, err
	}
	return &c18aCtx{c18lCtx: c, inline: map[*c18lBind]*c18lVE{}, faces: map[*c18lBind]bool{}}, fd, nil
}

// the configured float receiver fields are declared `float64` in `type <recv> struct`
func c18aFloatFields(c *c18lCtx, f *ast.File, cfg c18lCfg) error {
	var st *ast.StructType
	n := 0
	for _, d := range f.Decls {
		gd, ok := d.(*ast.GenDecl)
		if !ok || gd.Tok != token.TYPE {
			continue
		}
		for _, sp := range gd.Specs {
			if ts, ok := sp.(*ast.TypeSpec); ok && ts.Name.Name == cfg.recv {
				n++
				if s, ok := ts.Type.(*ast.StructType); ok && ts.TypeParams == nil && ts.Assign == token.NoPos {
					st = s
				}
			}
		}
	}
	if n != 1 || st == nil {
		return fmt.Errorf("%s: expected exactly one `type %s struct` (found %d declarations)", cfg.file, cfg.recv, n)
	}
	for _, want := range cfg.fltFields {
		ok := false
		for _, fl := range st.Fields.List {
			for _, nm := range fl.Names {
				if nm.Name == want {
					id, isId := fl.Type.(*ast.Ident)
					ok = isId && id.Name == "float64"
				}
			}
		}
		if !ok {
			return c.errf(st, "field %s.%s is not declared with type float64", cfg.recv, want)
		}
	}
	return nil
}

// ---- expressions (copies of c18lCtx.floatExpr / vecExpr; see FE / VE in the header for the differences) ---------

func (c *c18aCtx) floatExpr(e ast.Expr) (*c18lFE, *c18lWhy) {
	switch v := e.(type) {
	case *ast.ParenExpr:
		return c.floatExpr(v.X)
	case *ast.CallExpr:
		if sel, ok := v.Fun.(*ast.SelectorExpr); ok && v.Ellipsis == token.NoPos {
			if x, ok := sel.X.(*ast.Ident); ok && x.Name == "math" && c.pkgIs("math", c18lMathPath) {
				op := map[string]string{"Sin": "sin", "Cos": "cos"}[sel.Sel.Name]
				if op == "" || len(v.Args) != 1 {
					return nil, c18lNo(v, "math.%s(…) is not modelled (only math.Sin / math.Cos)", sel.Sel.Name)
				}
				a, why := c.floatExpr(v.Args[0])
				if why != nil {
					return nil, why
				}
				return &c18lFE{op: op, a: a}, nil
			}
		}
	case *ast.UnaryExpr:
		if v.Op != token.SUB {
			return nil, c18lNo(v, "unary `%s` in a float expression", v.Op)
		}
		a, why := c.floatExpr(v.X)
		if why != nil {
			return nil, why
		}
		return &c18lFE{op: "neg", a: a}, nil
	case *ast.BinaryExpr:
		op := map[token.Token]string{token.ADD: "add", token.SUB: "sub", token.MUL: "mul", token.QUO: "div"}[v.Op]
		if op == "" {
			return nil, c18lNo(v, "binary `%s` in a float expression", v.Op)
		}
		if op == "div" && c.constKind(v.X) == 1 && c.constKind(v.Y) == 1 {
			return nil, c18lNo(v, "division of two integer constants in a float expression (Go evaluates it in the integers)")
		}
		a, why := c.floatExpr(v.X)
		if why != nil {
			return nil, why
		}
		b, why := c.floatExpr(v.Y)
		if why != nil {
			return nil, why
		}
		return &c18lFE{op: op, a: a, b: b}, nil
	}
	// literals, identifiers, selectors, float64(…): no sub-expression that is a float expression — the c18.loops rule
	return c.c18lCtx.floatExpr(e)
}

var c18aVecConst = map[string][3]int{
	"Up": {0, 1, 0}, "Down": {0, -1, 0}, "Left": {-1, 0, 0}, "Right": {1, 0, 0}, "Forward": {0, 0, 1}, "Backwards": {0, 0, -1},
}

func c18aSigned(n int) *c18lFE {
	if n < 0 {
		return &c18lFE{op: "neg", a: &c18lFE{op: "nat", e: &c18lE{op: "lit", n: -n}}}
	}
	return &c18lFE{op: "nat", e: &c18lE{op: "lit", n: n}}
}

func (c *c18aCtx) vecExpr(e ast.Expr) (*c18lVE, *c18lWhy) {
	switch v := e.(type) {
	case *ast.ParenExpr:
		return c.vecExpr(v.X)
	case *ast.Ident:
		b := c.lookup(v.Name)
		if ve := c.inline[b]; b != nil && ve != nil {
			return ve, nil
		}
		if b != nil && (b.kind == "vec" || b.kind == "vref") {
			return nil, c18lNo(v, "vector local `%s` of the loop program (not accepted in the assembly data)", v.Name)
		}
		return nil, c.noIdent(v, "vector bound at function level by `v := <vector expression>`")
	case *ast.CallExpr:
		if v.Ellipsis != token.NoPos {
			return nil, c18lNo(v, "call with `...`")
		}
		fun := v.Fun
		explicit := false
		if ix, ok := fun.(*ast.IndexExpr); ok {
			if id, isId := ix.Index.(*ast.Ident); !isId || id.Name != "float64" || c.lookup("float64") != nil {
				return nil, c18lNo(v, "generic instantiation other than [float64]")
			}
			explicit = true
			fun = ix.X
		}
		sel, ok := fun.(*ast.SelectorExpr)
		if !ok {
			return nil, c18lNo(v, "call that is not vector3.New / vector3.<Constant>[float64]() / .Scale / .Add / .Normalized")
		}
		if x, ok := sel.X.(*ast.Ident); ok && x.Name == "vector3" && c.pkgIs("vector3", c18lVec3Path) {
			if k, isConst := c18aVecConst[sel.Sel.Name]; isConst || sel.Sel.Name == "Zero" {
				if !explicit || len(v.Args) != 0 {
					return nil, c18lNo(v, "vector3.%s that is not `vector3.%s[float64]()`", sel.Sel.Name, sel.Sel.Name)
				}
				if !isConst {
					return &c18lVE{op: "zero"}, nil
				}
				return &c18lVE{op: "new", x: c18aSigned(k[0]), y: c18aSigned(k[1]), z: c18aSigned(k[2])}, nil
			}
			if sel.Sel.Name != "New" {
				return nil, c18lNo(v, "vector3.%s is not modelled", sel.Sel.Name)
			}
			if len(v.Args) != 3 {
				return nil, c18lNo(v, "vector3.New without three arguments")
			}
			if !explicit && c.constKind(v.Args[0]) == 1 && c.constKind(v.Args[1]) == 1 && c.constKind(v.Args[2]) == 1 {
				return nil, c18lNo(v, "vector3.New of three integer constants (instantiates int, not float64)")
			}
			var fs [3]*c18lFE
			for i, a := range v.Args {
				f, why := c.floatExpr(a)
				if why != nil {
					return nil, why
				}
				fs[i] = f
			}
			return &c18lVE{op: "new", x: fs[0], y: fs[1], z: fs[2]}, nil
		}
		if explicit {
			return nil, c18lNo(v, "instantiated call that is not vector3.New / vector3.<Constant>")
		}
		want := map[string]int{"Scale": 1, "Add": 1, "Normalized": 0}
		if n, known := want[sel.Sel.Name]; !known || len(v.Args) != n {
			return nil, c18lNo(v, "method call .%s(…) is not modelled (only .Scale(f) / .Add(w) / .Normalized())", sel.Sel.Name)
		}
		recv, why := c.vecExpr(sel.X)
		if why != nil {
			return nil, why
		}
		switch sel.Sel.Name {
		case "Scale":
			f, why := c.floatExpr(v.Args[0])
			if why != nil {
				return nil, why
			}
			return &c18lVE{op: "scale", v: recv, x: f}, nil
		case "Add":
			w, why := c.vecExpr(v.Args[0])
			if why != nil {
				return nil, why
			}
			return &c18lVE{op: "add", v: recv, w: w}, nil
		}
		return &c18lVE{op: "normalized", v: recv}, nil
	}
	return nil, c18lNo(e, "not a vector expression")
}

func (c *c18aCtx) whyErr(why *c18lWhy, what string) error {
	return c.errf(why.n, "untranslatable %s: %s", what, why.msg)
}

// ---- chains ---------------------------------------------------------------------------------------------------------

type c18aCall struct {
	name string
	call *ast.CallExpr
}

// e = root.M1(…).M2(…)…: the root (the first expression for which isRoot holds) and the method calls M1, M2, … in order
func (c *c18aCtx) peel(e ast.Expr, isRoot func(ast.Expr) bool) (ast.Expr, []c18aCall, error) {
	chain := []c18aCall{}
	for !isRoot(e) {
		call, ok := e.(*ast.CallExpr)
		if !ok {
			return nil, nil, c.errf(e, "not a chain of method calls on a recognised sub-mesh")
		}
		sel, ok := call.Fun.(*ast.SelectorExpr)
		if !ok {
			return nil, nil, c.errf(e, "not a chain of method calls on a recognised sub-mesh")
		}
		chain = append([]c18aCall{{sel.Sel.Name, call}}, chain...)
		e = sel.X
	}
	return e, chain, nil
}

// `pkg.Name` with pkg the unshadowed import of path
func (c *c18aCtx) isPkgSel(e ast.Expr, pkg, path, name string) bool {
	sel, ok := e.(*ast.SelectorExpr)
	if !ok || sel.Sel.Name != name {
		return false
	}
	x, ok := sel.X.(*ast.Ident)
	return ok && x.Name == pkg && c.pkgIs(pkg, path)
}

type c18aRot struct {
	theta *c18lFE
	axis  *c18lVE
}

// `quaternion.FromTheta(<FE>, <VE>)`
func (c *c18aCtx) fromTheta(e ast.Expr) (*c18aRot, error) {
	call, ok := e.(*ast.CallExpr)
	if !ok || !c.isPkgSel(call.Fun, "quaternion", c18aQuatPath, "FromTheta") || len(call.Args) != 2 || call.Ellipsis != token.NoPos {
		return nil, c.errf(e, "rotation amount that is not `quaternion.FromTheta(<theta>, <axis>)`")
	}
	th, why := c.floatExpr(call.Args[0])
	if why != nil {
		return nil, c.whyErr(why, "rotation angle")
	}
	ax, why := c.vecExpr(call.Args[1])
	if why != nil {
		return nil, c.whyErr(why, "rotation axis")
	}
	return &c18aRot{th, ax}, nil
}

// the arguments of `.Transform(…)`: see Transform in the header; amount translates the `Amount:` value
func (c *c18aCtx) transformers(call *ast.CallExpr, amount func(ast.Expr) (*c18aRot, error)) (pos, nrm *c18aRot, err error) {
	if len(call.Args) < 1 || len(call.Args) > 2 || call.Ellipsis != token.NoPos {
		return nil, nil, c.errf(call, ".Transform with %d arguments (expected one or two RotateAttribute3DTransformer literals)", len(call.Args))
	}
	for _, a := range call.Args {
		cl, ok := a.(*ast.CompositeLit)
		if !ok || !c.isPkgSel(cl.Type, "meshops", c18aMeshopsPath, "RotateAttribute3DTransformer") {
			return nil, nil, c.errf(a, "transformer that is not a `meshops.RotateAttribute3DTransformer{Attribute: …, Amount: …}` literal")
		}
		var attr, amt ast.Expr
		for _, el := range cl.Elts {
			kv, ok := el.(*ast.KeyValueExpr)
			if !ok {
				return nil, nil, c.errf(a, "unkeyed RotateAttribute3DTransformer literal")
			}
			switch k := c18Sel(kv.Key); {
			case k == "Attribute" && attr == nil:
				attr = kv.Value
			case k == "Amount" && amt == nil:
				amt = kv.Value
			default:
				return nil, nil, c.errf(kv, "unexpected / repeated field in a RotateAttribute3DTransformer literal")
			}
		}
		if attr == nil || amt == nil {
			return nil, nil, c.errf(a, "RotateAttribute3DTransformer literal without both `Attribute:` and `Amount:`")
		}
		isPos := c.isPkgSel(attr, "modeling", c18aModPath, "PositionAttribute")
		isNrm := c.isPkgSel(attr, "modeling", c18aModPath, "NormalAttribute")
		if !isPos && !isNrm {
			return nil, nil, c.errf(attr, "rotated attribute that is neither modeling.PositionAttribute nor modeling.NormalAttribute")
		}
		if (isPos && pos != nil) || (isNrm && nrm != nil) {
			return nil, nil, c.errf(a, "the same attribute is rotated twice in one .Transform")
		}
		r, err := amount(amt)
		if err != nil {
			return nil, nil, err
		}
		if isPos {
			pos = r
		} else {
			nrm = r
		}
	}
	return pos, nrm, nil
}

// the chain after the sub-mesh: [Transform] [Translate]; pre = the rotation already applied by `rotate(…)` (then no Transform)
func (c *c18aCtx) placement(chain []c18aCall, pre *c18aRot) (*c18aPlacement, error) {
	p := &c18aPlacement{}
	if pre != nil {
		p.rotPosT, p.rotPosA, p.rotNrmT, p.rotNrmA = pre.theta, pre.axis, pre.theta, pre.axis
	}
	for i, m := range chain {
		switch {
		case m.name == "Transform" && i == 0 && pre == nil:
			pos, nrm, err := c.transformers(m.call, c.fromTheta)
			if err != nil {
				return nil, err
			}
			if pos != nil {
				p.rotPosT, p.rotPosA = pos.theta, pos.axis
			}
			if nrm != nil {
				p.rotNrmT, p.rotNrmA = nrm.theta, nrm.axis
			}
		case m.name == "Translate" && i == len(chain)-1 && (i == 0 || (i == 1 && chain[0].name == "Transform")):
			if len(m.call.Args) != 1 || m.call.Ellipsis != token.NoPos {
				return nil, c.errf(m.call, ".Translate without exactly one argument")
			}
			ve, why := c.vecExpr(m.call.Args[0])
			if why != nil {
				return nil, c.whyErr(why, "translation")
			}
			p.translate = ve
		default:
			names := ""
			for _, x := range chain {
				names += "." + x.name
			}
			return nil, c.errf(chain[len(chain)-1].call, "method .%s at position %d of the chain `%s` (allowed: at most one .Transform, not after rotate(…), then at most one .Translate)", m.name, i+1, names)
		}
	}
	return p, nil
}

// cube.go: the package-level helper `rotate` rotates positions and normals by its quaternion argument (see the header)
func c18aCheckRotate(fset *token.FileSet, f *ast.File) error {
	fd, n := c18lFunc(f, "rotate")
	if n != 1 || fd.Body == nil {
		return fmt.Errorf("cube.go: expected exactly one package-level func rotate (found %d)", n)
	}
	lc := &c18lCtx{fset: fset, sliceByNam: map[string]*c18lBind{}, imports: map[string]string{}}
	for _, im := range f.Imports {
		if path, err := strconv.Unquote(im.Path.Value); err == nil && im.Name == nil {
			lc.imports[path[strings.LastIndex(path, "/")+1:]] = path
		}
	}
	lc.push()
	c := &c18aCtx{c18lCtx: lc}
	bad := func(n ast.Node, what string) error {
		return c.errf(n, "func rotate is not `func rotate(m modeling.Mesh, q quaternion.Quaternion) modeling.Mesh { return m.Transform(<Position transformer, Amount: q>, <Normal transformer, Amount: q>) }`: %s", what)
	}
	names := []string{}
	types := []ast.Expr{}
	for _, p := range fd.Type.Params.List {
		for _, nm := range p.Names {
			names = append(names, nm.Name)
			types = append(types, p.Type)
		}
	}
	if fd.Type.TypeParams != nil || len(names) != 2 || names[0] == "_" || names[1] == "_" || names[0] == names[1] ||
		!c.isPkgSel(types[0], "modeling", c18aModPath, "Mesh") || !c.isPkgSel(types[1], "quaternion", c18aQuatPath, "Quaternion") {
		return bad(fd.Type, "signature")
	}
	if fd.Type.Results == nil || len(fd.Type.Results.List) != 1 || len(fd.Type.Results.List[0].Names) != 0 ||
		!c.isPkgSel(fd.Type.Results.List[0].Type, "modeling", c18aModPath, "Mesh") {
		return bad(fd.Type, "result")
	}
	m, q := names[0], names[1]
	c.declare(m, &c18lBind{kind: "other"})
	c.declare(q, &c18lBind{kind: "other"})
	if len(fd.Body.List) != 1 {
		return bad(fd.Body, "the body is not a single return statement")
	}
	ret, ok := fd.Body.List[0].(*ast.ReturnStmt)
	if !ok || len(ret.Results) != 1 {
		return bad(fd.Body, "the body is not a single return statement")
	}
	call, ok := ret.Results[0].(*ast.CallExpr)
	if !ok || c18Sel(call.Fun) != m+".Transform" {
		return bad(ret, "the result is not "+m+".Transform(…)")
	}
	if _, isSel := call.Fun.(*ast.SelectorExpr); !isSel {
		return bad(ret, "the result is not "+m+".Transform(…)")
	}
	pos, nrm, err := c.transformers(call, func(e ast.Expr) (*c18aRot, error) {
		if id, ok := e.(*ast.Ident); !ok || id.Name != q {
			return nil, bad(e, "Amount is not the parameter "+q)
		}
		return &c18aRot{}, nil
	})
	if err != nil {
		return err
	}
	if pos == nil || nrm == nil {
		return bad(call, "it does not rotate both modeling.PositionAttribute and modeling.NormalAttribute")
	}
	return nil
}

// ---- (A) Cylinder.ToMesh ------------------------------------------------------------------------------------------------

type c18aCap struct {
	flag, circle string
	place        *c18aPlacement
}

// `if !c.<Flag> { mesh = mesh.Append(<arg>) }` (the recognition of c18lAppends: an if whose body is the single
// assignment to the mesh variable is a cap, or an error); ok = false: not an assignment to the mesh variable
func (c *c18aCtx) capStmt(is *ast.IfStmt, mesh string) (flag string, arg ast.Expr, ok bool, err error) {
	if len(is.Body.List) != 1 {
		return "", nil, false, nil
	}
	as, isAs := is.Body.List[0].(*ast.AssignStmt)
	if !isAs || len(as.Lhs) != 1 || len(as.Rhs) != 1 || c18Sel(as.Lhs[0]) != mesh {
		return "", nil, false, nil
	}
	bad := func() (string, ast.Expr, bool, error) {
		return "", nil, false, c.errf(is, "assignment to `%s` that is not of the form `if !%s.<Flag> { %s = %s.Append(<circle>.ToMesh()…) }`", mesh, c.recvName, mesh, mesh)
	}
	if _, isId := as.Lhs[0].(*ast.Ident); !isId || is.Init != nil || is.Else != nil || as.Tok != token.ASSIGN {
		return bad()
	}
	not, isNot := c18lUnparen(is.Cond).(*ast.UnaryExpr)
	if !isNot || not.Op != token.NOT {
		return bad()
	}
	fsel, isSel := c18lUnparen(not.X).(*ast.SelectorExpr)
	if !isSel {
		return bad()
	}
	if x, isId := fsel.X.(*ast.Ident); !isId || x.Name != c.recvName || c.lookup(x.Name) == nil || c.lookup(x.Name).kind != "recv" {
		return bad()
	}
	call, isCall := as.Rhs[0].(*ast.CallExpr)
	if !isCall || len(call.Args) != 1 || call.Ellipsis != token.NoPos {
		return bad()
	}
	sel, isSel := call.Fun.(*ast.SelectorExpr)
	if !isSel || sel.Sel.Name != "Append" {
		return bad()
	}
	if x, isId := sel.X.(*ast.Ident); !isId || x.Name != mesh {
		return bad()
	}
	return fsel.Sel.Name, call.Args[0], true, nil
}

func c18aFVars(f *c18lFE, into map[int]bool) {
	if f == nil {
		return
	}
	if f.op == "fvar" {
		into[f.n] = true
	}
	c18aFVars(f.a, into)
	c18aFVars(f.b, into)
}

func c18aVFVars(v *c18lVE, into map[int]bool) {
	if v == nil {
		return
	}
	c18aFVars(v.x, into)
	c18aFVars(v.y, into)
	c18aFVars(v.z, into)
	c18aVFVars(v.v, into)
	c18aVFVars(v.w, into)
}

func (p *c18aPlacement) fvars(into map[int]bool) {
	c18aFVars(p.rotPosT, into)
	c18aFVars(p.rotNrmT, into)
	c18aVFVars(p.rotPosA, into)
	c18aVFVars(p.rotNrmA, into)
	c18aVFVars(p.translate, into)
}

// the segment `<key> … ;` / `<key> … -/` of the c18.loops header comment
func c18aHeaderSeg(text, key string) string {
	i := strings.Index(text, key)
	if i < 0 {
		return "?"
	}
	s := text[i+len(key):]
	if j := strings.IndexAny(s, ";\n"); j >= 0 {
		s = s[:j]
	}
	return strings.TrimSpace(strings.TrimSuffix(strings.TrimSpace(s), "-/"))
}

func c18aCylinder(fset *token.FileSet, dir string) (string, error) {
	var cfg *c18lCfg
	for i := range c18lCfgs {
		if c18lCfgs[i].lean == "cylinder" && c18lCfgs[i].appends {
			cfg = &c18lCfgs[i]
		}
	}
	if cfg == nil {
		return "", fmt.Errorf("no c18.loops configuration `cylinder`")
	}
	f, err := parser.ParseFile(fset, filepath.Join(dir, cfg.file), nil, 0)
	if err != nil {
		return "", err
	}
	c, fd, err := c18aNewCtx(fset, f, *cfg)
	if err != nil {
		return "", err
	}
	list := fd.Body.List
	if len(list) == 0 {
		return "", c.errf(fd, "empty function body")
	}
	ret, ok := list[len(list)-1].(*ast.ReturnStmt)
	if !ok || len(ret.Results) != 1 {
		return "", c.errf(list[len(list)-1], "the last statement is not `return <mesh variable>`")
	}
	meshId, ok := ret.Results[0].(*ast.Ident)
	if !ok {
		return "", c.errf(ret, "the last statement is not `return <mesh variable>`")
	}
	// the function-level statement list: the loop of c18lCtx.stmts, with the caps translated where they stand
	c.push()
	caps := []c18aCap{}
	body := []*c18lS{}
	leading := true
walk:
	for _, st := range list {
		if leading {
			if g, ok := c.guard(st); ok {
				c.guards = append(c.guards, g)
				continue
			}
			leading = false
		}
		switch v := st.(type) {
		case *ast.ReturnStmt:
			if st != ast.Stmt(ret) {
				return "", c.errf(st, "return before the end of the function")
			}
			break walk
		case *ast.AssignStmt:
			ss, err := c.assign(v, 0, true)
			if err != nil {
				return "", err
			}
			body = append(body, ss...)
		case *ast.ForStmt:
			s, err := c.loop(v)
			if err != nil {
				return "", err
			}
			body = append(body, s)
		case *ast.IncDecStmt:
			if c.rootTracked(v.X) {
				return "", c.errf(st, "increment / decrement of tracked name `%s`", c18lRoot(v.X).Name)
			}
			if err := c.skip(st, "skipped"); err != nil {
				return "", err
			}
		case *ast.BranchStmt, *ast.LabeledStmt, *ast.GoStmt, *ast.DeferStmt:
			return "", c.errf(st, "control-flow statement in a translated statement list")
		default:
			if is, isIf := st.(*ast.IfStmt); isIf {
				flag, arg, isCap, err := c.capStmt(is, meshId.Name)
				if err != nil {
					return "", err
				}
				if isCap {
					root, chain, err := c.peel(arg, func(e ast.Expr) bool {
						call, ok := e.(*ast.CallExpr)
						if !ok || len(call.Args) != 0 {
							return false
						}
						sel, ok := call.Fun.(*ast.SelectorExpr)
						if !ok || sel.Sel.Name != "ToMesh" {
							return false
						}
						_, isId := sel.X.(*ast.Ident)
						return isId
					})
					if err != nil {
						return "", err
					}
					pl, err := c.placement(chain, nil)
					if err != nil {
						return "", err
					}
					caps = append(caps, c18aCap{flag, root.(*ast.CallExpr).Fun.(*ast.SelectorExpr).X.(*ast.Ident).Name, pl})
				}
			}
			if err := c.skip(st, "skipped"); err != nil {
				return "", err
			}
		}
	}
	c.pop()
	// cross-check 1: the recognition (and all side conditions) of c18.loops
	appText, err := c18lAppends(c.c18lCtx, fd)
	if err != nil {
		return "", err
	}
	ps := make([]string, len(caps))
	for i, p := range caps {
		ps[i] = fmt.Sprintf("(%q, %q)", p.flag, p.circle)
	}
	if want := ":= [" + strings.Join(ps, ", ") + "]\n"; !strings.HasSuffix(appText, want) {
		return "", c.errf(fd, "the caps found here (%s) are not the cylinderAppends of c18.loops", strings.Join(ps, ", "))
	}
	// cross-check 2: the numbering of c18.loops' own extraction
	r, err := c18lExtract(fset, f, *cfg)
	if err != nil {
		return "", fmt.Errorf("c18.loops extraction of the cylinder: %v", err)
	}
	fpars, fvars := c18lNames(c.fpars), c18lNames(c.fvars)
	if a, b := c18aHeaderSeg(r.text, "fpars "), c18aHeaderSeg(r.text, "fvars "); a != fpars || b != fvars {
		return "", c.errf(fd, "numbering differs from c18.loops: fpars `%s` / `%s`, fvars `%s` / `%s`", fpars, a, fvars, b)
	}
	// a float local mentioned by a cap: assigned exactly once, at function level
	used := map[int]bool{}
	for _, p := range caps {
		p.place.fvars(used)
	}
	var count func(l []*c18lS, k int, top bool) (nTop, nAll int)
	count = func(l []*c18lS, k int, top bool) (nTop, nAll int) {
		for _, s := range l {
			if s.kind == "fassign" && s.k == k {
				nAll++
				if top {
					nTop++
				}
			}
			_, a := count(s.body, k, false)
			nAll += a
		}
		return
	}
	for k := range used {
		if nTop, nAll := count(body, k, true); nTop != 1 || nAll != 1 {
			return "", c.errf(fd, "float local %d is mentioned by a cap but assigned %d times (%d at function level); expected exactly one function-level assignment", k, nAll, nTop)
		}
	}
	elems := make([]string, len(caps))
	for i, p := range caps {
		elems[i] = fmt.Sprintf("{ flag := %q, circle := %q, place := %s }", p.flag, p.circle, p.place.lean())
	}
	return fmt.Sprintf("/-- %s `%s.%s`: the caps, in source order; fpars %s; fvars %s -/\ndef cylinderCaps : List CapAppend := %s\n",
		cfg.file, cfg.recv, cfg.fn, fpars, fvars, c18aList(elems)), nil
}

// ---- (B) (C) the function-level walk ----------------------------------------------------------------------------------

type c18aFace struct {
	name         string
	width, depth *c18lFE
	place        *c18aPlacement
	bind         *c18lBind
}

type c18aWalk struct {
	*c18aCtx
	fd     *ast.FuncDecl
	locals []*c18lFE  // float local k -> its defining expression
	faces  []c18aFace // (B) in declaration order (the set of their bindings: c18aCtx.faces)
	ret    *ast.ReturnStmt
}

// a skipped statement: the c18.loops conditions, and no mention of a face variable
func (w *c18aWalk) skipStmt(st ast.Stmt) error {
	var err error
	ast.Inspect(st, func(n ast.Node) bool {
		if id, ok := n.(*ast.Ident); ok && err == nil {
			if b := w.lookup(id.Name); b != nil && w.c18aCtx.faces[b] {
				err = w.errf(st, "the face variable `%s` is mentioned in a statement that is not translated", id.Name)
			}
		}
		return err == nil
	})
	if err != nil {
		return err
	}
	return w.skip(st, "skipped")
}

// `Quad{UVs: …, Width: <FE>, Depth: <FE>}.ToMesh()`
func (w *c18aWalk) quadToMesh(e ast.Expr) (width, depth *c18lFE, ok bool, err error) {
	call, isCall := e.(*ast.CallExpr)
	if !isCall {
		return nil, nil, false, nil
	}
	sel, isSel := call.Fun.(*ast.SelectorExpr)
	if !isSel {
		return nil, nil, false, nil
	}
	cl, isLit := c18lUnparen(sel.X).(*ast.CompositeLit)
	if !isLit {
		return nil, nil, false, nil
	}
	if id, isId := cl.Type.(*ast.Ident); !isId || id.Name != "Quad" || w.lookup("Quad") != nil {
		return nil, nil, false, nil
	}
	if sel.Sel.Name != "ToMesh" || len(call.Args) != 0 {
		return nil, nil, true, w.errf(e, "Quad literal used other than as `Quad{…}.ToMesh()`")
	}
	seenUV := false
	for _, el := range cl.Elts {
		kv, isKV := el.(*ast.KeyValueExpr)
		if !isKV {
			return nil, nil, true, w.errf(cl, "unkeyed Quad literal")
		}
		key, _ := kv.Key.(*ast.Ident)
		switch {
		case key != nil && key.Name == "UVs" && !seenUV:
			seenUV = true
			if err := w.checkSkipped(kv.Value); err != nil {
				return nil, nil, true, err
			}
		case key != nil && (key.Name == "Width" && width == nil || key.Name == "Depth" && depth == nil):
			fe, why := w.floatExpr(kv.Value)
			if why != nil {
				return nil, nil, true, w.whyErr(why, "Quad."+key.Name)
			}
			if key.Name == "Width" {
				width = fe
			} else {
				depth = fe
			}
		default:
			return nil, nil, true, w.errf(kv, "unexpected / repeated field in a Quad literal (expected UVs, Width, Depth)")
		}
	}
	if width == nil || depth == nil {
		return nil, nil, true, w.errf(cl, "Quad literal without both `Width:` and `Depth:`")
	}
	return width, depth, true, nil
}

// the right-hand side of a face declaration; ok = false: not rooted at a Quad literal / rotate(…)
func (w *c18aWalk) faceExpr(e ast.Expr) (f *c18aFace, ok bool, err error) {
	isRoot := func(e ast.Expr) bool {
		call, isCall := e.(*ast.CallExpr)
		if !isCall {
			return true // not a call: the chain ends here (and is then not a face)
		}
		sel, isSel := call.Fun.(*ast.SelectorExpr) // `f(…)` (rotate): the chain ends here
		if !isSel {
			return true
		}
		_, isLit := c18lUnparen(sel.X).(*ast.CompositeLit)
		return isLit
	}
	root, chain, _ := w.peel(e, isRoot)
	var pre *c18aRot
	var width, depth *c18lFE
	if call, isCall := root.(*ast.CallExpr); isCall {
		if id, isId := call.Fun.(*ast.Ident); isId && id.Name == "rotate" && w.lookup("rotate") == nil {
			if len(call.Args) != 2 || call.Ellipsis != token.NoPos {
				return nil, true, w.errf(call, "rotate without exactly two arguments")
			}
			var isQuad bool
			if width, depth, isQuad, err = w.quadToMesh(call.Args[0]); err != nil {
				return nil, true, err
			} else if !isQuad {
				return nil, true, w.errf(call.Args[0], "the mesh handed to rotate is not `Quad{…}.ToMesh()`")
			}
			if pre, err = w.fromTheta(call.Args[1]); err != nil {
				return nil, true, err
			}
		} else if width, depth, ok, err = w.quadToMesh(root); err != nil {
			return nil, true, err
		} else if !ok {
			return nil, false, nil
		}
	} else {
		return nil, false, nil
	}
	pl, err := w.placement(chain, pre)
	if err != nil {
		return nil, true, err
	}
	return &c18aFace{width: width, depth: depth, place: pl}, true, nil
}

// the function-level statements up to the final return (stored in w.ret)
func (w *c18aWalk) run(withFaces bool) error {
	list := w.fd.Body.List
	if len(list) == 0 {
		return w.errf(w.fd, "empty function body")
	}
	ret, ok := list[len(list)-1].(*ast.ReturnStmt)
	if !ok || len(ret.Results) != 1 {
		return w.errf(list[len(list)-1], "the last statement is not a return of one value")
	}
	w.ret = ret
	w.push() // stays open: the return expression is translated in this scope
	for _, st := range list[:len(list)-1] {
		switch v := st.(type) {
		case *ast.ReturnStmt:
			return w.errf(st, "return before the end of the function")
		case *ast.BranchStmt, *ast.LabeledStmt, *ast.GoStmt, *ast.DeferStmt:
			return w.errf(st, "control-flow statement at function level")
		case *ast.AssignStmt:
			if v.Tok == token.DEFINE && len(v.Lhs) == 1 && len(v.Rhs) == 1 {
				if id, isId := v.Lhs[0].(*ast.Ident); isId && id.Name != "_" {
					if fe, why := w.floatExpr(v.Rhs[0]); why == nil {
						b := &c18lBind{kind: "float", id: w.nextFVar, body: -1, line: w.line(st)}
						w.nextFVar++
						w.fvars = append(w.fvars, fmt.Sprintf("%s=%d", id.Name, b.id))
						w.locals = append(w.locals, fe)
						w.declare(id.Name, b)
						continue
					}
					if ve, why := w.vecExpr(v.Rhs[0]); why == nil {
						b := &c18lBind{kind: "vec", id: -1, body: -1, opaque: true, line: w.line(st)}
						w.inline[b] = ve
						w.declare(id.Name, b)
						continue
					}
					if withFaces {
						f, isFace, err := w.faceExpr(v.Rhs[0])
						if err != nil {
							return err
						}
						if isFace {
							f.name = id.Name
							f.bind = &c18lBind{kind: "other", line: w.line(st)}
							w.c18aCtx.faces[f.bind] = true
							w.declare(id.Name, f.bind)
							w.faces = append(w.faces, *f)
							continue
						}
					}
				}
			}
			// anything else (`x = …`, `x += …`, multi-assignment, another declaration): no write to a float local / inlined
			// vector / receiver (tracked names; body -1 = never assignable), no mention of a face
			for _, l := range v.Lhs {
				if w.rootTracked(l) {
					return w.errf(st, "write to `%s` (a float local / inlined vector / the receiver is assigned once, by its declaration)", c18lRoot(l).Name)
				}
			}
			if err := w.skipStmt(st); err != nil {
				return err
			}
		default:
			if err := w.skipStmt(st); err != nil {
				return err
			}
		}
	}
	return nil
}

func c18aStart(fset *token.FileSet, dir string, cfg c18lCfg) (*c18aWalk, *ast.File, error) {
	f, err := parser.ParseFile(fset, filepath.Join(dir, cfg.file), nil, 0)
	if err != nil {
		return nil, nil, err
	}
	c, fd, err := c18aNewCtx(fset, f, cfg)
	if err != nil {
		return nil, nil, err
	}
	if len(c.params) != 0 || len(c.fpars) != len(cfg.fltFields) {
		return nil, nil, c.errf(fd.Type, "%s.%s is expected to take no int / float64 parameters", cfg.recv, cfg.fn)
	}
	return &c18aWalk{c18aCtx: c, fd: fd}, f, nil
}

func c18aFEs(l []*c18lFE) []string {
	out := make([]string, len(l))
	for i, f := range l {
		out[i] = f.bare()
	}
	return out
}

func c18aCube(fset *token.FileSet, dir string) (string, error) {
	cfg := c18lCfg{lean: "cube", file: "cube.go", recv: "Cube", fn: "UnweldedQuads", fltFields: []string{"Width", "Height", "Depth"}}
	w, f, err := c18aStart(fset, dir, cfg)
	if err != nil {
		return "", err
	}
	if err := c18aCheckRotate(fset, f); err != nil {
		return "", err
	}
	if err := w.run(true); err != nil {
		return "", err
	}
	// return f1.Append(f2)…Append(fn)
	order := []*c18lBind{}
	face := func(e ast.Expr) error {
		id, ok := c18lUnparen(e).(*ast.Ident)
		if !ok {
			return w.errf(e, "the returned Append chain contains something that is not a face variable")
		}
		b := w.lookup(id.Name)
		if b == nil || !w.c18aCtx.faces[b] {
			return w.errf(e, "`%s` in the returned Append chain is not a declared face (`x := Quad{…}.ToMesh()…` / `x := rotate(Quad{…}.ToMesh(), …)…`)", id.Name)
		}
		order = append([]*c18lBind{b}, order...)
		return nil
	}
	e := w.ret.Results[0]
	for {
		call, ok := c18lUnparen(e).(*ast.CallExpr)
		if !ok {
			if err := face(e); err != nil {
				return "", err
			}
			break
		}
		sel, ok := call.Fun.(*ast.SelectorExpr)
		if !ok || sel.Sel.Name != "Append" || len(call.Args) != 1 || call.Ellipsis != token.NoPos {
			return "", w.errf(call, "the returned expression is not `f1.Append(f2)….Append(fn)`")
		}
		if err := face(call.Args[0]); err != nil {
			return "", err
		}
		e = sel.X
	}
	elems := []string{}
	seen := map[*c18lBind]bool{}
	for _, b := range order {
		if seen[b] {
			return "", w.errf(w.ret, "a face is appended twice")
		}
		seen[b] = true
		for _, fc := range w.faces {
			if fc.bind == b {
				elems = append(elems, fmt.Sprintf("{ name := %q, width := %s, depth := %s, place := %s }", fc.name, fc.width.bare(), fc.depth.bare(), fc.place.lean()))
			}
		}
	}
	for _, fc := range w.faces {
		if !seen[fc.bind] {
			return "", w.errf(w.ret, "the declared face `%s` is not appended", fc.name)
		}
	}
	return fmt.Sprintf("/-- %s `%s.%s`: fpars %s; fvars %s -/\ndef cubeLocals : List FE := %s\n\n"+
		"/-- %s `%s.%s`: the faces in `Append` order -/\ndef cubeFaces : List QuadFace := %s\n",
		cfg.file, cfg.recv, cfg.fn, c18lNames(w.fpars), c18lNames(w.fvars), c18aList(c18aFEs(w.locals)),
		cfg.file, cfg.recv, cfg.fn, c18aList(elems)), nil
}

func c18aQuad(fset *token.FileSet, dir string) (string, error) {
	cfg := c18lCfg{lean: "quad", file: "quad.go", recv: "Quad", fn: "ToMesh", fltFields: []string{"Width", "Depth"}}
	w, _, err := c18aStart(fset, dir, cfg)
	if err != nil {
		return "", err
	}
	if err := w.run(false); err != nil {
		return "", err
	}
	// return modeling.NewTriangleMesh(…)<SetFloatNData calls, exactly one SetFloat3Data>
	n3 := 0
	ast.Inspect(w.fd.Body, func(nd ast.Node) bool {
		if sel, ok := nd.(*ast.SelectorExpr); ok && sel.Sel.Name == "SetFloat3Data" {
			n3++
		}
		return true
	})
	var set3 *ast.CallExpr
	for e := w.ret.Results[0]; ; {
		call, ok := e.(*ast.CallExpr)
		if !ok {
			return "", w.errf(w.ret, "the returned expression is not `modeling.NewTriangleMesh(…)` followed by SetFloatNData calls")
		}
		if w.isPkgSel(call.Fun, "modeling", c18aModPath, "NewTriangleMesh") {
			if len(call.Args) != 1 || call.Ellipsis != token.NoPos {
				return "", w.errf(call, "modeling.NewTriangleMesh without exactly one argument")
			}
			if err := w.checkSkipped(call.Args[0]); err != nil {
				return "", err
			}
			break
		}
		sel, ok := call.Fun.(*ast.SelectorExpr)
		if !ok || len(call.Args) != 1 || call.Ellipsis != token.NoPos {
			return "", w.errf(call, "the returned expression is not `modeling.NewTriangleMesh(…)` followed by SetFloatNData calls")
		}
		switch sel.Sel.Name {
		case "SetFloat3Data":
			if set3 != nil {
				return "", w.errf(call, "second .SetFloat3Data call")
			}
			set3 = call
		case "SetFloat1Data", "SetFloat2Data", "SetFloat4Data":
			if err := w.checkSkipped(call.Args[0]); err != nil {
				return "", err
			}
		default:
			return "", w.errf(call, "method .%s in the returned chain (only SetFloatNData calls are accepted)", sel.Sel.Name)
		}
		e = sel.X
	}
	if set3 == nil || n3 != 1 {
		return "", w.errf(w.fd, "expected exactly one .SetFloat3Data call, in the returned chain (found %d in the function)", n3)
	}
	lit, ok := c18lUnparen(set3.Args[0]).(*ast.CompositeLit)
	if !ok {
		return "", w.errf(set3, "the argument of .SetFloat3Data is not a map literal")
	}
	if mt, ok := lit.Type.(*ast.MapType); !ok || c18Sel(mt.Key) != "string" {
		return "", w.errf(lit, "the argument of .SetFloat3Data is not a map[string]… literal")
	} else if at, ok := mt.Value.(*ast.ArrayType); !ok || at.Len != nil || !w.isVec3Type(at.Elt) {
		return "", w.errf(lit, "the argument of .SetFloat3Data is not a map[string][]vector3.Float64 literal")
	}
	var pos, nrm []string
	for _, el := range lit.Elts {
		kv, ok := el.(*ast.KeyValueExpr)
		if !ok {
			return "", w.errf(el, "unkeyed element in the .SetFloat3Data map literal")
		}
		ks, ok := kv.Key.(*ast.SelectorExpr)
		if !ok || !w.isPkgSel(ks, "modeling", c18aModPath, ks.Sel.Name) {
			return "", w.errf(kv.Key, "key of the .SetFloat3Data map literal that is not `modeling.<Name>`")
		}
		if ks.Sel.Name != "PositionAttribute" && ks.Sel.Name != "NormalAttribute" {
			if err := w.checkSkipped(kv.Value); err != nil {
				return "", err
			}
			continue
		}
		vl, ok := kv.Value.(*ast.CompositeLit)
		if ok && vl.Type != nil {
			at, isArr := vl.Type.(*ast.ArrayType)
			ok = isArr && at.Len == nil && w.isVec3Type(at.Elt)
		}
		if !ok {
			return "", w.errf(kv.Value, "modeling.%s is not given by a slice literal `{v1, v2, …}`", ks.Sel.Name)
		}
		ves := []string{}
		for _, x := range vl.Elts {
			if _, isKV := x.(*ast.KeyValueExpr); isKV {
				return "", w.errf(x, "indexed element in the modeling.%s literal", ks.Sel.Name)
			}
			ve, why := w.vecExpr(x)
			if why != nil {
				return "", w.whyErr(why, "element of modeling."+ks.Sel.Name)
			}
			ves = append(ves, ve.bare())
		}
		if ks.Sel.Name == "PositionAttribute" {
			if pos != nil {
				return "", w.errf(kv, "second modeling.PositionAttribute entry")
			}
			pos = ves
		} else {
			if nrm != nil {
				return "", w.errf(kv, "second modeling.NormalAttribute entry")
			}
			nrm = ves
		}
	}
	if pos == nil || nrm == nil {
		return "", w.errf(lit, "the .SetFloat3Data map literal must have a modeling.PositionAttribute and a modeling.NormalAttribute entry")
	}
	return fmt.Sprintf("/-- %s `%s.%s`: fpars %s; fvars %s -/\ndef quadLocals : List FE := %s\ndef quadPositions : List VE := %s\ndef quadNormals : List VE := %s\n",
		cfg.file, cfg.recv, cfg.fn, c18lNames(w.fpars), c18lNames(w.fvars), c18aList(c18aFEs(w.locals)), c18aList(pos), c18aList(nrm)), nil
}

func c18Assembly(repo, out string, args []string) error {
	if out == "" {
		return fmt.Errorf("c18.assembly: -out is required")
	}
	dir := filepath.Join(repo, "modeling", "primitives")
	var b strings.Builder
	b.WriteString("-- GENERATED by `go/facts c18.assembly` from /repo modeling/primitives/{cylinder,cube,quad}.go — do not edit\n")
	b.WriteString("import PolyVerif.Model.LoopIR\n")
	b.WriteString("namespace PolyVerif.Gen.PrimAssembly\n")
	b.WriteString("open PolyVerif.LoopIR PolyVerif.LoopIR.E\n\n")
	for _, part := range []struct {
		name string
		f    func(*token.FileSet, string) (string, error)
	}{{"cylinder", c18aCylinder}, {"cube", c18aCube}, {"quad", c18aQuad}} {
		s, err := part.f(token.NewFileSet(), dir)
		if err != nil {
			return fmt.Errorf("c18.assembly %s: %v", part.name, err)
		}
		b.WriteString(s + "\n")
	}
	b.WriteString("end PolyVerif.Gen.PrimAssembly\n")
	return os.WriteFile(out, []byte(b.String()), 0o644)
}
