#!/bin/sh
# Run once after a fresh restore, offline: builds the Go tools and warms the Lean build
# (every Props module and every per-property driver).  Failures here are not fatal:
# each check rebuilds what it needs and reports what does not build.
set -u
cd "$(dirname "$0")"
export GOFLAGS=-mod=mod GOPROXY=off GOSUMDB=off GOTOOLCHAIN=local
mkdir -p bin work replays evidence
(cd go && cp /repo/go.sum go.sum 2>/dev/null; go build -o ../bin/xlate ./xlate; [ -d facts ] && go build -o ../bin/facts ./facts; go build -tags verif -o ../bin/harness ./harness) || echo "setup: go build had errors"
# regenerate Gen/ from the current tree so that the warm build matches what the checks will see
python3 - <<'PY'
import sys, os
sys.path.insert(0, "checklib")
from props import PROPS
import subprocess
for pid, cfg in sorted(PROPS.items()):
    for g in cfg.get("gen", []):
        out = os.path.join("lean/PolyVerif/Gen", g["out"])
        if g.get("tool", "xlate") == "xlate":
            cmd = ["bin/xlate", "-repo", "/repo", "-spec", os.path.join("go/specs", g["spec"]), "-out", out + ".new"]
        else:
            cmd = ["bin/facts", g["mode"], "-repo", "/repo", "-out", out + ".new"] + g.get("args", [])
        r = subprocess.run(cmd)
        if r.returncode == 0:
            new = open(out + ".new").read()
            if not os.path.exists(out) or open(out).read() != new:
                os.replace(out + ".new", out)
            else:
                os.remove(out + ".new")
mods, exes = [], []
for pid, cfg in sorted(PROPS.items()):
    mods += cfg.get("modules", ["PolyVerif.Props." + pid])
    exes.append("driver_" + pid.lower())
subprocess.run(["lake", "build"] + mods + exes, cwd="lean")
PY
exit 0
