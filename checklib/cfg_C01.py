from common import T_COMMON

STORE_FILES = ["modeling/mesh.go", "modeling/tri.go", "modeling/line.go", "modeling/point.go", "modeling/meshops",
               "modeling/repeat", "modeling/primitives", "formats/ply/writer.go", "formats/ply/write.go",
               "formats/obj/writer.go", "formats/stl/write.go"]

CFG = dict(
    gen=[dict(tool="facts", mode="c01.stores", out="C01Stores.lean", args=STORE_FILES)],
    theorems=["op_frame", "op_writes_fresh_only", "step_valid", "step_immutable", "run_valid",
              "history_immutable", "empty_valid", "derivations_commute_partial", "appendInPlace_breaks",
              "store_sites_fresh", "store_sites_cover"],
    streams=[dict(name="c01", n=dict(quick=300, thorough=6000))],
    trusted=T_COMMON + [
        "engine F extractor /verif/go/facts/c01.go (syntactic, intra-procedural provenance of store targets; conservative by construction; "
        "stores done by callees outside the scanned files are not tracked except sort.*/slices.Sort*)",
        "C01 heap abstraction (Model/MeshHeap.lean): one untyped cell heap + map objects; the assignment of each public "
        "operation to a memory-behaviour class is checked only by the heap-shape correspondence (reflect-observed sharing graph) "
        "and the value-level oracle, on generated histories",
        "reflect/unsafe reading of (data pointer, len, cap) and map identity of unexported Mesh fields; Go's non-moving GC",
    ],
    residue=[
        "formats/gltf writer is outside the static store-site scan (it is a stateful Writer storing into its own buffers); it is covered by the value-level oracle only",
        "derivations_commute_full (Props/C01.lean, stated as a def): that the value an operation returns does not depend on the heap layout "
        "(hence on whether another derivation ran first) is NOT proved; proved part = derivations_commute_partial (no interference); "
        "the rest is checked on the implementation by the c01.holds.rederive oracle and the value-level c01.append correspondence",
        "caller-owned slices/maps handed to NewMesh/Set*/SetFloatNData and the slice returned by Materials() are the caller's to leave alone (the harness never mutates them)",
        "concurrent use of one mesh from several goroutines is outside this property",
        "that each Go function belongs to the class it is modelled by is corresponded (sharing graph + value snapshots on generated histories), not proved from the Go source",
        "the pointed-to modeling.Material structs are compared by pointer identity and name only",
    ],
    assumptions=["Go's append writes in place iff len+k <= cap and otherwise returns a fresh array (growth policy arbitrary)"],
)
