from common import T_COMMON

STORE_FILES = ["modeling/mesh.go", "modeling/tri.go", "modeling/line.go", "modeling/point.go", "modeling/meshops",
               "modeling/repeat", "modeling/primitives", "formats/ply/writer.go", "formats/ply/write.go", "formats/ply/fs.go",
               "formats/obj/writer.go", "formats/obj/fs.go", "formats/stl/write.go", "formats/stl/fs.go",
               "formats/splat/write.go", "formats/spz/write.go",
               # the glTF writer is a stateful *Writer and takes meshes BY POINTER: scanned with the writer's own state exempted
               "--own-receiver", "formats/gltf/writer.go", "formats/gltf/write.go", "formats/gltf/fs.go",
               "formats/gltf/model.go", "formats/gltf/model_trackers.go"]

CFG = dict(
    gen=[dict(tool="facts", mode="c01.stores", out="C01Stores.lean", args=STORE_FILES),
         # sharing summary of every exported Mesh-returning function of modeling/mesh.go and of modeling/meshops (callees resolved in those and math/trs)
         dict(tool="facts", mode="c01.classes", out="C01Classes.lean", args=["modeling/mesh.go", "math/trs", "+modeling/meshops"])],
    modules=["PolyVerif.Props.C01", "PolyVerif.Props.C01Refine", "PolyVerif.Props.C01Classes"],
    theorems=["op_frame", "op_writes_fresh_only", "step_immutable", "history_immutable",
              "derivations_commute_partial", "appendInPlace_breaks", "store_sites_fresh",
              "op_refines", "append_refines", "attrLen_forced", "run_bounded", "derivations_commute",
              "derivations_commute_reachable",
              "classification_from_source", "classification_covers", "classification_no_unknown",
              "aliasing_summaries_rejected", "class_realises"],
    helper_theorems=["step_valid", "run_valid", "empty_valid", "appliesInOrder_spec", "store_sites_cover",
                     "step_bounded", "empty_bounded", "pureOp_mono",
                     "realises_sharedExcept", "realises_self", "real_newMesh", "real_setIndices", "real_setMaterials",
                     "real_toPointCloud", "real_clearAttrs", "real_setData", "real_setAttr", "real_copyAttr", "real_rebuild",
                     "real_readOnly", "real_append"],
    streams=[dict(name="c01", n=dict(quick=300, thorough=6000))],
    trusted=T_COMMON + [
        "engine F extractor /verif/go/facts/c01.go (syntactic, intra-procedural provenance of store targets; conservative by construction; "
        "stores done by callees outside the scanned files are not tracked except sort.*/slices.Sort*)",
        "C01 heap abstraction (Model/MeshHeap.lean): one untyped cell heap + map objects; the assignment of each public "
        "operation to a memory-behaviour class is derived from the source for the 101 Mesh-returning functions / transformer methods of modeling/mesh.go and modeling/meshops "
        "(classification_from_source + class_realises) and otherwise checked by the heap-shape correspondence (reflect-observed sharing graph) "
        "and the value-level oracle, on generated histories",
        "reflect/unsafe reading of (data pointer, len, cap) and map identity of unexported Mesh fields; Go's non-moving GC",
        "engine F extractor /verif/go/facts/c01_classes.go (syntactic sharing summaries, flow-insensitive join over all return statements and assignments, "
        "callee summaries substituted at call sites; conservative: unrecognised shapes are `unknown`)",
    ],
    residue=[
        "RAGGED MESHES / MAP ORDER: Mesh.AttributeLength() (modeling/mesh.go) returns the length of the first attribute Go's randomised map "
        "iteration yields and SetFloatNAttribute does no length check, so for a mesh whose attribute arrays differ in length Append's index "
        "shift / zero padding and ToPointCloud's index count vary from call to call. The model does not compute that value: Append and "
        "ToPointCloud carry what AttributeLength() resolved to as a parameter, so op_frame / history_immutable hold for EVERY resolution "
        "(unguarded, ragged meshes included), and op_refines / derivations_commute say: the result is a function of the observations AND of "
        "that resolution (same operation value = same resolution in both orders). 'Same two observations in either order' is therefore a "
        "statement about the code only when the resolution is forced, i.e. every mesh has one common attribute length (attrLen_forced); for "
        "ragged arguments two runs of the code may differ (nondeterminism of the map order, not interference). The harness generates ragged "
        "meshes: immutability re-reads as for every mesh; the value of a ragged Append is checked against the SET of outcomes "
        "(c01.holds.append_in_set: pureAppend for some aLen in lengths(a), bLen in lengths(b)); no sharing-graph line and no re-derivation "
        "for ragged arguments; ragged ToPointCloud: immutability only",
        "static scan of formats/gltf: memory reached from a receiver/parameter of type *Writer is taken to be the writer's own state (a mesh pointer "
        "cached inside the Writer and stored through from there would be missed); two sites are excluded by name in the statement of store_sites_fresh "
        "(knownNonMesh): flattenSkeletonToNodes writes the Skeleton's own children slice (animation data, not mesh memory - see notes: observation), "
        "obj.Load patches the materials of meshes it has just read before returning them",
        "op_refines / derivations_commute hold for states satisfying the bounds invariant State.Bounded (every slice inside its array); "
        "run_bounded shows it is an invariant from the empty state; over merely Valid states (slices past the end of their array) the "
        "commutation statement derivations_commute_full is not claimed",
        "the pure meaning pureOp of the eleven non-Append classes takes the new contents as parameters of the operation (it says WHICH parts "
        "are kept, replaced or deleted, not how meshops compute the new contents: that is C03)",
        "caller-owned slices/maps handed to NewMesh/Set*/SetFloatNData and the slice returned by Materials() are the caller's to leave alone (the harness never mutates them)",
        "concurrent use of one mesh from several goroutines is outside this property",
        "CLASSIFICATION, what is now derived from the source and what is not: for the 52 exported Mesh-returning functions of modeling/mesh.go, the 24 of "
        "modeling/meshops and the Transform methods of its 25 transformers (101 rows) the sharing summary (which component of the result is the receiver's / an argument's, which is allocated in the call) is regenerated by "
        "go/facts/c01_classes.go and compared with the class summary by classification_from_source; class_realises proves the model operation has that summary. "
        "STILL CORRESPONDED ONLY (sharing graph + value snapshots on generated histories): Mesh.Transform itself (dynamic dispatch over caller-supplied Transformers, "
        "applied one after the other: the methods it dispatches to in /repo ARE summarised, success path only - on the error path they return the zero Mesh), "
        "meshops.CustomTransformer (caller-supplied function), SliceByPlaneTransformer and the meshops functions returning several meshes (split / slice); "
        "modeling/repeat, modeling/primitives and the format readers (class newMesh); the writers / iterators / scans that return no mesh (class readOnly: covered by "
        "store_sites_fresh, not by a summary); shareMaterials (the composition m.SetMaterials(src.Materials()) made by the caller). meshops.RemoveNullFaces3D (+ its transformer) and VertexColorSpaceTransformer behave as "
        "one of two classes (return their input, or rebuild / replace one attribute): the extractor joins all return statements, so it is compared per component with the UNION of the two "
        "class summaries (weaker than 'one of the two as a whole'). The comparison is 'fits' (every source found is one the class allows), not equality. "
        "The summary extractor is syntactic (go/ast, no type information): callees are resolved by name (unique function / method with a mesh or non-mesh receiver) "
        "in modeling/mesh.go, modeling/meshops and math/trs; anything unresolved is `unknown` and fails the theorem; memory handed in by the caller (slice / map "
        "parameters) counts as fresh (the caller-owned residue below)",
    ],
    assumptions=["Go's append writes in place iff len+k <= cap and otherwise returns a fresh array (growth policy arbitrary)"],
    manifest=dict(
        engine="F+H",
        text="Lean 4 theorems about a heap-level model of Go slices/maps and of every class of mesh operation (share-all, "
             "replace-one-attribute, copy-attribute, rebuild, read-only, Append as it is now = copy-then-extend, transcribed loop by loop): "
             "op_frame / op_writes_fresh_only (an operation writes only memory it allocated - for the eleven non-Append classes this holds by "
             "construction of the class, which only allocates; the content is the transcribed Append and the classification of every Go "
             "function into its class, which is DERIVED FROM THE SOURCE for the 101 exported Mesh-returning functions / transformer methods of modeling/mesh.go and modeling/meshops "
             "(classification_from_source: decide over the regenerated sharing summaries vs the hand classification the harness uses, tied by c01.class lines; "
             "class_realises: in every state the model operation of a class shares / allocates exactly the components its summary says) and corresponded "
             "through the observed sharing graph and value snapshots for the rest (Transform, transformers, repeat, primitives, readers), history_immutable (for every finite history of operations picking arguments anywhere in the pool - branching "
             "derivations included - and every growth policy of append, every mesh keeps the observation it had when it entered), "
             "op_refines (every operation returns meshes whose observable value is a PURE function pureOp of the observable values of its "
             "arguments and - for Append / ToPointCloud - of what AttributeLength() resolved to, which Go's map order decides for ragged meshes - for Append the transcribed loops are proved equal to pureAppend: concatenation, zero padding, index shift - whatever "
             "the heap layout, spare capacities and growth policy), run_bounded (bounds invariant), derivations_commute / "
             "derivations_commute_reachable (two derivations from one base give the same two observations in either order), "
             "appendInPlace_breaks (closed witness of the old in-place Append), "
             "plus the obligation store_sites_fresh, re-derived from the source on every run by a store-site extractor, that every store in "
             "the mesh code (mesh.go, tri/line/point.go, meshops, repeat, primitives, ply/obj/stl writers) targets memory allocated in the "
             "same call (decide over the regenerated site list). Tied to the code by (a) the regenerated store-site facts, (b) a heap-shape "
             "correspondence (reflect-observed sharing graph of arguments and result of every operation vs the model's prediction), (c) value "
             "snapshots of every live mesh after every operation and every mid-history primitive construction of generated histories, "
             "(d) a bit-exact value correspondence of the model's appendCopy AND of pureAppend with Mesh.Append.",
        note="Trusted: Lean kernel and the three standard axioms; the syntactic store-site extractor; the assignment of Go functions to "
             "operation classes (derived from the source by a syntactic summary extractor for modeling/mesh.go and modeling/meshops; corresponded for the rest); reflect/unsafe observation; harness. The commutation theorem is for bounded states "
             "(invariant from the empty state), not for arbitrary Valid ones. MAP ORDER: AttributeLength() follows Go's randomised map iteration; "
             "for ragged meshes (attribute arrays of different lengths, accepted by SetFloatNAttribute) Append/ToPointCloud are not functions of "
             "the observations: the model takes the resolved value as a parameter (immutability theorems hold for every resolution; op_refines / "
             "derivations_commute are relative to it; unconditional only for meshes with one common attribute length, attrLen_forced). CALLER ALIASING: "
             "NewMesh, SetIndices, SetMaterials, SetFloatNAttribute, SetFloatNData keep the caller's slice/map without copying and Materials() returns "
             "the internal slice; a caller who later writes through a retained slice changes the mesh. The property speaks of operations (Mesh methods, "
             "meshops, writers); mutation by the caller through retained memory is outside it, the harness never does it, and the theorems model the "
             "caller's slices as fresh arrays nobody else writes. "
             "formats/gltf is in the static scan with the *Writer's own state exempted; every writer in /repo that takes a mesh is an op of the history generator (glTF with the pool's own struct passed by pointer).",
        technique="Lean 4 proof (induction over operation histories on a heap model) + regenerated store-site obligations + heap-shape "
                  "and value correspondence",
    ),
)
