from common import T_COMMON

CFG = dict(
    gen=[dict(tool="facts", mode="c07.normals", out="StlNormals.lean")],
    modules=["PolyVerif.Props.C07", "PolyVerif.Props.C07Normals"],
    theorems=["stl_length", "stl_roundtrip", "stl_roundtrip_trailing", "stl_count_wraps",
              "stl_reencode_prefix", "stl_reencode", "stl_decode_ok_iff", "stl_decode_short",
              "stl_roundtrip_exact", "chunks_eq_triples", "stl_mesh_roundtrip", "stl_mesh_roundtrip_partial", "stl_no_normals_witness",
              "stl_geometric_normal_counterexample", "stl_mesh_nopos", "stl_mesh_oob", "stl_mesh_resave", "stl_mesh_resave_positions", "stl_mesh_resave_attr",
              "stl_mesh_resave_attribute_witness", "stl_mesh_resave_zero_normal_mixed_witness", "stl_mesh_resave_nonunit_normal_witness",
              "stl_mesh_roundtrip_real", "stl_stored_normal_is_normalised_mean", "stl_fallback_normal_is_geometric",
              "stl_stored_normal_returned"],
    streams=[dict(name="c07", n=dict(quick=250, thorough=6000), timeout=dict(quick=600, thorough=3600))],
    trusted=T_COMMON + [
        "encoding/binary (struct layout of stl.Triangle: 12 float32 + uint16, no padding) — observed byte-exact against the model on every run",
        "driver instance of the precision bundle: Lean Float.toFloat32 / Float32.toFloat / Float arithmetic = Go float32()/float64()/float64 arithmetic on amd64 (observed bit-exact; NaN payloads canonicalised on both sides)",
    ],
    residue=[
        "HEADLINE: q32 (float64->float32) and up (widening) stay OPAQUE: 'rounded to float32' is correspondence content (Go's float32() vs Lean's Float.toFloat32, bit for bit on every run). The two normal expressions are NO LONGER opaque: they are regenerated from write.go / read.go by engine F (mode c07.normals -> Gen/StlNormals.lean; method chains over the vector library table Model/Vec.lean), the driver executes the regenerated definitions at Float (bit-exact against Go), and over R they are proved to be the unit vector along the mean of the corner normals (avgNormal_unit_mean) and the unit, edge-orthogonal, right-handed geometric normal (flatNormal_geometric); Props/C07Normals.lean instantiates Params with them (stl_mesh_roundtrip_real, stl_stored_normal_is_normalised_mean, stl_fallback_normal_is_geometric). IEEE rounding of these expressions is not modelled (theorems are over R); the same statements are evaluated at Float with a tolerance on implementation output (oracles c07.holds.unit_mean, c07.holds.geometric_fallback)",
        "cancelling corner normals / degenerate triangles: over R (x/0 = 0 convention) the expressions give the zero vector (avgNormal_cancelling_real_convention); the Go code computes IEEE 0/0 = NaN, stores NaN words, and ReadMesh keeps a NaN normal as it is (nan_normal_kept: a NaN word is not 'zero') - correspondence content, fed by the stream (zero, cancelling, overflowing normals)",
        "clause 3 (read -> write reproduces the triangle records) is READ AT THE BINARY LEVEL (stl.Read / stl.Write, theorem stl_reencode): the clause speaks of the 50-byte records incl. the attribute word and the property's observe_at lists stl.Read; a Mesh has no place for header or attribute word. The mesh-level path ReadMesh -> WriteMesh is documented as exact behaviour, not as a clause: stl_mesh_resave (zero header, attribute 0, positions q32(up w), normal q32(avgNormal n n n) of the stored-or-geometric normal n, all-zero if every stored normal is zero), stl_mesh_resave_positions (positions reproduced iff q32(up w) = w on the stored words), closed witnesses for non-unit normal / zero normal next to non-zero / attribute word, and the ordinary correspondence line c07.resavemesh (exact re-saved bytes on random binaries, arbitrary well-formed and malformed byte strings, tame files with non-zero headers and attributes)",
        "KNOWN FINDING (normal clause at full strength, def C07_geometric_normal_full): a mesh that stores no normals is read back with no normal attribute; closed counterexample stl_geometric_normal_counterexample / stl_no_normals_witness, replayed on the real code by op c07.holds.geometric_normal_when_none_stored_witness (expected false; formats/stl/read_test.go:31 pins the behaviour); proved part: stl_mesh_roundtrip_partial (= stl_mesh_roundtrip)",
        "Params.avgNormal / flatNormal are opaque in the theorems: that `v1.Add(v2).Add(v3).DivByConstant(3).Normalized()` IS the normalised mean (and the cross product the geometric normal) in real arithmetic, and its IEEE rounding, are not proved; the float expressions are executed at Float in the driver and compared bit-for-bit with Go",
        "q32 (float64→float32 rounding) is opaque: 'rounded to float32' is the meaning of Go's float32(x), compared bit-for-bit, not proved to be round-to-nearest-even",
        "isZero32 (float32 == 0 ⇔ bit pattern ±0) is a bit-level definition in the model, tied by correspondence",
        "meshes with ≥ 2^32 triangles: the count field wraps (stl_count_wraps); excluded by hypothesis",
        "a mesh with no normal attribute is read back with NO normal attribute (all stored normals are zero): the geometric-normal fallback of ReadMesh only materialises when at least one record has a non-zero normal; RoundTrips states exactly this",
        "io.Writer errors (short writes) are not modelled",
    ],
    assumptions=["float64/float32 conversions and arithmetic in Go on amd64 are IEEE-754 without FMA contraction"],
)
