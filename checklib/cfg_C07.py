from common import T_COMMON

CFG = dict(
    gen=[dict(tool="facts", mode="c07.normals", out="StlNormals.lean")],
    modules=["PolyVerif.Props.C07", "PolyVerif.Props.C07Normals"],
    theorems=["stl_length", "stl_roundtrip", "stl_roundtrip_trailing", "stl_count_wraps",
              "stl_reencode_prefix", "stl_reencode", "stl_decode_ok_iff", "stl_decode_short",
              "stl_roundtrip_exact", "chunks_eq_triples", "stl_mesh_roundtrip", "stl_mesh_roundtrip_partial", "stl_no_normals_witness",
              "stl_geometric_normal_counterexample", "stl_mesh_nopos", "stl_mesh_oob",
              "stl_mesh_roundtrip_real", "stl_stored_normal_is_normalised_mean", "stl_fallback_normal_is_geometric",
              "stl_stored_normal_returned"],
    streams=[dict(name="c07", n=dict(quick=250, thorough=6000))],
    trusted=T_COMMON + [
        "encoding/binary (struct layout of stl.Triangle: 12 float32 + uint16, no padding) — observed byte-exact against the model on every run",
        "driver instance of the precision bundle: Lean Float.toFloat32 / Float32.toFloat / Float arithmetic = Go float32()/float64()/float64 arithmetic on amd64 (observed bit-exact; NaN payloads canonicalised on both sides)",
    ],
    residue=[
        "HEADLINE: Params.q32 / up / avgNormal / flatNormal are OPAQUE in every mesh-level theorem: 'rounded to float32', 'normalised mean of the corner normals' and 'geometric normal' are therefore correspondence content (the Go expressions executed at Float in the driver, compared bit for bit on every run), not theorem content; the theorems prove which corner / which normal function result goes where, for every mesh",
        "clause 3 (read -> write reproduces the triangle records) is proved at the stl.Read / stl.Write level (stl_reencode); ReadMesh -> WriteMesh is NOT covered by a theorem (WriteMesh re-derives normals from corner normals and re-rounds positions)",
        "KNOWN FINDING (normal clause at full strength, def C07_geometric_normal_full): a mesh that stores no normals is read back with no normal attribute; closed counterexample stl_geometric_normal_counterexample / stl_no_normals_witness, replayed on the real code by op c07.holds.geometric_normal_when_none_stored_witness (expected false; formats/stl/read_test.go:31 pins the behaviour); proved part: stl_mesh_roundtrip_partial (= stl_mesh_roundtrip)",
        "Params.avgNormal / flatNormal are opaque in the theorems: that `v1.Add(v2).Add(v3).DivByConstant(3).Normalized()` IS the normalised mean (and the cross product the geometric normal) in real arithmetic, and its IEEE rounding, are not proved; the float expressions are executed at Float in the driver and compared bit-for-bit with Go",
        "q32 (float64→float32 rounding) is opaque: 'rounded to float32' is the meaning of Go's float32(x), compared bit-for-bit, not proved to be round-to-nearest-even",
        "isZero32 (float32 == 0 ⇔ bit pattern ±0) is a bit-level definition in the model, tied by correspondence",
        "meshes with ≥ 2^32 triangles: the count field wraps (stl_count_wraps); excluded by hypothesis",
        "a mesh with no normal attribute is read back with NO normal attribute (all stored normals are zero): the geometric-normal fallback of ReadMesh only materialises when at least one record has a non-zero normal; RoundTrips states exactly this",
        "io.Writer errors (short writes) are not modelled",
    ],
    assumptions=["float64/float32 conversions and arithmetic in Go on amd64 are IEEE-754 without FMA contraction"],
)
