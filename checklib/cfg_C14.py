from common import T_COMMON

CFG = dict(
    theorems=["stl_full", "stl_prefix_rejected", "splat_prefix", "splat_prefix_read", "spz_prefix", "spz_complete",
              "ply_header_cut", "ply_binary_full", "ply_binary_prefix_rejected", "ply_ascii_full", "ply_ascii_prefix",
              "pts_full", "pts_prefix",
              "no_placeholder_stl", "no_placeholder_splat", "no_placeholder_spz", "no_placeholder_ply_binary", "no_placeholder_ply_ascii", "ascii_eof_loop_no_progress",
              "reader_steps_linear_splat", "reader_steps_linear_arrays", "reader_steps_linear_ascii_verts",
              "reader_steps_linear_ascii_faces", "reader_steps_linear_pts", "scanLines_length",
              "PolyVerif.Readers.ptsPoint_restriction"],
    harness_files=["c15.go"],
    streams=[dict(name="c14", n=dict(quick=8, thorough=300), timeout=dict(quick=900, thorough=3000))],
    trusted=T_COMMON + ["compress/gzip delivers a prefix of the decompressed stream and then an error (SPZ cut points are taken in the compressed stream; the model is applied to what gzip delivered)",
                        "bufio.Scanner / strings.Fields / strconv.ParseFloat/ParseInt/Atoi: modelled by scanLines/fields/goFloatOk/goInt? in Model/Readers.lean (decimal number syntax only), tied by correspondence at every byte cut",
                        "the parsed PLY header (counts, record size, list property sizes) is taken from the real ply.ReadHeader of the complete file; the model locates the body itself (skipHeader)"],
    residue=["wall-clock time is observed (3 s deadline per call, goroutine + select), not proved; what is proved is that every model loop is a structural recursion consuming a record / a line per iteration",
             "ASCII theorems are at the line/token level the scanner delivers (token-boundary cuts); the byte-level tokeniser is tied by correspondence only; a cut inside a number is outside the property",
             "PLY header text -> parsed header (element/property lines) is not modelled; only the line scan up to end_header is",
             "PTS: a cut inside the first point line of a ONE-point file with at least 3 fields left is a valid one-point file of fewer fields (the format has no field count): the reader returns that point with the fields present (theorem pts_prefix states this case; nothing is fabricated)",
             "negative int32 list counts in binary PLY (panic in the reader) cannot occur in a prefix of a valid file and are modelled as short reads"],
    assumptions=["valid files are the reference encodings of Props/C14 (writer-shaped: vertex element then face element, one token per property, single-space separated)"],
    manifest=dict(
        text="Lean 4 theorems about total-function models of the readers (stl.Read, ply MeshReader.Read: header line scan, binary LE/BE body incl. list properties, ASCII vertex/face scanner loops; pts.ReadPointCloud; spz.Read after gzip; splat.Read): for EVERY valid file of the format (reference encodings: any header layout / record sizes / counts / triangles and quads / texcoord lists) and EVERY cut position, the reader applied to the prefix returns an error - binary STL, binary PLY (header cut or body short), SPZ stream: every byte position; ASCII PLY and PTS: every token boundary at the line/token level the scanner delivers - or exactly the data wholly present: .splat returns the first floor(k/32) records with the ErrUnexpectedEOF flag iff 32 does not divide k; a PTS file cut inside its only point line returns that point restricted to the tokens present. no_placeholder_*: any ok on a cut file is the full decode (.splat: a list prefix). reader_steps_linear_*: iteration counts bounded by bytes/lines. Tie: every cut point 0..len of generated files (ply.Write in three encodings, hand-written PLY variants, stl.WriteMesh, PTS text, reference-encoded SPZ cut in the COMPRESSED stream, splat.Write) is fed to the real reader under a 3 s deadline; verdict class (err/panic/timeout/ok+counts) compared with the model on the same bytes, and whenever the implementation returns ok its result must be a prefix-restriction of its own full decode (tagged non-zero coordinates).",
        note="Trusted: Lean kernel + 3 standard axioms; harness; compress/gzip delivers a prefix then an error; parsed PLY header taken from the real ReadHeader of the complete file; byte-level tokeniser and decimal number syntax tied at every byte cut, not proved. Not proved: wall-clock time (deadline observed); ASCII theorems are at token boundaries on the line/token structure. Found and fixed this round: PTS placeholder vertices for a cut inside the last point line (43af7f0), PLY ASCII panics on short lines (a9972a3).",
        technique="Lean 4 proof (prefix-safety of record parsers by induction over records/lines, for every cut) + exhaustive cut-point correspondence against the real readers under a deadline + compiled prefix-restriction oracle"),
)
