from common import T_COMMON

CFG = dict(
    theorems=["stl_full", "stl_prefix_rejected", "splat_prefix", "splat_prefix_read", "spz_prefix", "spz_complete",
              "ply_header_cut", "ply_binary_full", "ply_binary_prefix_rejected", "ply_ascii_full", "ply_ascii_prefix",
              "pts_full", "pts_prefix",
              "no_placeholder_stl", "no_placeholder_splat", "no_placeholder_spz", "no_placeholder_ply_binary",
              "reader_steps_linear_splat", "reader_steps_linear_arrays", "reader_steps_linear_ascii_verts",
              "reader_steps_linear_ascii_faces", "reader_steps_linear_pts", "scanLines_length",
              "PolyVerif.Readers.ptsPoint_restriction"],
    harness_files=["c15.go"],
    streams=[dict(name="c14", n=dict(quick=8, thorough=300), timeout=dict(quick=900, thorough=3000))],
    trusted=T_COMMON + ["compress/gzip delivers a prefix of the decompressed stream and then an error (SPZ cut points are taken in the compressed stream; the model is applied to what gzip delivered)",
                        "bufio.Scanner / strings.Fields / strconv.ParseFloat/ParseInt/Atoi: modelled by scanLines/fields/goFloatOk/goInt? in Model/Readers.lean (decimal number syntax only), tied by correspondence at every byte cut",
                        "the parsed PLY header (counts, record size, list property sizes) is taken from the real ply.ReadHeader of the complete file; the model locates the body itself (skipHeader)"],
    residue=["wall-clock time is observed (3 s deadline per call, goroutine + select), not proved; what is proved is that every model loop is a structural recursion consuming a record / a line per iteration",
             "ASCII theorems are at the line/token level the scanner delivers (token-boundary cuts); the byte-level tokeniser is tied by correspondence only; a cut inside a number is outside the property",
             "PLY header text -> parsed header (element/property lines) is not modelled; only the line scan up to end_header is",
             "PTS: a cut inside the first point line of a ONE-point file with at least 3 fields left is a valid one-point file of fewer fields (the format has no field count): the reader returns that point with the fields present (theorem pts_prefix states this case; nothing is fabricated)",
             "negative int32 list counts in binary PLY (panic in the reader) cannot occur in a prefix of a valid file and are modelled as short reads"],
    assumptions=["valid files are the reference encodings of Props/C14 (writer-shaped: vertex element then face element, one token per property, single-space separated)"],
)
