from common import T_COMMON

CFG = dict(
    modules=["PolyVerif.Props.C06", "PolyVerif.Props.C06Scene", "PolyVerif.Props.C06Data", "PolyVerif.Props.C06Tables", "PolyVerif.Props.C06Carry", "PolyVerif.Props.C06Valid", "PolyVerif.Props.C06Dedup", "PolyVerif.Props.C06Full", "PolyVerif.Props.C06Equal", "PolyVerif.Props.C06Zip", "PolyVerif.Props.C06Mat", "PolyVerif.Props.C06Node"],
    # property theorems (audited); scene_* quantify over EVERY well-formed scene, gltf_* over every admissible write sequence
    theorems=["scene_inv", "scene_valid_low", "gltf_refs_in_range", "scene_refs_ok", "gltf_node_trs",
              "scene_dinv", "gltf_prims_consistent", "scene_prims_ok", "gltf_carries_scene", "gltf_extensions_declared", "scene_nodes_ok", "gltf_scene_valid",
              "gltf_dedup_consistent", "addMaterial_dedup", "addMesh_dedup", "gltf_scene_full_partial", "exScene_wf", "gltf_equal_equivalence",
              "addMaterial_shown", "gltf_dedup_ok", "gltf_scene_full", "exScene_wf2", "gltf_dedup_samplername_counterexample",
              "gltf_bytesWritten_eq_len", "gltf_views_tile", "gltf_accessor_fits", "gltf_minmax",
              "gltf_decode_image", "gltf_decode_indices", "gltf_index_width",
              "glb_frame_length", "glb_frame", "glb_frame_bin",
              "gltf_alignment_counterexample", "gltf_alignment_partial"],
    # helper lemmas the above rest on (kernel-checked with the module, not counted as obligations)
    helper_theorems=["leVal_leBytes", "decodeN_encodeComps", "isMinOf_fold", "isMaxOf_fold", "tiles_append", "tiles_inside",
                     "tiles_disjoint", "decodeAcc_append", "accOK_append", "accOK_new_vec", "boundsOK_vec", "inv_step", "inv_run",
                     "inv_addMesh", "inv_addInstances", "inv_addModel", "lowEq_addMaterial", "lowEq_addTexture",
                     "addMaterial_refs", "addMesh_refs", "addInstances_refs", "addModel_refs", "addLight_refs", "mrefs_mono", "gltf_refs_in_range_partial", "addTexture_trefs", "addMaterial_trefs", "dinv_addMesh", "dinv_addModel", "addModel_carries", "addModels_carries", "addLights_carries", "carries_of_Carries", "addInstances_carried", "scene_nodes_structure", "scene_xinv", "addMaterial_xinv", "addTexture_xinv",
                     "addTexture_data", "matCarried_of_shown", "matShown_congr", "samplerCongr", "addModel_dnode", "addModels_dnode", "matT_unique", "zip_mergeSort"],
    streams=[dict(name="c06", n=dict(quick=150, thorough=15000))],
    trusted=T_COMMON + [
        "hand-written model PolyVerif/Model/Gltf.lean of formats/gltf/{writer,write,model,model_trackers}.go, tied by exact comparison of the parsed document, the buffer bytes and the GLB file bytes (stream c06)",
        "the harness's independent reader (own GLB framing, own structs + encoding/json, base64) and its canonical summary",
        "float64→float32 narrowing: Lean Float.toFloat32 in the driver vs Go float32(x), compared bit-for-bit through the buffer bytes",
        "colour factors roundFloat(c/65535,3) computed at Float in the model, compared bit-for-bit"],
    residue=[
        "gltf_scene_full proves, for every scene satisfying SceneWF2 (MeshWF meshes, admissible instances, a written attribute whenever there are indices, pairwise different glTF attribute names per mesh, and ExtCongr = the meaning of eqKey: material-extension values with the same id and key are the same value) that the writer accepts: valid ∧ carriesScene ∧ dedupOK — ALL three oracle predicates. The unconditional def C06_scene_full (same without hypotheses) is not a theorem and is not expected to be: an ill-formed mesh (index out of range, attribute arrays of different lengths) is written as it is. The alignment clause stays false + known.",
        "scene theorems need well-formedness hypotheses only where the property itself presupposes them: gltf_refs_in_range, gltf_extensions_declared, gltf_dedup_consistent, gltf_node_trs hold for EVERY accepted scene; scene_valid_low / gltf_prims_consistent / gltf_carries_scene / gltf_scene_valid need SceneOK (+ a written attribute when there are indices; + distinct glTF attribute names for carriesScene)",
        "carries (Model/GltfSpec): the conjunct `p.attrs.length == m.written.length` was replaced by `every key of p.attrs is the glTF name of a written attribute`; together with `every written attribute is present` this is the same on parsed documents (keys of a JSON object are unique)",
        "C06_alignment (full clause) is false of the code: gltf_alignment_counterexample; proved part gltf_alignment_partial (all vectors FLOAT, every index block a multiple of 4 bytes) — at write level",
        "glb_frame / glb_frame_bin read every header and chunk word back from the bytes (readWord); the equivalent statement through readFrame/frameOK (what c06.holds.frame evaluates on the implementation) is not proved for the model",
        "VecsOK excludes ±Inf (the writer's MaxFloat64 sentinel survives +Inf) and NaN in FLOAT VEC4 (Go's math.Min/Max would make the bound NaN; the model's order-based fold does not reproduce that): encoding/json refuses such documents (model: marshalOK); NaN in VEC2/VEC3 is modelled (skipped) and covered by gltf_minmax",
        "byte-typed (Joint) vectors: Go computes min/max on the float64 value v while it stores uint8(v); the model identifies both, i.e. assumes integer values in [0,255]",
        "JSON text layout; skins and animations; base64 (std); Float1 attributes (never written by AddMesh); material Extras; topologies other than triangle/point (written without a mode)"],
    assumptions=["pointer identity of meshes/textures = position in the scene's heap (one immutable object per pointer during a write)",
                 "byte-typed (Joint) attribute values are integers in [0,255]"],
)
