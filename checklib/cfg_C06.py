from common import T_COMMON

CFG = dict(
    theorems=["decodeN_encodeComps"],
    streams=[dict(name="c06", n=dict(quick=150, thorough=4000))],
    trusted=T_COMMON + [],
    residue=[],
    assumptions=[],
)
