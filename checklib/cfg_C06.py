from common import T_COMMON

CFG = dict(
    modules=["PolyVerif.Props.C06", "PolyVerif.Props.C06Scene", "PolyVerif.Props.C06Data", "PolyVerif.Props.C06Tables", "PolyVerif.Props.C06Carry", "PolyVerif.Props.C06Valid", "PolyVerif.Props.C06Dedup", "PolyVerif.Props.C06Full", "PolyVerif.Props.C06Equal", "PolyVerif.Props.C06Zip", "PolyVerif.Props.C06Mat", "PolyVerif.Props.C06Node", "PolyVerif.Props.C06Topo", "PolyVerif.Props.C06Glb", "PolyVerif.Props.C06Panic"],
    # property theorems (audited); scene_* quantify over EVERY well-formed scene, gltf_* over every admissible write sequence
    theorems=["scene_inv", "scene_valid_low", "gltf_refs_in_range", "scene_refs_ok", "gltf_node_trs",
              "scene_dinv", "gltf_prims_consistent", "scene_prims_ok", "gltf_carries_scene", "gltf_extensions_declared", "scene_nodes_ok", "gltf_scene_valid",
              "gltf_dedup_consistent", "addMaterial_dedup", "addMesh_dedup", "exScene_wf", "richScene_ok", "gltf_equal_equivalence",
              "addMaterial_shown", "gltf_dedup_ok", "gltf_scene_full", "gltf_dedup_samplername_counterexample",
              "gltf_bytesWritten_eq_len", "gltf_views_tile", "gltf_accessor_fits", "gltf_minmax",
              "gltf_decode_image", "gltf_decode_indices", "gltf_index_width",
              "glb_frame_length", "glb_frame", "glb_frame_bin",
              "gltf_alignment_counterexample", "gltf_alignment_partial",
              # round 2 (Props/C06Topo): every topology value and nil texture literals inside the quantifier
              "writeSceneT_ok_iff", "gltf_scene_topo_full", "gltf_topo_carried_iff", "gltf_mode_index_iff",
              "gltf_carries_scene_anytopo", "scene_zip_carries", "gltf_unknown_topology_rejected",
              "gltf_line_written_as_triangles", "lineScene_ok", "gltf_nil_normal_rejected", "gltf_unknown_topology_panics", "gltf_doc_mode_count_imp",
              "gltf_panic_only_if", "addMaterial_badId",
              # round 2 (Props/C06Glb): the GLB container through a reader
              "glb_parse_write", "glb_parse_write_prefix", "glb_roundtrips", "glb_frame_readFrame_ok", "glb_json_chunk", "glb_bin_chunk"],
    # helper lemmas the above rest on (kernel-checked with the module, not counted as obligations)
    helper_theorems=["leVal_leBytes", "decodeN_encodeComps", "isMinOf_fold", "isMaxOf_fold", "tiles_append", "tiles_inside",
                     "tiles_disjoint", "decodeAcc_append", "accOK_append", "accOK_new_vec", "boundsOK_vec", "inv_step", "inv_run",
                     "inv_addMesh", "inv_addInstances", "inv_addModel", "lowEq_addMaterial", "lowEq_addTexture",
                     "addMaterial_refs", "addMesh_refs", "addInstances_refs", "addModel_refs", "addLight_refs", "mrefs_mono", "gltf_refs_in_range_partial", "addTexture_trefs", "addMaterial_trefs", "dinv_addMesh", "dinv_addModel", "addModel_carries", "addModels_carries", "addLights_carries", "carries_of_Carries", "addInstances_carried", "scene_nodes_structure", "scene_xinv", "addMaterial_xinv", "addTexture_xinv",
                     "addTexture_data", "matCarried_of_shown", "matShown_congr", "samplerCongr", "addModel_dnode", "addModels_dnode", "matT_unique", "zip_mergeSort"],
    streams=[dict(name="c06", n=dict(quick=150, thorough=15000))],
    trusted=T_COMMON + [
        "hand-written model PolyVerif/Model/Gltf.lean of formats/gltf/{writer,write,model,model_trackers}.go, tied by exact comparison of the parsed document, the buffer bytes and the GLB file bytes (stream c06)",
        "the harness's independent reader (own GLB framing, own structs + encoding/json, base64) and its canonical summary",
        "float64→float32 narrowing: Lean Float.toFloat32 in the driver vs Go float32(x), compared bit-for-bit through the buffer bytes",
        "colour factors roundFloat(c/65535,3) computed at Float in the model, compared bit-for-bit"],
    residue=[
        "gltf_scene_full: for every scene satisfying SceneWF that the writer accepts, valid ∧ carriesScene ∧ dedupOK (ALL three oracle predicates) hold of the written document and buffer. SceneWF = every heap mesh well formed (MeshWF: each written attribute has dim components per vertex that fit the component type, no ±Inf, no NaN in a FLOAT VEC4, ONE common length; every index < that length ≤ 2^32), admissible GPU instances (ten binary32 values, none infinite, no NaN in the rotation), triangle or point topology, and ExtCongr (the meaning of eqKey: material-extension values with the same id and key are the same value). richScene_ok is a kernel-checked instance (shared mesh, two equal-by-value materials, texture with sampler and required transform, instances, light) that satisfies SceneWF AND is accepted.",
        "EXCLUDED input classes (accepted by the writer, outside SceneWF): attribute arrays of different lengths or an index ≥ vertex count (not well-formed meshes; written as they are); ±Inf attribute data and NaN in a FLOAT VEC4 / an instance rotation (encoding/json refuses the document: marshalOK); line / line-strip / line-loop / quad topologies (written without a mode, i.e. silently as TRIANGLES — observation, outside the property's 'point or triangle' quantifier). No longer hypotheses since fd26630 (consequences of acceptance): pairwise different glTF attribute names (colliding names are rejected), a written attribute whenever there are indices (such meshes are skipped); both classes are in the general generator.",
        "the unconditional def C06_scene_full (same statement without SceneWF) is not a theorem and not expected to be",
        "gltf_prims_consistent partly restates MeshWF (index < attrLen, count = attrLen); its content is accessor existence, dimension / component type / count of what was written and decodeAcc … = some m.indices",
        "C06_alignment (full clause) is false of the code: gltf_alignment_counterexample; proved part gltf_alignment_partial (all vectors FLOAT, every index block a multiple of 4 bytes) — at write level",
        "glb_frame / glb_frame_bin read every header and chunk word back from the bytes (readWord); the equivalent statement through readFrame/frameOK (what c06.holds.frame evaluates on the implementation) is not proved for the model",
        "model mismatches that cannot produce a wrong file: texFinish compares only {sampler, source} while Go's Texture.equal also compares texture-level Extensions (no non-info texture extension exists, unreachable); PolyformNormal{} / PolyformOcclusion{} with a nil embedded texture PANIC in Go (AddTexture(nil)) — a crash, not an inconsistent file, not representable in the model, not generated (observation); non-finite light intensity/range, material scalars, transform payload make json.Marshal fail: modelled in marshalOK, not generated",
        "byte-typed (Joint) vectors: Go computes min/max on the float64 value v while it stores uint8(v); the model identifies both, i.e. assumes integer values in [0,255]; sampler Extensions (only name and Extras are modelled, Extras as an equality tag)",
        "JSON text layout; skins and animations; base64 (std); Float1 attributes (never written by AddMesh); material Extras"],
    manifest=dict(
        text="Lean 4 theorems about a hand-written model of formats/gltf (writer state machine with explicit pointer ids) tied to the Go code on every run by exact comparison of the independently parsed document, buffer bytes and GLB file. Proved for every scene satisfying SceneWF that the writer accepts (gltf_scene_full): valid (buffer/view/accessor ranges, min/max of the stored float32 values, every index reference, per-primitive attribute counts, index values < vertex count, extensions declared) ∧ carriesScene (decoding every accessor returns exactly the stored image of each model's attributes and indices; node TRS and instance transforms) ∧ dedupOK (shared meshes/materials/textures stored once and referenced consistently; each model's material shown by the material it references); material/texture equality is an equivalence; GLB framing word by word; index width. Alignment clause false of the code: counterexample theorem + known finding; partial theorem under a guard.",
        note="SceneWF excludes accepted inputs: ragged attribute lengths / index ≥ vertex count (not well-formed meshes), ±Inf / VEC4-NaN data (json refuses), line/quad topologies (written as TRIANGLES; outside the property's quantifier). Trusted: Lean kernel; propext/Classical.choice/Quot.sound; the model Model/Gltf.lean and the harness's independent reader; Lean Float.toFloat32 vs Go float32(). Not modelled: JSON text, skins/animations, base64.",
        technique="Lean 4 proof over a hand-written state-machine model (invariants by induction over the model loop) + exact correspondence and theorem-predicate oracles on the implementation's output"),
    assumptions=["pointer identity of meshes/textures = position in the scene's heap (one immutable object per pointer during a write)",
                 "byte-typed (Joint) attribute values are integers in [0,255]"],
)
