from common import T_COMMON

CFG = dict(
    modules=["PolyVerif.Props.C06", "PolyVerif.Props.C06Scene"],
    # property theorems (audited); scene_* quantify over EVERY well-formed scene, gltf_* over every admissible write sequence
    theorems=["scene_inv", "scene_valid_low",
              "gltf_bytesWritten_eq_len", "gltf_views_tile", "gltf_accessor_fits", "gltf_minmax",
              "gltf_decode_image", "gltf_decode_indices", "gltf_index_width",
              "glb_frame_length", "glb_frame", "glb_frame_bin",
              "gltf_alignment_counterexample", "gltf_alignment_partial"],
    # helper lemmas the above rest on (kernel-checked with the module, not counted as obligations)
    helper_theorems=["leVal_leBytes", "decodeN_encodeComps", "isMinOf_fold", "isMaxOf_fold", "tiles_append", "tiles_inside",
                     "tiles_disjoint", "decodeAcc_append", "accOK_append", "accOK_new_vec", "boundsOK_vec", "inv_step", "inv_run",
                     "inv_addMesh", "inv_addInstances", "inv_addModel", "lowEq_addMaterial", "lowEq_addTexture"],
    streams=[dict(name="c06", n=dict(quick=150, thorough=15000))],
    trusted=T_COMMON + [
        "hand-written model PolyVerif/Model/Gltf.lean of formats/gltf/{writer,write,model,model_trackers}.go, tied by exact comparison of the parsed document, the buffer bytes and the GLB file bytes (stream c06)",
        "the harness's independent reader (own GLB framing, own structs + encoding/json, base64) and its canonical summary",
        "float64→float32 narrowing: Lean Float.toFloat32 in the driver vs Go float32(x), compared bit-for-bit through the buffer bytes",
        "colour factors roundFloat(c/65535,3) computed at Float in the model, compared bit-for-bit"],
    residue=[
        "scene-level lifting: the invariant theorems are proved for ANY admissible sequence of the exported low-level writes (WriteVector2/3/4, WriteIndices), which is what AddScene issues; that AddMesh/AddMaterial/AddTexture/AddScene issue exactly such a sequence and keep every mesh/material/texture/image/sampler/node reference in range (gltf_refs_in_range), the dedup laws (gltf_dedup_consistent), node TRS (gltf_node_trs) and extension declaration (gltf_extensions_declared) are NOT theorems: they are corresponded exactly (c06.doc) and checked by the oracles c06.holds.valid / decode / dedup on the implementation's output",
        "C06_alignment (full clause) is false of the code: gltf_alignment_counterexample; proved part gltf_alignment_partial (all vectors FLOAT, every index block a multiple of 4 bytes)",
        "glb_frame reads the fixed header words and the JSON chunk back from the bytes; the BIN chunk is stated structurally (drop (20+jl) = glbBinPart bin, by definition chunk header ++ buffer ++ zero padding) rather than through readFrame/frameOK",
        "bounds of data containing ±Inf (the writer's MaxFloat64 sentinel survives +Inf) and VEC4 data containing NaN: excluded by VecsOK; encoding/json refuses such documents (model: marshalOK), corresponded as 'err'",
        "JSON text layout; skins and animations; base64 (std); Float1 attributes (never written by AddMesh); material Extras; lights' payload beyond count/position; topologies other than triangle/point (written without a mode)"],
    assumptions=["pointer identity of meshes/textures = position in the scene's heap (one immutable object per pointer during a write)",
                 "byte-typed (Joint) attribute values are integers in [0,255]"],
)
