from common import T_COMMON

CFG = dict(
    gen=[dict(tool="facts", mode="c10.partition", out="Partition.lean")],
    theorems=["partition_exact_ScanPrimitives_Triangle", "partition_exact_ScanPrimitives_Point", "partition_exact_ScanPrimitives_LineStrip",
              "partition_exact_ScanFloat3", "partition_exact_ScanFloat2", "partition_exact_ScanFloat1",
              "partition_exact_ModifyFloat3", "partition_exact_ModifyFloat2", "partition_exact_ModifyFloat1",
              "sequential_exact_ScanPrimitives_Triangle", "sequential_exact_ScanPrimitives_Point", "sequential_exact_ScanPrimitives_LineStrip",
              "all_specs_exact", "control_flow", "workers_count",
              "primitiveCount_nonneg", "scan_primitives_exact_any_mesh", "emptystrip_witness",
              "interleaving_irrelevant", "interleaving_irrelevant_pair", "sequential_schedule_is_interleaving",
              "modify_parallel_eq_sequential_ModifyFloat3", "modify_parallel_eq_sequential_ModifyFloat2", "modify_parallel_eq_sequential_ModifyFloat1",
              "scan_multiset_ScanFloat3", "scan_multiset_ScanFloat2", "scan_multiset_ScanFloat1",
              "scan_multiset_ScanPrimitives_Triangle", "scan_multiset_ScanPrimitives_Point", "scan_multiset_ScanPrimitives_LineStrip",
              "blocks_disjoint_AddField", "blocks_disjoint_AddFieldParallel", "blocks_disjoint_AddFieldParallel2",
              "chunks_enumerated", "index_injective", "addfield_cells_distinct", "addFieldParallel_eq_addField",
              "append_perm_tris", "merge_keeps_all_tris"],
    # regeneration pins: rfl/decide equalities on extractor output (they fail to build when the extracted text changes;
    # they say nothing about behaviour by themselves) — built with the module, not counted as property theorems
    helper_theorems=["methods_covered (pin: the extractor found exactly the seven *ParallelWithPoolSize methods)",
                     "topologies_covered (pin: parallel and sequential primitive scan list the same three topologies)",
                     "block_workers_agree (pin: block loops are [start,end), local cell x-100c, buffer nesting z,y,x on both sides, sample args (x,y,z))"],
    streams=[dict(name="c10", n=dict(quick=40, thorough=0)),
             dict(name="c10m", n=dict(quick=6, thorough=40), timeout=dict(quick=600, thorough=3600))],
    extras=[dict(name="race-detector (go build -race; stream c10r; GOMAXPROCS 1,2,16)",
                 cmd=["bash", "harness/race_c10.sh", "{work}", "{seed}", "{tier}"],
                 tiers=["quick", "thorough"], timeout=900, kind="data-race-report")],
    trusted=T_COMMON + ["engine F extractor /verif/go/facts/c10.go (fails on any shape it does not understand)"],
    residue=["'on every thread schedule' is proved for the event-log model (atomic events, sequentially consistent memory, wg.Wait after all workers); that the Go code is such a program (no other shared writes) is checked by the race-detector extra, not proved",
             "'free of data races whenever the callback is': race-detector run with a mutex-protected recording callback (runtime)",
             "addFieldParallel_eq_addField is about the job model of Model/ParCanvas.lean: a cell is (block coordinate, index), i.e. distinct blocks own distinct arrays (in Go: section.positions assigns each block its own float1Data slot under chunkMutex — not modelled; the seeded 'claim under the mutex, append after re-locking' change is caught by the race detector and the harness, not by a theorem); for AddFieldParallel2 the calc phase (resultData[i] = sample of the i-th loop iteration, same z,y,x nesting as the merge) enters only through the pin block_workers_agree",
             "marchFloat1BlockPosition (same function in both variants) is not modelled; well-formedness of block meshes is a hypothesis of append_perm_tris",
             "WeldByFloat3Attribute after the merge keeps the first vertex of a 0.001-cell: representative depends on block order (for the sequential March too); harness compares exact positions on exact fields and weld cells on smooth fields",
             "job/result channel protocol of AddFieldParallel*/marchFloat1Parallel (each job taken once) and the NumCPU()==1 delegations are not modelled",
             "fieldBounds (float floor/ceil) not modelled: block theorems hold for all integer bounds; VectorInt.Sub assumed componentwise"],
    assumptions=["the element count of the primitive scans is Mesh.PrimitiveCount(): extracted and proved non-negative (primitiveCount_nonneg); the attribute scans' count is len(data) (a slice length); corpus witness for a negative count: EmptyMesh(LineStripTopology) before /repo 9e6522a (stream c10, note corpus:empty-linestrip; theorem emptystrip_witness)",
                 "int(math.Floor(float64(a)/float64(b))) is floor division (exact below 2^53); Go int modelled as unbounded Int (no overflow)",
                 "the user callback is a pure function of (index, value) in the model"],
    manifest=dict(
        text="Lean 4 theorems about expressions REGENERATED from the Go source on every run (engine F, go/ast; the extractor exits non-zero on any statement shape it does not understand) for the seven Mesh.*ParallelWithPoolSize methods, Mesh.PrimitiveCount / Topology.IndexSize, and the block jobs of marching/canvas.go. "
             "partition_exact_* (9 specs) / all_specs_exact: for every element count n and every pool size >= 1 the workers' visit lists, concatenated in worker order, are exactly 0..n-1 (incl. n < size, size does not divide n, n = 0). "
             "control_flow: from the guards in source order, every method panics iff size < 1, runs the sequential counterpart iff size = 1, enters the worker loop iff size >= 2 (workers_count: with `size` workers). "
             "primitiveCount_nonneg / scan_primitives_exact_any_mesh: the count the primitive scans partition is the regenerated PrimitiveCount expression, non-negative for every index count and topology (false before /repo 9e6522a; emptystrip_witness is that defect as a closed term: count -1, pool 4 gives callbacks -3, -2). "
             "interleaving_irrelevant, modify_parallel_eq_sequential_* (3), scan_multiset_* (6): in an event-log model where a schedule is ANY merge of the workers' logs preserving each worker's order, Modify leaves exactly the sequential loop's array and Scan delivers a permutation of the sequential (index, value) pairs, for all n, size >= 1, callbacks, schedules. "
             "blocks_disjoint_* (three functions, textually identical clamp expressions today), chunks_enumerated, index_injective: per axis the clamped block ranges partition the padded domain for all integer bounds; cells of a block are distinct. addFieldParallel_eq_addField (with addfield_cells_distinct): in a job model built from the regenerated expressions (one job per enumerated block, events = the read-modify-write cell updates of its triple loop, any update function), for every integer domain, every initial canvas and EVERY interleaving of the jobs, AddFieldParallel and AddFieldParallel2 leave exactly the canvas of the sequential AddField. append_perm_tris / merge_keeps_all_tris: appending well-formed block meshes in any order gives the same multiset of triangles-as-corner-positions. "
             "methods_covered, topologies_covered, block_workers_agree are regeneration pins (rfl/decide on extractor output), listed as helpers, not as property theorems. "
             "Tie: regeneration before every build; every parallel Mesh entry point run with recording callbacks for n <= 64 x pool -1..17 (thorough: all pairs; quick: 19 edge pairs + 40 sampled) on Triangle/Point/LineStrip meshes vs the model's visit lists, vs the sequential call (oracle same_output) and vs the property (oracle visits_exact), empty line strip first as corpus witness; marching canvases in three categories — placements over 1-8 storage blocks (negative block coordinates, axis-squashed shapes), seam-hugging shapes (surface within one cell of a block boundary so that one block holds values on one side of the cutoff only: per axis, corners, both orientations, inverted fields, cutoff 0/+-1/4 cell, cubesPerUnit 1/2/4/10), and accumulation histories (2-4 calls with overlapping domains on one canvas and attribute): AddFieldParallel/AddFieldParallel2 vs AddField as sample multisets and, after EACH call, cell for cell (canvas read with reflect/unsafe; oracle same_output), the whole history replayed by the Lean job model at Float (model line c10.accumulate, bit-exact for all three variants), MarchParallel vs March and marched variants as triangle multisets (oracle same_tri_multiset); -race build of stream c10r at GOMAXPROCS 1/2/16 in both tiers.",
        note="Trusted: Lean kernel + propext/Quot.sound/Classical.choice; the extractor (go/facts/c10*.go); the harness; the Go race detector. Modelled, not proved about Go: int(math.Floor(float64(a)/float64(b))) as floor division (exact below 2^53), Go int as unbounded Int, callbacks as pure functions. "
             "Runtime residue: 'on every thread schedule' and 'race-free whenever the callback is' are theorems about the event-log model; that the Go code is such a program (no other shared writes, wg.Wait after all workers, channel protocol of the block jobs) is the race detector's verdict on the runs made. "
             "addFieldParallel_eq_addField is about a job model in which a cell is (block coordinate, index): that distinct blocks own distinct arrays (slot allocation under chunkMutex) and the calc phase of AddFieldParallel2 are not modelled. Not modelled: marchFloat1BlockPosition (same function in both variants), fieldBounds float rounding, the NumCPU()==1 delegations; the weld after the merge is compared on weld cells for smooth fields because its representative choice depends on block order for the sequential March as well.",
        technique="Lean 4 proof over partition / block-range expressions regenerated from the Go AST + inductive interleaving model of schedules; exhaustive small-space correspondence with compiled oracles; race detector for the runtime residue"),
    rule="one evaluation = one request line answered by the Go implementation and the Lean model/oracle; stream c10: per (n, size) pair 29 lines over 9 specs; stream c10m: placement canvas 5 oracle lines (2 sample multisets, 3 triangle multisets), seam canvas 3 (2 sample multisets, 1 triangle multiset), history canvas 4 per call (samples + cells for 2 variants) + 3 model lines c10.accumulate + 1 triangle multiset",
)
