from common import T_COMMON

CFG = dict(
    gen=[dict(tool="facts", mode="c10.partition", out="Partition.lean")],
    theorems=["partition_exact_ScanPrimitives_Triangle", "partition_exact_ScanPrimitives_Point", "partition_exact_ScanPrimitives_LineStrip",
              "partition_exact_ScanFloat3", "partition_exact_ScanFloat2", "partition_exact_ScanFloat1",
              "partition_exact_ModifyFloat3", "partition_exact_ModifyFloat2", "partition_exact_ModifyFloat1",
              "sequential_exact_ScanPrimitives_Triangle", "sequential_exact_ScanPrimitives_Point", "sequential_exact_ScanPrimitives_LineStrip",
              "methods_covered", "topologies_covered", "all_specs_exact", "guards",
              "interleaving_irrelevant", "interleaving_irrelevant_pair", "sequential_schedule_is_interleaving",
              "modify_parallel_eq_sequential_ModifyFloat3", "modify_parallel_eq_sequential_ModifyFloat2", "modify_parallel_eq_sequential_ModifyFloat1",
              "scan_multiset_ScanFloat3", "scan_multiset_ScanFloat2", "scan_multiset_ScanFloat1",
              "scan_multiset_ScanPrimitives_Triangle", "scan_multiset_ScanPrimitives_Point", "scan_multiset_ScanPrimitives_LineStrip",
              "blocks_disjoint_AddField", "blocks_disjoint_AddFieldParallel", "blocks_disjoint_AddFieldParallel2",
              "chunks_enumerated", "index_injective", "block_workers_agree", "append_perm_tris", "merge_keeps_all_tris"],
    streams=[dict(name="c10", n=dict(quick=40, thorough=0)),
             dict(name="c10m", n=dict(quick=6, thorough=40), timeout=dict(quick=600, thorough=3600))],
    extras=[dict(name="race-detector (go build -race; stream c10r; GOMAXPROCS 1,2,16)",
                 cmd=["bash", "harness/race_c10.sh", "{work}", "{seed}", "{tier}"],
                 tiers=["quick", "thorough"], timeout=900, kind="data-race-report")],
    trusted=T_COMMON + ["engine F extractor /verif/go/facts/c10.go (fails on any shape it does not understand)"],
    residue=[],
    assumptions=[],
)
