from common import T_COMMON

CFG = dict(
    gen=[dict(tool="facts", mode="c15.splatply", out="SplatPlyTable.lean")],
    theorems=["splat_roundtrip_count_order", "splat_record_bits_exact", "splat_position_exact", "splat_position_exact_f32",
              "splat_scale_log_f32_exp", "splat_scale_exact",
              "splat_color_step", "splat_color_step_fdc", "splat_opacity_step", "splat_rotation_step", "splat_rotation_wraps",
              "sign_extend_24", "spz_fixed_point_value", "spz_decode_refEncode", "spz_lengths", "splatply_table_matches"],
    streams=[dict(name="c15", n=dict(quick=150, thorough=6000),
                  ulps={"c15.splat.readlog": (4, 0.0)})],
    trusted=T_COMMON + ["exp/log: the model treats them as opaque functions; the driver takes exp from a table of the implementation's own math.Exp values and compares log-derived outputs within 4 ulps of libm",
                        "float32 narrowing/widening: Lean Float.toFloat32/Float32.toFloat (IEEE round-to-nearest-even) vs Go float32()/float64()",
                        "encoding/binary little-endian, compress/gzip, io.ReadFull"],
    residue=["float rounding of exp/log/sigmoid (scales 'equal up to float32 rounding of exp/log' is observed by the oracle within 1.2e-7, not proved)",
             "PLY splat export: splatply_table_matches (regenerated tables: each splat attribute is written as float under exactly the names the default reader loads it from) + oracle c15.holds.splatply; the PLY codec round trip itself is C04's theorem, not re-proved here",
             "the step theorems are over the reals with byte() = integer part; IEEE rounding of c*SH_C0+0.5 etc. is not modelled",
             "opacity step is stated in the stored (sigmoid) domain, not through the logit",
             "point clouds whose index buffer is not the identity (Write uses positions 0..count-1)"],
    assumptions=["byte(x) on 0 <= x < 256 truncates toward zero (Go spec for in-range float->integer conversion)"],
    manifest=dict(
        text="Lean 4 theorems about models of formats/splat and formats/spz: .splat write->read returns the same number of splats in order for every cloud (induction over records), every 32-byte record round-trips bit for bit (positions = the stored float32 exactly), scale = log(float32(exp s)), and over the reals (byte() = integer part) colour and opacity come back within 1/255 in the stored domain (colours clamped), rotation within 1/128 for every component in [-1,1] INCLUDING 1 (with the closed witness that the un-clamped encoder sends 1 to -1); SPZ: 24-bit sign extension on BitVec 32 for all byte triples (kernel-checked, no SAT certificate), coordinate = value/2^fb, and for every valid header (version 1-2, SH degree 0-3, any fractional-bit count) and EVERY byte pattern, decoding a stream built by a reference encoder written from the published layout yields for splat i exactly the dequantisation of record i with all attribute arrays of the declared length (planar strides, half-float and fixed-point positions, per-point SH interleaving), plus the payload length formula. Tie: byte-exact splat.Write vs model (exp supplied as a table of math.Exp values), splat.Read and spz.Read(gzip(stream)) vs model bit for bit on arbitrary byte patterns, and the theorem predicates (step bounds, splat i = dequant(record i), PLY splat export = float32 rounding) evaluated on the implementation's outputs.",
        note="Trusted: Lean kernel + 3 standard axioms; harness incl. its reference SPZ encoder; Lean Float32 conversions vs Go; gzip. Not proved: float rounding of exp/log/sigmoid (scale tolerance observed by the oracle), the PLY splat export (oracle only; PLY codec is C04), halfToFloat vs IEEE binary16 (transcribed, tied bit for bit). Observation: fractionalBits >= 63 makes Go's 1<<fb wrap (mirrored by the model; value/2^fb stated for fb <= 62).",
        technique="Lean 4 proof (record-list induction, real-number quantisation bounds, BitVec sign extension, planar-index lemmas against a reference encoder) + bit-exact correspondence on arbitrary byte patterns + compiled oracles"),
)
