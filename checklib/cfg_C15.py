from common import T_COMMON

CFG = dict(
    theorems=["splat_roundtrip_count_order", "splat_record_bits_exact", "splat_position_exact", "splat_position_exact_f32",
              "splat_scale_log_f32_exp", "splat_scale_exact",
              "splat_color_step", "splat_color_step_fdc", "splat_opacity_step", "splat_rotation_step", "splat_rotation_wraps",
              "sign_extend_24", "spz_fixed_point_value", "spz_decode_refEncode", "spz_lengths"],
    streams=[dict(name="c15", n=dict(quick=150, thorough=6000),
                  ulps={"c15.splat.readlog": (4, 0.0)})],
    trusted=T_COMMON + ["exp/log: the model treats them as opaque functions; the driver takes exp from a table of the implementation's own math.Exp values and compares log-derived outputs within 4 ulps of libm",
                        "float32 narrowing/widening: Lean Float.toFloat32/Float32.toFloat (IEEE round-to-nearest-even) vs Go float32()/float64()",
                        "encoding/binary little-endian, compress/gzip, io.ReadFull"],
    residue=["float rounding of exp/log/sigmoid (scales 'equal up to float32 rounding of exp/log' is observed by the oracle within 1.2e-7, not proved)",
             "the step theorems are over the reals with byte() = integer part; IEEE rounding of c*SH_C0+0.5 etc. is not modelled",
             "opacity step is stated in the stored (sigmoid) domain, not through the logit",
             "point clouds whose index buffer is not the identity (Write uses positions 0..count-1)"],
    assumptions=["byte(x) on 0 <= x < 256 truncates toward zero (Go spec for in-range float->integer conversion)"],
)
