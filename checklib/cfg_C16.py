from common import T_COMMON

CFG = dict(
    gen=[dict(spec="transform.json", out="Transform.lean")],
    theorems=["aabb_lower_bound", "aabb_contains_mono", "aabb_distance_mono", "slab_mono", "aabb_encapsulate_contains",
              "pruned_eq_scan", "containing_eq_scan_generic",
              "containing_eq_scan", "withinRange_eq_scan", "rayElements_eq_scan",
              "closest_eq_scan_generic", "seg_cp_cases", "prim_closest_in_box", "closest_eq_scan",
              "prim_box_wf", "build_covers", "octree_queries_eq_scan_of_input"],
    streams=[dict(name="c16", n=dict(quick=120, thorough=4000))],
    trusted=T_COMMON,
    residue=[],
    assumptions=["float64 arithmetic in Go on amd64 is IEEE-754 without FMA contraction"],
)
