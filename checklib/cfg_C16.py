from common import T_COMMON

CFG = dict(
    gen=[dict(spec="transform.json", out="Transform.lean"), dict(spec="trees.json", out="Trees.lean"),
         dict(spec="render.json", out="Render.lean")],
    modules=["PolyVerif.Props.C16", "PolyVerif.Props.C16Prims", "PolyVerif.Props.C16Mesh", "PolyVerif.Props.C16TreeHit", "PolyVerif.Props.C16Slab"],
    theorems=[
        # geometry facts about the regenerated AABB code / the hand-modelled slab test (over ℝ)
        "aabb_lower_bound", "aabb_contains_mono", "aabb_distance_mono", "slab_mono", "slab_sound", "aabb_encapsulate_contains",
        # Props/C16Slab.lean: hand slab model vs the regenerated slab test
        "PolyVerif.Tree.slabArith_eq_gen", "PolyVerif.Tree.slabFold_eq_gen", "PolyVerif.Tree.intersectsRayInRange_eq_slabFold", "PolyVerif.Tree.intersectsRayInRange_eq_gen",
        "PolyVerif.Tree.SlabGen.epsGap_pos", "PolyVerif.Tree.SlabGen.gen_eq_hand_grow", "PolyVerif.Tree.SlabGen.slab_mono_gen", "PolyVerif.Tree.SlabGen.slab_sound_gen",
        "seg_cp_cases", "tri_closest_in_box", "prim_closest_in_box", "prim_box_wf",
        # pruned queries = exhaustive scan for EVERY tree with the invariant
        "pruned_eq_scan", "containing_eq_scan_generic",
        "containing_eq_scan", "withinRange_eq_scan", "rayElements_eq_scan", "traverse_visits_all_hits",
        "traverse_monotone_callback",
        # the on-face corner of the slab test under the other IEEE outcome (+0)
        "slab_mono_posZero", "slab_posZero_of_negZero", "rayElements_eq_scan_posZero",
        # best-first closest point
        "closest_eq_scan_generic", "closest_eq_scan", "octree_closest_eq_scan_of_input",
        # newOctree establishes the invariant: every element list, every depth
        "build_covers", "octree_queries_eq_scan_of_input",
        # BVH
        "bvh_hit_eq_list", "bvh_hit_eq_list_aabb", "hitlist_nearest", "bvh_hit_eq_hitlist_any_order",
        "bvh_build_covers", "bvh_built_hit_eq_hitlist", "octree_hit_eq_hitlist",
        # round 2 (Props/C16Prims.lean): the real primitives are hit only inside their boxes; BVH = HitList without primitive hypothesis
        "sphere_hit_on_sphere", "sphere_hit_in_box", "between_linear", "rect_hit_in_box", "rayIntersectsTri_in_box", "tri_hit_in_box",
        "prim_hit_in_box", "prim_hit_slab", "prim_first_hit", "bvh_hit_eq_list_strict", "prims_bvh_hit_eq_hitlist",
        "prims_bvh_built_hit_eq_hitlist", "slab_rejects_point_range", "bvh_differs_on_point_range",
        # round 2 (Props/C16Mesh.lean): rendering.Mesh.Hit / Hit2 through the octree = the exhaustive triangle loop
        "traverse_foldl_eq_pruned", "meshHit_eq_meshHit2", "mesh_hit_eq_hitlist", "mesh_built_hit_eq_hitlist",
        # round 2 (Props/C16TreeHit.lean): rendering.Tree.Hit (octree over the items' boxes) = HitList.Hit for real primitives
        "tree_built_hit_eq_hitlist",
    ],
    helper_theorems=["sphereHit_eq", "rectHit_eq", "rayIntersectsTri_eq", "prim_box_wf'", "listHit_guard", "listHit_congr_on", "listHit_map", "mkElems_lookup"],
    streams=[dict(name="c16", n=dict(quick=150, thorough=6000)),
             dict(name="c16prims", n=dict(quick=400, thorough=20000)),
             dict(name="c16more", n=dict(quick=120, thorough=5000))],
    trusted=T_COMMON + [
        "Model/RenderPrims.lean is a hand transcription of the arithmetic of Sphere.Hit/BoundingBox, XYRectangle.Hit/BoundingBox, rayIntersectsTri, "
        "Triangle.Hit, Mesh.Hit/Hit2, Tree.Hit (rendering/*.go; Model/RenderTree.lean); tied by bit-exact correspondence (stream c16prims: flag, Distance, Point, box)",
        "Model/Tree.lean is a hand transcription of trees/octree.go, rendering/bvh.go, rendering/hit.go and of "
        "AABB.IntersectsRayInRange (pointer-based helper); tied by bit-exact correspondence of bounds, visit order of every "
        "query result and closest point on points / line strips / boxes (Float run of the same definitions)",
        "Go container/heap (which of several equal keys is popped is unspecified; modelled as first-minimal)",
        "math.Log vs libm log in OctreeDepthFromCount: the automatic depth is compared for every count 0..300",
    ],
    residue=[
        "IEEE-754 rounding: theorems are over ℝ. At float64 a box stores centre/extents, so Min()/Max() are rounded; the octree "
        "compensates with the widening loop of newOctree (modelled; a no-op over ℝ). That the float tree satisfies Covers is "
        "observed (oracles at element vertices/box corners, corpus case), not proved",
        "an element's ClosestPoint may lie an ulp outside its own float box, so at float64 ClosestPoint can return an element that is "
        "not the nearest by less than rounding: the oracle compares by distance with relative tolerance 1e-9 (ties aside)",
        "degenerate (zero-area) triangles and boxes with negative extents are excluded by hypothesis in prim_closest_in_box / "
        "octree_closest_eq_scan_of_input (the code divides by the normal's length for such triangles: NaN)",
        "BVH / rendering primitives (round 2): the primitive contract is now PROVED for rendering.Sphere (NewSphere, and NewAnimatedSphere whose "
        "centre at the ray's time lies coordinatewise between the centres at the BVH's start and end time; radius >= 0), XYRectangle (ray not "
        "parallel to its plane) and Triangle (minDistance = 0), for unit-direction rays: Point = ray.At(Distance), inside BoundingBox(), Distance "
        "within the range, first hit reported exactly when within the range — about Model/RenderPrims.lean, a hand transcription of the Hit / "
        "BoundingBox arithmetic (the methods store through *HitRecord with interface- and map-typed fields: outside the translator's subset; the "
        "rays ARE regenerated: Gen/Render.lean), tied by the bit-exact c16.prim.* lines. Remaining: (a) KNOWN FINDING C16-bvh-point-range (known_findings.json; a genuine violation of the "
        "property on a degenerate query, recorded, not repaired): ranges of a single point min = max — bvh_differs_on_point_range proves HitList "
        "hits and a BVH node misses (the slab test rejects every [m,m]: slab_rejects_point_range); replayed on the real code on EVERY run by the "
        "witness oracle c16.holds.bvh_point_range_witness (unit sphere, ray (0,0,-5)->+z, range [4,4]: HitList true at 4, BVHNode false), which "
        "prints KNOWN-FINDING; the random generators route no min = max range to an agreement oracle; (b) triangles with minDistance != 0 (mesh.go:53 compares "
        "the distance from ray.At(min) with max); (c) animated spheres outside the hypothesis (non-linear animation, ray time outside "
        "[start,end]: the source's own TODO in Sphere.BoundingBox), negative radius, rays whose direction is not of unit length (NewTemporalRay "
        "normalises; a zero vector gives NaN), rectangle rays with direction.z = 0 (Go: +-Inf -> miss; origin in the plane: NaN distance "
        "reported as a hit); (d) a multi-object NewBVHTree still has no model-vs-impl line (random axis), one-object nodes do (c16.prim.*), and so does "
        "rendering.Tree (NewBVH, deterministic: c16.tree.hit; theorem tree_built_hit_eq_hitlist); "
        "(e) the Normal / UV / Material / FrontFace fields of the HitRecord are not modelled (Distance and Point are)",
        "the slab test is now REGENERATED (Gen/Render.lean: AABB.intersectsRayInRangeComponent, AABB.IntersectsRayInRange; translator feature: "
        "*float64 out-parameters threaded as a result tuple). Props/C16Slab.lean: the hand arithmetic of one slab IS the regenerated component "
        "function at every scalar (slabArith_eq_gen); the regenerated three-axis test is the composition of slabArith with the source's float64 "
        "kEpsilon (slabFold_eq_gen); the hand model of the whole test is the same composition with kEps = 1e-10 when no direction component is "
        "zero (intersectsRayInRange_eq_slabFold). slab_mono_gen / slab_sound_gen (Props/C16Slab.lean) carry slab_mono / slab_sound over to the REGENERATED IntersectsRayInRange over R "
        "for rays with no zero direction component: over R the regenerated code widens by the exact rational of the float64 kEpsilon (7737125245533627/2^86 = "
        "kEps + 3.6e-27), which is the hand model on the box grown by that gap (gen_eq_hand_grow). REMAINS: the octree / BVH theorems are still "
        "instantiated with the hand model; for ZERO direction components the hand model spells out the IEEE outcome of 1/±0, which the real "
        "reading of the source expression (1/0 = 0) cannot express — no theorem about the regenerated definition there; at Float hand model = regenerated function = Go is checked "
        "on every c16.aabb.ray line (the driver evaluates both and prints a mismatch marker if they differ)",
        "zero direction components: the slab model makes the IEEE outcome of 1/±0 explicit (origin strictly inside the widened slab: range "
        "unchanged; strictly outside: reject), so slab_mono / slab_sound and every ray theorem cover axis-parallel rays. The corner 'origin "
        "EXACTLY on a widened face with a zero component' (Go: 0*Inf = NaN; accepted for +0, rejected for -0) is covered under BOTH outcomes: "
        "intersectsRayInRange is the -0 reading, intersectsRayInRangePos the +0 reading (Lemmas/Tree.lean, ℝ only), both monotone in the box "
        "(slab_mono, slab_mono_posZero), tree = scan for both (rayElements_eq_scan, rayElements_eq_scan_posZero); which of the two a given "
        "ray gets is decided by the sign bit of its zero component, which the real-number model does not carry; the Float model reproduces "
        "both bit-for-bit (c16.aabb.ray: both signs of zero, origins exactly on the face). The other ray theorems (traverse, BVH, octree hit) "
        "are stated for the -0 reading; their proofs use only monotonicity, which slab_mono_posZero supplies for the +0 reading",
        "a zero-length segment (Go: division by the length 0, NaN closest point) is excluded by hypothesis (prim_closest_in_box, "
        "octree_closest_eq_scan_of_input) and by the generator (consecutive line-strip vertices are distinct)",
        "TraverseIntersectingRay: traverse_visits_all_hits covers callbacks that leave *min/*max alone (this includes rendering.Mesh.Hit, whose "
        "callback only shortens its own captured max); traverse_monotone_callback covers callbacks that move the range only INTO the current "
        "range and not inside a floor range r*: visited ⊆ scan(initial range), scan(r*) ⊆ visited. Callbacks that widen the range are "
        "modelled (Oct.traverse) but no theorem is stated for them. rendering.Mesh.Hit / Hit2 (round 2): mesh_hit_eq_hitlist / mesh_built_hit_eq_hitlist "
        "prove flag and distance equal to the exhaustive triangle loop for minDistance = 0 (model meshHit / meshHit2 tied by c16.mesh.hit); "
        "the interpolated normal / UV of Mesh.Hit are not modelled",
        "negative maxDepth (unbounded recursion on coincident elements in Go) is outside the model: depth is a natural number",
    ],
    assumptions=["float64 arithmetic in Go on amd64 is IEEE-754 without FMA contraction"],
    manifest=dict(
        text="Lean 4 theorems over ℝ. Geometry facts about the AABB/plane code regenerated from source and the hand-modelled slab test "
             "(IEEE outcome of a zero direction component made explicit, so axis-parallel rays are covered): closest-point lower bound, "
             "containment / distance / slab test monotone in the box, slab test sound (ray point inside the box within a non-empty range ⇒ accepted), "
             "an element's closest point lies in its own box (points, non-degenerate segments, well-formed boxes, non-degenerate triangles — "
             "triangles by a barycentric argument on the fixed PointInSide). For EVERY tree whose node boxes cover their elements: the pruned "
             "queries (containing point, within range, ray, traverse with a range-preserving callback) equal the exhaustive scan (same elements, "
             "same order); traverse with a monotone range-shortening callback is sandwiched between the scans for the initial and the floor range; best-first ClosestPoint returns a distance minimiser and that element's closest point (ties: any minimiser). "
             "build_covers: for every element list and every depth incl. 0 and automatic, newOctree (octant assignment, depth cut-off, single-child "
             "collapse, widening loop) builds a covering tree storing a permutation of the input; hence end-to-end equality with the scan over the "
             "input. BVH: Hit = HitList.Hit (flag and nearest distance) for every covering tree and any list order; NewBVHTree builds a covering "
             "tree for every axis choice and sort outcome; nearest hit through the octree = hit list — these for abstract primitives that hit only "
             "where the slab test accepts their box and report their first hit exactly when within the range. Round 2: that contract is a theorem for "
             "the real primitives — rendering.Sphere (static / linearly animated), XYRectangle, Triangle (Möller–Trumbore = Cramer's rule): hit point = "
             "ray.At(Distance) lies inside BoundingBox(), Distance in range, first hit reported iff within range — so BVHNode.Hit = HitList.Hit on every "
             "covering tree and on the tree NewBVHTree builds from any list of them, for every non-empty range (unit-direction ray; minDistance = 0 with "
             "triangles), no primitive hypothesis; the point range [m,m] is proved to differ. rendering.Mesh.Hit and Hit2 (octree of triangles) = the "
             "exhaustive triangle loop on the built octree; rendering.Tree.Hit (octree over the items' boxes) = HitList.Hit on the built octree. Tie: AABB/plane code regenerated by the "
             "translator; the Lean model run at Float on the same bits reproduces the real octree's root bounds, visit order of every query answer, "
             "closest element/distance/point and the slab test exactly (points, line strips, boxes, triangles; depths 0–6 and automatic; queries "
             "inside, outside, exactly on element vertices; axis-parallel rays incl. origins exactly on the widened face, both signs of zero). "
             "Primitives and Mesh: Hit / BoundingBox of spheres, rectangles, one-triangle BVH nodes, one-object NewBVHTree nodes, Mesh.Hit / Hit2 and Tree.Hit "
             "reproduced bit-for-bit by Model/RenderPrims.lean (stream c16prims). Stream c16more: radius queries with the radius exactly an element's "
             "distance / its float neighbours / negative / underflowing / 0; animated spheres in BVHs built over non-trivial time intervals with rays at random "
             "times; BoundingBox asked repeatedly with different intervals on the same object (history class). Oracles: the real octree's answers against an exhaustive scan done by the Go harness through the same trees.Element interfaces "
             "(both id lists computed in Go, compared by the driver); rendering BVHNode.Hit / Mesh.Hit / Tree.Hit vs HitList.Hit and vs the "
             "per-primitive scan on triangles and spheres (minDistance = 0).",
        note="Trusted: Lean kernel + propext/Classical.choice/Quot.sound; translator; harness; hand transcription of octree.go / bvh.go / hit.go / the slab "
             "helper (tied bit-for-bit). Not proved: floating-point rounding (that the float tree satisfies Covers is observed; closest-element identity "
             "is compared by distance with relative tolerance 1e-9: ties aside); the primitive contract outside its proved domain (triangles with "
             "minDistance != 0, non-linear sphere animation, point ranges min = max — KNOWN FINDING C16-bvh-point-range: proved to differ, witnessed on the real code on every run by c16.holds.bvh_point_range_witness, recorded not repaired); a multi-object BVH has no model-vs-impl line (random shape). Corner: a ray with a zero "
             "direction component whose origin lies EXACTLY on a box's ε-widened face is sign-of-zero dependent in Go (NaN): both outcomes are "
             "covered by theorems (-0 reading = the model; +0 reading = intersectsRayInRangePos), the sign bit itself is not modelled over ℝ. Excluded by hypothesis: zero-length segments, zero-area triangles, boxes with negative extents, negative depth.",
        technique="Lean 4 proof (structural induction over covering trees, best-first search invariant, build invariant, barycentric argument) over "
                  "regenerated geometry + bit-exact Float correspondence of the hand model + exhaustive-scan oracles"),
)
