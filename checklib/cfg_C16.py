from common import T_COMMON

CFG = dict(
    gen=[dict(spec="transform.json", out="Transform.lean"), dict(spec="trees.json", out="Trees.lean")],
    theorems=[
        # geometry facts about the regenerated AABB code / the hand-modelled slab test (over ℝ)
        "aabb_lower_bound", "aabb_contains_mono", "aabb_distance_mono", "slab_mono", "slab_sound", "aabb_encapsulate_contains",
        "seg_cp_cases", "tri_closest_in_box", "prim_closest_in_box", "prim_box_wf",
        # pruned queries = exhaustive scan for EVERY tree with the invariant
        "pruned_eq_scan", "containing_eq_scan_generic",
        "containing_eq_scan", "withinRange_eq_scan", "rayElements_eq_scan", "traverse_visits_all_hits",
        # best-first closest point
        "closest_eq_scan_generic", "closest_eq_scan", "octree_closest_eq_scan_of_input",
        # newOctree establishes the invariant: every element list, every depth
        "build_covers", "octree_queries_eq_scan_of_input",
        # BVH
        "bvh_hit_eq_list", "bvh_hit_eq_list_aabb", "hitlist_nearest", "bvh_hit_eq_hitlist_any_order",
        "bvh_build_covers", "bvh_built_hit_eq_hitlist", "octree_hit_eq_hitlist",
    ],
    streams=[dict(name="c16", n=dict(quick=150, thorough=6000))],
    trusted=T_COMMON + [
        "Model/Tree.lean is a hand transcription of trees/octree.go, rendering/bvh.go, rendering/hit.go and of "
        "AABB.IntersectsRayInRange (pointer-based helper); tied by bit-exact correspondence of bounds, visit order of every "
        "query result and closest point on points / line strips / boxes (Float run of the same definitions)",
        "Go container/heap (which of several equal keys is popped is unspecified; modelled as first-minimal)",
        "math.Log vs libm log in OctreeDepthFromCount: the automatic depth is compared for every count 0..300",
    ],
    residue=[
        "IEEE-754 rounding: theorems are over ℝ. At float64 a box stores centre/extents, so Min()/Max() are rounded; the octree "
        "compensates with the widening loop of newOctree (modelled; a no-op over ℝ). That the float tree satisfies Covers is "
        "observed (oracles at element vertices/box corners, corpus case), not proved",
        "an element's ClosestPoint may lie an ulp outside its own float box, so at float64 ClosestPoint can return an element that is "
        "not the nearest by less than rounding: the oracle compares by distance with relative tolerance 1e-9 (ties aside)",
        "degenerate (zero-area) triangles and boxes with negative extents are excluded by hypothesis in prim_closest_in_box / "
        "octree_closest_eq_scan_of_input (the code divides by the normal's length for such triangles: NaN)",
        "BVH: theorems hold for every tree satisfying BInv (boxes cover; NewBVHTree establishes it: bvh_build_covers) and for primitives "
        "whose Hit reports the first hit exactly when it is within the range, and only where the slab test accepts their box "
        "(slab_sound: true whenever the hit point is in the box, range non-empty, no zero direction component); that rendering.Triangle / "
        "Sphere satisfy this contract is not proved (ray-triangle / ray-sphere arithmetic is not modelled) — checked by the oracles "
        "c16.holds.bvh / bvh_scan; the BVH itself has no model-vs-impl line (its shape is random), only oracles. "
        "The triangle Hit compares the distance from ray.At(min) with max (rendering/mesh.go:53), so the contract holds for "
        "min = 0 only; the harness uses min = 0 for rendering",
        "slab test over ℝ uses Lean's x/0 = 0 for axis-parallel rays, where Go relies on ±Inf/NaN: slab_mono is about the "
        "real-number reading; axis-parallel rays are exercised by correspondence (c16.aabb.ray, grid/planar sets)",
        "TraverseIntersectingRay: the theorem (traverse_visits_all_hits) covers callbacks that leave *min/*max alone — which includes "
        "rendering.Mesh.Hit, whose callback only shortens its own captured max; callbacks that write through the pointers are modelled "
        "(Oct.traverse) but no theorem is stated for them. rendering.Mesh.Hit as a whole is checked by the oracle `octmesh` vs HitList",
        "negative maxDepth (unbounded recursion on coincident elements in Go) is outside the model: depth is a natural number",
    ],
    assumptions=["float64 arithmetic in Go on amd64 is IEEE-754 without FMA contraction"],
)
