from common import T_COMMON

CFG = dict(
    gen=[dict(spec="transform.json", out="Transform.lean"), dict(spec="trees.json", out="Trees.lean"),
         dict(spec="render.json", out="Render.lean")],
    modules=["PolyVerif.Props.C16", "PolyVerif.Props.C16Prims", "PolyVerif.Props.C16Mesh"],
    theorems=[
        # geometry facts about the regenerated AABB code / the hand-modelled slab test (over ℝ)
        "aabb_lower_bound", "aabb_contains_mono", "aabb_distance_mono", "slab_mono", "slab_sound", "aabb_encapsulate_contains",
        "seg_cp_cases", "tri_closest_in_box", "prim_closest_in_box", "prim_box_wf",
        # pruned queries = exhaustive scan for EVERY tree with the invariant
        "pruned_eq_scan", "containing_eq_scan_generic",
        "containing_eq_scan", "withinRange_eq_scan", "rayElements_eq_scan", "traverse_visits_all_hits",
        "traverse_monotone_callback",
        # the on-face corner of the slab test under the other IEEE outcome (+0)
        "slab_mono_posZero", "slab_posZero_of_negZero", "rayElements_eq_scan_posZero",
        # best-first closest point
        "closest_eq_scan_generic", "closest_eq_scan", "octree_closest_eq_scan_of_input",
        # newOctree establishes the invariant: every element list, every depth
        "build_covers", "octree_queries_eq_scan_of_input",
        # BVH
        "bvh_hit_eq_list", "bvh_hit_eq_list_aabb", "hitlist_nearest", "bvh_hit_eq_hitlist_any_order",
        "bvh_build_covers", "bvh_built_hit_eq_hitlist", "octree_hit_eq_hitlist",
        # round 2 (Props/C16Prims.lean): the real primitives are hit only inside their boxes; BVH = HitList without primitive hypothesis
        "sphere_hit_on_sphere", "sphere_hit_in_box", "rect_hit_in_box", "rayIntersectsTri_in_box", "tri_hit_in_box",
        "prim_hit_in_box", "prim_hit_slab", "prim_first_hit", "bvh_hit_eq_list_strict", "prims_bvh_hit_eq_hitlist",
        "prims_bvh_built_hit_eq_hitlist", "slab_rejects_point_range", "bvh_differs_on_point_range",
        # round 2 (Props/C16Mesh.lean): rendering.Mesh.Hit / Hit2 through the octree = the exhaustive triangle loop
        "traverse_foldl_eq_pruned", "meshHit_eq_meshHit2", "mesh_hit_eq_hitlist", "mesh_built_hit_eq_hitlist",
    ],
    helper_theorems=["sphereHit_eq", "rectHit_eq", "rayIntersectsTri_eq", "prim_box_wf'", "listHit_guard", "listHit_congr_on"],
    streams=[dict(name="c16", n=dict(quick=150, thorough=6000)),
             dict(name="c16prims", n=dict(quick=400, thorough=20000))],
    trusted=T_COMMON + [
        "Model/Tree.lean is a hand transcription of trees/octree.go, rendering/bvh.go, rendering/hit.go and of "
        "AABB.IntersectsRayInRange (pointer-based helper); tied by bit-exact correspondence of bounds, visit order of every "
        "query result and closest point on points / line strips / boxes (Float run of the same definitions)",
        "Go container/heap (which of several equal keys is popped is unspecified; modelled as first-minimal)",
        "math.Log vs libm log in OctreeDepthFromCount: the automatic depth is compared for every count 0..300",
    ],
    residue=[
        "IEEE-754 rounding: theorems are over ℝ. At float64 a box stores centre/extents, so Min()/Max() are rounded; the octree "
        "compensates with the widening loop of newOctree (modelled; a no-op over ℝ). That the float tree satisfies Covers is "
        "observed (oracles at element vertices/box corners, corpus case), not proved",
        "an element's ClosestPoint may lie an ulp outside its own float box, so at float64 ClosestPoint can return an element that is "
        "not the nearest by less than rounding: the oracle compares by distance with relative tolerance 1e-9 (ties aside)",
        "degenerate (zero-area) triangles and boxes with negative extents are excluded by hypothesis in prim_closest_in_box / "
        "octree_closest_eq_scan_of_input (the code divides by the normal's length for such triangles: NaN)",
        "BVH: theorems hold for every tree satisfying BInv (boxes cover; NewBVHTree establishes it: bvh_build_covers) and for primitives "
        "whose Hit reports the first hit exactly when it is within the range, and only where the slab test accepts their box "
        "(slab_sound: true whenever the hit point is in the box, range non-empty, no zero direction component); that rendering.Triangle / "
        "Sphere satisfy this contract is not proved (ray-triangle / ray-sphere arithmetic is not modelled) — checked by the oracles "
        "c16.holds.bvh / bvh_scan; the BVH itself has no model-vs-impl line (its shape is random), only oracles. "
        "The triangle Hit compares the distance from ray.At(min) with max (rendering/mesh.go:53), so the contract holds for "
        "min = 0 only; the harness uses min = 0 for rendering",
        "zero direction components: the slab model makes the IEEE outcome of 1/±0 explicit (origin strictly inside the widened slab: range "
        "unchanged; strictly outside: reject), so slab_mono / slab_sound and every ray theorem cover axis-parallel rays. The corner 'origin "
        "EXACTLY on a widened face with a zero component' (Go: 0*Inf = NaN; accepted for +0, rejected for -0) is covered under BOTH outcomes: "
        "intersectsRayInRange is the -0 reading, intersectsRayInRangePos the +0 reading (Lemmas/Tree.lean, ℝ only), both monotone in the box "
        "(slab_mono, slab_mono_posZero), tree = scan for both (rayElements_eq_scan, rayElements_eq_scan_posZero); which of the two a given "
        "ray gets is decided by the sign bit of its zero component, which the real-number model does not carry; the Float model reproduces "
        "both bit-for-bit (c16.aabb.ray: both signs of zero, origins exactly on the face). The other ray theorems (traverse, BVH, octree hit) "
        "are stated for the -0 reading; their proofs use only monotonicity, which slab_mono_posZero supplies for the +0 reading",
        "a zero-length segment (Go: division by the length 0, NaN closest point) is excluded by hypothesis (prim_closest_in_box, "
        "octree_closest_eq_scan_of_input) and by the generator (consecutive line-strip vertices are distinct)",
        "TraverseIntersectingRay: traverse_visits_all_hits covers callbacks that leave *min/*max alone (this includes rendering.Mesh.Hit, whose "
        "callback only shortens its own captured max); traverse_monotone_callback covers callbacks that move the range only INTO the current "
        "range and not inside a floor range r*: visited ⊆ scan(initial range), scan(r*) ⊆ visited. Callbacks that widen the range are "
        "modelled (Oct.traverse) but no theorem is stated for them. rendering.Mesh.Hit as a whole is checked by the oracle `octmesh` vs HitList",
        "negative maxDepth (unbounded recursion on coincident elements in Go) is outside the model: depth is a natural number",
    ],
    assumptions=["float64 arithmetic in Go on amd64 is IEEE-754 without FMA contraction"],
    manifest=dict(
        text="Lean 4 theorems over ℝ. Geometry facts about the AABB/plane code regenerated from source and the hand-modelled slab test "
             "(IEEE outcome of a zero direction component made explicit, so axis-parallel rays are covered): closest-point lower bound, "
             "containment / distance / slab test monotone in the box, slab test sound (ray point inside the box within a non-empty range ⇒ accepted), "
             "an element's closest point lies in its own box (points, non-degenerate segments, well-formed boxes, non-degenerate triangles — "
             "triangles by a barycentric argument on the fixed PointInSide). For EVERY tree whose node boxes cover their elements: the pruned "
             "queries (containing point, within range, ray, traverse with a range-preserving callback) equal the exhaustive scan (same elements, "
             "same order); traverse with a monotone range-shortening callback is sandwiched between the scans for the initial and the floor range; best-first ClosestPoint returns a distance minimiser and that element's closest point (ties: any minimiser). "
             "build_covers: for every element list and every depth incl. 0 and automatic, newOctree (octant assignment, depth cut-off, single-child "
             "collapse, widening loop) builds a covering tree storing a permutation of the input; hence end-to-end equality with the scan over the "
             "input. BVH: Hit = HitList.Hit (flag and nearest distance) for every covering tree and any list order; NewBVHTree builds a covering "
             "tree for every axis choice and sort outcome; nearest hit through the octree = hit list — these for abstract primitives that hit only "
             "where the slab test accepts their box and report their first hit exactly when within the range. Tie: AABB/plane code regenerated by the "
             "translator; the Lean model run at Float on the same bits reproduces the real octree's root bounds, visit order of every query answer, "
             "closest element/distance/point and the slab test exactly (points, line strips, boxes, triangles; depths 0–6 and automatic; queries "
             "inside, outside, exactly on element vertices; axis-parallel rays incl. origins exactly on the widened face, both signs of zero). "
             "Oracles: the real octree's answers against an exhaustive scan done by the Go harness through the same trees.Element interfaces "
             "(both id lists computed in Go, compared by the driver); rendering BVHNode.Hit / Mesh.Hit / Tree.Hit vs HitList.Hit and vs the "
             "per-primitive scan on triangles and spheres (minDistance = 0).",
        note="Trusted: Lean kernel + propext/Classical.choice/Quot.sound; translator; harness; hand transcription of octree.go / bvh.go / hit.go / the slab "
             "helper (tied bit-for-bit). Not proved: floating-point rounding (that the float tree satisfies Covers is observed; closest-element identity "
             "is compared by distance with relative tolerance 1e-9: ties aside); that rendering.Triangle / Sphere satisfy the primitive contract "
             "(oracle only; holds for minDistance = 0 only, see residue); the BVH has no model-vs-impl line (random shape). Corner: a ray with a zero "
             "direction component whose origin lies EXACTLY on a box's ε-widened face is sign-of-zero dependent in Go (NaN): both outcomes are "
             "covered by theorems (-0 reading = the model; +0 reading = intersectsRayInRangePos), the sign bit itself is not modelled over ℝ. Excluded by hypothesis: zero-length segments, zero-area triangles, boxes with negative extents, negative depth.",
        technique="Lean 4 proof (structural induction over covering trees, best-first search invariant, build invariant, barycentric argument) over "
                  "regenerated geometry + bit-exact Float correspondence of the hand model + exhaustive-scan oracles"),
)
