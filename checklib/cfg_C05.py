from common import T_COMMON

CFG = dict(
    theorems=["readObj_ranges_sum", "readObj_faces_content", "readObj_noMatlessAfterMat", "obj_reload_strict", "obj_resave_faces", "obj_resave_positions", "obj_resave_corners", "obj_resave_corners_uniform", "readObj_corners", "readObj_normals_complete", "obj_roundtrip_struct",
              "obj_roundtrip_carry", "obj_roundtrip", "readObj_transport", "obj_roundtrip_text", "obj_reload", "obj_shared_offset_breaks",
              "obj_matless_after_mat_witness", "obj_empty_mesh_not_last_witness",
              "obj_resave_literal", "parseInt_showInt", "showInt_clean", "parseInt_range", "parseCorner_showCorner", "showCorner_no_blank", "obj_roundtrip_text_ints"],
    helper_theorems=["readObj_resolves_at_face"],
    modules=["PolyVerif.Props.C05", "PolyVerif.Props.C05Resave", "PolyVerif.Props.C05Text"],
    streams=[dict(name="c05", n=dict(quick=300, thorough=10000))],
    trusted=T_COMMON + [
        "text layer: the driver's lexer (bufio.ScanLines, strings.Fields, strconv.Atoi/ParseFloat(.,32), parseObjFaceComponent) and printer (strconv 'f' -1 = shortest round-tripping decimal, computed with exact rational arithmetic) are hand transcriptions in lean/Driver/C05.lean, tied text-exactly by the c05.write / c05.read correspondence on every run; they are not the subject of the theorems",
        "Group.ftoks is a ghost field of the reader model (face lines per group); no other field depends on it",
    ],
    residue=[
        "load->save: PROVED in round 2 in the literal form (obj_resave_literal: for every accepted input the Bool Resaves the oracle c05.holds.resave evaluates is true: same face count, every corner resolved against the pools AT THE TIME OF ITS FACE, input split at every g line, keepComplete per stretch), in addition to the final-pool forms obj_resave_corners / obj_resave_corners_uniform / obj_resave_positions / obj_resave_faces; nothing of the re-save clause remains unproved at the level of structured lines",
        "the on-disk path obj.Save / SaveAll (+ .mtl via WriteMaterials) -> obj.Load (fs.go, mat_reader.go) is NOT modelled; it is exercised under os.MkdirTemp by oracle c05.holds.fs_materials (per-triangle material record name|Ns|Kd|map_Kd; colours restricted to 0/255 because .mtl colour printing keeps 3 figures)",
        "the print/parse LAWS of the text layer are hypotheses of obj_roundtrip_text (corner tokens: pc' (show c) = ok c; scalars: come back as rt x), not proved for the Go strconv / strings functions; that the driver's lexer/printer (= the Go code, by the text-exact correspondence) satisfy them is observed on every run; names are carried unchanged in the model (blank handling of g / usemtl names lives in the lexer). 'float32 precision' = rt; observed: print-then-parse differs from float32(x) by one float32 ulp on exact ties",
        "known finding: a mesh without material ranges after a mesh with ranges reads back with the carried material (obj_roundtrip_carry states the exact behaviour; obj_roundtrip needs NoMatlessAfterMat)",
        "known finding: a zero-triangle mesh that is not last loses its group (hypothesis NonemptyButLast); an empty mesh list reads back as one empty group",
        "material names with blanks are written without them; nil material is written and read back as DefaultDiffuse (names compared as written: matName)",
        "polygons with more than three corners (first three taken), negative/relative indices (panic), .mtl file contents, fs.go helpers, io.Writer errors, attribute names stored under another arity",
    ],
    assumptions=["scalars are finite float64 values (NaN / Inf are not generated: the writer prints them as NaN / +Inf, which ParseFloat accepts; not exercised)"],
)
