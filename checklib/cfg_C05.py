from common import T_COMMON

CFG = dict(
    theorems=["readObj_ranges_sum", "obj_resave_faces", "obj_shared_offset_breaks"],
    streams=[dict(name="c05", n=dict(quick=300, thorough=10000))],
    trusted=T_COMMON + [
        "text layer: the driver's lexer (bufio.ScanLines, strings.Fields, strconv.Atoi/ParseFloat(…,32), parseObjFaceComponent) and printer (strconv 'f' -1 for dyadic values) are hand transcriptions, tied text-exactly by the c05.write / c05.read correspondence; they are not the subject of the theorems",
    ],
    residue=[],
    assumptions=[],
)
