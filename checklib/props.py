"""Per-property configuration of /verif/check: one file checklib/cfg_<ID>.py per property, each defining CFG.

theorems: the property theorems (names relative to `namespace`, default PolyVerif.<id>) whose
          kernel check and axiom audit constitute the proof obligations of the property.
helper_theorems: lemmas worth naming (audited for axioms like the others) that are not counted as proof obligations.
modules:  Lean modules to build (default PolyVerif.Props.<id>).
gen:      Gen/ modules regenerated from /repo before the build
          (dict(spec=..., out=...) for the translator; dict(tool="facts", mode=..., out=..., args=[...]) for extractors).
streams:  correspondence streams of the Go harness; n = generator budget per tier;
          ulps = per-op tolerance (ulps, abs) for float tokens (default exact).
extras:   additional commands (race-detector builds, ...): dict(name, cmd=[...], tiers=[...], timeout, kind).
trusted / residue / assumptions / rule: text that goes into the evidence file.
"""
import importlib, os, glob, sys
sys.path.insert(0, os.path.dirname(__file__))
PROPS = {}
for f in sorted(glob.glob(os.path.join(os.path.dirname(__file__), "cfg_C*.py"))):
    name = os.path.basename(f)[:-3]
    PROPS[name[4:]] = importlib.import_module(name).CFG
