from common import T_COMMON

# C11 — node graph: outputs never stale, recompute only on change, version +1 per execution.
# Tie (harness stream "c11", go/harness/c11.go  <->  lean/Driver/C11.lean):
#   c11.hist                 whole history on real nodes.Struct / nodes.ValueNode / parameter.Value objects vs a fold of
#                            PolyVerif.Nodes.step? ; per op: ok|panic, returned values of two consecutive reads, cached
#                            value / Version() / State() of EVERY node, executed processors of both reads
#   c11.holds.fresh          reads (and every cache reported Processed) equal PolyVerif.Nodes.Spec of the current wiring
#   c11.holds.no_spurious    second read executes nothing; first read executes only dirty nodes, none twice
#   c11.holds.version        version_after = version_before + #executions (+1 for an accepted parameter set)
#   c11.holds.deporder       64 calls of Dependencies() all enumerate in the model's order
# n = number of generated histories (each gives 4 lines, every second one also one deporder line per struct node).
CFG = dict(
    theorems=[],          # PLACEHOLDER — owned by the C11 property owner: names in namespace PolyVerif.C11
    streams=[dict(name="c11", n=dict(quick=6000, thorough=100000))],
    trusted=T_COMMON + [
        # PLACEHOLDER — owner fills in the trusted-base text for C11
    ],
    residue=[
        # PLACEHOLDER — owner fills in what is not a theorem
    ],
    assumptions=[
        # PLACEHOLDER — owner fills in
    ],
)
