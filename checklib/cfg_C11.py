from common import T_COMMON

# C11 — node graph: outputs never stale, recompute only on change, version +1 per execution.
# Tie (harness stream "c11", go/harness/c11.go  <->  lean/Driver/C11.lean):
#   c11.hist                 whole history on real nodes.Struct / nodes.ValueNode / parameter.Value objects vs a fold of
#                            PolyVerif.Nodes.step? ; per op: ok|panic, returned values of two consecutive reads, cached
#                            value / Version() / State() of EVERY node, executed processors of both reads
#   c11.holds.fresh          reads (and every cache reported Processed) equal PolyVerif.Nodes.Spec of the current wiring
#   c11.holds.no_spurious    second read executes nothing; first read executes only dirty nodes, none twice
#   c11.holds.version        version_after = version_before + #executions (+1 for an accepted parameter set)
#   c11.holds.deporder       64 calls of Dependencies() all enumerate in the model's order
# n = number of generated histories (each gives 4 lines, every second one also one deporder line per struct node).
CFG = dict(
    theorems=["reachable_inv", "spec_is_from_scratch", "outdated_is_outdated", "eval_is_value",
              "read_fresh", "processed_is_fresh", "eval_frame",
              "reads_idempotent", "exec_only_if_outdated", "exec_only_if_changed", "reexecution_needs_change",
              "version_counts_executions", "struct_version_counts_executions", "version_step_exact",
              "remembered_length", "permuted_deps_spurious", "permuted_deps_still_fresh_partial",
              "skipping_processor_spurious", "no_spurious_full_false"],
    # corollaries / tooling, kernel-checked with the module but not counted as property obligations (ignored by the check)
    helper_theorems=["inCone_iff_reach", "valid_fixed_numbering", "stable_deps_not_spurious"],
    streams=[dict(name="c11", n=dict(quick=6000, thorough=100000))],
    trusted=[T_COMMON[1], T_COMMON[2],
             "hand-written model PolyVerif/Model/Nodes.lean of nodes/struct_node.go, value_node.go, parameter/value.go "
             "(tied by stream c11: every op of every history, all nodes observed; not generated from source)",
             "harness reads the private cache field `value` of nodes.Struct through reflect (observation only)"],
    residue=["guard, not theorem: the graph is acyclic after every call (Valid: it admits SOME ranking, which may change from call "
             "to call, bounded by the fuel F; ids are just names). The Go API has no cycle check and Outdated() recurses forever on a cycle",
             "guard: every processor reads ALL its wired inputs in Dependencies() order (model `pull`); a processor that skips an "
             "input leaves it stale and is re-executed on every read (code and model alike)",
             "Process() errors (`sn.err`) and subscriptions (`Alert`) are not modelled",
             "type mismatch between an output and a port (reflect.Set panic) is not modelled; ports are all of one value type",
             "Dependencies() order: sorted field names are modelled as port index order; the sort itself (sort.Strings, "
             "reflection) is exercised by c11.holds.deporder, not proved",
             "permuted_deps_still_fresh (freshness of the pre-2752e26 code under an arbitrary permutation per enumeration, whole graphs) is "
             "not proved and its evaluator is not modelled; proved: the spurious-execution witness permuted_deps_spurious and the "
             "one-node combinatorial core permuted_deps_still_fresh_partial (parameter dependencies)"],
    assumptions=["single-threaded use (concurrency is C13)",
                 "Go map iteration / reflection behave per the language spec"],
)
