from common import T_COMMON

# C11 — node graph: outputs never stale, recompute only on change, version +1 per execution.
# Tie (harness stream "c11", go/harness/c11.go  <->  lean/Driver/C11.lean):
#   c11.hist                 whole history on real nodes.Struct / nodes.ValueNode / parameter.Value objects vs a fold of
#                            PolyVerif.Nodes.step? ; per op: ok|panic, returned values of two consecutive reads, cached
#                            value / Version() / State() of EVERY node, executed processors of both reads
#   c11.holds.fresh          reads (and every cache reported Processed) equal PolyVerif.Nodes.Spec of the current wiring
#   c11.holds.no_spurious    second read executes nothing; first read executes only dirty nodes, none twice
#   c11.holds.version        version_after = version_before + #executions (+1 for an accepted parameter set)
#   c11.holds.deporder       64 calls of Dependencies() all enumerate in the model's order
#   multi-port family (go/harness/c11_ports.go, 60 + n/100 histories, 2 lines each): an upstream nodes.Struct with TWO output
#                            ports (Port() "P0"/"P1", same Node()), a consumer re-wired between the two ports of that same node
#                            (and to other nodes / nil) interleaved with parameter sets and reads; the 2-port node is TWO model
#                            nodes with the same inputs; ONLY c11.holds.fresh and c11.holds.no_spurious (consumer + downstream) are
#                            emitted, no c11.hist / c11.holds.version, executions of the multi-port node are left out of x / y
# n = number of generated histories (each gives 4 lines, every second one also one deporder line per struct node).
CFG = dict(
    gen=[dict(tool="facts", mode="c11.skeleton", out="NodeSkeleton.lean")],
    modules=["PolyVerif.Props.C11", "PolyVerif.Props.C11Src"],
    theorems=[# Props/C11Src.lean: the model's Outdated() is the regenerated decision list of struct_node.go (engine F)
              "outdated_from_source", "process_from_source", "value_state_from_source", "flag_stores_from_source", "deps_enumeration_from_source",
              "reachable_inv", "spec_is_from_scratch", "outdated_is_outdated", "eval_is_value",
              "read_fresh", "processed_is_fresh", "eval_frame", "exec_only_if_outdated", "exec_only_if_changed",
              "version_counts_executions", "struct_version_counts_executions", "version_step_exact", "remembered_length",
              "rejected_message_noop", "message_version_accounting",
              # guarded by ReadsAll (processors that read all their wired inputs):
              "reads_idempotent", "executed_then_processed", "reexecution_needs_change",
              "permuted_deps_spurious", "permuted_deps_still_fresh_partial",
              "skipping_processor_spurious", "no_spurious_full_false"],
    # corollaries / tooling, kernel-checked with the module but not counted as property obligations (ignored by the check)
    helper_theorems=["inCone_iff_reach", "valid_fixed_numbering", "stable_deps_not_spurious", "spec_reads_all"],
    streams=[dict(name="c11", n=dict(quick=6000, thorough=100000))],
    trusted=[T_COMMON[1], T_COMMON[2],
             "hand-written model PolyVerif/Model/Nodes.lean of nodes/struct_node.go, value_node.go, parameter/value.go "
             "(tied by stream c11: every op of every history, all nodes observed) and, for Outdated()/process()/Value()/State() of struct_node.go, "
             "by the engine-F extractor go/facts/c11.go (decision list and statement sequences regenerated; outdated_from_source proves the model equal to their interpretation; the reading of the printed Go conditions on the model state — outdatedAtom — is trusted)",
             "harness reads the private cache field `value` of nodes.Struct through reflect (observation only)"],
    residue=["multi-port nodes: values and consumer freshness only — a node with k output ports (none is built in; the harness defines a "
             "2-port nodes.Struct) is k model nodes with the same inputs and per-port value functions; for those histories only "
             "c11.holds.fresh (reads and Processed caches = Spec of the current wiring, for the ports, the consumer and everything "
             "downstream) and c11.holds.no_spurious (consumer and downstream; idle second read executes nothing) are checked; the "
             "multi-port struct's own version / execution count (shared between its ports in Go, separate in the model) is not corresponded",
             "KNOWN FINDING C11-skipping-processor (false of the code and of the model alike): for a processor that does not pull one "
             "of its wired struct-node inputs (real example modeling/extrude/screw.go:24-41) the unread dependency stays Stale and "
             "Outdated() (`dep.State() != Processed`) is true on every read: idle reads re-execute the node and bump its version. "
             "skipping_processor_spurious / no_spurious_full_false prove it of the model; the fixed witness histories W1-W3 show it on "
             "the real nodes.Struct on every run (oracle c11.holds.no_spurious_skipping_processor_witness = false, listed in known_findings.json)",
             "ReadsAll (every Process() pulls all its wired inputs) guards ONLY the clause 'a node is Processed right after it executed' and "
             "what follows from it: reads_idempotent, executed_then_processed, reexecution_needs_change (the proved part of "
             "C11_no_spurious_full; false without the guard, see above). Freshness (read_fresh, processed_is_fresh), the frame, "
             "exec_only_if_outdated, exec_only_if_changed and the version accounting are proved for every processor in the following class: "
             "Process() is a deterministic pull STRATEGY (SNode.next: from the wiring and the entries pulled so far it names the next "
             "dependency to pull, or stops) plus a value function `fn` of the wiring and the entries (none = not pulled) — any pull order "
             "(a later dependency first, as modeling/extrude/screw.go), early return on a nil port, decisions on values read so far, "
             "re-wiring of the processor's own ports; at most len(deps) pulls per execution; the from-scratch evaluation Spec follows the "
             "same strategy (specPullS). Outside the class: processors depending on anything else (time, randomness, global state, their "
             "own previous output)",
             "out of the quantifier (not reachable through SetInput / Set / ApplyMessage): parameter.Value.FromJSON (value.go:176) changes the "
             "value without a version bump (ApplyAppSchema calls it on fresh nodes only); InitializeForCLI (value.go:236) makes Value() change "
             "at flag.Parse without a bump; refutil.FieldValuesOfTypeInArray `break`s (not `continue`s) on a nil array element "
             "(refutil/reflect.go:385-388), making `if e == nil {continue}` at struct_node.go:234 dead code — model arrays have no nils, and a "
             "nil array element is not reachable through the public editing API (SetInput with a nil output takes the REMOVE branch; "
             "AddToStructFieldArray only appends non-nil outputs); only a hand-written Data literal can contain one",
             "guard, not theorem: the graph is acyclic after every call (Valid: it admits SOME ranking, which may change from call "
             "to call, bounded by the fuel F; ids are just names). The Go API has no cycle check and Outdated() recurses forever on a cycle",
             "processors pull their inputs in Dependencies() order (model `pull`/`pullM`); the order does not matter for the values but is fixed in the model",
             "`Untouched` (hypothesis of exec_only_if_changed) is coarser than the property text: it counts as a change (i) a re-wiring of ANY node "
             "in the cone, also one that reconnects the same source, and (ii) a Set of a parameter in the cone even with an unchanged value "
             "(the code bumps the version in both cases and re-executes; the model mirrors that) — so 'changed' means 'was written', not 'differs'",
             "Process() errors: the clean code stores the value returned next to the error, bumps the version and never looks at sn.err, so a "
             "failing processor is just an `fn` in the model; half of the harness processors fail depending on their inputs (a change that makes "
             "State()/Outdated() react to errors is seen by the exact execution-trace comparison). Subscriptions (`Alert`) are not modelled",
             "parameter messages: only ApplyMessage of parameter.Value[int | []int | struct{A,B int} | map[string]int] and ValueNode.Set are "
             "exercised (accepted = replace, undecodable = no-op: Op.rejectedMessage); other parameter types (File is in C13, Image, ...) are not",
             "type mismatch between an output and a port (reflect.Set panic) is not modelled; ports are all of one value type",
             "Dependencies() order: sorted field names are modelled as port index order; the sort itself (sort.Strings, "
             "reflection) is exercised by c11.holds.deporder, not proved",
             "permuted_deps_still_fresh (freshness of the pre-2752e26 code under an arbitrary permutation per enumeration, whole graphs) is "
             "not proved and its evaluator is not modelled; proved: the spurious-execution witness permuted_deps_spurious and the "
             "one-node combinatorial core permuted_deps_still_fresh_partial (parameter dependencies)"],
    assumptions=["single-threaded use (concurrency is C13)",
                 "Go map iteration / reflection behave per the language spec"],
    manifest=dict(
        text="REGENERATED TIE (engine F): the decision list of Struct.Outdated() and the statement sequences of process/Value/State/updateUsedDependencyVersions are re-extracted from nodes/struct_node.go on every run and outdated_from_source proves the model's `outdated` equal to their interpretation. "
             "Lean 4 theorems by induction over ARBITRARY histories of parameter sets, re-wirings (scalar and array ports) and reads on any "
             "graph that stays acyclic (the ranking may change over the history), for every value type and EVERY processor function, "
             "modelled as a deterministic pull STRATEGY over its wired inputs (SNode.next: any pull order, early return on nil ports, decisions on "
             "values read so far, skipping; fn gets `none` for an unread input; the from-scratch evaluation follows the same strategy): reachable_inv (ghost-free invariant), read_fresh / processed_is_fresh (the value Value() returns is the "
             "from-scratch evaluation of the current graph; every node reporting Processed holds it), eval_frame, exec_only_if_outdated, "
             "exec_only_if_changed (a Processed node is not executed until a parameter in its cone is Set or a node of its cone is re-wired), "
             "version_counts_executions (+1 per execution and never otherwise), remembered_length (the positional version compare cannot go out "
             "of range), spec/outdated/eval fuel-free equations; permuted_deps_spurious (closed witness of the old map-order defect). Under "
             "the guard ReadsAll (every Process() pulls all its wired inputs): reads_idempotent, executed_then_processed, "
             "reexecution_needs_change (a node is Processed right after it executed, so a second read executes nothing). Without the guard "
             "these are FALSE: skipping_processor_spurious / no_spurious_full_false (idle reads re-execute a processor that skipped a stale "
             "struct input and bump its version; values stay correct) — known finding C11-skipping-processor, exhibited on the real "
             "nodes.Struct on every run by fixed witness histories. Tie: the real nodes.Struct / ValueNode / parameter.Value over 15 "
             "all-reading processor types plus three skipping types (value-dependent skip, screw.go-like later-dependency-first, nil-port early "
             "return; their own ports re-wired, skipper over skipper) on chains, diamonds, ladders, shared subgraphs, random DAGs and order-changing "
             "re-wirings, with processors whose Process() returns an error depending on its inputs, and with composite-typed parameter.Value "
             "parameters receiving accepted, partial and rejected messages; after EVERY operation of random histories the cache, version and state of every node and the executed processors are "
             "compared exactly with the model; fresh / no_spurious / version / dependency-order predicates on the implementation.",
        note="Trusted: Lean kernel + 3 axioms; harness. KNOWN FINDING (the run prints KNOWN-FINDING, exit 0): processors that skip a wired "
             "struct-node input re-execute on idle reads — the no-spurious / version-only-on-change clauses of C11 are false for them; "
             "reads_idempotent / executed_then_processed / reexecution_needs_change hold for processors that read all their wired inputs, and "
             "the unguarded statement C11_no_spurious_full is proved false. Freshness and version = number of executions ARE proved for "
             "skipping processors too (and checked on the implementation). Guards: the "
             "graph is acyclic after every call (the Go API has no cycle check). 'Changed' in exec_only_if_changed means 'was written' (a Set "
             "with the same value or a re-wiring to the same source counts). Not modelled: Process() errors, Alert subscriptions. The sort "
             "inside Dependencies() is probed by the deporder oracle, not proved.",
        technique="Lean 4 proof (Outdated() skeleton regenerated from source and proved equal to the model; inductive invariant over operation histories, refinement to from-scratch evaluation, closed counter-witness "
                  "for skipping processors) + exact per-operation state correspondence"),
)
