from common import T_COMMON

CFG = dict(
    theorems=["put32_get32"],
    streams=[dict(name="c04", n=dict(quick=150, thorough=6000))],
    trusted=T_COMMON,
    residue=[],
    assumptions=[],
)
