from common import T_COMMON

T_PLY = ["engine H harness /verif/go/harness (c04.go, c08.go, util_ply.go: generators, canonicalisation, independent Go reference encoder); correspondence is differential testing",
         "Driver/PlyIO.lean: `Coding Float` instance (Float32 casts, exact decimal printer for dyadic values, decimal parser) — executed, not proved; checked against strconv / math by every c04.write / c04.read / c08.read line",
         "Go toolchain/runtime/stdlib (strconv, encoding/binary, bufio.Scanner, strings.Fields)"]

CFG = dict(
    modules=["PolyVerif.Props.C04", "PolyVerif.Props.C04Compose", "PolyVerif.Props.C04Header"],
    theorems=["ply_wire_roundtrip_record", "ply_body_length_binary", "ply_header_describes_body_binary",
              "ply_header_describes_body_record_size", "ply_header_describes_body_face_size",
              "ply_record_roundtrip_scalar", "ply_vector_reader_offsets", "ply_encodings_disagree_uchar_scalar",
              "ply_encodings_disagree_uchar_scalar_concrete", "ply_quant_is_stored_precision",
              "ply_readback_arrays_binary", "ply_roundtrip_binary_partial", "ply_roundtrip_binary_checked",
              "ply_header_text_roundtrip", "ply_header_cut_bytes", "writeHeader_ok", "ply_written_header_parses",
              "ply_roundtrip_binary_bytes", "ply_roundtrip_binary_bytes_checked"],
    # proved, but subsumed / definitional: not counted as property theorems (ignored by the check)
    helper_theorems=["ply_put_get_32", "ply_put_get_64", "ply_wire_roundtrip_field", "ply_header_shape",
                     "ply_header_schema", "ply_ascii_scalar_reads_raw"],
    streams=[dict(name="c04", n=dict(quick=150, thorough=2500))],
    trusted=T_PLY,
    residue=["header describes body: PROVED for the binary encodings (ply_body_length_binary, ply_header_describes_body_binary: what writeBody emits = what writeHeader declares, for every WF mesh and configuration); for ASCII (number of non-empty body lines = nv + nf, tokens per line) and for the header text round trip parseHeader(render h) = h it is NOT proved — carried by the oracle c04.holds.header_describes (HeaderDescribes now also checks ASCII line and token counts) and by c04.header",
             "COMPOSED: ply_roundtrip_binary_partial proves readBody(writeHeader, writeBody) satisfies RoundTrips for LE/BE, every configuration, every WF point cloud / triangle mesh without per-corner UVs, first at the parsed-header interface, then FROM FILE BYTES (ply_roundtrip_binary_bytes: readMesh(writeMesh) satisfies RoundTrips) since the header text layer is proved (ply_header_text_roundtrip: parseHeader(render h ++ body) = (h, body) for HeaderOK headers; ply_header_cut_bytes: every strict prefix of a printed header is an error), under explicit claim-stage witnesses ClaimOK (or the decidable certificate claimCheck); NOT proved: ClaimOK from header-level guards (characterisation of buildAll on arbitrary headers), the unweld/TexCoord assembly for triangle meshes with per-corner UVs (stages 1+2 incl. the UV list ARE proved: ply_readback_arrays_binary), ASCII; the vector claim scan has its offset theorem (ply_vector_reader_offsets) but its IgnorableW fallback, buildAll, readBody, parseHeader, unweld are not the subject of any theorem",
             "all theorems hold for an ARBITRARY `Coding α` (no laws: even f32 := const 0) and are about quantBin = decode∘encode of that coding; precision content only via CodingLaws (ply_quant_is_stored_precision)",
             "ply_roundtrip_full / ply_roundtrip_partial_stmt (whole file: writeMesh then readMesh satisfies RoundTrips) is a def … : Prop, NOT a theorem; it is evaluated on the implementation's write→read output by the c04.holds.roundtrip oracle on every generated mesh × configuration × encoding",
             "ply_encodings_agree_full is a def … : Prop, NOT a theorem (false for 8-bit scalar properties: ply_encodings_disagree_uchar_scalar, known finding); evaluated by c04.holds.encodings_agree",
             "record layer proved for scalar (float1) properties in any header order; the 2-/3-/4-vector claim scan (buildVec: uniform-type check, IgnorableW fallback) and the face loop are modelled and corresponded, not proved",
             "ASCII wire layer (lines, tokens, strconv print/parse) and the header parser are modelled and corresponded byte-for-byte (c04.write, c04.header, c04.read), not proved",
             "scalar coding enters through the bundle `Coding α`; theorems hold for every coding and are phrased with quantBin = decode∘encode; that Go's float32 narrowing / 8-bit rounding is what the driver instance computes is checked by correspondence only",
             "ASCII generators use dyadic values with ≤ 13 significant digits (exact shortest printing); arbitrary doubles only in the binary encodings",
             "user float2/3/4 attributes are written as name_k scalars and come back as scalars (RoundTrips does not demand them); Color as float4 is not claimed by the default writer"],
    rule="one evaluation = one request line answered by both the Go implementation and the Lean model/oracle; every generated file is additionally loaded through every public entry point / reader type (…holds.entrypoints_agree) and a handful of files per run cross the 4096-record / 4096-byte / 64 KiB boundaries with values tagged by vertex number",
    assumptions=["uint32(float64) for negative values wraps as on amd64 (binary `int` writer)",
                 "well-formed meshes: all attribute arrays one length (AttributeLength reads an arbitrary map entry otherwise)"],
)
