from common import T_COMMON

# Tolerances (ulps, abstol) of the float-valued model lines.  The model runs the same expressions at Float, but
#   * Go's math.Sin/Cos (pure Go) and the C libm behind Lean's Float.sin/cos differ by an ulp or so, which a product
#     sin*cos*radius turns into a few ulps; values that are mathematically 0 (cos(pi/2)*r = 6e-17*r, sin(pi)*r, ...)
#     differ by many ulps but by < 1e-16*size absolutely, hence the absolute term (sizes are kept <= 100);
#   * the bottom cap of the cylinder and five faces of the six-quad box are rotated by quaternions in the
#     implementation and written in exact form (x,-y,-z / corner signs) in the model: agreement to ~1e-16*size.
# Measured (seeds 0..3, both tiers): sphere family <= 4 ulps on every token differing by more than 1e-16 (up to 16 ulps on
# near-zero tokens, absolute difference < 1e-16); rotated parts <= 1.1e-14 absolute at size 100, <= 2.3e-16 on unit normals.
_SIN = (8, 1e-14)     # positions of sphere / unwelded sphere / hemisphere
_SINN = (8, 1e-15)    # unit normals of the sphere
_ROT = (8, 1e-13)     # positions of the capped cylinder and of the six-quad box
_ROTN = (8, 1e-15)    # their unit normals

CFG = dict(
    gen=[dict(tool="facts", mode="c18.cube", out="CubeTable.lean")],
    # theorems: maintained by the C18 builder
    theorems=["uvSphere_closed", "uvSphereUnwelded_closed_mod_merge", "hemisphere_closed", "cylinder_closed_mod_merge",
              "cubeWelded_closed", "quadTris_eq_table", "cubeQuads_closed_mod_merge",
              "uvSphere_outward", "uvSphereUnwelded_outward", "sphere_normals_outward",
              "cube_outward", "cubeWeldedPos_eq_table", "cube_normals_outward", "cubeQuads_outward",
              "cylinder_outward", "cylinder_normals_outward", "hemisphere_outward",
              "cubeQuads_normals_outward", "uvSphere_inscribed",
              "cube_volume", "cubeQuads_volume", "cylinder_volume", "cylinder_volume_bounds",
              "uvSphere_volume", "uvSphere_volume_bounds", "uvSphereUnwelded_volume",
              "hemisphere_volume", "hemisphere_volume_bounds"],
    streams=[dict(name="c18", n=dict(quick=30, thorough=60),
                  ulps={"c18.pos.sphere": _SIN, "c18.pos.sphereu": _SIN, "c18.pos.hemi": _SIN, "c18.nrm.sphere": _SINN,
                        "c18.pos.cyl": _ROT, "c18.nrm.cyl": _ROTN, "c18.pos.cubeq": _ROT, "c18.nrm.cubeq": _ROTN})],
    trusted=T_COMMON + [
        "engine F extractor /verif/go/facts mode c18.cube (go/ast; cubeVertIndices, potentialVerts sign pattern, quad index/sign literals; any unrecognised shape is an error, never a guess)",
        "c18 harness: reads the implementation's meshes through Mesh.Indices/Float3Attribute; position classes computed in Go with a uniform grid (coincide iff distance <= 1e-9*size)",
        "PolyVerif/Model/SolidsOracle.lean + Driver/C18.lean (oracle evaluation): sort-based closedness check used alone above 1200 directed edges, cross-checked against the literal `decide (ClosedMod ..)` on every mesh below that size (both must hold); chunked evaluation of the per-triangle predicates; Float volume formulas of the stacked-frusta / prism polyhedra",
        "sin/cos: Go math.Sin/Cos vs libm compared within 8 ulps or 1e-14 absolute (positions of sphere, hemisphere; 1e-15 for unit normals); quaternion-rotated parts (cylinder bottom cap, six-quad box) compared with the exact form within 1e-13 absolute (sizes <= 100; 1e-15 for unit normals)",
    ],
    residue=[
        "positions/normals: the implementation's float64 values agree with the model at Float up to the stated tolerances (observed on every run, not proved); geometric facts (outward, volume) are theorems over the reals about the model's positions and are re-checked numerically on the implementation's own output",
        "volume oracle: |V - Vpoly| <= 1e-9*Vanalytic (1e-7 above 10000 triangles), Vpoly <= Vanalytic, relative deficit <= 10(1/R^2+1/C^2) (sphere, hemisphere), 7/S^2 (cylinder), 1e-12 (boxes): numeric check of the implementation's mesh, not a theorem",
        "cylinder with fewer than 3 sides and a cap panics in Circle.ToMesh (fix fc0d720): corresponded via SolidsOracle.cylinderAdmissible; degenerate pipes (sides < 3, no caps) are corresponded (indices, vertex count) but carry no oracle",
    ],
    assumptions=["float64 arithmetic in Go on amd64 is IEEE-754 without FMA contraction",
                 "lengths (radius, height, box dimensions) in [0.01, 100]: the absolute tolerances and the 1e-9*size coincidence rule are calibrated for this range"],
)
