from common import T_COMMON

# Tolerances (ulps, abstol) of the float-valued model lines.  The model runs the same expressions at Float, but
#   * Go's math.Sin/Cos (pure Go) and the C libm behind Lean's Float.sin/cos differ by an ulp or so, which a product
#     sin*cos*radius turns into a few ulps; values that are mathematically 0 (cos(pi/2)*r = 6e-17*r, sin(pi)*r, ...)
#     differ by many ulps but by < 1e-16*size absolutely, hence the absolute term (sizes are kept <= 100);
#   * the bottom cap of the cylinder and five faces of the six-quad box are rotated by quaternions in the
#     implementation; the driver runs the SAME construction (Model/SolidsCode.lean over the regenerated quaternion code
#     of Gen/Transform.lean) at Float; remaining differences: sin/cos of the rotation angle and Go's exact constant
#     folding of math.Pi*(3./2.) vs one Float multiplication: ~1e-16*size.
# Measured (seeds 0..3, both tiers): sphere family <= 4 ulps on every token differing by more than 1e-16 (up to 16 ulps on
# near-zero tokens, absolute difference < 1e-16); rotated parts <= 1.1e-14 absolute at size 100, <= 2.3e-16 on unit normals.
_SIN = (8, 1e-14)     # positions of sphere / unwelded sphere / hemisphere
_SINN = (8, 1e-15)    # unit normals of the sphere
_ROT = (8, 1e-14)     # positions of the capped cylinder and of the six-quad box
_ROTN = (8, 1e-15)    # their unit normals

CFG = dict(
    modules=["PolyVerif.Props.C18", "PolyVerif.Props.C18Connected", "PolyVerif.Props.C18Nodes"],
    # Transform.lean: the quaternion code (FromTheta, Rotate) the six-quad box and the cylinder's bottom cap are built with
    # PrimLoops.lean: loop nests / bounds / index expressions of UVSphere, UVSphereUnwelded, Hemisphere.UV, Circle.ToMesh, Cylinder.ToMesh
    gen=[dict(tool="facts", mode="c18.cube", out="CubeTable.lean"), dict(spec="transform.json", out="Transform.lean"),
         dict(tool="facts", mode="c18.loops", out="PrimLoops.lean"),
         # PrimAssembly.lean: cap placements of Cylinder.ToMesh, the six faces of Cube.UnweldedQuads (+ rotate helper), Quad.ToMesh vectors
         dict(tool="facts", mode="c18.assembly", out="PrimAssembly.lean"),
         # PrimNodes.lean: the Process() bodies of UvSphereNode / HemisphereNode / CylinderNode / CubeNode (defaults, clamps, constructor called)
         dict(tool="facts", mode="c18.nodes", out="PrimNodes.lean")],
    # theorems: maintained by the C18 builder
    theorems=["uvSphere_closed", "uvSphereUnwelded_closed_mod_merge", "hemisphere_closed", "cylinder_closed_mod_merge",
              "cubeWelded_closed", "quadTris_eq_table", "cubeQuads_closed_mod_merge",
              "uvSphere_outward", "uvSphereUnwelded_outward", "sphere_normals_outward",
              "cube_outward", "cubeWeldedPos_eq_table", "cube_normals_outward", "cubeQuads_outward",
              "cylinder_outward", "cylinder_normals_outward", "hemisphere_outward",
              "cubeQuads_normals_outward", "uvSphere_inscribed",
              "cube_volume", "cubeQuads_volume", "cylinder_volume", "cylinder_volume_bounds",
              "uvSphere_volume", "uvSphere_volume_bounds", "uvSphereUnwelded_volume",
              "hemisphere_volume", "hemisphere_volume_bounds",
              "uvSphere_positions_distinct", "uvSphereUnwelded_merge_exact", "cylinder_merge_exact",
              "cubeQuads_merge_exact", "cubeWelded_positions_distinct",
              "hemisphere_positions_distinct", "closed_iff_every_edge_once",
              "cubeQuads_positions_eq_table", "cubeQuads_normals_eq_table",
              "cylinder_positions_eq_exact_form", "cylinder_normals_eq_exact_form",
              "uvSphere_indices_from_source", "hemisphere_indices_from_source", "circle_indices_from_source",
              "cylinderSide_indices_from_source", "guards_from_source", "cylinder_caps_from_source",
              "uvSphereUnwelded_indices_from_source", "uvSphereUnwelded_copy_map_from_source",
              "cubeWelded_vertexManifold_connected", "cubeQuads_vertexManifold_connected_mod_merge",
              "uvSphere_connected",
              "uvSphere_positions_from_source", "uvSphere_normals_from_source", "hemisphere_positions_from_source",
              "circle_positions_from_source", "cylinderSide_positions_from_source",
              "uvSphere_oneUmbrella", "hemisphere_oneUmbrella", "uvSphereUnwelded_oneUmbrella_mod_merge",
              "cylinder_oneUmbrella_mod_merge", "umbrella_checker_sound", "cubeWelded_oneUmbrella",
              "cubeQuads_oneUmbrella_mod_merge",
              "cubeQuads_construction_from_source", "cylinder_assembly_from_source",
              "hemisphere_connected", "uvSphereUnwelded_connected_mod_merge", "cylinder_connected_mod_merge",
              # round 2 (Props/C18Connected.lean): FACE connectedness, all parameters
              "faceConnected_of_oneUmbrella_and_reach", "connected_checker_sound", "manifold_oracle_implies_faceConnected",
              "uvSphere_faceConnected", "hemisphere_faceConnected", "uvSphereUnwelded_faceConnected_mod_merge",
              "cylinder_faceConnected_mod_merge", "cubeWelded_faceConnected", "cubeQuads_faceConnected_mod_merge",
              # round 2 (Props/C18Nodes.lean): node wrappers regenerated (go/facts c18.nodes -> Gen/PrimNodes.lean)
              "uvSphereNode_from_source", "hemisphereNode_from_source", "cylinderNode_from_source", "cubeNode_from_source",
              "uvSphereNode_always_solid", "node_defaults_admissible"],
    streams=[dict(name="c18", n=dict(quick=30, thorough=60),
                  ulps={"c18.pos.sphere": _SIN, "c18.possample.sphere": _SIN, "c18.pos.sphereu": _SIN, "c18.pos.hemi": _SIN, "c18.nrm.sphere": _SINN,
                        "c18.pos.cyl": _ROT, "c18.nrm.cyl": _ROTN, "c18.pos.cubeq": _ROT, "c18.nrm.cubeq": _ROTN,
                        # node-wrapper lines: same positions, parameters derived by the model from the connected ports
                        "c18.nodepos.sphere": _SIN, "c18.nodepos.hemi": _SIN, "c18.nodepos.cyl": _ROT, "c18.nodepos.cube": _ROT})],
    trusted=T_COMMON + [
        "engine F extractor /verif/go/facts mode c18.loops (go/ast; loop nests, bounds, integer assignments, appends, guards of five constructors as a Model/LoopIR.lean program; refuses unrecognised shapes that write a tracked slice or integer; skips statements that write none) and the interpreter Model/LoopIR.lean (Go int in N, loop bounds evaluated once, body variables iteration-local)",
        "engine F extractor /verif/go/facts mode c18.cube (go/ast; cubeVertIndices, potentialVerts sign pattern, quad index/sign literals; any unrecognised shape is an error, never a guess)",
        "c18 harness: reads the implementation's meshes through Mesh.Indices/Float3Attribute; position classes computed in Go with a uniform grid (coincide iff distance <= 1e-9*size)",
        "PolyVerif/Model/SolidsOracle.lean + Driver/C18.lean (oracle evaluation): sort-based closedness check used alone above 1200 directed edges, cross-checked against the literal `decide (ClosedMod ..)` on every mesh below that size (both must hold); chunked evaluation of the per-triangle predicates; Float volume formulas of the stacked-frusta / prism polyhedra",
        "sin/cos: Go math.Sin/Cos vs libm compared within 8 ulps or 1e-14 absolute (positions of sphere, hemisphere, cylinder, six-quad box; sizes <= 100; 1e-15 for unit normals); the quaternion-rotated parts (cylinder bottom cap, six-quad box) are modelled as the code builds them (Model/SolidsCode.lean over the regenerated Gen/Transform.lean quaternion code, engine T) and run at Float",
    ],
    residue=[
        "index lists, vertex counts, panics: the loop nests, loop bounds, integer assignments, appends and guards of UVSphere, UVSphereUnwelded, Hemisphere.UV, Circle.ToMesh and Cylinder.ToMesh (side strip; order and conditions of the two cap Appends) are REGENERATED from the Go source on every run (go/facts c18.loops -> Gen/PrimLoops.lean, a program of Model/LoopIR.lean) and the model's index lists / vertex counts / admissibility are PROVED equal to the interpretation of the extracted program for all parameters (*_indices_from_source, guards_from_source, cylinder_caps_from_source, uvSphereUnwelded_copy_map_from_source); what stays trusted/corresponded there: the extractor and the IR semantics (Go int modelled in N: on admissible parameters no extracted subtraction goes below 0; float64 modelled by the abstract Scalar operations, integer-valued constants as casts of naturals, decimal constants as num/den; statements that write no tracked slice, integer, float or vector used by a pushed vertex are skipped; an untranslatable float expression that reaches a vertex is refused), Mesh.Append's index shift (mesh.go) and NewTriangleMesh/SetFloat3Data wiring; on top of that the exact correspondence with the running constructors for every (rows, cols), sides <= 24 and sampled up to 512 remains",
        "vertex POSITION / NORMAL expressions: those of UVSphere, Hemisphere.UV, Circle.ToMesh and the side of Cylinder.ToMesh are REGENERATED (float/vector statements of the loop programs, Gen/PrimLoops.lean) and the model's uvSpherePos, uvSphereNormal, hemispherePos, circlePos/circleNormal, cylinderPos/cylinderNormal (side) are PROVED equal to their interpretation for all parameters and EVERY scalar type (syntactic equality: holds at the reals of the geometric theorems and at the Float the driver runs); the unwelded sphere's positions follow from the proved copy map. The cylinder's cap placement (Translate vectors, the FromTheta(pi,(1,0,0)) rotation of positions and normals, Append order/conditions) and the whole six-quad box construction (per face: Quad dimensions, rotation angle and axis through the structurally checked helper rotate, translation, Append order; Quad.ToMesh's four positions and normals) are REGENERATED too (go/facts c18.assembly -> Gen/PrimAssembly.lean) and Model/SolidsCode.lean's cylinderPosCode/cylinderNormalCode/cubeQuadsPosCode/cubeQuadsNormalCode are PROVED equal to their interpretation with the regenerated quaternion code, for every scalar (cubeQuads_construction_from_source, cylinder_assembly_from_source). What remains trusted there: the extractors, the interpretation Model/SolidsAssembly.lean (Translate = Add per vertex, RotateAttribute3DTransformer = Quaternion.Rotate per vector: mesh.go / meshops, not extracted), Go's exact constant folding of math.Pi*(3./2.) vs one Float multiplication (compared with 1e-14), and the welded box's positions beyond the extracted sign table",
        "vertex-manifoldness: one umbrella per (merged) vertex is now a THEOREM for every primitive at all sizes (uvSphere_oneUmbrella, hemisphere_oneUmbrella, uvSphereUnwelded_oneUmbrella_mod_merge, cylinder_oneUmbrella_mod_merge with explicitly exhibited link cycles; boxes via the executable checker, proved sound: umbrella_checker_sound); connectedness is a theorem for every primitive too (boxes by decide; uvSphere_connected, hemisphere_connected, uvSphereUnwelded_connected_mod_merge, cylinder_connected_mod_merge at all sizes); the oracle c18.holds.manifold additionally evaluates VertexManifold and Connected on the implementation's meshes",
        "node wrappers (UvSphereNode, HemisphereNode, CylinderNode, CubeNode): their defaults and clamps (rows >= 2, columns >= 3 in UvSphereNode) are not extracted and not in a theorem; they are exercised by the harness through tiny graphs (nodes.Value -> wrapper) with inputs below / at / above the minimum and with every subset of connected ports, and compared with the model at the clamped parameters as the source documents them; shared state between constructor calls is not modelled (the model is a pure function): kept-alive earlier meshes are re-read and re-checked after all later calls of the run (history replay)",
        "implementation-side size coverage: exhaustive <= 24 per direction, sampled to 512, boundaries of powers of two up to 4097 in one direction (cylinder 4095/4096/4097 in every run), and one 363x363 welded sphere (131408 vertices; sampled positions / outward, full volume); larger or other size combinations are covered only by the all-sizes theorems about the regenerated programs (an implementation whose behaviour depends on size through code the extractor cannot translate is refused by the extractor: obligation broken without a failing input)",
        "outward = positive signed volume of every face against an interior point (star-shapedness); embeddedness is not stated separately; Closed is edge-manifoldness with consistent orientation",
        "hemisphere normals are not covered: the property's normal clause names sphere, box, cylinder. Note: Hemisphere{Radius:r}.UV(rows, cols) with ANY admissible parameters supplies positions.Normalized() as normals and vertex 0 is the origin, so its normal is (NaN, NaN, NaN) (reachable through the public constructor and HemisphereNode; excluded from C18 by the wording, documented in notes/C18.md); the unwelded sphere supplies no normals",
        "cylinder with fewer than 3 sides and a cap panics in Circle.ToMesh (fix fc0d720): corresponded via Solids.cylinderAdmissible; degenerate pipes (no caps) are corresponded (indices, vertex count) but are not solids and carry no oracle",
    ],
    assumptions=["float64 arithmetic in Go on amd64 is IEEE-754 without FMA contraction",
                 "lengths (radius, height, box dimensions) in [0.01, 100]: the absolute tolerances and the 1e-9*size coincidence rule are calibrated for this range"],
    manifest=dict(
        text="Lean 4 theorems, for ALL admissible parameters (no size bound), about a model of modeling/primitives whose index lists, vertex counts, panics, the unwelded sphere's copy map and the vertex position / normal formulas (sphere, hemisphere, circle, cylinder side and cap placement, six-quad box construction; for every scalar type) are proved equal to the interpretation of loop programs regenerated from sphere.go, hemisphere.go, circle.go, cylinder.go on every run (an edited loop bound, index expression, angle formula or pole position breaks a named theorem at build); every vertex of every primitive has exactly one umbrella (explicit link cycles, all sizes): the index buffers of the UV sphere (welded; unwelded modulo its copy map), hemisphere (cap fan + dome), capped cylinder (modulo seam/cap-rim merge map) are closed consistently oriented surfaces (directed edges pairwise distinct, closed under reversal, no loops; proved via explicit twin blocks and omega on the loop indices), the welded box by decide on the cubeVertIndices table regenerated from cube.go on every run and the six-quad box modulo its corner table, which is itself proved from a model of the code's construction (six quads rotated by quaternion.FromTheta(k*pi/2, axis) through the regenerated Quaternion.Rotate, then translated; likewise the cylinder's bottom cap rotated by pi about X); the merge maps are proved to identify exactly the vertices whose real positions coincide; over the reals every face has positive signed volume against an interior point (sphere: det = r^3 sin(phi) sin(pi/rows) sin(2pi/cols)), supplied normals of sphere, box and cylinder have positive dot product with every incident face normal, and the enclosed volumes have closed forms (box w*h*d; cylinder (S/2) sin(2pi/S) r^2 H; sphere (C r^3/3) sin(2pi/C)(1+cos(pi/R)); hemisphere likewise) bounded above by the analytic volume with explicit O(1/R^2+1/C^2) deficit. Tied to the code on every run: index lists, vertex counts and panics compared exactly with the Go constructors for every (rows, cols), sides <= 24 and sampled up to 512 with and without cap/UV options; positions and normals at Float; the merge maps against the implementation's geometry; and the theorems' predicates (closed modulo merge, outward, volume, normals outward) evaluated on the implementation's own meshes.",
        note="Trusted: Lean kernel; propext/Classical.choice/Quot.sound; facts extractor c18.cube; translator (Gen/Transform quaternion code); harness and position-class computation; sort-based closedness check above 1200 edges (cross-checked below); sin/cos tolerance. Not proved: the extractors and interpreters themselves (trusted; cross-checked by the exact correspondence with the running constructors), Mesh.Append / Translate / RotateAttribute3D of mesh.go and meshops (corresponded), IEEE rounding (the merge maps are proved exact over the reals and validated numerically on the implementation's floats), hemisphere normals (not in the property; vertex-0 normal is NaN).",
        technique="Lean 4 proof for all parameters (List.range/flatMap combinatorics + omega; Mathlib trigonometry over the reals) + regenerated cube tables + exact index correspondence and oracle evaluation on the implementation's meshes"),
)
