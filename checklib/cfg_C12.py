from common import T_COMMON

CFG = dict(
    theorems=["edit_history_wf", "decode_encode", "norm_same", "encode_idempotent", "encode_nodes_perm", "sorted_unique",
              "natural_order_ok", "decode_encode_natural", "lexicographic_misorders", "lexicographic_order_breaks",
              "file_payload_concatenated"],
    modules=["PolyVerif.Props.C12"],
    streams=[dict(name="c12", n=dict(quick=150, thorough=4000)),
             dict(name="c12file", n=dict(quick=20, thorough=400))],
    trusted=T_COMMON + [],
    residue=[],
    assumptions=[],
)
