from common import T_COMMON

CFG = dict(
    theorems=["lexicographic_misorders"],
    streams=[dict(name="c12", n=dict(quick=150, thorough=4000)),
             dict(name="c12file", n=dict(quick=20, thorough=400))],
    trusted=T_COMMON + [],
    residue=[],
    assumptions=[],
)
