from common import T_COMMON

CFG = dict(
    theorems=["edit_history_wf", "edit_history_wf_from", "decode_encode", "norm_same", "encode_idempotent", "encode_nodes_perm", "sorted_unique",
              "natural_order_ok", "decode_encode_natural", "lexicographic_misorders", "lexicographic_order_breaks",
              "file_payload_concatenated"],
    modules=["PolyVerif.Props.C12"],
    streams=[dict(name="c12", n=dict(quick=150, thorough=4000)),
             dict(name="c12file", n=dict(quick=20, thorough=400))],
    trusted=T_COMMON + [
        "encoding/json (sorted object keys, float/string round trip), jbtf v0.2.0 container layout: equal schemas give equal bytes",
        "sort.Slice returns a permutation sorted w.r.t. the comparator when that is a strict total order on the elements (sorted_unique then pins the result)",
        "go:linkname access to graph.dependencyNameLess and reflection access to App.graphInstance in the harness",
        "reflect-based type table (graph.BuildNodeTypeSchema) sent with each case"],
    residue=["byte identity follows from schema identity (encode_idempotent) through encoding/json + jbtf: observed (bytes_identical), not proved",
             "per-type parameter payload law fromJ(toJ v) = v is a hypothesis (EnvOK.law); spot-checked by c12.holds.param_law for the nine Value[T] types; Image (PNG) payloads not exercised",
             "artifact equality is observed (same_artifacts on deterministic text producers / repo graph file), not stated in Lean (needs C11 read_fresh)",
             "File/Image payload that is not the last buffer view: known finding C12-file-param-not-last (file_payload_concatenated); decode_encode is proved under FilePayloadLast",
             "non-ASCII port names (EqualFold/ToLower modelled for ASCII); termination of the Node-k search (fuel); decode error classes on malformed files; cyclic graphs and deleting a depended-on node are outside the harness"],
    assumptions=["a Go slice has fewer than 2^63 elements (natural_order_ok bound)",
                 "input port names of a node type are Go field names: no dot, distinct up to ASCII case (checked on every registered type by c12.holds.ports_distinct)"],
)
