from common import T_COMMON

CFG = dict(
    theorems=["prim_wf", "uvSphere_wf", "uvSphereUnwelded_wf", "hemisphere_wf", "circle_wf", "cone_wf", "cylinder_wf", "cylinder_nocaps_wf",
              "extrudeShape_wf", "screw_wf", "extrudeLine_wf", "extrudePolygon_wf", "marchBlock_wf", "march_wf", "quad_wf", "cube_wf", "cubeUnwelded_wf",
              "unweld_wf", "removeUnreferenced_wf", "toPointCloud_wf", "flip_wf", "setIndices_wf",
              "append_wf", "setAttr_wf", "setAttr_delete_wf", "modifyAttr_wf", "mapAttr_wf", "setNormals_wf", "filterAttr_wf",
              "filterAttr_rejects_non_point", "crop_wf", "removeNullFaces_wf",
              "splitOnMaterials_wf", "weld_wf", "repeatMesh_wf", "clearAttrs_wf", "setData_wf", "step_wf", "ops_closed", "ops_closed_transforms", "march_blocks_wf",],
    # one-line instances / records: kernel-checked with the module, not counted as property obligations
    helper_theorems=["translate_wf", "scaleAbout_wf", "scaleMesh_wf", "rotate_wf", "applyTRS_wf", "center_wf", "normalize_wf", "smoothNormals_wf", "flatNormals_wf", "laplacian_wf", "filterAttrOld_breaks_triangles"],
    streams=[dict(name="c02", n=dict(quick=400, thorough=12000))],
    trusted=T_COMMON[1:] + [
        "hand-written pure models PolyVerif/Model/{Mesh,MeshOps,Primitives}.lean of modeling/mesh.go, modeling/meshops/*.go, "
        "modeling/primitives/*.go; tied to the code on every run by exact comparison of index lists (primitives) and of result "
        "shapes (operations) on generated inputs"],
    residue=["triangulation/bowyer_watson.go, extrude/screw.go, repeat/{circle,line,curve,fibonacci}.go: no theorem; covered by the WF oracle evaluated on every "
             "mesh these generators return",
             "marching cubes: marchBlock_wf / march_wf are about an abstract model of the LookupOrAdd allocation and the Append fold (any emitted triangles); it is tied "
             "to marching/canvas.go by reading and by the WF oracle on March output only (no structural correspondence); the additional-attribute arrays of Field.March are not modelled",
             "LaplacianSmooth on Line/LineLoop topologies not modelled (VertexNeighborTable indexes m.indices[0] of an empty line loop: runtime panic, observation)",
             "material ranges are not part of WF; negative indices are unrepresentable in the model (oracle answers false)",
             "the correspondence is differential testing bounded by the generators (distribution in this file)"],
    assumptions=["WF is the property's own definition: one common attribute length, every index < that length, index count a "
                 "multiple of the primitive size (triangle 3, quad 4, line 2); material ranges are not part of WF"],
)
