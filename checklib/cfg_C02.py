from common import T_COMMON

CFG = dict(
    gen=[dict(tool="facts", mode="c02.guards", out="MeshGuards.lean")],
    modules=["PolyVerif.Props.C02", "PolyVerif.Props.C02Delaunay", "PolyVerif.Props.C02More", "PolyVerif.Props.C02Guards"],
    theorems=[# Props/C02Guards.lean (engine F: every panic of modeling/mesh.go and topology.go with its conditions, regenerated)
              "PolyVerif.C02.mesh_guards_from_source", "PolyVerif.C02.mesh_guards_count", "PolyVerif.C02.topologies_from_source", "PolyVerif.C02.indexSize_from_source",
              "prim_wf", "uvSphere_wf", "uvSphereUnwelded_wf", "hemisphere_wf", "circle_wf", "cone_wf", "cylinder_wf", "cylinder_nocaps_wf",
              "extrusions_total", "extrudeShape_wf", "screw_wf", "extrudeLine_wf", "extrudePolygon_wf", "marchBlock_wf", "march_wf", "quad_wf", "cube_wf", "cubeUnwelded_wf",
              "unweld_wf", "removeUnreferenced_wf", "toPointCloud_wf", "flip_wf", "setIndices_wf",
              "append_wf", "setAttr_wf", "setAttr_delete_wf", "modifyAttr_wf", "mapAttr_wf", "setNormals_wf", "filterAttr_wf",
              "filterAttr_rejects_non_point", "crop_wf", "removeNullFaces_wf",
              "splitOnMaterials_wf", "weld_wf", "repeatMesh_wf", "clearAttrs_wf", "setData_wf", "step_wf", "ops_closed", "ops_closed_transforms", "march_blocks_wf", "bowyerWatson_wf", "bowyerWatson_entry_wf", "constrainedBowyerWatson_wf",
              # round 2 (Props/C02More.lean, models Model/MeshMore.lean)
              "scaleAlongNormal_wf", "scale2D_wf", "normalize2D_wf", "copyAttr_wf", "copyAttr_missing_wf", "scaleAlongNormalNode_total", "cropNode_wf", "thinNodes_wf", "vertexColorSpace_wf"],
    # one-line instances / records: kernel-checked with the module, not counted as property obligations
    helper_theorems=["translate_wf", "scaleAbout_wf", "scaleMesh_wf", "rotate_wf", "applyTRS_wf", "center_wf", "normalize_wf", "smoothNormals_wf", "flatNormals_wf", "laplacian_wf", "filterAttrOld_breaks_triangles"],
    streams=[dict(name="c02", n=dict(quick=400, thorough=12000))],
    trusted=T_COMMON[1:] + [
        "hand-written pure models PolyVerif/Model/{Mesh,MeshOps,Primitives}.lean of modeling/mesh.go, modeling/meshops/*.go, "
        "modeling/primitives/*.go; tied to the code on every run by exact comparison of index lists (primitives) and of result "
        "shapes (operations) on generated inputs"],
    residue=["SETTER GUARDS: SetIndices, SetFloatNAttribute (incl. the delete-on-empty case), CopyFloatNAttribute (= SetFloatNAttribute with the source's array), "
             "SetFloatNData and ClearAttributeData take caller-supplied data the Go code does not check. They are steps of ops_closed only under the stated guards "
             "(setIndices_wf: every index < attribute length and count fits the topology; setAttr_wf: len(data) = common length, or no attribute yet; setAttr_delete_wf: another "
             "array remains or no index; setData_wf: every new array has the common length and some array remains or no index; clearAttrs_wf: no index). With other data they are "
             "caller-checked builders whose result the caller completes: outside the theorem; exercised through the oracle c02.holds.wf_raw_setter = (guard -> WF), guard-violating "
             "calls are counted in the notes only (observed: ClearAttributeData on an indexed mesh and wrong-length SetFloatNData/CopyFloatNAttribute return non-WF meshes)",
             "operations without a Lean model, covered ONLY by the WF oracle on every mesh they return (called on generated WF meshes of all topologies): SliceByPlaneWithAttribute / "
             "SliceByPlaneTransformer, ColorGradingLut, SmoothNormalsImplicitWeld (finite positions only), LaplacianSmoothAlongAxis. (Round 2: ScaleAttributeAlongNormal "
             "(+Transformer), ScaleAttribute2D (+Transformer), NormalizeAttribute2D (+Transformer) and CopyFloatNAttribute now have models (Model/MeshMore.lean), WF theorems "
             "(Props/C02More.lean) and exact shape correspondence c02.op.{scalealongnormal,scale2d,normalize2d,copyattr}; CopyFloatNAttribute under the guards of copyAttr_wf / "
             "copyAttr_missing_wf, guard-violating calls are compared by shape only)",
             "triangulation.BowyerWatson: bowyerWatson_wf is about the C20 model Model/Delaunay.lean (any selection / order of the final triangulation's triangles; it reflects the final filter + n vertices, not the insertion algorithm), tied to Go by the C20 correspondence and here by the WF oracle; "
             "triangulation.ConstrainedBowyerWatson: constrainedBowyerWatson_wf is about an abstract model of the clipping events (Model/ConstrainedBW.lean; geometry is a parameter), "
             "tied by the structural oracle cbw_shape and the WF oracle only; WF oracle only (no theorem): node wrappers (Process) of primitives / meshops / repeat / extrude without input, "
             "simplify.QuadricDecimation, pipeline.Pipeline{}.Run, animation.WeightMeshWithHeatDiffusion, formats/colmap and opensfm point-cloud constructors; file readers are other "
             "properties' (C04 C05 C07 C08 C14 C15). Full table: notes/C02.md",
             "the generator theorems are about the Lean index generators; their link to the Go constructors is the exact comparison of (vertex count, index list) on parameter sweeps: "
             "exhaustive 0..8 (quick) / 0..24 (thorough) plus fixed and sampled NON-SQUARE parameters (rows >> columns and columns >> rows, rows = columns + 2..4) up to 512 in thorough",
             "marching cubes: marchBlock_wf / march_wf / march_blocks_wf are about an abstract model of the LookupOrAdd allocation and the Append fold (any emitted triangles); it is tied "
             "to marching/canvas.go by reading and by the WF oracle on March output only (no structural correspondence); the additional-attribute arrays of Field.March are not modelled",
             "SplitOnUniqueMaterials with material ranges SHORTER than the triangle list indexes past the last range (runtime index-out-of-range panic in the skip loop); the harness "
             "recovers that panic and reports it as a rejection (go/harness/util_mesh.go, op split), the model returns none for exactly this case. Material ranges are outside WF as "
             "the property defines it, and a panic is a reported failure, not a returned bad mesh; a fixed corpus case (c02.go corpusC02) exercises it on every run",
             "OBSERVATION kept in the streams: LaplacianSmooth on an EMPTY line loop panics at run time (VertexNeighborTable indexes m.indices[0]); it is compared as the answer 'panic' "
             "(driver knownPanic); every other line / line-strip / line-loop mesh is modelled (edges: consecutive pairs, odd pairs, closing edge) and corresponded",
             "negative indices are unrepresentable in the model (oracle answers false)",
             "the correspondence is differential testing bounded by the generators (distribution in this file)"],
    assumptions=["WF is the property's own definition: one common attribute length, every index < that length, index count a "
                 "multiple of the primitive size (triangle 3, quad 4, line 2); material ranges are not part of WF"],
    manifest=dict(
        text="Lean 4 theorems for every payload type and all parameter values. Operations: ops_closed / ops_closed_transforms (any finite sequence of non-rejected mesh "
             "operations keeps a well-formed mesh well-formed) from per-operation lemmas WF m -> WF (op m) or rejection: unweld, remove unreferenced, to point cloud, flip, append, "
             "filters (point clouds only, else rejected), crop, remove null faces, split on materials (every part), weld by any key function, repeat, set material(s), modify/map, and "
             "the ten transforms (translate, scale-about, mesh scale, rotate, apply-TRS, centre, normalise, smooth/flat normals, Laplacian); round 2: scale along normal, 2-D scale / normalise, CopyFloatNAttribute under its guard (Props/C02More). ClearAttributeData and the raw "
             "setters (SetIndices, SetFloatNAttribute incl. delete-on-empty, CopyFloatNAttribute, SetFloatNData) take unchecked caller data: they preserve WF exactly under the stated "
             "length/range guards (theorems setIndices_wf, setAttr_wf, setAttr_delete_wf, setData_wf, clearAttrs_wf, and guarded Step constructors); with other data they are builders "
             "whose result the caller completes (outside the theorem, observed only). Generators: every index in range and count divisible by 3 for ALL parameters of the Lean index "
             "generators of UV sphere (welded/unwelded), hemisphere, circle and cone (sides >= 3), cylinder (all cap choices), quad, cube tables, extrude shape/line/polygon (every "
             "list of winding flags; also Circle.Extrude, CircleAlongSpline and the node wrappers; rejection branch stated: extrusions_total), screw, and an abstract marching-cubes block allocation + append fold. Tie: exact (vertex count, index "
             "list) comparison of every modelled generator with the Go constructor on sweeps from parameter 0 upward (exhaustive <= 24, non-square samples up to 512; invalid "
             "parameters must be rejected on both sides); op sequences compared with the model (shape); the WF predicate evaluated on EVERY mesh the implementation returns, "
             "including un-modelled operations (slice by plane, colour LUT/space, implicit-weld normals, axis Laplacian) and un-modelled "
             "generators / wrappers (node Process wrappers, simplify, pipeline, animation, colmap/opensfm constructors). Abstract-model theorems tied by oracles only: marching block allocation, Bowyer-Watson (bowyerWatson_wf from the C20 model: any selection and order of the final triangulation's triangles; reflects the final filter + n vertices, not the insertion algorithm), constrained Bowyer-Watson (clipping events).",
        note="Trusted: Lean kernel + 3 axioms; harness. Not theorems (WF oracle on implementation output only): the un-modelled operations and generators listed above; bowyerWatson_wf is about the C20 model Model/Delaunay.lean (tied to Go by C20's correspondence); the "
             "marching theorems are about an abstract LookupOrAdd allocation tied to canvas.go by the oracle; generator theorems are about the Lean generators, linked to Go by the "
             "sweeps. Raw setters outside their guards are not claimed. SplitOnUniqueMaterials panics (index out of range) on material ranges shorter than the triangle list: "
             "recovered by the harness and counted as a rejection (material ranges are outside WF). Defects found and fixed: filters on indexed meshes, Circle{Sides<3}, "
             "SliceByPlane on non-triangle meshes.",
        technique="Lean 4 proof (closure of WF under operations and generators, omega arithmetic for all parameters) + exact index-list correspondence + compiled WF oracle on every returned mesh + model proved equal to definitions/facts regenerated from source on every run (engine F)"),
)
