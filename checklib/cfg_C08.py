from common import T_COMMON
from cfg_C04 import T_PLY

CFG = dict(
    modules=["PolyVerif.Props.C08", "PolyVerif.Props.C08Compose"],
    theorems=["ply_offset_is_prefix_sum", "ply_column_is_header_index", "ply_spec_field_any_layout", "ply_spec_field_value",
              "ply_spec_vertex_block", "ply_group_reader_located", "ply_group_columns_any_permutation", "ply_unclaimed_property_gets_reader", "ply_unclaimed_reader_located",
              "ply_header_line_lf_crlf", "ply_reader_quad_fan", "ply_reader_triangle", "ply_reader_face_other",
              "ply_mixed_type_group_not_claimed", "ply_ascii_int_through_float32", "ply_ascii_int_through_float32_concrete",
              "ply_ascii_uchar_scalar_not_normalised", "ply_ascii_uchar_scalar_not_normalised_concrete",
              "ply_spec_readback_vertex", "ply_reads_spec_pointcloud", "ply_group_absent_not_built",
              "ply_spec_header_parses", "ply_reads_spec_pointcloud_bytes"],
    # proved, but `rfl` on the specification-side definition: not counted (ignored by the check)
    helper_theorems=["fan_quad"],
    streams=[dict(name="c08", n=dict(quick=400, thorough=5000))],
    trusted=T_PLY + ["the independent Go reference encoder in c08.go produces the bytes fed to ply.ReadMesh; c08.encode checks on every case that the Lean refEncode yields the same bytes"],
    residue=["ply_reads_spec_full (readMesh (refEncode f) = meaning f for every guarded SpecFile) is a def … : Prop, NOT a theorem; composed so far (parsed-header interface, binary): ply_spec_readback_vertex (vertex arrays → face stage → assemble) and ply_reads_spec_pointcloud (files without face element read without error to the explicit mesh); missing: face loop over the reference face encoding, claim-stage characterisation, equality with `meaning`, ASCII; header keyword parsing IS now proved for the reference encoder's headers (ply_spec_header_parses: any property order, alias spellings, comment/obj_info anywhere, LF/CRLF) and ply_reads_spec_pointcloud_bytes is stated from FILE BYTES; on every generated SpecFile the oracle c08.holds.meaning checks that ply.ReadMesh's result equals `meaning f` and c08.read that the model reader agrees with ply.ReadMesh",
             "proved for all inputs, over the REFERENCE encoding: field decoding at the header-computed offset for any property order/type mix (ply_spec_field_any_layout), value = Datum.val for representable data, the whole binary vertex block under the vertex loop for any list of located readers (ply_spec_vertex_block), an unrecognised property gets its own located scalar reader through addUnclaimed; scalar-reader location arithmetic (binary prefix sums, ASCII column); LF/CRLF line reading; quad/triangle emission with per-corner UVs",
             "the vector claim scan buildVec IS proved to yield a Located reader for any permutation under the uniform-type guard (ply_group_reader_located; the S2 sensitivity trial lives there) and feeds ply_spec_vertex_block; NOT proved (modelled and corresponded only): the IgnorableW fallback / buildAll composition; header keyword parsing from bytes (aliases, comments, element/property lines); the face loop over list properties; UpdateMesh/unweld assembly and its equality with `meaning`; the ASCII encoding",
             "all theorems hold for an ARBITRARY `Coding α` (the bundle has no laws): they speak about decode∘encode of that coding (datumRead); `Datum.Exact` / `ply_spec_field_value` is where representability enters",
             "guards of the grammar the generators stay inside (each violated by the unchanged tree, see witnesses): one scalar type inside a recognised group; ASCII values exactly representable in float32; no 8-bit unrecognised scalar in ASCII; at least one face when a face element is declared; no uchar s/t pair (vector2.DivByConstant multiplies by 1/255: 1 ulp off b/255)",
             "SpecFile fixes the element order vertex, face and has no other elements (the reader ignores header element order and reads vertex data first); face element holds list properties only",
             "non-ASCII white space (U+0085, U+00A0 …) in header lines, tokens longer than bufio.Scanner's 64 KiB limit: not modelled"],
    rule="one evaluation = one request line answered by both the Go implementation and the Lean model/oracle; every generated file is additionally loaded through every public entry point / reader type (…holds.entrypoints_agree) and a handful of files per run cross the 4096-record / 4096-byte / 64 KiB boundaries with values tagged by vertex number",
    assumptions=[],
)
