from common import T_COMMON

CFG = dict(
    theorems=["fan_quad"],
    streams=[dict(name="c08", n=dict(quick=400, thorough=20000))],
    trusted=T_COMMON,
    residue=[],
    assumptions=[],
)
