from common import T_COMMON

CFG = dict(
    gen=[dict(spec="transform.json", out="Transform.lean")],
    theorems=["mat_add_entrywise", "mat_mul_row_col", "mat_identity", "mat_mul_one", "mat_one_mul", "mat_mul_assoc",
              "mat_det_eq", "mat_mul_inv", "mat_inv_mul", "mat_mulPosition", "mat_mulPosition_mul",
              "quat_rotate_mul", "quat_rotate_norm_general", "quat_rotate_norm", "quat_rotate_add", "quat_rotate_smul",
              "quat_identity_rotate", "quat_fromTheta_unit", "quat_rotationTo_generic", "halfturn_flips", "quat_rotationTo_antiparallel", "trs_transform",
              "aabb_setMinMax_min", "aabb_setMinMax_max", "aabb_contains_iff", "aabb_encapsulatePoint_contains",
              "aabb_encapsulatePoint_mono", "aabb_encapsulateBounds_contains", "aabb_encapsulateBounds_mono", "aabb_fromPoints_min", "aabb_fromPoints_max", "aabb_fromPoints_contains_all", "aabb_closestPoint_in_box", "aabb_closestPoint_id_inside",
              # Props/C17More.lean
              "halfAngle_rotate", "normalized_dot_self", "quat_fromTheta_rodrigues", "quat_fromTheta_fixes_axis", "quat_fromTheta_angle",
              "trs_new", "trs_position", "trs_scale", "trs_rotation", "trs_translate", "matFromDirs_frame",
              "aabb_intersects_iff", "aabb_expand_minmax", "aabb_expand_contains", "aabb_volume", "aabb_closestPoint_minimises",
              # Props/C17FromPoints.lean (round 2): about the REGENERATED Gen.geometry.NewAABBFromPoints
              "aabb_newFromPoints_fold", "aabb_newFromPoints_min", "aabb_newFromPoints_max", "aabb_newFromPoints_eq_model",
              "aabb_newFromPoints_contains_all", "aabb_newFromPoints_tight", "aabb_newFromPoints_least",
              # Props/C17Mesh.lean (round 2): the literal-loop model of the mesh-level transforms (Model/C17Mesh.lean), any scalar
              "PolyVerif.C17Mesh.mapLoop_eq_mapIdx", "PolyVerif.C17Mesh.mapLoop_eq_map", "PolyVerif.C17Mesh.rotateArray_eq_map", "PolyVerif.C17Mesh.transformArray_eq_map", "PolyVerif.C17Mesh.setFloat3Attribute_spec",
              "PolyVerif.C17Mesh.modifyFloat3Attribute_spec", "PolyVerif.C17Mesh.mesh_rotate_pointwise", "PolyVerif.C17Mesh.mesh_rotateAttr_pointwise", "PolyVerif.C17Mesh.mesh_translate_pointwise",
              "PolyVerif.C17Mesh.mesh_translateAttr_pointwise", "PolyVerif.C17Mesh.mesh_scale_pointwise", "PolyVerif.C17Mesh.mesh_scaleAttr_pointwise", "PolyVerif.C17Mesh.mesh_applyTRS_pointwise",
              "PolyVerif.C17Mesh.movesPointwise_get", "PolyVerif.C17Mesh.mesh_rotate_preserves_length", "PolyVerif.C17Mesh.mesh_applyTRS_is_RST"],
    modules=["PolyVerif.Props.C17", "PolyVerif.Props.C17More", "PolyVerif.Props.C17FromPoints", "PolyVerif.Props.C17Mesh"],
    streams=[dict(name="c17", n=dict(quick=300, thorough=20000),
                  ulps={"c17.quat.fromtheta": (8, 1e-15), "c17.quat.rotationto": (8, 1e-15)})],
    trusted=T_COMMON + ["sin/cos: Go math.Sin/Cos vs libm compared within 8 ulps (only FromTheta uses them)"],
    residue=["mesh-level Rotate / Translate / Scale / ApplyTRS 'move positions exactly as the underlying transform moves points': tied by the c17.mesh.* correspondence lines (Go output vs map of the regenerated point function, bit for bit), NOT a Lean theorem (the mesh methods are loops over a slice, outside the translator's subset)",
             "NewAABBFromPoints (uses math.Inf and a loop) is not translated: it is HAND-modelled for non-empty lists (Model/AabbFromPoints.lean, tied bit for bit by c17.aabb.frompoints) and aabb_fromPoints_contains_all is about that model; the empty list (box with infinite extents) is not modelled",
             "RotationTo is proved for UNIT directions only (a·a = b·b = 1): generic branch maps a onto b; the opposite branch (a·b < -0.999999) maps a onto -a, which is b exactly when b = -a; for non-unit inputs the function does not map a onto b (and is not claimed to)",
             "aabb_setMinMax_min/max, aabb_contains_iff, halfturn_flips, mat_identity, mat_mulPosition, trs_transform are helper / unfolding lemmas listed because later theorems are stated through them",
             "IEEE-754 rounding error of the same expressions (theorems are over ℝ); observed bit-for-bit against the model at Float, not proved",
             "RotationTo parallel branch (dot > 0.999999) returns the identity: a is mapped onto itself, i.e. onto b only up to the 0.08° the threshold allows (corresponded; covered by the oracle with tolerance)"],
    assumptions=["float64 arithmetic in Go on amd64 is IEEE-754 without FMA contraction"],
    manifest=dict(
        text="Lean 4 theorems over ℝ about definitions regenerated from math/{mat,quaternion,trs,geometry} on every run (entrywise add, row-by-column product = Mathlib matrix product, identity/assoc/inverse laws, det = Matrix.det, quaternion composition/length/linearity, FromTheta unit and — Rodrigues' formula — exactly the rotation by θ about the axis (axis fixed, orthogonal vectors turn by θ), RotationTo maps a onto b for UNIT a, b (generic branch; the opposite branch maps a onto -a), TRS = R(S∘v)+T with its constructors and Translate, MatFromDirs = orthonormal right-handed frame, AABB encapsulate containment, ClosestPoint in the box AND nearest among all box points, Intersects iff the boxes share a point, Expand, Volume); kernel-checked, axioms audited per theorem; the regenerated definitions are executed at Float and compared bit-for-bit with the Go functions, and the theorem predicates are evaluated on the Go functions' outputs.",
        note="Trusted: Lean kernel; propext/Classical.choice/Quot.sound; translator go/xlate and its vector-library table; harness; Go toolchain. Not proved: IEEE rounding error; mesh-level transforms are correspondence + pointwise oracle (no theorem); NewAABBFromPoints is hand-modelled.",
        technique="Lean 4 proof over a model regenerated from source (translator) + Float bit-exact correspondence"),
)
