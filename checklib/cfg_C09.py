from common import T_COMMON

CFG = dict(
    gen=[dict(tool="facts", mode="c09.tables", out="MarchTable.lean"),
         dict(spec="march.json", out="MarchInterp.lean")],
    theorems=[
        # table level: decide +kernel over the complete regenerated tables
        "table_shapes", "table_rows_wellformed", "table_caseIndex", "table_edges_are_lattice_edges",
        "table_edges_cross", "table_nondegenerate", "table_no_duplicate_edge", "table_interior_balanced",
        "table_canon_empty", "table_face_canonical", "table_cell_flow", "table_face_consistent",
        # gluing: arbitrary box, arbitrary sign pattern, boundary layer outside
        "march_closed_balanced",
        # block storage
        "blockFetch_eq_global", "fetchCell_eq_global", "skipped_cells_outside", "addField_axis_partition",
        "addField_allocates_neighbourhood",
        # interpolation / isosurface
        "interp_between", "interp_on_segment", "interp_symmetric", "vertex_near_isosurface",
    ],
    streams=[dict(name="c09", n=dict(quick=8, thorough=120), timeout=dict(quick=600, thorough=3600))],
    trusted=T_COMMON + [
        "engine F extractor /verif/go/facts/c09.go (go/parser; every unexpected AST shape is an error)",
    ],
    residue=[],
    assumptions=["float64 arithmetic in Go on amd64 is IEEE-754 without FMA contraction"],
)
