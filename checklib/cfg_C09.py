from common import T_COMMON

CFG = dict(
    gen=[dict(tool="facts", mode="c09.tables", out="MarchTable.lean"),
         dict(tool="facts", mode="c09.loops", out="MarchLoops.lean"),
         dict(spec="march.json", out="MarchInterp.lean")],
    modules=["PolyVerif.Props.C09", "PolyVerif.Props.C09Loops"],
    theorems=[
        # table level: decide +kernel over the complete regenerated tables
        "table_shapes", "table_rows_wellformed", "table_caseIndex", "table_edges_are_lattice_edges",
        "table_edges_cross", "table_nondegenerate", "table_no_duplicate_edge", "table_interior_balanced",
        "table_canon_empty", "table_face_canonical", "table_cell_flow", "table_face_consistent",
        "table_case_edges_nodup", "table_canon_no_antiparallel",
        # gluing: arbitrary box, arbitrary sign pattern, boundary layer outside
        "march_closed_balanced", "cells_glue_face", "cell_edges_nodup",
        "table_segs_unit", "table_shared_edges", "box_edges_nodup", "march_closed", "march_closed_exactly_one",
        # weld, and transfer from lattice-edge ids to the welded mesh
        "weld_preserves_balance", "weld_nondegenerate", "weld_preserves_nodup", "march_weld_balanced", "march_weld_closed",
        # block storage
        "blockFetch_eq_global", "fetchCell_eq_global", "skipped_cells_outside", "addField_axis_partition",
        "addField_allocates_neighbourhood",
        # interpolation / isosurface
        "interp_between", "interp_on_segment", "interp_symmetric", "vertex_near_isosurface",
        "table_tri_edges_lt", "emitted_vertex_on_crossing_edge", "emitted_vertex_near_isosurface",
        # orientation
        "table_triangle_outward_corners", "table_triangle_outward", "emitted_triangle_outward",
        "volume_translation_invariant", "march_volume_translation_invariant", "table_inside_tests",
        # volume of the cell solid (table-level corner facts in Lemmas/MarchVolume.lean, ~7 min of kernel time, cached)
        "Tab.table_poly_wellformed", "Tab.table_cell_volume_corners_ff", "Tab.table_cell_volume_corners_ft",
        "Tab.table_cell_volume_corners_tf", "Tab.table_cell_volume_corners_tt", "Tab.table_cell_volume_positive_corner",
        "Tab.table_det_codes", "Tab.table_pos_codes", "cell_volume_nonneg",
        "Tab.table_poly_closed_ff", "Tab.table_poly_closed_ft", "Tab.table_poly_closed_tf", "Tab.table_poly_closed_tt", "poly_closed",
        "Tab.table_low_caps_planar", "low_cap_volume_zero", "poly_volume_eq_solid", "cell_volume_pos",
        "Tab.table_cap_canonical", "Tab.table_cap_canon_empty",
        "volume_box_eq_cells", "march_volume_nonneg", "march_volume_positive", "weld_preserves_volume", "march_weld_volume_positive",
        "marched_tris_perm_box", "marched_volume_positive",
        # exactly the cells the real marcher visits
        "marched_perm_box", "marched_closed",
        # round 2, Props/C09Loops.lean: the hand model of the cell / block loops IS the interpretation of the loop / fetch
        # skeleton regenerated from canvas.go (Gen/MarchLoops.lean, go/facts mode c09.loops)
        "cells_from_source", "index_from_source", "blockPos_from_source", "fetchCorner_from_source", "fetchCell_from_source",
        "early_continue_from_source", "origin_from_source", "cellEmit_from_source", "cellEmitTris_from_source",
        "marched_from_source", "marched_tris_from_source", "marched_closed_from_source", "marched_volume_positive_from_source",
        "inside_test_from_source", "vertex_uses_from_source", "section_size_from_source", "cell_body_from_source",
        # block level (AddField clipping / allocation, block enumeration, final weld): pinned text + partition on the pinned expressions
        "field_bounds_from_source", "add_field_from_source", "addField_partition_from_source", "weld_call_from_source",
    ],
    # reading aid (ignored by ./check): the closedness result is ONE result under four names, and several listed
    # theorems are intermediate lemmas of it rather than independent clauses of the property
    one_result={"closedness in lattice-edge ids": ["march_closed_balanced", "box_edges_nodup", "march_closed", "march_closed_exactly_one"]},
    helper_theorems=["cells_glue_face", "cell_edges_nodup", "table_segs_unit", "table_shared_edges", "table_case_edges_nodup",
                     "table_canon_no_antiparallel", "table_tri_edges_lt", "fetchCell_eq_global", "addField_allocates_neighbourhood",
                     "march_weld_balanced", "table_triangle_outward_corners", "table_triangle_outward", "march_volume_translation_invariant",
                     "marched_perm_box", "table_inside_tests", "Tab.table_poly_wellformed", "Tab.table_det_codes", "Tab.table_pos_codes",
                     "Tab.table_cell_volume_corners_ff", "Tab.table_cell_volume_corners_ft", "Tab.table_cell_volume_corners_tf",
                     "Tab.table_cell_volume_corners_tt", "Tab.table_poly_closed_ff", "Tab.table_poly_closed_ft", "Tab.table_poly_closed_tf",
                     "Tab.table_poly_closed_tt", "Tab.table_low_caps_planar", "Tab.table_cap_canonical", "Tab.table_cap_canon_empty",
                     "Tab.table_cell_volume_positive_corner", "poly_closed", "low_cap_volume_zero", "poly_volume_eq_solid", "cell_volume_nonneg",
                     "cell_volume_pos", "volume_box_eq_cells", "weld_preserves_volume",
                     "index_from_source", "blockPos_from_source", "fetchCell_from_source", "origin_from_source",
                     "cellEmitTris_from_source", "marched_tris_from_source", "section_size_from_source"],
    streams=[dict(name="c09", n=dict(quick=8, thorough=80), timeout=dict(quick=600, thorough=3600))],
    trusted=T_COMMON + [
        "engine F extractors /verif/go/facts/c09.go, c09_loops.go (go/parser; every unexpected AST shape is an error)",
        "the READING of Gen/MarchLoops.lean in Props/C09Loops.lean `namespace Src` (loopVals: a Go for-loop with positive step and < / <= takes the values start, start+step, ...; nested loops = nest; sequential guard assignments = foldl; range loop with break + `if !allValid { continue }` = Option mapM)",
        "driver's Float transcription of sdf.Sphere/Box/Line and of 'union = min' (used only by the near_iso oracle)",
        "driver's n log n evaluation of Closed and of Balanced (cross-checked against the quadratic specification predicate on meshes <= 150 triangles on every run)",
    ],
    residue=[
        "POSITIVE VOLUME is now a theorem in lattice-edge ids and exact arithmetic: march_volume_positive (= C09_volume_positive_full): box of cells with outside boundary layer, ANY sign pattern, every vertex strictly between the two ends of its lattice edge, non-empty surface => 0 < signed volume; march_volume_nonneg with parameters in [0,1]; march_weld_volume_positive transfers it through any weld map that preserves positions (weld_preserves_volume: dropped triangles have two corners at one position). Also proved: emitted_triangle_outward (per triangle), volume_translation_invariant. NOT covered by these theorems: (a) IEEE rounding of the interpolation and the float-keyed weld, which moves a welded vertex by up to 1e-3 (the real weld is not position-preserving: exact-arithmetic statement only; the change of volume is bounded by surface area x 1e-3 but that bound is not a theorem); (b) parameters exactly 0 or 1 (a sample equal to the cutoff): only >= 0 is proved; (c) [closed] marched_tris_perm_box / marched_volume_positive restate it for exactly the triangle list marchFloat1 emits (under MarchHyp). Per run: c09.holds.outward (total signed volume > 0 on the real mesh) and c09.holds.tri_outward. The per-edge form normal . d_i > 0 is FALSE for this table (72 of 820 triangles); the sum form is what holds",
        "c09.holds.tri_outward skips triangles with a corner within the weld radius of a lattice corner or on several sign-changing edges (their lattice edge is not determined by the position); epsilon 1e-6 cell^2",
        "TRANSFER from lattice-edge ids to the real mesh: the Balanced half transfers unconditionally (weld_preserves_balance / march_weld_balanced: any vertex identification, dropping triangles with two equal corners); 'exactly one' is PROVED to transfer only under the hypothesis that the float vertex map is injective on the sign-changing lattice edges (march_weld_closed, weld_preserves_nodup) - i.e. when no two distinct sign-changing lattice edges produce vertices in one weld cell; the hypothesis is sufficient, not necessary, it is NOT a theorem and it is FALSE in general: a sample EQUAL to the cutoff gives interpolation parameter 0/1, so up to six lattice edges produce the same corner position. Observed: lattice-aligned single shapes, shapes touching at a point/edge/corner stay closed (strict oracle c09.holds.closed on the lattice-aligned classes, both tiers, single block and across seams); two inside regions separated only by samples equal to the cutoff (two boxes touching at a lattice face) are welded into coincident sheets: balanced, but 32 directed edges matched twice = known finding C09-touching-at-cutoff (op c09.holds.closed_touching_at_cutoff_witness, replayed every run; c09.holds.balanced is true on it). SECOND failing class found by the lattice-aligned generators = known finding C09-cutoff-noise-line: an axis-aligned capsule with whole-cell radius on a lattice line at 5 or 10 cubes per unit has a whole lattice LINE of samples at -2.2e-16 (float noise below the cutoff); the one-sample ridge is welded flat, 76 directed edges matched twice, balanced (op c09.holds.closed_cutoff_noise_line_witness; the same capsules at 1, 2, 4, 8 cubes per unit are exact and pass the strict oracle). THIRD class (seed 1 of the streams with parallel adders) = C09-weld-pinch-fine-resolution: the weld tolerance is ABSOLUTE (1e-3 world units = 0.037 cells at 37 cubes per unit); a generic capsule at 37/unit has two neighbouring vertices inside the weld cells of two lattice corners, vertices of other lattice edges are merged into them and one edge is shared by four triangles (2 directed edges twice, balanced, no degenerate face): op c09.holds.closed_weld_pinch_witness (fixed repro every run); RANDOM pipeline / accumulated canvases use c09.holds.closed_or_weld_pinch (strict closed, or balanced + no degenerate face + every over-used directed edge has an end point within the weld radius of a lattice corner (one weld-merged end point suffices; widened after a thorough run showed doubled edges whose second end point is an ordinary vertex)); the deterministic catalogue keeps the strict oracle",
        "that LookupOrAdd (1e-4) / WeldByFloat3Attribute (1e-3) give ONE id to the two float computations of one lattice edge (interp_symmetric is the exact-arithmetic statement) and do not merge distinct lattice edges when cell size >> 1e-3 and no sample is within float noise of the cutoff: observed by the oracles on the final mesh, not proved",
        "march_closed is a theorem about lattice-edge ids over a box of cells (see one_result); see the TRANSFER item for what it says about the real mesh",
        "marched_closed covers exactly the iteration of marchFloat1 (all allocated blocks in any order, all 100^3 cells, skip when a corner block is missing, case index from the fetched values) under MarchHyp; ROUND 2: that iteration is no longer a hand transcription only - the loop bounds / comparison / step / block size, the block step at marchingSectionSize-1, the two early continues, newIndex + guards + d.index argument order and body, which block/index each cubeCorners[i] reads, the `<` of the inside test, offset + (xf,yf,zf), the tables and argument order of the three interpolateVerts calls and the statement skeleton of the cell body are REGENERATED (Gen/MarchLoops.lean) and the model is proved equal to their interpretation (cells_from_source ... cell_body_from_source; marched_closed_from_source / marched_volume_positive_from_source restate the headline results for the interpreted program). What stays hand-read: the interpreter itself (namespace Src, ~90 lines: see trusted), the initial values cubeData[i] = data / cubeDataIndexes[i] = d.index(x+dx, ..) that the fetch loop overwrites whenever the cell is not skipped (pinned by label only), `range section.positions` = each allocated block once (MarchHyp.nodup/alloc), LookupOrAdd / Append / Transform / Weld (see TRANSFER). MarchHyp's padding hypothesis is what AddField's one-cell padding provides per axis (addField_allocates_neighbourhood), not derived for an arbitrary sequence of AddField calls; block enumeration without repetition = iteration over a Go map",
        "canvasPosToChunkPos computes floor(x/100) through float64 (exact for |x| < 2^46): assumed, tied by the grid correspondence at negative coordinates",
        "vertex within one cell of the TRUE isosurface: emitted_vertex_near_isosurface assembles table_edges_cross + case index + interp_between + interp_on_segment + IVT for every vertex the MODEL emits (lattice ids, exact arithmetic), under the hypothesis that the stored samples are the values of a field continuous along the edge; that the canvas stores exactly the analytic field's samples and that the real (float, welded) output vertex is that interpolated point is the per-run oracle c09.holds.near_iso",
        "IEEE rounding of interpolateVerts; Float2/Float3 canvases, texture helpers, AddFieldParallel*/MarchParallel (C10) out of scope",
        "canvas filling: the theorems model AddField's partition per axis (addField_axis_partition); that AddFieldParallel / AddFieldParallel2 accumulate the same samples is not modelled in Lean (C10's subject) - it is exercised per run: a third of the pipeline canvases each through AddField / AddFieldParallel / AddFieldParallel2, and overlapping fields through mixed adders checked against the ACCUMULATED field (c09.holds.near_iso_accumulated, c09.holds.tri_outward_accumulated)",
        "oracle lines are compiled Lean predicates applied to implementation output: evidence, not proof",
    ],
    assumptions=["float64 arithmetic in Go on amd64 is IEEE-754 without FMA contraction"],
)
