from common import T_COMMON

CFG = dict(
    gen=[dict(tool="facts", mode="c09.tables", out="MarchTable.lean"),
         dict(spec="march.json", out="MarchInterp.lean")],
    theorems=[
        # table level: decide +kernel over the complete regenerated tables
        "table_shapes", "table_rows_wellformed", "table_caseIndex", "table_edges_are_lattice_edges",
        "table_edges_cross", "table_nondegenerate", "table_no_duplicate_edge", "table_interior_balanced",
        "table_canon_empty", "table_face_canonical", "table_cell_flow", "table_face_consistent",
        "table_case_edges_nodup", "table_canon_no_antiparallel",
        # gluing: arbitrary box, arbitrary sign pattern, boundary layer outside
        "march_closed_balanced", "cells_glue_face", "cell_edges_nodup",
        "table_segs_unit", "table_shared_edges", "box_edges_nodup", "march_closed", "march_closed_exactly_one",
        # weld
        "weld_preserves_balance", "weld_nondegenerate",
        # block storage
        "blockFetch_eq_global", "fetchCell_eq_global", "skipped_cells_outside", "addField_axis_partition",
        "addField_allocates_neighbourhood",
        # interpolation / isosurface
        "interp_between", "interp_on_segment", "interp_symmetric", "vertex_near_isosurface",
    ],
    streams=[dict(name="c09", n=dict(quick=8, thorough=80), timeout=dict(quick=600, thorough=3600))],
    trusted=T_COMMON + [
        "engine F extractor /verif/go/facts/c09.go (go/parser; every unexpected AST shape is an error)",
        "driver's Float transcription of sdf.Sphere/Box/Line and of 'union = min' (used only by the near_iso oracle)",
        "driver's n log n evaluation of Closed (cross-checked against the quadratic specification predicate on meshes <= 150 triangles on every run)",
    ],
    residue=[
        "outward orientation / positive enclosed volume: decided per run by c09.holds.outward (signed volume, Float), no theorem",
        "float-keyed vertex sharing (LookupOrAdd at 1e-4, WeldByFloat3Attribute at 1e-3): theorems identify a vertex with its lattice edge (exact arithmetic, interp_symmetric); that rounded float keys realise exactly this identification (no pinching, cell size >> 1e-3) is observed on the final mesh by the oracles; weld_preserves_balance covers any merge",
        "march_closed (balanced AND no directed edge twice = matched by exactly one) is a theorem at the level of lattice-edge ids, for a box of cells; the step from lattice-edge ids to the float vertex ids of the real mesh is the float-keyed sharing above",
        "that the cells the real marcher visits differ from a bounding box only by all-outside cells: skipped_cells_outside + empty row 0, not assembled into one statement with march_closed_balanced",
        "canvasPosToChunkPos computes floor(x/100) through float64 (exact for |x| < 2^46): assumed, tied by the grid correspondence at negative coordinates",
        "vertex within one cell of the TRUE isosurface: vertex_near_isosurface (IVT along the lattice edge, f continuous) + interp_between are theorems; that the analytic field changes sign along the very edge each output vertex lies on is the per-run oracle c09.holds.near_iso",
        "IEEE rounding of interpolateVerts; Float2/Float3 canvases, texture helpers, AddFieldParallel*/MarchParallel (C10) out of scope",
        "oracle lines are compiled Lean predicates applied to implementation output: evidence, not proof",
    ],
    assumptions=["float64 arithmetic in Go on amd64 is IEEE-754 without FMA contraction"],
)
