from common import T_COMMON

# C13 — concurrent parameter updates and artifact reads are linearizable.
#
# Engine F (go/facts/c13.go, mode c13.locks): Gen/LockFacts.lean = the event list (lock / deferUnlock / unlock /
#   producersLookup / access / pure / ret, in source order) of UpdateParameter, ParameterData, Artifact of
#   generator/graph/instance.go.  The extractor fails (broken obligation) on anything it does not recognise.
# Engine H (stream "c13", go/harness/c13.go <-> lean/Driver/C13.lean), on a real graph.Instance:
#   c13.seq                   K calls issued one after the other vs a fold of PolyVerif.Linz.seqStep (exact)
#   c13.holds.linearizable    a complete history recorded from 1..16 client goroutines (GOMAXPROCS 1/2/4/16, barrier
#                             start, Gosched sprinkled, yielding processors, globally unique update values);
#                             the driver searches a linearization (untrusted) and answers what the verified
#                             PolyVerif.Linz.checkWitness says about the order found
#   c13.holds.results_immutable  FILE family (parameter.File parameters feeding the repo's real basics.BinaryNode producers): every
#                             client keeps the slices it received (ParameterData bytes, Binary.Data of artifacts) with a digest taken
#                             at return time and re-digests them after its later operations and after the history ended (plus one more
#                             shorter update): a result is a VALUE, no later update may change it in place. The same histories go
#                             through c13.holds.linearizable with the return-time values. (Added after seeded change C13-m3 —
#                             File.ApplyMessage recycling its previous buffer — was missed.)
#   c13.http.seq / HTTP schedules  the REAL edit server (generator.App.Run edit on 127.0.0.1) driven in-process: sequential endpoint calls vs
#                             the atomic spec; deterministic schedules with a harness artifact whose Write blocks (a download held after
#                             Artifact() returned while updates complete; the next download must see the update) and random HTTP
#                             histories through c13.holds.linearizable. (Added after seeded change C13-m6 — response cache in the HTTP
#                             layer tagged with a ModelVersion read too late — was missed.)
#   SHARED / STL / TYPED families (go/harness/c13_shared.go; added after seeded changes C13-m16 — a node whose Process() failed keeps its old
#                             version — and C13-m17 — ApplyMessage decoding into the value the parameter holds — were missed): per family n/10 graphs,
#                             each with a sequential run (c13.seqx: responses + Version() of EVERY node + ModelVersion vs the fold of seqStep;
#                             c13.holds.artifact_snapshot: every artifact = Spec of the ONE current valuation; c13.holds.rejected_message_noop;
#                             c13.holds.results_immutable on everything kept) and a concurrent history (c13.holds.linearizable, results_immutable).
#                             ERR: interior nodes SHARED by 2..3 producers whose Process() returns an error depending on the parameter values;
#                             STL: the repo's parameter.File -> stl.ReadNode -> 2..3 stl.ArtifactNode, every other upload truncated (ReadMesh fails);
#                             TYPED: int/float64/string/bool/vector3/Vector3Array parameters behind adapter nodes, a keeper producer per Vector3Array
#                             whose artifact keeps the slice, 20-30 % rejected messages (bad JSON; wrong type in first/middle/last element; wrong arity).
#   n = number of concurrent histories (+ n/5 FILE histories, 2 lines each; + 1+n/300 HTTP servers, 10 lines each); plus n/2 c13.seq lines and n/8 one-client histories through the same oracle.
# Extra: the same stream built with `go build -race`; a DATA RACE report (exit code 66) fails the extra.
#   quick: one run in which the stream itself varies GOMAXPROCS 1/2/4/16 per history;
#   thorough: additionally GOMAXPROCS pinned to 1, 2 and 16 from the environment.

RACE_C13 = r'''
set -u
WORK="$1"; SEED="$2"; TIER="$3"
export GOFLAGS=-mod=mod GOPROXY=off GOSUMDB=off GOTOOLCHAIN=local CGO_ENABLED=1
SRC=hrace_c13_$$
mkdir -p "$SRC" "$WORK"
trap 'rm -rf "$SRC"' EXIT
cp harness/main.go harness/util*.go harness/c13*.go "$SRC"/
if ! go build -race -tags verif -o "$WORK/harness_race" "./$SRC" > "$WORK/race_build.log" 2>&1; then
  echo "race build failed"; tail -40 "$WORK/race_build.log"; exit 2
fi
if [ "$TIER" = thorough ]; then RUNS="vary:1500 1:500 2:500 16:500"; else RUNS="vary:500"; fi
rc=0
for R in $RUNS; do
  P=${R%%:*}; N=${R##*:}
  mkdir -p "$WORK/race_$P"
  if [ "$P" = vary ]; then unset GOMAXPROCS; else export GOMAXPROCS=$P; fi
  GORACE="halt_on_error=0 exitcode=66" "$WORK/harness_race" c13 -seed "$SEED" -n "$N" -tier "$TIER" -out "$WORK/race_$P" > "$WORK/race_$P.log" 2>&1
  r=$?
  if grep -q "DATA RACE" "$WORK/race_$P.log" || [ $r -ne 0 ]; then
    echo "GOMAXPROCS=$P n=$N: harness exit $r; $(grep -c 'DATA RACE' "$WORK/race_$P.log") race report(s); first:"
    grep -n -A 30 -m 1 "DATA RACE" "$WORK/race_$P.log" | head -60
    grep -q "DATA RACE" "$WORK/race_$P.log" || tail -20 "$WORK/race_$P.log"
    rc=1
  else
    echo "GOMAXPROCS=$P n=$N: no race reported; $(tail -1 "$WORK/race_$P.log" | cut -c1-120)"
  fi
done
exit $rc
'''

CFG = dict(
    gen=[dict(tool="facts", mode="c13.locks", out="LockFacts.lean", args=[]),
         # the sequential operations inside the critical sections are C11's model: its regenerated skeleton is re-checked here too
         dict(tool="facts", mode="c11.skeleton", out="NodeSkeleton.lean", args=[])],
    facts_files=["c11.go"],
    modules=["PolyVerif.Props.C13", "PolyVerif.Props.C13Shared", "PolyVerif.Props.C11Src"],
    theorems=["PolyVerif.C11.outdated_from_source", "PolyVerif.C11.process_from_source",
              "lock_facts_well_locked", "mutex_invariant", "linearizable",
              "programs_correct_all", "prog_refines_atomic", "prog_linearizable", "model_version_regular",
              "model_version_counts_updates",
              "fine_refines_atomic", "fine_linearizable", "programs_correct", "critical_section_atomic",
              "locked_artifact_is_atomic",
              "artifact_snapshot", "paramData_snapshot", "completed_before_is_visible", "snapshot_params",
              "witness_check_sound", "unlocked_mixes_states", "unlocked_not_linearizable",
              "rejected_message_noop"],
    # corollaries / lemmas about the predicates, kernel-checked with the module, not counted as obligations (ignored by the check)
    helper_theorems=["linearizable'", "locked_never_bad", "wellLocked_sound", "artifactTraceS_eval",
                     "spec_depends_on_statics"],
    streams=[dict(name="c13", n=dict(quick=1500, thorough=40000), timeout=dict(quick=600, thorough=3600))],
    extras=[dict(name="race-detector (go build -race; stream c13; quick: GOMAXPROCS varied per history; thorough: also pinned 1,2,16)",
                 cmd=["bash", "-c", RACE_C13, "race_c13", "{work}", "{seed}", "{tier}"],
                 tiers=["quick", "thorough"], timeout=1800, kind="data-race")],
    trusted=[T_COMMON[1], T_COMMON[2],
             "engine F extractor /verif/go/facts/c13.go (syntactic, go/parser only): fails on any construct it does not recognise and on ANY event "
             "under control flow (only `if cond { panic(...) }` is accepted); self-tests tools/c13_extractor_selftest.sh (18 seeded instance.go)",
             "hand-written models PolyVerif/Model/Linz.lean, Model/Nodes.lean (tied by streams c13 and c11)",
             "sync.Mutex, the Go memory model, the race detector",
             "the driver's linearization search is NOT trusted: its result is validated by the verified checkWitness, which also checks that the "
             "recorded history is well formed (unique invocation ids, at most one response per id, response after invocation)"],
    residue=["data-race freedom is the race detector's verdict on the generated schedules, not a theorem",
             "value semantics of returned results is NOT in the model (responses of the model are values by construction): that the bytes "
             "returned by ParameterData and inside an artifact do not alias buffers a later update writes is checked on the implementation "
             "(c13.holds.results_immutable: parameter.File + the real basics.BinaryNode, payloads of decreasing/equal length, results "
             "re-digested after later updates and after the history), for the parameter and artifact types the harness uses only",
             "linearizability is proved of the FINE-GRAINED locked system FExec (multi-step critical sections, fine_linearizable via the "
             "refinement fine_refines_atomic, which uses mutual exclusion); that the Go functions ARE such clients — every access to shared "
             "state between Lock and Unlock, micro-steps composing to the sequential effect (programs_correct: artifactTrace splits "
             "process() of the producer one level deep) — rests on the regenerated lock facts (syntactic) and the correspondence, not on a semantics of Go",
             "micro-structure of the critical sections: the program system PExec executes, between Lock() and the deferred Unlock(), the "
             "micro-steps lookup / version++ / value write / result / incModelVersion (UpdateParameter, the last also after a rejected message), "
             "lookup / value read (ParameterData), outdated check / one .Value() pull per dependency slot / store / cache read (Artifact), each "
             "on the current shared state, with the response assembled from what the steps read (programs_correct_all, prog_refines_atomic). "
             "Granularity residue: each micro-step is atomic; the parameter lookup (map scan + type assertion) is one step; a pulled "
             "dependency's own .Value() (its whole sub-evaluation) is one step; JSON decoding is pure and folded into the call (update vs "
             "updateRejected); the program of a call is fixed from the state found at Lock()",
             "unlocked accesses: ModelVersion() without the lock is modelled as call / atomic load / return events of a client that holds no lock "
             "(model_version_regular: the value lies between the counter at the call and at the return; the counter only grows; "
             "model_version_counts_updates: it counts accepted and rejected parameter messages). Before fix 899edf1 the read was not atomic; "
             "the model is of the fixed code. The whitelisted pre-lock `i.producers[name]` lookup is not an event of the model (no entry point writes that map)",
             "rejected messages: Call.updateRejected answers err and leaves the graph unchanged; that UpdateParameter still bumps the instance's model "
             "version after a rejected message (instance.go:440-442) is outside the model state — the driver mirrors it (mv compared after every "
             "sequential call); undecodable messages are sent only in the sequential families (c13.seq, c13.http.seq), not in the concurrent ones",
             "`Linearization` itself does not demand a well-formed history; executions of the model produce well-formed ones, and for recorded "
             "histories checkWitness (wfHist) enforces it",
             "the HTTP layer is not MODELLED but EXERCISED: the real edit server (generator.App.Run edit) is driven in-process — parameter-value and "
             "producer-value endpoints sequentially against the atomic spec (c13.http.seq) and concurrently (deterministic schedules with a "
             "harness artifact whose Write blocks mid-download; S5: a download held inside Process() under the lock, two POSTs to one parameter "
             "queued around its release, then a re-send and reads; S6: failing and abandoned downloads plus overlapping downloads of a "
             "multi-row body that must be exactly one snapshot; repeated-value and random histories) through the verified linearizability "
             "check; handler-local state of the HTTP layer is not modelled — it is what these schedules probe; other endpoints "
             "(/node, /graph, /zip, websocket messages, autosave) are not driven. A fatal panic of the in-process server (e.g. net/http panicking "
             "in its own deferred flush) kills the harness: the check then reports a crash record, not an oracle line",
             "graph edits (ConnectNodes, CreateNode, DeleteNode, SetNodeAsProducer, ApplyAppSchema) concurrent with the three calls are outside the "
             "property and the model: they mutate i.producers / i.nodeIDs without producerLock; the whitelisted pre-lock producers lookup is "
             "sound only because none of the three entry points writes that map",
             "a genuine race was found by the race extra on the real server (hub goroutine / StartedEndpoint reading Instance.movelVersion "
             "unlocked while UpdateParameter wrote it) and FIXED in /repo as 899edf1 (atomic); the race extra now covers the server's hub "
             "goroutine and handlers too",
             "if the loopback server cannot be started or reached in the environment, the HTTP families are dropped (note http.unavailable in the "
             "evidence) and only the Instance-level families run — check the notes of a run to see which case it was",
             "explicit (non-deferred) Unlock: a panic between Lock and Unlock would leave the mutex held — a deadlock the harness watchdog would show, "
             "not the lock facts; today all three functions defer the Unlock",
             "malformed / mistyped JSON is sent to parameters of every Value type (int, float64, string, bool, vector3, Vector3Array: bad syntax, wrong "
             "type in the first / a middle / the last element, wrong arity) in the sequential AND concurrent runs of the TYPED family; in the "
             "model a rejected message is Call.updateRejected (rejected_message_noop: it can be deleted from any sequential run); that the Go "
             "decoder writes nothing before it fails is checked on the implementation (c13.holds.rejected_message_noop / artifact_snapshot), not proved; "
             "AABB / Color / Vector2 / Float32 / Image parameters are not in the stream; liveness is not claimed",
             "processors that return an error: nodes.Struct stores the value returned next to the error and bumps its version, so the model treats a "
             "failing Process() as an ordinary function (model nodes E, R); the harness nodes' error depends on the mixed input value, the real "
             "stl.ReadNode fails on truncated uploads; other failing library loaders (spz, gausops, ply) are not in the stream",
             "an unlocked ParameterData alone is caught by the lock facts and the race detector, not by the linearizability oracle "
             "(a single-word read stays linearizable in every recorded history)",
             "C11's guard (the graph is acyclic) is inherited; artifact_snapshot holds for every processor, skipping ones included "
             "(C11 read_fresh needs no ReadsAll); programs_correct covers every processor (artifactTraceM); locked_artifact_is_atomic / artifactTrace_eval are the all-reading special case"],
    assumptions=["wiring is fixed during a concurrent history", "sync.Mutex provides mutual exclusion and happens-before"],
    manifest=dict(
        text="Lean 4 theorems about lock-protocol models over C11's node-graph model. Atomic system Exec (one step per critical section): "
             "mutex_invariant; linearizable (EVERY execution, any number of clients, any interleaving, is linearized by the critical-section "
             "order: complete, respects real-time precedence, a run of the sequential specification). FINE-GRAINED system FExec (the lock owner "
             "performs any number of micro-steps on the shared state between Lock and Unlock, arbitrarily interleaved with other clients): "
             "critical_section_atomic, fine_refines_atomic (every FExec execution is, through an abstraction function, an Exec execution with "
             "the same history — the proof uses mutual exclusion) and hence fine_linearizable. PROGRAM system PExec: the critical sections are the "
             "real micro-step programs of the three entry points (UpdateParameter: lookup, version++, value write, result, incModelVersion — "
             "also after a rejected message; ParameterData: lookup, read; Artifact: outdated check, one .Value() pull per dependency slot, "
             "store, cache read), each step on the current shared state, the response assembled from what the steps READ: "
             "programs_correct_all (run without interleaving a program equals its atomic step), prog_refines_atomic / prog_linearizable (no "
             "side condition left), model_version_regular (an UNLOCKED ModelVersion() read returns a value between the counter at its call "
             "and at its return) and model_version_counts_updates (the counter = number of accepted and rejected parameter messages). artifact_snapshot / paramData_snapshot / snapshot_params / "
             "completed_before_is_visible (every artifact equals the from-scratch evaluation of ONE parameter valuation, the one at its "
             "linearization point; nothing older than a completed update is read). unlocked_not_linearizable (closed two-client diamond schedule "
             "without the lock mixing two states). witness_check_sound (the executable check implies a well-formed, Linearizable history). "
             "lock_facts_well_locked by decide over facts REGENERATED from instance.go on every run: for UpdateParameter / ParameterData / "
             "Artifact exactly one Lock before any shared-state access, Unlock deferred immediately or explicit as the last act, exactly one "
             "return (the last event); the extractor refuses any lock operation, access or return under control flow. Tie: sequential replays "
             "on a real graph.Instance match the model exactly; histories recorded from 1–16 goroutines (GOMAXPROCS 1/2/4/16, unique update "
             "values, yielding processors) are linearized by an untrusted search whose witness the verified checker validates; the same stream "
             "under the race detector; results held by clients (ParameterData bytes, artifact bytes of parameter.File + basics.BinaryNode) are "
             "re-digested after later completed updates (results_immutable); the REAL edit server's parameter/producer endpoints are driven "
             "sequentially (c13.http.seq) and with deterministic schedules (download blocked in Write; download held in Process() under the lock with "
             "two updates queued and a re-send; failing / abandoned downloads with overlapping multi-row downloads checked as snapshots) and "
             "random concurrent HTTP histories through the same verified linearizability check.",
        note="Trusted: Lean kernel + 3 axioms; the syntactic lock-fact extractor (self-tested on 18 seeded variants of instance.go); harness; "
             "Go's sync.Mutex; the race detector. Runtime residue: data-race freedom is the race detector's verdict on the runs made, not a "
             "theorem. That the Go functions are clients of the fine-grained model (all shared-state accesses between Lock and Unlock; their "
             "steps compose to the sequential operation) rests on the lock facts plus correspondence, not on a Go semantics; the split of "
             "process() into micro-steps is one level deep. artifact_snapshot inherits C11's guard (acyclic graph) and holds for every "
             "processor; programs_correct covers Artifact for any pull strategy; UpdateParameter / ParameterData are single model steps. The HTTP layer is exercised (parameter/producer endpoints), not modelled; graph edits concurrent with the "
             "three calls are not modelled. A genuine race found this way (hub goroutine reading the model version "
             "unlocked) was fixed in /repo (899edf1); the race extra covers the server's hub goroutine. If loopback is unavailable the HTTP "
             "families are skipped with a note (http.unavailable) in the evidence. Value semantics of returned results (no aliasing with buffers a later update writes) is a tested "
             "predicate (results_immutable), not a theorem.",
        technique="Lean 4 proof (linearizability of the atomic lock protocol over C11's model, refinement from the fine-grained locked system, "
                  "verified witness checker) + regenerated lock facts + recorded-history validation + race detector"),
)
