from common import T_COMMON

CFG = dict(
    gen=[dict(tool="facts", mode="c20.src", out="DelaunaySrc.lean")],
    modules=["PolyVerif.Props.C20", "PolyVerif.Props.C20Src"],
    theorems=[
        # Props/C20Src.lean: the hand model equals what is regenerated from bowyer_watson.go (engine F)
        "orient_from_source", "inCircleDet_from_source", "ccw_from_source", "insideCirc_from_source",
        "superTriangle_from_source", "superInit_from_source", "edges_from_source", "fanTri_from_source", "control_from_source", "edgeSame_from_source", "hole_loop_from_source",
        "vertices_check_sound", "indices_check_sound", "winding_check_sound", "delaunay_check_sound",
        "overlap_check_sound", "c20_checkers_sound", "inCircleDet_eq", "inCircleDet_on_circle",
        "inCircle_neg_of_inside", "circumcentre_exists", "inCircle_iff", "inCircleDet_smul",
        "bw_vertices_are_inputs", "bw_indices_lt", "fanTri_not_ccw", "bw_not_ccw", "bw_cw_of_not_collinear",
        "bw_all_indices_lt", "superTriangle_cw", "bowyerWatson_spec", "bowyerWatson_not_ccw",
        "bw_order_independent_partial", "superTriangle_contains_box", "superTriangle_contains", "mem_polygon_iff",
        "bw_polygon_order_independent", "bw_hole_order_independent",
        # the whole run is independent of the map iteration order
        "bw_order_independent", "bowyerWatson_order_independent",
        # Delaunay / strict winding invariants of the insertion loop under the two NAMED geometric hypotheses
        "bw_delaunay_of_fanEmpty", "bw_strict_winding_of_fanPositive", "bw_empty_circumcircles",
        "fanPositive_check_sound", "fanEmpty_check_sound",
        # the geometric content of FanPositive at one boundary edge
        "two_circle", "boundary_edge_inner",
        # FanPositive / FanEmpty DISCHARGED: pencil-of-circles lemmas, the cavity-edge lemma, the state invariant; the Delaunay and
        # strict-winding clauses of the model conditional on the ONE combinatorial hypothesis CavityDisc
        "fan_empty_same_side", "fan_empty_other_side", "cavity_edge", "stateInv_step", "pairing_step",
        "bw_delaunay_of_edgePaired", "fanPositive_of_edgePaired", "fanEmpty_of_edgePaired",
        "structure_of_cavityDisc", "bw_delaunay_of_cavityDisc", "fan_hypotheses_of_cavityDisc",
        "pointFn_inputsInSuper", "bowyerWatson_delaunay_of_cavityDisc", "cavityDisc_check_sound",
    ],
    # auxiliary lemmas used by the theorems above (kernel-checked with them; not counted as property theorems)
    helper_theorems=[
        "mem_insertTri_iff", "insertTri_nodup", "fillHole_spec", "step_spec", "step_perm", "loop_perm", "stateAt_succ",
        "stateAt_nodup", "inCircleDet_corner", "two_circle_identity",
        "orient_rot", "inCircleDet_rot", "orient_self", "pencil_identity", "inCircleDet_swap34", "inCircleDet_swap12", "edge_opp",
        "no_both_dirs", "present_mono", "present_super_side", "not_present_self", "stateInv_zero", "stateInv_of_edgePaired",
        "edge_verts", "edgePaired_of_cavityDisc", "bw_empty_circumcircles_of_edgePaired", "delaunay_inv_of_fanEmpty", "winding_inv_of_fanPositive",
        "sep_key", "sepEdge_sound", "loop_inv", "pointFn_input", "pointFn_super", "orient_smul",
        "delaunay_check_raw",
    ],
    streams=[dict(name="c20", n=dict(quick=240, thorough=6000))],
    trusted=T_COMMON + [
        "engine F extractor go/facts/c20.go (mode c20.src): reads bowyer_watson.go with go/ast and prints the predicate expressions, the SuperTriangle loop body/tail and the index patterns/constants as Lean (Gen/DelaunaySrc.lean); refuses any shape it does not recognise; its reading of math.Min/Max as the order min/max (goMin/goMax) and of the ±Inf start values as absorbed by the first point is trusted",
        "Driver/C20.lean: exact decoding of float64 bit patterns to m*2^e and scaling of one case to a common power of two "
        "(the checkers are run at Int; orient_smul / inCircleDet_smul justify the scaling); core Rat for the c20.bw model lines",
        "Model/Delaunay.lean is a hand transcription of bowyer_watson.go (tied by the c20.bw correspondence on small-integer inputs, "
        "where Go's float64 predicates are exact)"],
    residue=[
        "MAIN CLAIM NOT A THEOREM: that Bowyer-Watson with the finite super-triangle yields a same-winding, positive-area, non-overlapping, "
        "empty-circumcircle triangulation for EVERY point set in general position is kept as `def C20_full : Prop` (Props/C20.lean) and is not proved. "
        "The winding / positive-area / non-overlap / Delaunay / vertex / index clauses are decided per run by the verified checkers "
        "(c20_checkers_sound, vertices_check_sound) applied to the implementation's OUTPUT in exact arithmetic: sound per input, sampled over inputs",
        "KNOWN FINDING C20-float-incircle-tight-cluster (unchanged library): a far point inserted after a triangle of three tightly clustered "
        "points gets a float64 in-circle determinant whose sign is noise; output non-Delaunay and overlapping on distinct points in general "
        "position. Measured onset: cluster spacing ≈ 2^5 ulps of the far coordinates (spacing/distance ≈ 2^-48: no failure at spacing 2^-37 vs "
        "coordinates ~2^10, 4.5 % of random 7-point shapes at 2^-38, 36 % at 2^-46, 50 % at 2^-49). Recorded by a fixed 7-point witness "
        "(ops c20.holds.delaunay_tight_cluster_witness / c20.holds.no_overlap_tight_cluster_witness, first lines of every stream; general "
        "position proved in Lean by decide over ℤ); the random generators avoid the class (frame first, one cluster last, dyadic coordinates)",
        "Go evaluates orient / inCircle in float64 (rounding); all theorems are over exact arithmetic (ordered rings/fields). The oracle judges the float "
        "implementation's output against the exact predicates, so a float sign error on a near-degenerate input would show up as an oracle failure; generators keep predicates well-conditioned",
        "coverage of the convex hull is not part of C20 and not checked (a finite super-triangle may drop thin hull triangles; 3 nearly collinear points give zero triangles)",
        "THE ONE REMAINING UNPROVED HYPOTHESIS of the model's Delaunay / strict-winding clauses, named CavityDisc (combinatorial/topological): at "
        "every insertion the boundary of the cavity (polygon of the bad set) has in-degree one and out-degree one at each of its vertices, in the "
        "states the loop reaches. FanPositive and FanEmpty are NO LONGER hypotheses: cavity_edge proves both at every boundary edge from the state "
        "invariant (strictly clockwise triangles; Delaunay w.r.t. inserted points AND super-triangle vertices; directed edges paired and unique), "
        "using two_circle / boundary_edge_inner and the pencil-of-circles lemmas fan_empty_same_side / fan_empty_other_side (Grassmann–Plücker "
        "identities by ring), with no general-position assumption; pairing_step shows the pairing/uniqueness invariant survives an insertion "
        "whose cavity boundary satisfies DiscAt. Result: bw_delaunay_of_cavityDisc / bowyerWatson_delaunay_of_cavityDisc (every map order, "
        "every input of positive width). Discharging CavityDisc itself stopped here: out-degree >= 1 has a route (rotate around the vertex "
        "through bad triangles; finiteness + edge uniqueness), but in-degree <= 1 needs planarity (angular order around the inserted point / "
        "the state is an embedded triangulation), which the invariant does not carry. CavityDisc is decided per run by cavityDiscOk "
        "(cavityDisc_check_sound) on the model's own states in exact arithmetic (oracle c20.holds.cavity_disc, inputs up to 40 points); the "
        "fan oracles are kept as cross-checks. No hypothesis is isolated for the non-overlap clause",
        "KNOWN FINDING C20-float-incircle-tight-cluster (unchanged library): a far point inserted after a triangle of three tightly clustered "
        "points gets a float64 in-circle determinant whose sign is noise; output non-Delaunay and overlapping on distinct points in general "
        "position. Measured onset: cluster spacing ≈ 2^5 ulps of the far coordinates (spacing/distance ≈ 2^-48: no failure at spacing 2^-37 vs "
        "coordinates ~2^10, 4.5 % of random 7-point shapes at 2^-38, 36 % at 2^-46, 50 % at 2^-49). Recorded by a fixed 7-point witness "
        "(ops c20.holds.delaunay_tight_cluster_witness / c20.holds.no_overlap_tight_cluster_witness, first lines of every stream; general "
        "position proved in Lean by decide over ℤ); the random generators avoid the class (frame first, one cluster last, dyadic coordinates)",
        "Go evaluates orient / inCircle in float64 (rounding); all theorems are over exact arithmetic (ordered rings/fields). The oracle judges the float "
        "implementation's output against the exact predicates, so a float sign error on a near-degenerate input would show up as an oracle failure; generators keep predicates well-conditioned",
        "coverage of the convex hull is not part of C20 and not checked (a finite super-triangle may drop thin hull triangles; 3 nearly collinear points give zero triangles)",
        "UNPROVED GEOMETRIC HYPOTHESES, named: FanEmpty (the new fan triangle over each boundary edge of the cavity has no earlier point strictly "
        "inside its circumcircle) and FanPositive (the inserted point is strictly on the inner side of every directed boundary edge of its cavity: "
        "the cavity is strictly star-shaped). bw_delaunay_of_fanEmpty / bw_strict_winding_of_fanPositive / bw_empty_circumcircles reduce the "
        "empty-circumcircle and uniform-winding/positive-area clauses of the MODEL, for every map order, to these two facts about the states the loop "
        "reaches; the geometric content of FanPositive at one edge IS proved (two_circle, boundary_edge_inner: a bad triangle whose clockwise, locally "
        "Delaunay neighbour across an edge is not bad has the inserted point strictly on its side of that edge); what remains unproved is the "
        "COMBINATORIAL structure (every non-super edge of a state has a neighbour with the reversed edge, the cavity boundary is a closed cycle, "
        "the states are Delaunay with respect to the super-triangle vertices too) and FanEmpty itself. They are decided per run by executable forms (fanPositive_check_sound, fanEmpty_check_sound) on the model's own states in exact "
        "arithmetic (oracles c20.holds.fan_positive / fan_empty, inputs up to 40 points). No hypothesis is isolated for the non-overlap clause",
        "proved for the model only under positive width (superTriangle_cw); inputs of zero width (all x equal) are not in general position",
    ],
    assumptions=["float64 arithmetic in Go on amd64 is IEEE-754 without FMA contraction; for integer inputs in [0,64] all intermediate values of the predicates are integers/half-integers below 2^53, hence exact"],
    manifest=dict(
        text="REGENERATED TIE (engine F): the predicate expressions and comparisons (CounterClockwise, ccw, InsideCircumcircle), the SuperTriangle loop body and tail and the index patterns/constants of Edges, fillHole, containsSuperTriangleVertex, bowyerWatson are re-extracted from bowyer_watson.go on every run and *_from_source prove the hand model equal to them for every number type. "
             "PARTIAL: the main claim (Bowyer–Watson with the finite super-triangle yields a same-winding, positive-area, non-overlapping, "
             "empty-circumcircle triangulation for EVERY point set in general position) is NOT a theorem; it is kept as def C20_full and decided "
             "per input by verified checkers. Lean 4 theorems: the in-circle determinant is negative exactly when the point is strictly inside the "
             "circumcircle, for the assumed (clockwise) winding, over any ordered field (inCircle_iff); the super-triangle as now constructed is "
             "clockwise and strictly contains every input (positive width); in the algorithm model, for every map enumeration order: output "
             "vertices are the inputs in order (definitional), no super-triangle index survives, no triangle ever inserted is counter-clockwise "
             "(non-strict: orient ≤ 0; strict unless collinear), and the FINAL TRIANGLE SET (index triples, corner order included) is independent of the map "
             "iteration order (bw_order_independent: any two enumerations give duplicate-free permutations of one another); under the ONE NAMED, UNPROVED, purely "
             "combinatorial hypothesis CavityDisc (at every insertion the cavity boundary has in- and out-degree one at each vertex) the model's output "
             "— every map order, every input of positive width — is strictly uniformly wound (positive area) and has no input strictly inside a "
             "circumcircle (bw_delaunay_of_cavityDisc): the geometric facts FanPositive / FanEmpty are PROVED from the state invariant by the two-circle "
             "and pencil-of-circles lemmas; CavityDisc is decided per run on the model's states in exact arithmetic; the EXECUTABLE "
             "checkers for vertices, index range, strict uniform winding (= positive area), no input strictly inside a circumcircle, no two "
             "triangles sharing an interior point are proved sound (c20_checkers_sound) and are run by the driver in exact integer arithmetic on "
             "the IEEE bit patterns of the real BowyerWatson output: sound per input, sampled over inputs (15 generator classes, 3–400 points plus clouds of 1100–3100 points judged on a triangle sample, input slices with spare capacity and an input-unchanged "
             "oracle, wheels with the hub inserted last (one cavity of > 64 triangles), a concurrent batch of 8 calls in flight compared with the "
             "sequential results: "
             "uniform, clustered, near-collinear hull, scaled, units of 1e-9/1e-7/1e+7, offset, far offset 1e7–1e10, tiny clusters, tight dyadic "
             "clusters with spacing 2^-30…2^-50 inside ordinary frames, wide, tall, low/small height). Model vs implementation triangle SETS "
             "compared exactly on small-integer inputs, where Go's float predicates are exact.",
        note="Trusted: Lean kernel + propext/Classical.choice/Quot.sound; harness and the driver's exact float decoding; hand transcription of "
             "bowyer_watson.go (tied on integer inputs). Not proved: correctness of the incremental algorithm for all inputs (C20_full); Go evaluates "
             "its predicates in float64 while the theorems are exact arithmetic; "
             "As written C20 is satisfied by an empty result; hull coverage is not part of it. KNOWN FINDING on the unchanged library: far point inserted "
             "after a tight cluster (spacing below ≈ 2^5 ulps of the far coordinates) → float64 in-circle sign noise → non-Delaunay, overlapping output "
             "(fixed witness recorded on every run).",
        technique="Lean 4 proof of checker soundness + algorithm invariants, model proved equal to definitions regenerated from source (engine F); verified checker applied per input to the implementation's output in exact arithmetic; exact model-vs-impl comparison on integer inputs"),
)
