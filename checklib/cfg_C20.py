from common import T_COMMON

CFG = dict(
    theorems=[
        # checkers evaluated by the driver on the implementation's output
        "vertices_check_sound", "indices_check_sound", "winding_check_sound",
        "delaunay_check_raw", "delaunay_check_sound", "sep_key", "sepEdge_sound", "overlap_check_sound",
        "c20_checkers_sound",
        # the in-circle determinant of the source
        "inCircleDet_eq", "inCircleDet_on_circle", "inCircle_neg_of_inside", "circumcentre_exists", "inCircle_iff",
        "orient_smul", "inCircleDet_smul",
        # the model of the algorithm
        "bw_vertices_are_inputs", "bw_indices_lt", "fanTri_not_ccw", "loop_inv", "bw_not_ccw",
        "bw_cw_of_not_collinear", "bw_all_indices_lt", "superTriangle_cw", "pointFn_input", "pointFn_super",
        "bowyerWatson_spec", "bowyerWatson_not_ccw", "bw_order_independent_partial",
        "superTriangle_contains_box", "superTriangle_contains",
        "mem_polygon_iff", "bw_polygon_order_independent", "bw_hole_order_independent",
    ],
    streams=[dict(name="c20", n=dict(quick=240, thorough=6000))],
    trusted=T_COMMON + [
        "Driver/C20.lean: exact decoding of float64 bit patterns to m*2^e and scaling of one case to a common power of two "
        "(the checkers are run at Int; orient_smul / inCircleDet_smul justify the scaling); core Rat for the c20.bw model lines",
        "Model/Delaunay.lean is a hand transcription of bowyer_watson.go (tied by the c20.bw correspondence on small-integer inputs, "
        "where Go's float64 predicates are exact)"],
    residue=[
        "MAIN CLAIM NOT A THEOREM: that Bowyer-Watson with the finite super-triangle yields a same-winding, positive-area, non-overlapping, "
        "empty-circumcircle triangulation for EVERY point set in general position is kept as `def C20_full : Prop` (Props/C20.lean) and is not proved. "
        "The winding / positive-area / non-overlap / Delaunay / vertex / index clauses are decided per run by the verified checkers "
        "(c20_checkers_sound, vertices_check_sound) applied to the implementation's OUTPUT in exact arithmetic: sound per input, sampled over inputs",
        "Go evaluates orient / inCircle in float64 (rounding); all theorems are over exact arithmetic (ordered rings/fields). The oracle judges the float "
        "implementation's output against the exact predicates, so a float sign error on a near-degenerate input would show up as an oracle failure; generators keep predicates well-conditioned",
        "coverage of the convex hull is not part of C20 and not checked (a finite super-triangle may drop thin hull triangles; 3 nearly collinear points give zero triangles)",
        "order independence is proved per insertion step for the bad-triangle set and the hole-boundary edge SET (bw_order_independent_partial, bw_hole_order_independent); independence of the final triangle set from map order (which also needs fillHole insensitive to edge order and an induction over the loop) is observed (implementation with random Go map order vs model with fixed order on c20.bw lines), not proved",
        "proved for the model only under positive width (superTriangle_cw); inputs of zero width (all x equal) are not in general position",
    ],
    assumptions=["float64 arithmetic in Go on amd64 is IEEE-754 without FMA contraction; for integer inputs in [0,64] all intermediate values of the predicates are integers/half-integers below 2^53, hence exact"],
)
