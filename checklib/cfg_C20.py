from common import T_COMMON

CFG = dict(
    theorems=["vertices_check_sound", "indices_check_sound", "winding_check_sound"],
    streams=[dict(name="c20", n=dict(quick=240, thorough=6000))],
    trusted=T_COMMON,
    residue=[],
    assumptions=[],
)
