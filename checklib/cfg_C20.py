from common import T_COMMON

CFG = dict(
    theorems=["vertices_check_sound", "indices_check_sound", "winding_check_sound", "inCircleDet_eq", "inCircleDet_on_circle", "orient_smul", "inCircleDet_smul", "inCircle_neg_of_inside", "circumcentre_exists", "inCircle_iff", "delaunay_check_raw", "delaunay_check_sound", "sep_key", "sepEdge_sound", "overlap_check_sound"],
    streams=[dict(name="c20", n=dict(quick=240, thorough=6000))],
    trusted=T_COMMON,
    residue=[],
    assumptions=[],
)
