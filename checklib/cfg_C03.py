from common import T_COMMON

CFG = dict(
    modules=["PolyVerif.Props.C03", "PolyVerif.Props.C03Values"],
    gen=[dict(spec="transform.json", out="Transform.lean")],
    theorems=["unweld_spec", "unweld_idem", "removeUnreferenced_spec", "removeUnreferenced_allReferenced", "filterAttr_allReferenced", "flip_spec", "flip_flip", "flip_rejects",
              "toPointCloud_spec", "split_single", "split_rejects_non_triangle", "split_partition", "split_spec", "weld_corners", "weld_representative", "weld_survivors", "weld_spec", "append_spec", "append_rejects", "append_cornersOrZero", "repeatMesh_corners", "filterAttr_spec", "crop_spec", "removeNullFaces_spec", "filterAttr_rejects", "crop_rejects", "removeNullFaces_rejects", "weld_rejects", "setAttr_spec", "modifyAttr_spec", "mapAttr_spec", "modifyAttr_rejects",
              "translate_spec", "scaleAbout_spec", "scaleMesh_spec", "rotate_spec", "applyTRS_spec", "center_spec",
              "normalize_spec", "translate_post", "scaleAbout_post", "rotate_post", "rotate_unit_post", "applyTRS_post", "center_post", "normalize_post",
              "laplacian_frame", "smoothNormals_frame", "flatNormals_frame"],
    streams=[dict(name="c03", n=dict(quick=400, thorough=40000),
                  # LaplacianSmooth sums the neighbours in Go map order: compared within a tolerance
                  ulps={"c03.op.laplacian": (1 << 20, 1e-6)})],
    trusted=T_COMMON + [
        "hand-written pure models PolyVerif/Model/{Mesh,MeshOps}.lean of modeling/mesh.go and modeling/meshops/*.go; tied to the "
        "code on every run by bit-exact comparison of complete result meshes on generated inputs"],
    residue=["value maps of SmoothNormals / FlatNormals / LaplacianSmooth are definitions tied bit-for-bit (Laplacian: 2^20 ulps or 1e-6 absolute, Go map order makes the float sum order-dependent) to the code; "
             "only their frame is proved; Laplacian order-independence over a commutative ring not proved",
             "crop_spec is for identity-indexed point clouds: CropFloat3Attribute ignores the incoming indices (observation, see notes/C03.md)",
             "IEEE rounding of the transform maps; Tri.Area3D (keep decision passed to the model); SliceByPlane, ScaleAttributeAlongNormal, 2-D variants, "
             "SmoothNormalsImplicitWeld, LaplacianSmoothAlongAxis not modelled"],
    assumptions=["float64 arithmetic in Go on amd64 is IEEE-754 without FMA contraction (transform maps are compared bit-for-bit)",
                 "Go int(float64) of NaN / out-of-range values is math.MinInt64 (amd64 CVTTSD2SI), mirrored by the driver's weld key"],
)
