from common import T_COMMON

CFG = dict(
    gen=[dict(spec="transform.json", out="Transform.lean")],
    theorems=["unweld_spec", "unweld_idem", "removeUnreferenced_spec", "flip_spec", "flip_flip", "flip_rejects",
              "toPointCloud_spec", "split_single", "split_rejects_non_triangle", "weld_corners", "weld_representative", "weld_survivors", "append_spec", "append_rejects", "filterAttr_spec", "crop_spec", "removeNullFaces_spec", "setAttr_spec", "modifyAttr_spec", "mapAttr_spec", "modifyAttr_rejects",
              "translate_spec", "scaleAbout_spec", "scaleMesh_spec", "rotate_spec", "applyTRS_spec", "center_spec",
              "normalize_spec", "laplacian_frame", "smoothNormals_frame", "flatNormals_frame"],
    streams=[dict(name="c03", n=dict(quick=400, thorough=12000),
                  # LaplacianSmooth sums the neighbours in Go map order: compared within a tolerance
                  ulps={"c03.op.laplacian": (16, 1e-9)})],
    trusted=T_COMMON + [
        "hand-written pure models PolyVerif/Model/{Mesh,MeshOps}.lean of modeling/mesh.go and modeling/meshops/*.go; tied to the "
        "code on every run by bit-exact comparison of complete result meshes on generated inputs"],
    residue=[],
    assumptions=["float64 arithmetic in Go on amd64 is IEEE-754 without FMA contraction (transform maps are compared bit-for-bit)"],
)
