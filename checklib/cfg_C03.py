from common import T_COMMON

CFG = dict(
    facts_files=["c02.go"],
    modules=["PolyVerif.Props.C03", "PolyVerif.Props.C03Values", "PolyVerif.Props.C03Normals", "PolyVerif.Props.C03Laplacian", "PolyVerif.Props.C03WeldUnweld", "PolyVerif.Props.C03Callbacks", "PolyVerif.Props.C03More", "PolyVerif.Props.C03Src", "PolyVerif.Props.C02Guards"],
    gen=[dict(tool="facts", mode="c02.guards", out="MeshGuards.lean"),
         dict(spec="transform.json", out="Transform.lean"),
         # engine F: per-vertex expressions / loop glue of the attribute maps and the crop guard, from modeling/meshops/*.go (go/facts/c03.go)
         dict(tool="facts", mode="c03.pervertex", out="MeshPerVertex.lean")],
    theorems=[# Props/C02Guards.lean (engine F: every panic of modeling/mesh.go and topology.go with its conditions, regenerated)
              "PolyVerif.C02.mesh_guards_from_source", "PolyVerif.C02.mesh_guards_count", "PolyVerif.C02.topologies_from_source", "PolyVerif.C02.indexSize_from_source",
              "unweld_spec", "unweld_idem", "removeUnreferenced_spec", "removeUnreferenced_allReferenced", "filterAttr_allReferenced", "flip_spec", "flip_flip", "flip_rejects",
              "toPointCloud_spec", "split_single", "split_rejects_non_triangle", "split_partition", "split_spec", "weld_corners", "weld_representative", "weld_survivors", "weld_spec", "weld_keyCorners", "weld_unweld", "append_spec", "append_rejects", "append_cornersOrZero", "repeatMesh_corners", "filterAttr_spec", "crop_spec", "removeNullFaces_spec", "filterAttr_rejects", "crop_rejects", "removeNullFaces_rejects", "weld_rejects", "scanAttr_spec", "scanVisits_spec", "scanPrimitives_spec", "modifyAttrIdx_spec", "modifyAttrIdx_rejects", "setAttr_spec", "modifyAttr_spec", "mapAttr_spec", "modifyAttr_rejects",
              "translate_spec", "scaleAbout_spec", "scaleMesh_spec", "rotate_spec", "applyTRS_spec", "center_spec",
              "normalize_spec", "translate_post", "scaleAbout_post", "rotate_post", "rotate_unit_post", "applyTRS_post", "center_post", "normalize_post",
              "smoothAccum_sum", "smoothAccum_perm", "smoothNormals_values", "smoothNormalAt_unit", "smoothNormalAt_unreferenced", "smoothNormals_spec",
              "normalized_idem", "lastFace_unwelded", "flatNormalAt_unwelded",
              "flatNormals_spec_nondegenerate", "lapUpdate_value_with_neighbours", "neighbours_ne_nil_of_edge", "laplacian_order_independent", "lapIter_any_enumeration", "neighbours_mem", "neighbours_nodup", "laplacian_frame", "smoothNormals_frame", "flatNormals_frame",
              # round 2 (Props/C03More.lean)
              "aabbContains_closed", "aabbContains_corners", "crop_contract", "cropContract_unique", "crop_deciding_attr", "crop_survivors", "scaleAlongNormal_vertex", "scaleAlongNormal_spec", "scaleAlongNormal_rejects", "scaleAlongNormal_rejects_wf",
              "scale2D_spec", "normalize2D_spec", "scale2D_rejects", "normalize2D_rejects", "copyAttr_spec", "alongNormal_post", "scale2D_post", "normalize2D_post", "cropNode_spec", "scaleAlongNormalNode_spec", "translateNode_spec", "rotateNode_spec", "scaleNode_spec", "vertexColorSpace_spec", "vertexColorSpaceT_spec",
              # round 2 (Props/C03Src.lean): the model lambdas are the expressions regenerated from the Go source
              "translate_from_source", "scaleAbout_from_source", "rotate_from_source", "scale2D_from_source", "alongNormal_from_source", "perVertex_glue_from_source", "crop_keep_from_source", "crop_keep_closed"],
    # unfoldings of model definitions / statements over R that do not transfer to Go on the excluded float-only branches
    helper_theorems=["laplacian_spec", "lapSweepWith_succ", "lapSweepWith_untouched", "flatNormals_spec", "flatNormals_values", "lapUpdate_value", "flatAccum_last",
                     "keepAt_eq_compact", "keepAt_map_self", "stripEmpty_attrs_zero", "stripEmpty_attrs_pos", "alongNormal_v3", "length2_div"],
    streams=[dict(name="c03", n=dict(quick=400, thorough=40000),
                  # LaplacianSmooth sums the neighbours in Go map order: ONLY the smoothed attribute's values (line c03.op.laplacian) are compared
                  # within a tolerance; shape (c03.op.laplacian_shape) and all other attributes (frame_spec) exactly
                  ulps={"c03.op.laplacian": (1 << 20, 1e-6),
                        # VertexColorSpace calls math.Pow (Go's own implementation); the driver uses libm's pow: a few ulps apart
                        "c03.op.vertexcolorspace": (16, 0.0), "c03.op.vertexcolorspacet": (16, 0.0)})],
    trusted=T_COMMON + [
        "hand-written pure models PolyVerif/Model/{Mesh,MeshOps}.lean of modeling/mesh.go and modeling/meshops/*.go; tied to the "
        "code on every run by bit-exact comparison of complete result meshes on generated inputs"],
    residue=["VALUE CLAUSES, what is definitional: translate_spec, scaleAbout_spec, scaleMesh_spec, rotate_spec, applyTRS_spec, center_spec, normalize_spec state Changed k f with f the very "
             "function of Model/MeshTransforms.lean - their content is the FRAME (topology, indices, materials, every other attribute untouched) and WHICH function is applied; that "
             "function is tied to Go bit-for-bit by correspondence (changed_spec re-runs the model). Independent content: Props/C03Values.lean characterises the functions over R without "
             "reference to how they are computed (translate_post, scaleAbout_post, rotate_post / rotate_unit_post via C17's theorems about the regenerated Quaternion.Rotate, "
             "applyTRS_post, center_post, normalize_post) and the oracle c03.holds.post_spec evaluates these predicates on the IMPLEMENTATION's output (Float, relative tolerance 1e-9, "
             "non-finite cases skipped). center_post / normalize_post are stated for the fold started at the first element / for the attained longest length (R has no infinity; on a "
             "non-empty array IEEE min(+Inf, x) = x makes them the same fold)",
             "SmoothNormals / FlatNormals / LaplacianSmooth: the value statements (Props/C03Normals, C03Laplacian) are over R about the model's loops smoothAccum / flatAccum / lapIter, "
             "which are tied to Go bit-for-bit (Laplacian: 2^20 ulps or 1e-6 absolute, since Go sums the neighbours in map order). Over R: no NaN (the Go IsNaN skip never fires), x/0 = 0 "
             "(Go: NaN for a degenerate face in FlatNormals and for a vertex without neighbours in Laplacian) - those float-only cases are covered by correspondence only. What stays order "
             "dependent and is stated as such: FlatNormals' triangle visiting order on shared vertices (last face wins), Laplacian's ascending in-place vertex visiting order",
             "split parts: material identity is the *Material pointer in Go (model: a Nat id; the harness gives every material a distinct Name and compares by it, SetMaterial copies "
             "the struct so pointers differ after the split); a nil Material in a range makes SplitOnUniqueMaterials dereference nil (runtime panic) - the harness never generates nil "
             "materials; ranges shorter than the triangle list: index-out-of-range panic recovered by the harness and counted as rejection (model: none)",
             "DEFINITIONAL (unfoldings of the model, listed as helper_theorems): laplacian_spec, lapSweepWith_succ, lapSweepWith_untouched (the recurrence is the definition), "
             "flatAccum_last / flatNormals_values / flatNormals_spec and lapUpdate_value in their unconditional form over R. The content that transfers to Go: "
             "flatNormals_spec_nondegenerate (no claim when the last face is degenerate: Go writes NaN), lapUpdate_value_with_neighbours (no claim for a neighbour-less vertex: Go writes NaN), "
             "laplacian_order_independent, neighbours_mem, neighbours_nodup; the excluded float-only branches are forced by corpus cases on every run and counted "
             "(smooth:nan-skip, flat:degenerate-last-face, lap:neighbourless)",
             "weld_unweld concludes only the per-corner KEYS of the welded attribute (same survivors, same order): weaker than 'attribute content within its rounding cell' - the other "
             "attributes of a corner come from the first VERTEX of the key class in weld m and from the first CORNER of the key class in weld (unweld m), and differ in general",
             "neighbour list = the vertices joined to v by an edge of an index triple, each once; an index triple (v, v, w) makes v its OWN neighbour (Go's Link(v, v) and the model agree)",
             "crop: crop_spec (per-corner form) is for identity-indexed point clouds; round 2 adds crop_contract (Props/C03More.lean): the vertex-level contract for ANY incoming index "
             "buffer (survivors = vertices whose deciding value is inside, original order, one flag list for all attribute arrays, identity indices, materials carried), oracle "
             "c03.holds.crop_contract on every crop output; that CropFloat3Attribute ignores the incoming indices stays an observation (notes/C03.md). aabbContains_closed is over R about "
             "the regenerated AABB.Contains (Gen/Transform.lean) the driver runs at Float: IEEE comparisons with NaN (all false => a NaN point is INSIDE every box) are covered by "
             "correspondence only",
             "the weld theorems hold for every key function; that the Go key is Vector3ToInt (with the platform-specific int(NaN)) is part of the driver, checked by correspondence only",
             "IEEE rounding of the transform maps; Tri.Area3D (keep decision passed to the model); SliceByPlane, "
             "SmoothNormalsImplicitWeld, LaplacianSmoothAlongAxis, ColorGradingLut not modelled; VertexColorSpace is modelled with the two transfer functions as PARAMETERS (they call math.Pow): frame + which component map (vertexColorSpace_spec), the driver runs them with libm pow and the two op lines are compared within 16 ulps (C02 runs them through the WF oracle only); round 2: ScaleAttributeAlongNormal, ScaleAttribute2D, NormalizeAttribute2D, CopyFloatNAttribute are modelled (Model/MeshMore.lean), bit-exact correspondence + frame/map theorems; normalize2D has no independent value theorem (its 3-D twin has normalize_post)"],
    assumptions=["float64 arithmetic in Go on amd64 is IEEE-754 without FMA contraction (transform maps are compared bit-for-bit)",
                 "Go int(float64) of NaN / out-of-range values is math.MinInt64 (amd64 CVTTSD2SI), mirrored by the driver's weld key"],
    manifest=dict(
        text="Lean 4 theorems for every payload type: full contracts - each the same decidable predicate the oracle evaluates on implementation output - for unweld (same corners, "
             "identity indices, exactly one vertex per index; idempotent), remove unreferenced (+ all referenced), flip (+ involution), to point cloud, append (concatenated corners, "
             "zero fill) and repeat, filter, crop (per-corner form on identity-indexed clouds; vertex-level contract crop_contract for ANY index buffer: survivors = vertices in the CLOSED box - aabbContains_closed about the regenerated AABB.Contains -, original order, all arrays with one flag list, identity indices), scale along normal, 2-D scale / normalise, CopyFloatNAttribute (frame + stated map + rejection; per-vertex expressions and loop glue regenerated from the Go source: *_from_source), remove null faces, weld (survivors = triangles with three distinct keys; each corner carries the tuple of the "
             "first vertex of its key class; every vertex referenced), weld-after-unweld (same surviving triangles and per-corner KEYS as weld; other attributes differ: first vertex vs first corner of the key class), split by material (one part per distinct "
             "material in order of first appearance, each exactly its triangles); rejection branches as exact iff statements. Transforms: the FRAME (topology, indices, materials and every "
             "other attribute untouched) for set/modify/map, translate, scale, rotate, apply-TRS, centre, normalise, smooth/flat normals, Laplacian; the 'stated map' theorems name the "
             "applied function (definitional, tied to Go bit-for-bit); independent value theorems over R: translation keeps differences, scale-about-o fixes o and multiplies offsets, "
             "rotation (the regenerated C17 function) scales lengths and distances by |q|^2, TRS, centring puts the bounding-box midpoint at 0, normalising gives the longest vector "
             "length 1; smooth normals = normalised SUM over incident corners of the face cross products, independent of the triangle order, unit or zero; flat normals = unit normal of "
             "the LAST visited face containing the vertex (order dependence stated; on unwelded meshes every corner gets its own face's normal whatever the order), normalize(1,1,1) for "
             "untouched vertices; Laplacian = ascending in-place sweeps of v + f(mean(neighbours) - v), independent of the order in which each neighbour SET is enumerated (Go map order), "
             "neighbour list = vertices sharing an edge of an index triple, each once ((v,v,w) makes v its own neighbour); stated only for vertices with a neighbour / non-degenerate last faces: Go writes NaN otherwise (corpus cases). Tie: bit-exact comparison of the complete result mesh for 25 operations (Laplacian: shape and all other attributes exact, the smoothed attribute within 2^20 ulps / 1e-6 - Go's map-order summation is not bit-deterministic between runs) on generated meshes (6 topologies, attribute "
             "mixes over widths 1-4, shared/unreferenced/empty index patterns, material ranges of all shapes, non-finite values); contract, post-condition and recomputed-in-another-order "
             "value predicates on the implementation's outputs.",
        note="Trusted: Lean kernel + 3 axioms; harness; translator (Gen/Transform.lean). The value theorems for normals and Laplacian are over R about the model loops (no NaN, x/0 = 0): "
             "the float-only branches (IsNaN skip, degenerate-face NaN, neighbour-less vertex NaN) are covered by correspondence only; IEEE rounding is not modelled. Stated order "
             "dependences: FlatNormals on shared vertices (last face wins), Laplacian's in-place ascending vertex order. Observations: Crop ignores the incoming index buffer on "
             "non-identity clouds (result still well-formed); split compares materials by pointer and dereferences a nil Material (not generated).",
        technique="Lean 4 proof (per-corner content contracts, frame lemmas, value statements over R reusing C17, fold-to-sum and permutation-invariance lemmas) + bit-exact whole-mesh "
                  "correspondence + compiled contract / post-condition / value oracles"),
)
