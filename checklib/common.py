T_COMMON = ["engine T translator /verif/go/xlate and its library table PolyVerif/Model/Vec.lean (external vector package, spot-checked by correspondence)",
            "engine H harness /verif/go/harness (generators, canonicalisation); correspondence is differential testing",
            "Go toolchain/runtime/stdlib"]
