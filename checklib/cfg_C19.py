from common import T_COMMON

CFG = dict(
    gen=[dict(spec="transform.json", out="Transform.lean"), dict(spec="sdf.json", out="Sdf.lean")],
    theorems=[
        # sphere
        "sphere_eq", "sphere_neg_iff", "sphere_zero_iff", "sphere_lipschitz", "sphere_exact_le", "sphere_exact_attained",
        # plane
        "plane_eq", "plane_neg_iff", "plane_zero_iff", "plane_lipschitz", "plane_exact_le", "plane_exact_attained",
        # set operations and translation
        "subtract_neg_iff", "translate_spec", "translate_moves", "union_neg_iff", "union_none_iff", "intersect_neg_iff",
        "lipschitz_min", "lipschitz_max", "subtract_lipschitz", "translate_lipschitz", "union_lipschitz", "intersect_lipschitz",
        # box / rounded box
        "box_eq", "box_neg_iff", "box_neg_iff'", "box_zero_iff", "box_lipschitz", "box_exact_le", "box_exact_attained_outside", "box_exact_attained_inside", "box_exact_attained",
        "roundedBox_eq", "roundedBox_neg_iff", "roundedBox_lipschitz",
        # capsule
        "closestPoint_eq", "closestPoint_minimises", "line_eq", "line_neg_iff", "line_zero_iff", "line_lipschitz", "line_exact_le",
        # rounded cylinder
        "roundedCylinder_eq", "roundedCylinder_lipschitz", "roundedCylinder_neg_iff_sharp", "roundedCylinder_neg_iff",
        # rounded cone (Props/C19Cone.lean); guard for all of them: |r1 - r2| < |b - a|
        "roundedCone_profile", "roundedCone_profile'", "coneRho_sq", "coneRho_eq_distance",
        "coneProfile_boundary_a", "coneProfile_boundary_b",
        "roundedCone_le_ball", "roundedCone_attained", "roundedCone_isLeast",
        "roundedCone_lipschitz", "roundedCone_exact_le", "roundedCone_exact_attained_outside",
        "roundedCone_neg_iff", "roundedCone_zero_iff", "roundedCone_pos_iff",
        "roundedCone_neg_iff_profile", "roundedCone_zero_iff_profile",
        "balls_union_eq_convexHull", "roundedCone_neg_iff_convexHull",
        "roundedCone_guard_needed", "roundedCone_guard_sharp",
    ],
    helper_theorems=[
        "PolyVerif.Cone.roundedCone_eq_core", "PolyVerif.Cone.mul_abs_lt_iff", "PolyVerif.Cone.test1_iff", "PolyVerif.Cone.test2_iff",
        "PolyVerif.Cone.core_eq_prof", "PolyVerif.Cone.cap_le", "PolyVerif.Cone.prof_le", "PolyVerif.Cone.prof_attained",
        "PolyVerif.Cone.roundedCone_eq_prof", "PolyVerif.Cone.distance_axis_point",
    ],
    modules=["PolyVerif.Props.C19", "PolyVerif.Props.C19Cone"],
    streams=[dict(name="c19", n=dict(quick=400, thorough=30000))],
    harness_files=[],
    trusted=T_COMMON + ["hand model of sdf.Union/Intersect (PolyVerif/Model/SdfOps.lean), tied at Float bit-for-bit by the c19 stream",
                        "reference distance functions inside the driver (Driver/C19.lean) used by the oracle lines"],
    residue=[
        "RoundedCone: all theorems carry the guard |r1 - r2| < |b - a| (neither ball contains or is internally tangent to the other; implies a != b; no sign condition on the radii is needed except 0 < r1, r2 for the convex-hull form and 0 <= r1, r2 for the attained exact distance). The guard is necessary and sharp: roundedCone_guard_needed (a=(0,0,0), b=(1,0,0), r1=3, r2=1, p=(-2.5,0,0): p is 0.5 inside the big ball, the source returns +2.5; confirmed on the Go closure) and roundedCone_guard_sharp (tangent case r1-r2=|b-a|: a point outside both balls gets -5). The property text quantifies over all radii > 0; nested/tangent balls are outside what is proved and the source formula is wrong there (a2 = l2 - rr^2 <= 0; the side branch takes sqrt of a non-positive number). The harness generator only draws admissible cones, so the oracles do not exercise this either",
        "RoundedCone: exact distance is proved as lower bound everywhere (roundedCone_exact_le) and attained for points outside or on the shape (roundedCone_exact_attained_outside); attained for interior points is not proved (not claimed by the property for this shape)",
        "RoundedCone: the sign set is given in three equivalent forms: the three profile regions (roundedCone_neg_iff_profile), the union of the open balls B(a+t(b-a), r1+t(r2-r1)), t in [0,1] (roundedCone_neg_iff), and the Mathlib convex hull of the two open end balls in EuclideanSpace R (Fin 3) (roundedCone_neg_iff_convexHull, via the coordinate bridge toE); 'interior of the convex hull of the closed balls' is read as that convex hull of open balls",
        "exact distance: both directions (lower bound |f p| <= dist(p, s) for every surface point s, and a surface point at distance exactly |f p|) are proved for sphere, plane and box; for the capsule the lower bound, the sign/zero-set characterisation and f = dist(p, segment) - r (closestPoint_minimises) are theorems, the explicit surface witness is not",
        "rounded box / rounded cylinder with rounding > 0: negative exactly where the un-rounded core field is below the rounding radius (theorem); that this sub-level set is the Minkowski sum of the core with a ball is not proved",
        "subtract: f<0 iff base<0 and 0<sub (strictly outside the subtracted shape): on the subtracted shape's surface f=0, so 'difference of interiors' is read as interior(A) minus closure(B)",
        "capsule with start = end is excluded (guard a ≠ b; the property quantifies over sizes > 0); in float64 the Go code returns NaN there",
        "plane: the Lipschitz and exact-distance theorems need a unit normal (n·n = 1); with a non-unit normal the field is a scaled distance (not claimed)",
        "sphere_eq, plane_eq, line_eq, roundedBox_eq, translate_spec are definitional unfoldings (rfl) listed for reference: they fix what the regenerated closures compute, they are not property clauses",
        "VarryingThicknessLine (union of rounded cones) is not translated; it inherits the rounded-cone guard per segment",
        "IEEE rounding: theorems are over ℝ",
    ],
    assumptions=["float64 arithmetic in Go on amd64 is IEEE-754 without FMA contraction"],
    manifest=dict(
        text="All 7 primitive shapes (rounded cone under the guard |r1 − r2| < |b − a|, which is necessary: outside it the source formula has the wrong sign, theorem roundedCone_guard_needed). Lean 4 theorems over ℝ about the SDF closures regenerated from math/sdf/*.go and line3D.go on every run: sign and zero set: geometric characterisation for sphere, plane, box, capsule, rounded cone (the closure equals a 2-D profile of cylindrical coordinates — two sphere caps and a slanted side separated by one affine functional, branch tests shown exactly equivalent — and is the minimum over t∈[0,1] of |p − (a+t(b−a))| − (r1+t(r2−r1)); negative exactly in the union of these open balls = convex hull of the two open end balls) and the un-rounded cylinder (rounded box / rounded cylinder: negative exactly where the 1-Lipschitz core field is below the rounding radius); 1-Lipschitz bound for all of these (|f p − f q| ≤ |p − q|, proved through Mathlib's Euclidean space; box/rounded box/rounded cylinder via a 1-Lipschitz signed distance to the orthant with an intermediate-value argument; capsule via the minimising property of the clamped projection; rounded cone as a minimum of 1-Lipschitz ball gaps), exact distance (sphere, plane, box: both directions; capsule: f = distance to the segment minus r, and the lower bound; rounded cone: lower bound, and attained outside the shape), union/intersection/subtraction sign laws and Lipschitz closure for any number of operands, translation. Regenerated definitions run at Float and compared bit-for-bit with the Go closures; reference-distance oracles on the Go outputs.",
        note="Trusted: Lean kernel; propext/Classical.choice/Quot.sound; translator and vector table; hand model of Union/Intersect (corresponded); harness; reference SDFs in the driver. Not proved: rounded cone outside the guard |r1−r2| < |b−a| (nested or internally tangent balls: the source formula is wrong there, shown by theorem); 'attained' direction of exact distance for box/capsule; IEEE rounding.",
        technique="Lean 4 proof over a model regenerated from source (translator) + Float bit-exact correspondence"),
)
