from common import T_COMMON

CFG = dict(
    gen=[dict(spec="transform.json", out="Transform.lean"), dict(spec="sdf.json", out="Sdf.lean"),
         dict(tool="facts", mode="c19.ops", out="SdfOpsShape.lean")],
    theorems=[
        # sphere
        "sphere_eq", "sphere_neg_iff", "sphere_zero_iff", "sphere_lipschitz", "sphere_exact_le", "sphere_exact_attained",
        # plane
        "plane_eq", "plane_neg_iff", "plane_zero_iff", "plane_lipschitz", "plane_exact_le", "plane_exact_attained",
        # set operations and translation
        "subtract_neg_iff", "translate_spec", "translate_moves", "union_neg_iff", "union_none_iff", "intersect_neg_iff",
        "lipschitz_min", "lipschitz_max", "subtract_lipschitz", "translate_lipschitz", "union_lipschitz", "intersect_lipschitz",
        # box / rounded box
        "box_eq", "box_neg_iff", "box_neg_iff'", "box_zero_iff", "box_lipschitz", "box_exact_le", "box_exact_attained_outside", "box_exact_attained_inside", "box_exact_attained",
        "roundedBox_eq", "roundedBox_neg_iff", "roundedBox_lipschitz",
        # capsule
        "closestPoint_eq", "closestPoint_minimises", "line_eq", "line_neg_iff", "line_zero_iff", "line_lipschitz", "line_exact_le",
        # capsule, attained direction and rounded box as Minkowski sum (Props/C19Capsule.lean)
        "closestPoint_variational", "line_at_offset", "exists_perp_unit", "line_exact_attained", "line_exact", "roundedBox_neg_iff_minkowski", "roundedCylinder_core_le", "roundedCylinder_neg_iff_minkowski",
        # rounded cylinder
        "roundedCylinder_eq", "roundedCylinder_lipschitz", "roundedCylinder_neg_iff_sharp", "roundedCylinder_neg_iff",
        # rounded cone (Props/C19Cone.lean): ALL parameters (…_all, nested, same_centre), then the forms under the guard |r1 - r2| < |b - a|
        "roundedCone_le_ball_all", "roundedCone_attained_all", "roundedCone_isLeast_all",
        "roundedCone_lipschitz_all", "roundedCone_exact_le_all", "roundedCone_exact_attained_outside_all",
        "roundedCone_neg_iff_all", "roundedCone_zero_iff_all", "roundedCone_pos_iff_all",
        "balls_union_eq_convexHull", "roundedCone_neg_iff_convexHull_all",
        "roundedCone_nested", "roundedCone_nested_neg_iff", "roundedCone_same_centre",
        "roundedCone_profile", "roundedCone_profile'", "coneRho_sq", "coneRho_eq_distance",
        "coneProfile_boundary_a", "coneProfile_boundary_b",
        "roundedCone_neg_iff_profile", "roundedCone_zero_iff_profile",
        "roundedCone_le_ball", "roundedCone_attained", "roundedCone_isLeast",
        "roundedCone_lipschitz", "roundedCone_exact_le", "roundedCone_exact_attained_outside",
        "roundedCone_neg_iff", "roundedCone_zero_iff", "roundedCone_pos_iff", "roundedCone_neg_iff_convexHull",
        # the formula without the early return (source before /repo b302544) is wrong outside the guard
        "roundedCone_eq_formulaOld", "roundedCone_guard_needed", "roundedCone_guard_sharp",
        # VarryingThicknessLine = Union of rounded cones (hand transcription of the loop)
        "varLine_lipschitz", "varLine_neg_iff", "varLine_isSome", "varLineCones_eq_model", "varLine_eq_model",
        # round 2 — exact distance, attained, for the remaining shapes (Props/C19Exact.lean)
        "box_ray", "box_level_attained", "roundedBox_exact_attained", "roundedBox_exact_le", "roundedBox_exact",
        "roundedCylinder_eq_g2", "roundedCylinder_exact_attained", "roundedCylinder_exact_le", "roundedCylinder_exact",
        "sphere_exact_attained_all", "sphere_exact",
        "plane_lipschitz_scaled", "plane_exact_scaled_le", "plane_exact_scaled_attained", "plane_zero_normal",
        # round 2 — rounded cone, interior (Props/C19ConeInterior.lean)
        "cone_surface_point", "exists_unit_with_slope", "roundedCone_exact_attained_inside", "roundedCone_exact_attained_inside_all", "roundedCone_exact_all",
        # round 2 — what the combinators do to exactness (Props/C19Compose.lean)
        "min_exactOutside", "max_exactInside", "subtract_exactInside", "union_exactOutside", "intersect_exactInside",
        "translate_exactAt", "translate_exactOutside", "translate_exactInside",
        "sphere_exactOutside", "sphere_exactInside", "roundedCone_exactOutside", "roundedCone_exactInside", "varLine_exactOutside",
        "union_not_exact_inside", "union_not_exactAt_inside", "intersect_not_exact_outside",
        # round 2 — the hand models of the variadic glue equal the interpretation of the statement lists extracted from the source (Props/C19Src.lean)
        "union_eq_shape", "intersect_eq_shape", "varLine_loop", "varLine_eq_shape",
    ],
    helper_theorems=[
        "PolyVerif.Cone.roundedCone_unfold", "PolyVerif.Cone.a2_nonpos_iff", "PolyVerif.Cone.roundedCone_eq_core", "PolyVerif.Cone.nested_le_ball", "PolyVerif.Cone.mul_abs_lt_iff", "PolyVerif.Cone.test1_iff", "PolyVerif.Cone.test2_iff",
        "PolyVerif.Cone.core_eq_prof", "PolyVerif.Cone.cap_le", "PolyVerif.Cone.prof_le", "PolyVerif.Cone.prof_attained",
        "PolyVerif.Cone.roundedCone_eq_prof", "PolyVerif.Cone.distance_axis_point",
        "PolyVerif.Cone.support_line", "PolyVerif.Cone.first_order",
        "PolyVerif.SdfExact.rayH_pos", "PolyVerif.SdfExact.rayH_dist", "PolyVerif.SdfExact.rayR_pos", "PolyVerif.SdfExact.rayR_dist",
        "PolyVerif.SdfExact.profile_level_attained", "PolyVerif.SdfExact.radial_dir",
    ],
    modules=["PolyVerif.Props.C19", "PolyVerif.Props.C19Cone", "PolyVerif.Props.C19Capsule", "PolyVerif.Props.C19Exact", "PolyVerif.Props.C19ConeInterior", "PolyVerif.Props.C19Compose", "PolyVerif.Props.C19Src"],
    streams=[dict(name="c19", n=dict(quick=400, thorough=30000))],
    harness_files=[],
    trusted=T_COMMON + ["statement extractor go/facts c19.ops (go/ast recogniser of the exact statement forms of sdf.Union / Intersect / VarryingThicknessLine; fails on any other form) and its interpreter PolyVerif/Model/SdfOpsIR.lean: the driver answers c19.union / c19.intersect / c19.varline from the interpretation of the extracted terms, compared with Go bit for bit; the hand models SdfOps.Union/Intersect and SdfVarLine.VarryingThicknessLine, which the theorems are stated about, are PROVED equal to that interpretation (union_eq_shape, intersect_eq_shape, varLine_eq_shape)",
                        "reference distance functions inside the driver (Driver/C19.lean) used by the oracle lines"],
    residue=[
        "RoundedCone: sign, zero set, 1-Lipschitz bound, exact-distance lower bound and the convex-hull form (0 < r1, r2) are proved for ALL parameters (…_all theorems: a = b, nested and internally tangent balls included; no sign condition on the radii except where stated). The source has two regimes separated exactly by a2 > 0 ⇔ |r1 - r2| < |b - a| (Cone.a2_nonpos_iff): the three-branch formula (roundedCone_profile and the …_profile forms need this guard) and the early return of the larger ball (roundedCone_nested). The early return was added to /repo (b302544) after this proof found the bare formula wrong outside the guard; roundedCone_guard_needed / roundedCone_guard_sharp are closed witnesses about coneFormulaOld, a local Lean copy of the closure body without the early return (not regenerated — it documents the old defect, it is not a claim about the current source); the same two inputs run first in the c19 stream as fixed corpus lines against the current source",
        "RoundedCone: exact distance is proved in both directions for every point and ALL parameters: lower bound (roundedCone_exact_le_all), attained outside or on the shape with radii >= 0 (roundedCone_exact_attained_outside_all) and attained at interior points with no condition on the radii (roundedCone_exact_attained_inside_all, round 2: first-order optimality of the minimising ball + supporting line of the norm; on the axis a unit direction with the cone's slope; nested/tangent/a = b through the sphere); roundedCone_exact_all is the conjunction for radii >= 0 (with a negative radius and p outside there may be no zero set at all)",
        "RoundedCone: the sign set is given as the union of the open balls B(a+t(b-a), r1+t(r2-r1)), t in [0,1] (roundedCone_neg_iff_all), as the Mathlib convex hull of the two open end balls in EuclideanSpace R (Fin 3) (roundedCone_neg_iff_convexHull_all, via the coordinate bridge toE), and under the guard as the three profile regions (roundedCone_neg_iff_profile); 'interior of the convex hull of the closed balls' is read as that convex hull of open balls",
        "RoundedCone near tangency in float64 (|r1-r2| within rounding of |b-a|): a2 is a difference of nearly equal numbers, which side of the early return is taken is decided by rounding; both regimes agree in the limit; sampled by the stream (rcone.near_tangent), not a theorem (IEEE rounding)",
        "exact distance: both directions (lower bound |f p| <= dist(p, s) for every zero-set point s, and a zero-set point at distance exactly |f p|) are proved for ALL seven primitives and every p: sphere (sphere_exact, centre included), plane (unit normal), box, capsule (line_exact; radius >= 0, a != b), rounded box (roundedBox_exact; size >= 0, rounding >= 0 — with a NEGATIVE rounding the inner offset of a box is not its max-norm level set and the field is only a bound: not claimed), rounded cylinder (roundedCylinder_exact; rounding rb >= 0, core radius 2*radius - rb >= 0, half height >= 0), rounded cone (roundedCone_exact_all)",
        "combinators and exactness (round 2, Props/C19Compose.lean): Union keeps exactness OUTSIDE, Intersect and Subtract keep it INSIDE (operands 1-Lipschitz and exact on that side), Translate keeps it everywhere; INSIDE a union the field is only a lower bound of the distance — union_not_exact_inside / union_not_exactAt_inside are a closed witness (two unit balls at distance 1, midpoint: field -1/2, every zero-set point at squared distance >= 3/4). The property claims only sign and the Lipschitz bound for the combinators; outside an intersection it fails in the same way (intersect_not_exact_outside: two balls of radius 5 at (∓3,0,0), p = (0,35/4,0): field 17/4, every zero-set point at distance >= 19/4), likewise outside a subtraction (same mechanism, no separate witness)",
        "rounded box: negative exactly on the Minkowski sum of the closed box with the open ball of the rounding radius (roundedBox_neg_iff_minkowski). Rounded cylinder with rounding rb > 0, 2·radius − rb >= 0 and height >= 0: negative exactly on the Minkowski sum of the core cylinder (radius 2·radius − rb — sic, the source doubles the radius — half height bodyHeight) with the open ball of radius rb (roundedCylinder_neg_iff_minkowski); both are also exact distances to those Minkowski sums' boundaries (roundedBox_exact, roundedCylinder_exact)",
        "subtract: f<0 iff base<0 and 0<sub (strictly outside the subtracted shape): on the subtracted shape's surface f=0, so 'difference of interiors' is read as interior(A) minus closure(B)",
        "capsule with start = end is excluded from the theorems (guard a ≠ b; the property quantifies over sizes > 0): in float64 the Go closure returns NaN for every sample there (0/0 in heading.Normalized()), and so does the regenerated definition at Float — pinned by the c19.line lines tagged line.degenerate_nan (NaN canonicalised); the ℝ reading (x/0 = 0) would give the sphere of the common end point and is deliberately not stated as a theorem",
        "plane: the 1-Lipschitz and exact-distance theorems need a unit normal (n·n = 1); for an arbitrary normal the field is the distance scaled by |n|, both directions proved (plane_lipschitz_scaled, plane_exact_scaled_le, plane_exact_scaled_attained for n != 0; n = 0 gives the constant h: plane_zero_normal); sign and zero set need no normalisation",
        "sphere_eq, plane_eq, line_eq, roundedBox_eq, translate_spec are definitional unfoldings (rfl) listed for reference: they fix what the regenerated closures compute, they are not property clauses",
        "Union / Intersect / VarryingThicknessLine are variadic loops over closures, outside the arithmetic translator's subset: their statement lists are EXTRACTED from the source on every run (go/facts c19.ops -> Gen/SdfOpsShape.lean: the panic guard, the 1- and 2-operand special cases with their math.Min/Max, the fold's initial index, loop start and operator; for the line: the length guard, loop start, which neighbours are paired, the argument order of RoundedCone, the final Union) and interpreted by Model/SdfOpsIR.lean; the hand models the theorems speak about (Model/SdfOps.lean, Model/SdfVarLine.lean, built on the REGENERATED RoundedCone) are proved equal to that interpretation for every operand list and scalar (union_eq_shape, intersect_eq_shape, varLine_eq_shape), and the driver answers the c19.union / c19.intersect / c19.varline lines (0..5 points incl. the panic for fewer than two, repeated points, swallowing radii; 0..k operands) from the interpretation. Trusted there: the recogniser (it refuses every statement form it does not know) and the 40-line interpreter — no longer a transcription by hand",
        "IEEE rounding: theorems are over ℝ",
    ],
    assumptions=["float64 arithmetic in Go on amd64 is IEEE-754 without FMA contraction"],
    manifest=dict(
        text="All 7 primitive shapes. Parameter ranges: sphere, box, rounded box, rounded cylinder and the rounded cone's sign / zero-set / Lipschitz theorems hold for ALL parameters (rounded cone incl. nested/tangent balls and a = b: the source's early return of the larger ball, added after this proof showed the bare formula wrong there; its convex-hull form needs radii > 0 and 'attained outside' radii >= 0); the capsule theorems need a non-degenerate segment a ≠ b (Go returns NaN for a = b) and, for the attained direction, radius >= 0; the plane's Lipschitz and exact-distance theorems need a unit normal; box 'attained' needs non-negative sizes. Lean 4 theorems over ℝ about the SDF closures regenerated from math/sdf/*.go and line3D.go on every run: sign and zero set: geometric characterisation for sphere, plane, box, capsule, rounded cone (the closure equals a 2-D profile of cylindrical coordinates — two sphere caps and a slanted side separated by one affine functional, branch tests shown exactly equivalent — and is the minimum over t∈[0,1] of |p − (a+t(b−a))| − (r1+t(r2−r1)); negative exactly in the union of these open balls = convex hull of the two open end balls; VarryingThicknessLine = Union of rounded cones inherits sign and Lipschitz) and the un-rounded cylinder (rounded box / rounded cylinder: negative exactly where the 1-Lipschitz core field is below the rounding radius); 1-Lipschitz bound for all of these (|f p − f q| ≤ |p − q|, proved through Mathlib's Euclidean space; box/rounded box/rounded cylinder via a 1-Lipschitz signed distance to the orthant with an intermediate-value argument; capsule via the minimising property of the clamped projection; rounded cone as a minimum of 1-Lipschitz ball gaps), exact distance for ALL seven primitives, both directions — |f p| ≤ |p − s| for every zero-set point s and some zero-set point at distance exactly |f p|, for every p incl. interior, centre and on-axis points (sphere, plane, box, capsule; rounded box and rounded cylinder with rounding ≥ 0 by an explicit nearest-point ray / outward push in the 2-D or 3-D profile; rounded cone for all parameters with radii ≥ 0: outside by radial projection onto the nearest ball, inside by first-order optimality of the minimising ball and the supporting line of the norm); plane with a non-unit normal = distance scaled by |n|; combinators: Union keeps exactness outside, Intersect/Subtract inside, Translate everywhere, and a closed witness that inside a union the field is only a bound; rounded box / rounded cylinder = Minkowski sum of the box / core cylinder with the open ball of the rounding radius, union/intersection/subtraction sign laws and Lipschitz closure for any number of operands, translation. Regenerated definitions run at Float and compared bit-for-bit with the Go closures; reference-distance oracles on the Go outputs.",
        note="Trusted: Lean kernel; propext/Classical.choice/Quot.sound; translator and vector table; hand models of Union/Intersect and of the VarryingThicknessLine loop (both corresponded bit for bit); harness; reference SDFs in the driver. Not proved: IEEE rounding (theorems are over ℝ; the Float run of the same regenerated definitions is compared bit for bit with Go); capsule with start = end (Go returns NaN).",
        technique="Lean 4 proof over a model regenerated from source (translator) + Float bit-exact correspondence"),
)
