from common import T_COMMON

CFG = dict(
    gen=[dict(spec="transform.json", out="Transform.lean"), dict(spec="sdf.json", out="Sdf.lean")],
    theorems=[
        # sphere
        "sphere_eq", "sphere_neg_iff", "sphere_zero_iff", "sphere_lipschitz", "sphere_exact_le", "sphere_exact_attained",
        # plane
        "plane_eq", "plane_neg_iff", "plane_zero_iff", "plane_lipschitz", "plane_exact_le", "plane_exact_attained",
        # set operations and translation
        "subtract_neg_iff", "translate_spec", "translate_moves", "union_neg_iff", "union_none_iff", "intersect_neg_iff",
        "lipschitz_min", "lipschitz_max", "subtract_lipschitz", "translate_lipschitz", "union_lipschitz", "intersect_lipschitz",
        # box / rounded box
        "box_eq", "box_neg_iff", "box_neg_iff'", "box_zero_iff", "box_lipschitz", "box_exact_le", "box_exact_attained_outside", "box_exact_attained_inside", "box_exact_attained",
        "roundedBox_eq", "roundedBox_neg_iff", "roundedBox_lipschitz",
        # capsule
        "closestPoint_eq", "closestPoint_minimises", "line_eq", "line_neg_iff", "line_zero_iff", "line_lipschitz", "line_exact_le",
        # rounded cylinder
        "roundedCylinder_eq", "roundedCylinder_lipschitz", "roundedCylinder_neg_iff_sharp", "roundedCylinder_neg_iff",
    ],
    streams=[dict(name="c19", n=dict(quick=400, thorough=30000))],
    harness_files=[],
    trusted=T_COMMON + ["hand model of sdf.Union/Intersect (PolyVerif/Model/SdfOps.lean), tied at Float bit-for-bit by the c19 stream",
                        "reference distance functions inside the driver (Driver/C19.lean) used by the oracle lines"],
    residue=[
        "RoundedCone: translated and corresponded bit-for-bit, but its sign characterisation and 1-Lipschitz bound are NOT theorems; decided per run by the oracles c19.holds.rcone_sign / rcone_outside_exact / lipschitz on adversarial samples (beyond the caps, on the axis) against a union-of-spheres reference",
        "exact distance: both directions (lower bound |f p| <= dist(p, s) for every surface point s, and a surface point at distance exactly |f p|) are proved for sphere, plane and box; for the capsule the lower bound, the sign/zero-set characterisation and f = dist(p, segment) - r (closestPoint_minimises) are theorems, the explicit surface witness is not",
        "rounded box / rounded cylinder with rounding > 0: negative exactly where the un-rounded core field is below the rounding radius (theorem); that this sub-level set is the Minkowski sum of the core with a ball is not proved",
        "subtract: f<0 iff base<0 and 0<sub (strictly outside the subtracted shape): on the subtracted shape's surface f=0, so 'difference of interiors' is read as interior(A) minus closure(B)",
        "capsule with start = end is excluded (guard a ≠ b; the property quantifies over sizes > 0); in float64 the Go code returns NaN there",
        "plane: the Lipschitz and exact-distance theorems need a unit normal (n·n = 1); with a non-unit normal the field is a scaled distance (not claimed)",
        "sphere_eq, plane_eq, line_eq, roundedBox_eq, translate_spec are definitional unfoldings (rfl) listed for reference: they fix what the regenerated closures compute, they are not property clauses",
        "VarryingThicknessLine (union of rounded cones) inherits the rounded-cone residue",
        "IEEE rounding: theorems are over ℝ",
    ],
    assumptions=["float64 arithmetic in Go on amd64 is IEEE-754 without FMA contraction"],
    manifest=dict(
        text="PARTIAL (6 of 7 primitive shapes; rounded cone is oracle-only). Lean 4 theorems over ℝ about the SDF closures regenerated from math/sdf/*.go and line3D.go on every run: sign and zero set: geometric characterisation for sphere, plane, box, capsule and the un-rounded cylinder (rounded box / rounded cylinder: negative exactly where the 1-Lipschitz core field is below the rounding radius); 1-Lipschitz bound for all of these (|f p − f q| ≤ |p − q|, proved through Mathlib's Euclidean space; box/rounded box/rounded cylinder via a 1-Lipschitz signed distance to the orthant with an intermediate-value argument; capsule via the minimising property of the clamped projection), exact distance (sphere, plane, box: both directions; capsule: f = distance to the segment minus r, and the lower bound), union/intersection/subtraction sign laws and Lipschitz closure for any number of operands, translation. Regenerated definitions run at Float and compared bit-for-bit with the Go closures; reference-distance oracles on the Go outputs.",
        note="Trusted: Lean kernel; propext/Classical.choice/Quot.sound; translator and vector table; hand model of Union/Intersect (corresponded); harness; reference SDFs in the driver. Not proved: rounded cone sign/Lipschitz (oracle only); 'attained' direction of exact distance for box/capsule; IEEE rounding.",
        technique="Lean 4 proof over a model regenerated from source (translator) + Float bit-exact correspondence"),
)
