#!/bin/bash
# Self-test of the C13 lock-facts extractor (go/facts/c13.go, mode c13.locks).
#
#   c13_extractor_selftest.sh FACTS_BINARY REPO
#
# Makes scratch copies of REPO/generator/graph/instance.go with seeded changes (laid out as
# <tmp>/<mutant>/generator/graph/instance.go so that `-repo <tmp>/<mutant>` works), runs the extractor
# on each and prints one line per mutant:
#
#   <name> | exit=<extractor exit code> | expect=<ok|fail> <PASS|MISMATCH> | <event list of the changed method, or the error message>
#
# "expect" is only about the extractor's exit code: mutants marked `ok` must be extracted (whether
# their events are well-locked is decided in Lean by `decide` on lockFacts.all wellLocked — the
# events are printed for that), mutants marked `fail` must be refused (control flow would hide
# events).  Exit status: 0 iff every mutant applied to the source and every expectation held.
set -u
FACTS=${1:?usage: $0 FACTS_BINARY REPO}; REPO=${2:?usage: $0 FACTS_BINARY REPO}
SRC="$REPO/generator/graph/instance.go"
[ -x "$FACTS" ] || { echo "no extractor binary at $FACTS"; exit 2; }
[ -f "$SRC" ] || { echo "no $SRC"; exit 2; }
TMP=$(mktemp -d /tmp/c13selftest.XXXXXX)
trap 'rm -rf "$TMP"' EXIT

# the mutants: name, expectation, method whose events are shown, old text, new text
python3 - "$SRC" "$TMP" <<'EOF' || { echo "could not build the mutants (instance.go no longer has the expected text)"; exit 2; }
import os, sys
src = open(sys.argv[1]).read()
tmp = sys.argv[2]
ART = '''	i.producerLock.Lock()
	defer i.producerLock.Unlock()

	return producer.Value()
'''
UPD = '''	i.producerLock.Lock()
	defer i.producerLock.Unlock()

	r, err := i.Parameter(nodeId).ApplyMessage(data)
'''
FIELD = 'producerLock gsync.Mutex'
M = [
 ('00-unchanged', 'ok', 'Artifact', None, None),
 ('01-conditional-lock', 'fail', 'Artifact', ART, '''	if producerName != "" {
		i.producerLock.Lock()
		defer i.producerLock.Unlock()
	}
	return producer.Value()
'''),
 ('02-locked-branch-and-unlocked-fallthrough', 'fail', 'Artifact', ART, '''	if producerName != "" {
		i.producerLock.Lock()
		defer i.producerLock.Unlock()
		return producer.Value()
	}
	return producer.Value()
'''),
 ('03-unlock-before-access', 'ok', 'Artifact', ART, '''	i.producerLock.Lock()
	i.producerLock.Unlock()

	return producer.Value()
'''),
 ('04-access-before-lock', 'ok', 'Artifact', ART, '''	v := producer.Value()
	i.producerLock.Lock()
	defer i.producerLock.Unlock()

	return v
'''),
 ('05-rwmutex-rlock', 'fail', 'Artifact', [(FIELD, 'producerLock gsync.RWMutex'), (ART, '''	i.producerLock.RLock()
	defer i.producerLock.RUnlock()

	return producer.Value()
''')], None),
 ('06-update-apply-before-lock', 'ok', 'UpdateParameter', UPD, '''	r, err := i.Parameter(nodeId).ApplyMessage(data)
	i.producerLock.Lock()
	defer i.producerLock.Unlock()

'''),
 ('07-artifact-no-lock', 'ok', 'Artifact', ART, '''	return producer.Value()
'''),
 ('08-benign-explicit-unlock', 'ok', 'Artifact', ART, '''	i.producerLock.Lock()
	v := producer.Value()
	i.producerLock.Unlock()
	return v
'''),
 # further shapes the extractor must refuse
 ('09-else-branch', 'fail', 'Artifact', ART, '''	i.producerLock.Lock()
	defer i.producerLock.Unlock()
	if producerName == "" {
		panic("empty")
	} else {
		producer.Value()
	}
	return producer.Value()
'''),
 ('10-early-return', 'fail', 'Artifact', ART, '''	if producerName == "" {
		return nil
	}
	i.producerLock.Lock()
	defer i.producerLock.Unlock()
	return producer.Value()
'''),
 ('11-conditional-access-under-lock', 'fail', 'Artifact', ART, '''	i.producerLock.Lock()
	defer i.producerLock.Unlock()
	if producerName != "" {
		i.incModelVersion()
	}
	return producer.Value()
'''),
 ('12-second-lock', 'fail', 'Artifact', ART, '''	i.producerLock.Lock()
	i.producerLock.Unlock()
	i.producerLock.Lock()
	defer i.producerLock.Unlock()
	return producer.Value()
'''),
 ('13-panic-argument-touches-state', 'fail', 'Artifact', ART, '''	if producerName == "" {
		panic(fmt.Errorf("no producer among %d", len(i.producers)))
	}
	i.producerLock.Lock()
	defer i.producerLock.Unlock()
	return producer.Value()
'''),
 ('14-goto-label', 'fail', 'Artifact', ART, '''	i.producerLock.Lock()
	defer i.producerLock.Unlock()
	goto done
done:
	return producer.Value()
'''),
 ('15-loop', 'fail', 'Artifact', ART, '''	i.producerLock.Lock()
	defer i.producerLock.Unlock()
	for k := 0; k < 2; k++ {
		producer.Value()
	}
	return producer.Value()
'''),
 ('16-go-statement', 'fail', 'UpdateParameter', UPD, '''	i.producerLock.Lock()
	defer i.producerLock.Unlock()
	go i.incModelVersion()
	r, err := i.Parameter(nodeId).ApplyMessage(data)
'''),
 ('17-unlock-in-deferred-closure', 'fail', 'Artifact', ART, '''	i.producerLock.Lock()
	defer func() { i.producerLock.Unlock() }()
	return producer.Value()
'''),
]
with open(os.path.join(tmp, 'list'), 'w') as lst:
    for name, expect, meth, old, new in M:
        s = src
        reps = [] if old is None else (old if isinstance(old, list) else [(old, new)])
        for o, n in reps:
            if s.count(o) != 1:
                sys.stderr.write('mutant %s: expected text not found exactly once\n' % name)
                sys.exit(1)
            s = s.replace(o, n)
        d = os.path.join(tmp, name, 'generator', 'graph')
        os.makedirs(d)
        open(os.path.join(d, 'instance.go'), 'w').write(s)
        lst.write('%s %s %s\n' % (name, expect, meth))
EOF

bad=0
while read -r NAME EXPECT METH; do
  OUT="$TMP/$NAME.lean"
  MSG=$("$FACTS" c13.locks -repo "$TMP/$NAME" -out "$OUT" 2>&1); rc=$?
  if [ $rc -eq 0 ]; then
    SHOW=$(grep -F "⟨\"$METH\"," "$OUT" | sed 's/^ *//; s/,$//')
    GOT=ok
  else
    SHOW=$(echo "$MSG" | tr '\n' ' ' | sed "s#$TMP/$NAME/##g" | cut -c1-300)
    GOT=fail
  fi
  if [ "$GOT" = "$EXPECT" ]; then V=PASS; else V=MISMATCH; bad=1; fi
  echo "$NAME | exit=$rc | expect=$EXPECT $V | $SHOW"
done < "$TMP/list"
exit $bad
