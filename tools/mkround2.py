#!/usr/bin/env python3
"""Refreshes the round-2 block of DESIGN.md (§12.9) from notes/ROUND2_RESULTS.md and the seeded/*-m16|m17 records."""
import os, re, json, glob
V = os.path.dirname(os.path.dirname(os.path.abspath(__file__)))
d = open(os.path.join(V, "DESIGN.md")).read()
res = open(os.path.join(V, "notes", "ROUND2_RESULTS.md")).read().split("\n", 2)[2].strip()
rows = []
for f in sorted(glob.glob(os.path.join(V, "seeded", "*-m1[678]", "meta.json"))):
    m = json.load(open(f))
    first = None
    hist = os.path.join(os.path.dirname(f), "first_verdict.txt")
    if os.path.exists(hist):
        first = open(hist).read().strip()
    for ch in m["checks"]:
        v = ch["verdict"]
        viol = re.findall(r"VIOLATION[^;]*", v)
        r = "missed" if not viol else ("obligation only" if "no-failing-input-found" in viol[0] else "failing input")
        rows.append((m["seed_id"], ch["check"], r, first))
caught = sum(1 for r in rows if r[2] == "failing input" and r[0][:3] == r[1])
own = [r for r in rows if r[0][:3] == r[1]]
tbl = "| Seed | check | latest verdict | verdict when first run (before any follow-up) |\n|---|---|---|---|\n" + "\n".join(
    "| %s | %s | %s | %s |" % (a, b, c, (e or c)) for a, b, c, e in rows)
block = ("**Results of the deepening builders and of the follow-ups to the seeding round**\n\n" + res +
         "\n\n**Sixth seeding round, per change** (%d changes; %d of them reported by their own property's check with a failing input at the latest run)\n\n" % (len(own), caught) + tbl + "\n")
b, e = "<!-- BEGIN ROUND2 RESULTS -->", "<!-- END ROUND2 RESULTS -->"
if b in d:
    d = d[:d.index(b) + len(b)] + "\n" + block + d[d.index(e):]
else:
    d = d.replace("ROUND2-RESULTS-PLACEHOLDER", b + "\n" + block + e)
open(os.path.join(V, "DESIGN.md"), "w").write(d)
print("round-2 block:", len(block.splitlines()), "lines;", len(own), "seeds,", caught, "caught with failing input")
