#!/usr/bin/env python3
"""Regenerates the tables of DESIGN.md §12.2-12.4 (between the GENERATED markers) from
known_findings.json, checklib cfgs, evidence/*.json and seeded/*/meta.json."""
import json, os, sys, glob, re
V = os.path.dirname(os.path.dirname(os.path.abspath(__file__)))
sys.path.insert(0, os.path.join(V, "checklib"))
from props import PROPS
kf = json.load(open(os.path.join(V, "known_findings.json")))
out = []
out.append("### 12.2 Defects of the pinned tree found by this work, and their disposition\n")
out.append("Every entry was reproduced against the real code before it was acted on. `fixed` = repaired by one minimal `fix:` commit in /repo (the baseline suite, unedited, passes after each); `known` = recorded finding (the check prints `KNOWN-FINDING` for exactly this signature and fails on anything else).\n")
out.append("| Prop | Disposition | What failed |\n|---|---|---|")
for f in kf["findings"]:
    if f["status"] == "fixed":
        out.append("| %s | fixed `%s` | %s |" % (f["property"], f["commit"], f["what"].replace("|", "\\|")))
for f in kf["findings"]:
    if f["status"] == "known":
        m = f.get("match", {})
        sig = m.get("op") or m.get("request_regex") or m.get("obligation") or ""
        out.append("| %s | **known** `%s` (signature `%s`) | %s |" % (f["property"], f["id"], sig.replace("|", "\\|"), f["what"].replace("|", "\\|")))
out.append("")
out.append("### 12.3 Per-property status (from the cfg files and the last evidence written)\n")
out.append("| Prop | theorems (obligations) | helper | Gen (regenerated) | streams (quick n / thorough n) | extras | last evidence: lines, discharged |\n|---|---|---|---|---|---|---|")
for pid in sorted(PROPS):
    c = PROPS[pid]
    gens = ", ".join(g["out"] for g in c.get("gen", [])) or "—"
    st = "; ".join("%s %s/%s" % (s["name"], s["n"]["quick"], s["n"]["thorough"]) for s in c.get("streams", [])) or "—"
    ex = ", ".join(e["name"] for e in c.get("extras", [])) or "—"
    ev = ""
    p = os.path.join(V, "evidence", pid + ".json")
    if os.path.exists(p):
        e = json.load(open(p)); cov = e["coverage"]
        ev = "%s tier: %s lines, %s/%s" % (e["tier"], cov.get("evaluations"), cov.get("discharged", cov.get("discharged_total")), cov.get("obligations", cov.get("obligations_total")))
    out.append("| %s | %d | %d | %s | %s | %s | %s |" % (pid, len(c["theorems"]), len(c.get("helper_theorems", [])), gens, st, ex, ev))
out.append("")
out.append("### 12.4 Seeded changes (written by fresh sub-agents that saw only the property text) and which checks catch them\n")
out.append("Each change compiles, passes the unedited baseline suite, and comes with a demonstration that passes without and fails with it (confirmed by `tools/seedtest.sh`, which also ran the checks against the patched scratch tree through `VERIF_REPO`). `failing input` = VIOLATION with a concrete replay; `obligation only` = VIOLATION … no-failing-input-found; `missed` = the check stayed OK (these were handed back to the builders; the row shows the latest recorded run).\n")
out.append("| Seed | builds / suite passes / demo | change (from the seeder's README) | result of the checks run |\n|---|---|---|---|")
for d in sorted(glob.glob(os.path.join(V, "seeded", "*", "meta.json"))):
    m = json.load(open(d)); sid = m["seed_id"]
    rd = os.path.join(os.path.dirname(d), "README.md")
    desc = ""
    if os.path.exists(rd):
        txt = open(rd).read()
        heads = [l.strip().lstrip("#").strip() for l in txt.split("\n") if l.startswith("# ")]
        lines = [l.strip() for l in txt.split("\n") if l.strip() and not l.startswith("#") and not l.startswith("```")]
        desc = (heads[0] if heads and len(heads[0]) > 25 else (lines[0] if lines else ""))[:220].replace("|", "\\|")
    c = m["confirmed"]
    conf = "%s / %s / %s" % ("ok" if c["builds"] else "NO", "ok" if c["existing_tests_pass"] else "NO", "ok" if (c["demo_passes_without"] and c["demo_fails_with"]) else "NO")
    res, other = [], []
    for ch in m["checks"]:
        v = ch["verdict"]
        if "VIOLATION" in v:
            r = "obligation only" if "no-failing-input-found" in v else "failing input"
        elif ch["rc"] == 0:
            r = "missed"
        else:
            r = "rc=%s" % ch["rc"]
        (res if ch["check"] == m["property"] else other).append("%s: %s" % (ch["check"], r))
    out.append("| %s | %s | %s | %s%s |" % (sid, conf, desc, "; ".join(res), (" (other checks run on it — " + "; ".join(other) + ")") if other else ""))
out.append("")
body = "\n".join(out)
p = os.path.join(V, "DESIGN.md")
s = open(p).read()
B, E = "<!-- BEGIN GENERATED TABLES -->", "<!-- END GENERATED TABLES -->"
if B in s:
    s = s[:s.index(B) + len(B)] + "\n" + body + "\n" + s[s.index(E):]
else:
    s = s.rstrip() + "\n\n" + B + "\n" + body + "\n" + E + "\n"
open(p, "w").write(s)
print("tables regenerated:", len(out), "lines")
