#!/usr/bin/env python3
"""Regenerates /verif/MANIFEST.json from checklib/cfg_*.py (field `manifest` of each CFG) —
properties without a ready check are listed under not_applicable with the reason given in NOT_READY."""
import json, os, sys
V = os.path.dirname(os.path.dirname(os.path.abspath(__file__)))
sys.path.insert(0, os.path.join(V, "checklib"))
from props import PROPS
from manifest_texts import TEXTS

NOT_READY = {}  # property id -> reason (filled for anything not claimed)

props = [json.loads(l) for l in open(os.path.join(V, "properties.jsonl"))]
man = {
    "version": 1,
    "setup_cmd": "./setup.sh",
    "hooks": {"guard": "verif",
              "enable": "harness module /verif/go (replace github.com/EliCDavis/polyform => /repo) is built with `go build -tags verif`; no hook exists in /repo (unexported state is read with reflect/unsafe from the harness)",
              "baseline_off_cmd": "cd /repo && GOFLAGS=-mod=mod go test -vet=off -count=1 ./...",
              "source_commits": [], "add_only": True},
    "engines": [
        {"name": "T", "path": "go/xlate", "serves_properties": [], "kind_free_text": "Go→Lean translator: regenerates PolyVerif/Gen/*.lean from /repo on every run; theorems are re-checked against the regenerated definitions"},
        {"name": "F", "path": "go/facts", "serves_properties": [], "kind_free_text": "fact/table extractors (go/ast): regenerate Lean data (tables, partition expressions, lock facts) from /repo on every run; obligations over them are kernel-checked"},
        {"name": "H", "path": "go/harness + lean/Driver", "serves_properties": [], "kind_free_text": "correspondence: real Go packages in-process vs compiled Lean model on the same request lines (bit-exact); theorem predicates compiled into the driver are evaluated on implementation output (oracle lines)"},
    ],
    "checks": [], "not_applicable": [],
    "notes": "Technique: machine-checked proof in Lean 4 (DESIGN.md). ./check <ID> --tier quick|thorough [--replay f]; VERIF_SEED, VERIF_TIER honoured. known_findings.json lists genuine defects (fixed: history; known: reported as KNOWN-FINDING).",
}
for p in props:
    pid = p["id"]
    cfg = PROPS.get(pid)
    m = (cfg or {}).get("manifest") or TEXTS.get(pid)
    if not cfg or not m:
        man["not_applicable"].append({"property_id": pid, "reason": NOT_READY.get(pid, "check not yet registered in this session (machinery under construction; the technique applies — see DESIGN.md §7." + pid + ")")})
        continue
    eng = "+".join(e for e, k in (("T", any(g.get("tool", "xlate") == "xlate" for g in cfg.get("gen", []))),
                                   ("F", any(g.get("tool") == "facts" for g in cfg.get("gen", []))),
                                   ("H", bool(cfg.get("streams")))) if k)
    for e in man["engines"]:
        if e["name"] in eng.split("+"):
            e["serves_properties"].append(pid)
    man["checks"].append({
        "property_id": pid,
        "quick_cmd": "./check %s --tier quick" % pid,
        "thorough_cmd": "./check %s --tier thorough" % pid,
        "evidence_file": "/verif/evidence/%s.json" % pid,
        "replay_cmd_template": "./check %s --replay {path}" % pid,
        "engine": eng,
        "level_claimed": {"category": "proof", "text": m["text"], "design_ref": "DESIGN.md §7." + pid},
        "level_note": m["note"],
        "technique": m.get("technique", "Lean 4 proof over a model tied to the code (regeneration and/or correspondence)"),
    })
json.dump(man, open(os.path.join(V, "MANIFEST.json"), "w"), indent=1, ensure_ascii=False)
print("checks:", [c["property_id"] for c in man["checks"]], "not_applicable:", len(man["not_applicable"]))
