#!/bin/bash
# usage: [VROOT=/tmp/vseed] tools/seedtest.sh <PROP> <k> [props-to-check...]   (VROOT: a copy of /verif to run the checks from, so that
# regenerating Gen/ from the scratch tree does not disturb work going on in /verif)
# Confirms a seeded change (/tmp/seed/<PROP>/m<k>) in its scratch worktree: applies, builds, runs the full test suite,
# runs the demo (must FAIL with / PASS without), runs ./check for the given properties (default: PROP) against the
# patched worktree via VERIF_REPO, reverts, and records everything in /verif/seeded/<PROP>-m<k>/.
set -u
P=$1; K=$2; shift 2
CHECKS=${@:-$P}
export GOFLAGS="-mod=mod -trimpath" GOPROXY=off GOSUMDB=off GOTOOLCHAIN=local
VROOT=${VROOT:-/verif}
S=/tmp/seed/$P; WT=$S/wt; M=$S/m$K; OUT=/verif/seeded/$P-m$K
mkdir -p $OUT
git -C $WT reset -q --hard; git -C $WT clean -fdq
git -C $WT checkout -q --detach $(git -C /repo rev-parse HEAD)
echo "== demo on clean tree"; (cd $M/demo && sed -i "s|=> .*|=> $WT|" go.mod && cp $WT/go.sum . && go run . > $OUT/demo_clean.txt 2>&1); RC_CLEAN=$?
tail -2 $OUT/demo_clean.txt
if ! git -C $WT apply --check $M/patch.diff 2>/dev/null; then echo "PATCH DOES NOT APPLY to current HEAD"; { echo APPLY-FAILED; exit 3; }; else git -C $WT apply $M/patch.diff; fi
(cd $WT && go build ./... > $OUT/build.txt 2>&1); RC_BUILD=$?
(cd $WT && go test -vet=off -count=1 ./... > $OUT/tests.txt 2>&1); RC_TEST=$?
NFAIL=$(grep -c "^FAIL\|^--- FAIL" $OUT/tests.txt)
echo "== build rc=$RC_BUILD tests rc=$RC_TEST fails=$NFAIL"
(cd $M/demo && go run . > $OUT/demo_patched.txt 2>&1); RC_PATCHED=$?
echo "== demo clean rc=$RC_CLEAN patched rc=$RC_PATCHED"; tail -3 $OUT/demo_patched.txt
RES=""
for C in $CHECKS; do
  (cd $VROOT && VERIF_REPO=$WT ./check $C --tier quick > $OUT/check_$C.txt 2>&1); RC=$?
  V=$(grep "^VIOLATION\|^OK\|^KNOWN" $OUT/check_$C.txt | tr '\n' ';')
  V=${V//$VROOT\//\/verif\/}
  echo "== check $C rc=$RC :: $V"
  RP=$(grep -o "replay=[^ ]*" $OUT/check_$C.txt | head -1 | cut -d= -f2)
  [ -n "$RP" ] && [ -f "$RP" ] && cp "$RP" $OUT/replay_$C.json && [ "$VROOT" != /verif ] && rm -f "$RP"
  [ "$VROOT" != /verif ] && sed -i "s|$VROOT/|/verif/|g" $OUT/check_$C.txt
  RES="$RES{\"check\":\"$C\",\"rc\":$RC,\"verdict\":\"$(echo $V | sed 's/"/\\"/g')\"},"
done
git -C $WT reset -q --hard; git -C $WT clean -fdq
cp $M/patch.diff $OUT/patch.diff; rm -rf $OUT/demo; cp -r $M/demo $OUT/demo; [ -f $M/README.md ] && cp $M/README.md $OUT/README.md
cat > $OUT/meta.json <<EOF
{"property":"$P","seed_id":"$P-m$K","repo_head":"$(git -C /repo rev-parse --short HEAD)",
 "confirmed":{"builds":$([ $RC_BUILD = 0 ] && echo true || echo false),"existing_tests_pass":$([ $RC_TEST = 0 ] && echo true || echo false),
  "demo_passes_without":$([ $RC_CLEAN = 0 ] && echo true || echo false),"demo_fails_with":$([ $RC_PATCHED != 0 ] && echo true || echo false)},
 "ran":["git apply patch.diff (scratch worktree at repo HEAD)","go build ./...","go test -vet=off -count=1 ./...","demo: go run . (clean and patched)","VERIF_REPO=<worktree> ./check <ID> --tier quick"],
 "checks":[${RES%,}],
 "needs_to_manifest":"see README.md"}
EOF
# regenerate Gen files from /repo again for the checked properties (they were regenerated from the scratch tree)
[ "$VROOT" = /verif ] && for C in $CHECKS; do (cd /verif && ./check $C --tier quick > /dev/null 2>&1); done
echo "== recorded in $OUT"
