#!/usr/bin/env python3
"""Appends '+ model proved equal to definitions/facts regenerated from source (engine F)' to the manifest technique of every
property whose cfg has an engine-F gen entry and whose technique text does not mention regeneration yet."""
import re, glob, os, sys
V = os.environ.get("TECHFIX_ROOT", os.path.dirname(os.path.dirname(os.path.abspath(__file__))))
for p in sorted(glob.glob(os.path.join(V, "checklib", "cfg_C*.py"))):
    s = open(p).read()
    if 'tool="facts"' not in s:
        continue
    m = re.search(r'technique="([^"]*)"\s*[,)]', s)
    if not m:
        print("technique not a single string literal (left alone):", os.path.basename(p)); continue
    if re.search(r'regenerat', m.group(1), re.I):
        continue
    new = m.group(1).rstrip() + " + model proved equal to definitions/facts regenerated from source on every run (engine F)"
    s = s[:m.start(1)] + new + s[m.end(1):]
    open(p, "w").write(s)
    print("technique updated:", os.path.basename(p))
