#!/bin/bash
# usage: tools/runall.sh <seed> <parallel> [ids...]   — quick tier of the given (default: all) properties against /repo, verdict lines to stdout
SEED=${1:-0}; PAR=${2:-4}; shift 2 2>/dev/null
IDS=${@:-C01 C02 C03 C04 C05 C06 C07 C08 C09 C10 C11 C12 C13 C14 C15 C16 C17 C18 C19 C20}
cd "$(dirname "$0")/.." && mkdir -p /tmp/runall
printf "%s\n" $IDS | xargs -P $PAR -I{} sh -c "VERIF_SEED=$SEED ./check {} --tier quick > /tmp/runall/{}.$SEED.log 2>&1; grep -h '^OK\|^VIOLATION' /tmp/runall/{}.$SEED.log | cut -c1-150 || echo 'NO VERDICT {}'"
